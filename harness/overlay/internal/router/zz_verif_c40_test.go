//go:build verif

package router

// C40 correspondence harness: the REAL front-end functions against the Lean model (egodriver C40).
//
//	find   (*Router).FindRoute on generated tables                         (index / slice / nil faults → "panic")
//	parts  (*Route).partsMap
//	vp     util.ValidateParameters (with egostrings.Atoi, time.ParseDuration behind it)
//	pg     validatePaging
//	serve  (*Router).ServeHTTP with stub handlers that record what the front end hands them
//
// Every call runs under recover(): a panic is the answer "panic" (the model never answers that — theorem
// C40_frontend_total) AND a direct-oracle failure of class "frontend-panic".

import (
	"fmt"
	"math/rand"
	"net/http"
	"net/http/httptest"
	"net/url"
	"sort"
	"strconv"
	"strings"
	"testing"
	"time"

	"github.com/tucats/ego/internal/cli/settings"
	"github.com/tucats/ego/internal/defs"
	"github.com/tucats/ego/internal/errors"
	"github.com/tucats/ego/internal/util"
	"github.com/tucats/ego/internal/verifh"
)

var c40Lits = []string{"a", "b", "admin", "users", "a", "b", "x-1", "", "A", "a}}", "{x}", "...", "a?b", "?", "...}}"}
var c40Vars = []string{"{{x}}", "{{y}}", "{{name}}", "{{}}", "{{x", "{{a}}{{b}}", "{{x}}y"}
var c40Globs = []string{"{{rest...}}", "{{...}}", "{{item...}}"}
var c40Methods = []string{"GET", "GET", "POST", "PUT", "DELETE", "PATCH", "HEAD", "ANY", "ANY"}
var c40ReqMethods = []string{"GET", "GET", "GET", "POST", "PUT", "DELETE", "get", "Post", "ANY", "HEAD", "BOGUS", ""}

type c40Route struct {
	ep, method string
	decl       map[string]string // nil = no Parameter() call
	disallow   map[string][]string
	accept     []string // nil = no AcceptMedia() call
	content    []string
	light      bool
	redirect   string
}

func c40Endpoint(r *rand.Rand) string {
	n := r.Intn(5)
	segs := []string{}

	for i := 0; i < n; i++ {
		switch k := r.Intn(10); {
		case k < 5:
			segs = append(segs, c40Lits[r.Intn(len(c40Lits))])
		case k < 8:
			segs = append(segs, c40Vars[r.Intn(len(c40Vars))])
		default:
			segs = append(segs, c40Globs[r.Intn(len(c40Globs))])
		}
	}

	ep := strings.Join(segs, "/")

	if r.Intn(6) != 0 {
		ep = "/" + ep
	}

	if r.Intn(3) == 0 {
		ep += "/"
	}

	return ep
}

func c40Fill(r *rand.Rand, ep string) string {
	segs := strings.Split(ep, "/")
	for i, s := range segs {
		if strings.HasPrefix(s, "{{") && r.Intn(8) != 0 {
			segs[i] = []string{"v", "a", "b", "", "users", "a/b", "x?y", "{{x}}", "long-value"}[r.Intn(9)]
		}
	}

	p := strings.Join(segs, "/")

	switch r.Intn(10) {
	case 0:
		p += "/"
	case 1:
		p = strings.TrimSuffix(p, "/")
	case 2:
		p += "/extra"
	case 3:
		if i := strings.LastIndex(strings.TrimSuffix(p, "/"), "/"); i >= 0 {
			p = p[:i]
		}
	case 4:
		p = strings.Replace(p, "/", "//", 1)
	case 5:
		p = []string{"", "/", "//", "///", "?", "/?"}[r.Intn(6)]
	}

	return p
}

func c40Table(r *rand.Rand, rich bool) []c40Route {
	n := 1 + r.Intn(6)
	seen := map[string]bool{}
	tbl := []c40Route{}
	base := c40Endpoint(r)

	for len(tbl) < n {
		ep := c40Endpoint(r)

		// siblings of one base path make FindRoute choose
		if r.Intn(2) == 0 {
			segs := strings.Split(base, "/")
			if len(segs) > 1 {
				i := 1 + r.Intn(len(segs)-1)
				segs[i] = append(append([]string{}, c40Vars...), c40Globs...)[r.Intn(len(c40Vars)+len(c40Globs))]
			}

			ep = strings.Join(segs, "/")
		}

		if r.Intn(12) == 0 {
			ep = []string{"/", "", "//"}[r.Intn(3)]
		}

		m := c40Methods[r.Intn(len(c40Methods))]
		if seen[ep+" "+m] {
			n--

			continue
		}

		seen[ep+" "+m] = true
		rt := c40Route{ep: ep, method: m}

		if rich {
			if r.Intn(2) == 0 {
				rt.decl = map[string]string{}
				for _, p := range []string{"start", "limit", "q", "flag", "when", "names", "b"} {
					if r.Intn(2) == 0 {
						rt.decl[p] = c40Kinds[r.Intn(len(c40Kinds))]
					}
				}
			}

			if r.Intn(4) == 0 {
				rt.disallow = map[string][]string{"q": {"flag", "B"}}
				if r.Intn(2) == 0 {
					rt.disallow["Start"] = []string{"limit"}
				}
			}

			if r.Intn(3) == 0 {
				rt.accept = []string{"application/vnd.ego.x+json"}
				if r.Intn(2) == 0 {
					rt.accept = append(rt.accept, "X/Y")
				}
			}

			if r.Intn(5) == 0 {
				rt.content = []string{"application/vnd.ego.body+json"}
			}

			rt.light = r.Intn(5) == 0

			if r.Intn(10) == 0 {
				rt.redirect = "/elsewhere"
			}
		}

		tbl = append(tbl, rt)
	}

	return tbl
}

var c40Kinds = []string{"int", "int", "bool", "flag", "string", "any", "string|flag", "list", "duration"}
var c40DeclKinds = []string{"int", "INT", "bool", "Bool", "flag", "string", "any", "string|flag", "list", "duration", "weird", ""}

var c40Ints = []string{"0", "1", "-1", "+5", "42", "0x1F", "0X1f", "0o17", "0O7", "0b101", "0B1", "0b", "0x", "0", "'A'", "'é'", "''", "'ab'", "'", "' '",
	" 7 ", "\t8\n", "9223372036854775807", "9223372036854775808", "-9223372036854775808", "-9223372036854775809", "0xFFFFFFFFFFFFFFFF",
	"0x7fffffffffffffff", "-0x8000000000000000", "0x-5", "-0x5", "1_000", "1e3", "abc", "", "++1", "0b2", "0o8", "0xg", "00012", "-", "+", " ", "x'", "'x", "1000", "1001", "100"}
var c40Bools = []string{"true", "false", "TRUE", "False", "1", "0", "yes", "NO", "", "maybe", "2", "y", " true"}
var c40Durs = []string{"5m", "1h30m", "0", "", "-5s", "1d", "abc", "1h 5m", "1.5h", "5", ".5s", "9999999999h", "1ns", "µs", "1µs"}
var c40Strs = []string{"x", "", "a b", "1", "é", "\xff", "a&b=c", "%zz"}

func c40ValuesFor(r *rand.Rand, kind string) []string {
	pool := c40Strs

	switch strings.ToLower(kind) {
	case "int":
		pool = c40Ints
	case "bool":
		pool = c40Bools
	case "duration":
		pool = c40Durs
	case "flag":
		pool = []string{"", "", "", "x"}
	}

	n := 1
	switch r.Intn(10) {
	case 0:
		n = 2
	case 1:
		n = 3
	}

	vs := make([]string, n)
	for i := range vs {
		vs[i] = pool[r.Intn(len(pool))]
		if r.Intn(12) == 0 {
			vs[i] = c40Ints[r.Intn(len(c40Ints))]
		}
	}

	return vs
}

// ---- protocol encoders (see lean/EgoVerif/C40/Driver.lean)

func c40Decl(decl map[string]string, pairSep, kv string) string {
	if len(decl) == 0 { // a nil map and an empty map read the same
		return "nil"
	}

	names := []string{}
	for n := range decl {
		names = append(names, n)
	}

	sort.Strings(names)

	out := []string{}
	for _, n := range names {
		out = append(out, verifh.Hex(n)+kv+verifh.Hex(decl[n]))
	}

	return strings.Join(out, pairSep)
}

func c40Query(q url.Values) string {
	if len(q) == 0 {
		return "none"
	}

	names := []string{}
	for n := range q {
		names = append(names, n)
	}

	sort.Strings(names)

	out := []string{}

	for _, n := range names {
		vs := []string{}
		for _, v := range q[n] {
			vs = append(vs, verifh.Hex(v))
		}

		out = append(out, verifh.Hex(n)+"="+strings.Join(vs, "|"))
	}

	return strings.Join(out, ",")
}

func c40List(xs []string, none string) string {
	if len(xs) == 0 {
		return none
	}

	out := []string{}
	for _, x := range xs {
		out = append(out, verifh.Hex(x))
	}

	return strings.Join(out, "|")
}

func c40Durations(q url.Values) string {
	ok := []string{}
	seen := map[string]bool{}

	for _, vs := range q {
		for _, v := range vs {
			if _, err := time.ParseDuration(v); err == nil && !seen[v] {
				seen[v] = true

				ok = append(ok, v)
			}
		}
	}

	sort.Strings(ok)

	return c40List(ok, "none")
}

func c40ErrKind(err error) string {
	switch {
	case err == nil:
		return "ok"
	case errors.Equals(err, errors.ErrWrongParameterValueCount):
		return "count"
	case errors.Equals(err, errors.ErrInvalidInteger):
		return "integer"
	case errors.Equals(err, errors.ErrInvalidBooleanValue):
		return "boolean"
	case errors.Equals(err, errors.ErrInvalidDuration):
		return "duration"
	case errors.Equals(err, errors.ErrInvalidKeyword):
		return "keyword"
	}

	return "other:" + err.Error()
}

func c40Parts(m map[string]any) string {
	if len(m) == 0 {
		return "none"
	}

	keys := []string{}
	byKey := map[string]string{}

	for k, v := range m {
		hk := verifh.Hex(k)
		keys = append(keys, hk)

		switch a := v.(type) {
		case string:
			byKey[hk] = "s:" + verifh.Hex(a)
		case bool:
			if a {
				byKey[hk] = "b:1"
			} else {
				byKey[hk] = "b:0"
			}
		default:
			byKey[hk] = "?:" + fmt.Sprint(v)
		}
	}

	sort.Strings(keys) // by the hex text of the key, as the Lean driver does

	items := []string{}
	for _, k := range keys {
		items = append(items, k+"="+byKey[k])
	}

	return strings.Join(items, ",")
}

// ---- the test

type c40T2 struct {
	cases *verifh.Writer
	fails *verifh.Writer
	stats *verifh.Stats
	dist  map[string]bool
}

func (h *c40T2) emit(in, impl, desc string, nontrivial bool) {
	h.cases.Write(verifh.Case{In: in, Impl: impl, Desc: desc})
	h.stats.Inc("cases")

	if nontrivial && !h.dist[in] {
		h.dist[in] = true
	}

	if strings.HasPrefix(impl, "panic") {
		h.stats.Inc("panics")
		h.fails.Write(verifh.Failure{Class: "frontend-panic", What: "a front-end function panicked: " + impl, Input: in + "   (" + desc + ")",
			Got: impl, Want: "a value"})
	}
}

func c40Guard(f func() string) (out string) {
	defer func() {
		if p := recover(); p != nil {
			out = fmt.Sprintf("panic")
		}
	}()

	return f()
}

func c40TableField(tbl []c40Route) string {
	out := []string{}
	for _, rt := range tbl {
		out = append(out, verifh.Hex(rt.ep)+":"+verifh.Hex(rt.method))
	}

	return strings.Join(out, ",")
}

func c40Build(tbl []c40Route, ran *func(s *Session)) *Router {
	m := NewRouter("verif-c40")

	for _, rt := range tbl {
		route := m.New(rt.ep, func(s *Session, w http.ResponseWriter, r *http.Request) int {
			(*ran)(s)

			return http.StatusOK
		}, rt.method)

		names := []string{}
		for n := range rt.decl {
			names = append(names, n)
		}

		sort.Strings(names)

		for _, n := range names {
			route.Parameter(n, rt.decl[n])
		}

		keys := []string{}
		for k := range rt.disallow {
			keys = append(keys, k)
		}

		sort.Strings(keys)

		for _, k := range keys {
			route.Disallow(k + ": " + strings.Join(rt.disallow[k], " , "))
		}

		if rt.accept != nil {
			route.AcceptMedia(rt.accept...)
		}

		if rt.content != nil {
			route.ContentMedia(rt.content...)
		}

		route.LightWeight(rt.light)

		if rt.redirect != "" {
			route.Redirect(rt.redirect)
		}
	}

	return m
}

func c40RouteField(rt c40Route) string {
	dis := "none"

	if len(rt.disallow) > 0 {
		keys := []string{}
		for k := range rt.disallow {
			keys = append(keys, k)
		}

		sort.Strings(keys)

		parts := []string{}

		for _, k := range keys {
			ds := []string{}
			for _, d := range rt.disallow[k] {
				ds = append(ds, strings.ToLower(d)) // Route.Disallow stores the list lower-cased and trimmed
			}

			parts = append(parts, verifh.Hex(k)+"="+c40List(ds, "none"))
		}

		dis = strings.Join(parts, "/")
	}

	media := func(l []string) string {
		if l == nil {
			return "nil"
		}

		return c40List(l, "empty")
	}

	light := "0"
	if rt.light {
		light = "1"
	}

	return strings.Join([]string{verifh.Hex(rt.ep), verifh.Hex(rt.method), c40Decl(rt.decl, "/", "+"), dis, media(rt.accept), media(rt.content),
		light, verifh.Hex(rt.redirect)}, ":")
}

func TestVerifC40(t *testing.T) {
	h := &c40T2{cases: verifh.Out("c40_cases.jsonl"), fails: verifh.Out("c40_t2_failures.jsonl"), stats: verifh.NewStats(), dist: map[string]bool{}}

	defer func() {
		h.stats.Add("distinct_nontrivial", len(h.dist))
		h.stats.Save("c40_t2_stats.json")
		h.cases.Close()
		h.fails.Close()
	}()

	r := verifh.Rand(4001)
	n := verifh.N(600, 8000)

	// ---- find: FindRoute on generated tables
	for i := 0; i < n; i++ {
		tbl := c40Table(r, false)
		m := c40Build(tbl, new(func(*Session)))

		for k := 0; k < 4; k++ {
			path := c40Fill(r, tbl[r.Intn(len(tbl))].ep)
			method := c40ReqMethods[r.Intn(len(c40ReqMethods))]
			impl := c40Guard(func() string {
				route, status := m.FindRoute(method, path, false)

				switch {
				case route != nil && status == http.StatusOK:
					return "ok " + verifh.Hex(route.endpoint) + " " + verifh.Hex(route.method)
				case route == nil:
					return strconv.Itoa(status)
				}

				return "odd " + strconv.Itoa(status)
			})

			h.emit("find "+c40TableField(tbl)+" "+verifh.Hex(method)+" "+verifh.Hex(path), impl, method+" "+path, strings.HasPrefix(impl, "ok") && len(tbl) > 1)
		}
	}

	// ---- parts: partsMap
	for i := 0; i < n*2; i++ {
		ep := c40Endpoint(r)
		path := c40Fill(r, ep)

		if r.Intn(5) == 0 {
			path = c40Fill(r, c40Endpoint(r))
		}

		impl := c40Guard(func() string { return c40Parts((&Route{endpoint: ep}).partsMap(path)) })
		h.emit("parts "+verifh.Hex(ep)+" "+verifh.Hex(path), impl, ep+" <- "+path, strings.Contains(ep, "{{"))
	}

	// ---- vp: util.ValidateParameters
	for i := 0; i < n*3; i++ {
		var decl map[string]string

		if r.Intn(10) != 0 {
			decl = map[string]string{}
			for _, p := range []string{"a", "b", "c", "A"} {
				if r.Intn(2) == 0 {
					decl[p] = c40DeclKinds[r.Intn(len(c40DeclKinds))]
				}
			}
		}

		q := url.Values{}
		nk := 1

		if r.Intn(4) == 0 {
			nk = r.Intn(4)
		}

		for k := 0; k < nk; k++ {
			name := []string{"a", "b", "c", "A", "d", ""}[r.Intn(6)]
			q[name] = c40ValuesFor(r, decl[name])
		}

		u := &url.URL{Path: "/x", RawQuery: q.Encode()}
		impl := c40Guard(func() string {
			kind := c40ErrKind(util.ValidateParameters(u, decl))
			if len(q) > 1 && kind != "ok" {
				return "err" // which of several bad parameters is reported depends on map order
			}

			return kind
		})

		h.emit("vp "+c40Decl(decl, ",", ":")+" "+c40Query(q)+" "+c40Durations(q), impl, u.RawQuery, len(q) > 0 && len(decl) > 0)
	}

	// ---- pg: validatePaging
	saved := settings.Get(defs.ServerMaxItemLimitSetting)
	defer settings.Set(defs.ServerMaxItemLimitSetting, saved)

	for i := 0; i < n; i++ {
		var decl map[string]string

		if r.Intn(8) != 0 {
			decl = map[string]string{}
			for _, p := range []string{"start", "limit", "q"} {
				if r.Intn(3) != 0 {
					decl[p] = "int"
				}
			}
		}

		q := url.Values{}
		for _, p := range []string{"start", "limit", "Start", "q"} {
			if r.Intn(2) == 0 {
				q[p] = c40ValuesFor(r, "int")
			}
		}

		maxLimit := []int{0, -5, 1, 100, 1000, 50}[r.Intn(6)]
		settings.Set(defs.ServerMaxItemLimitSetting, strconv.Itoa(maxLimit))

		s := &Session{Route: &Route{parameters: decl}, Parameters: map[string][]string(q), Language: "en"}
		impl := c40Guard(func() string {
			w := httptest.NewRecorder()
			if st := validatePaging(s, w); st != http.StatusOK {
				return strconv.Itoa(st)
			}

			return fmt.Sprintf("200 %d %d", s.Start, s.Limit)
		})

		h.emit("pg "+c40Decl(decl, ",", ":")+" "+c40Query(q)+" "+strconv.Itoa(maxLimit), impl, q.Encode(), len(decl) > 0 && len(q) > 0)
	}

	// ---- serve: ServeHTTP up to the handler call
	accepts := [][]string{nil, {"*/*"}, {"application/json"}, {"text/html"}, {"text/html;q=0.9, */*;q=0.1"}, {"application/xml", " TEXT/HTML ; q=1"},
		{"application/vnd.ego.x+json"}, {"X/Y"}, {"x/y"}, {""}, {";"}, {",", ";;"}, {"application/xml"}, {"text"}, {"Application/JSON"}}
	ctypes := [][]string{nil, {"application/json"}, {"application/vnd.ego.body+json"}, {"application/xml"}, {""}}

	for i := 0; i < n; i++ {
		tbl := c40Table(r, true)

		var got *Session

		ran := func(s *Session) { got = s }
		m := c40Build(tbl, &ran)
		fields := []string{}

		for _, rt := range tbl {
			fields = append(fields, c40RouteField(rt))
		}

		for k := 0; k < 4; k++ {
			rt := tbl[r.Intn(len(tbl))]
			path := c40Fill(r, rt.ep)
			method := rt.method

			if method == "ANY" || r.Intn(6) == 0 {
				method = c40ReqMethods[r.Intn(len(c40ReqMethods))]
			}

			q := url.Values{}
			for _, p := range []string{"start", "limit", "q", "flag", "when", "names", "b", "other"} {
				if r.Intn(4) == 0 {
					q[p] = c40ValuesFor(r, rt.decl[p])
				}
			}

			acc := accepts[r.Intn(len(accepts))]
			ct := ctypes[r.Intn(len(ctypes))]
			maxLimit := []int{0, 100, 1000}[r.Intn(3)]
			settings.Set(defs.ServerMaxItemLimitSetting, strconv.Itoa(maxLimit))

			req := &http.Request{Method: method, URL: &url.URL{Path: path, RawQuery: q.Encode()}, Header: http.Header{}, Body: http.NoBody,
				RemoteAddr: "192.0.2.9:1", Proto: "HTTP/1.1", ProtoMajor: 1, ProtoMinor: 1, Host: "localhost"}

			if acc != nil {
				req.Header["Accept"] = acc
			}

			if ct != nil {
				req.Header["Content-Type"] = ct
			}

			got = nil
			impl := c40Guard(func() string {
				w := httptest.NewRecorder()
				m.ServeHTTP(w, req)

				switch {
				case got != nil:
					return fmt.Sprintf("handler %s %s %s %d %d", verifh.Hex(got.Route.endpoint), verifh.Hex(got.Route.method), c40Parts(got.URLParts), got.Start, got.Limit)
				case w.Code == http.StatusTemporaryRedirect:
					return "redirect " + verifh.Hex(w.Header().Get("Location"))
				case w.Code == http.StatusNotFound && strings.HasPrefix(w.Header().Get("Content-Type"), "text/html"):
					return "status 404h"
				}

				return "status " + strconv.Itoa(w.Code)
			})

			in := strings.Join([]string{"serve", strings.Join(fields, ";"), verifh.Hex(method), verifh.Hex(path), c40Query(q), c40List(acc, "none"),
				c40List(ct, "none"), strconv.Itoa(maxLimit), c40Durations(q)}, " ")
			h.emit(in, impl, method+" "+path+"?"+q.Encode(), strings.HasPrefix(impl, "handler") || strings.HasPrefix(impl, "status 400"))

			if h.stats.M["cases"]%2503 == 0 {
				h.stats.Sample(map[string]string{"request": method + " " + path + "?" + q.Encode(), "answer": impl})
			}
		}
	}
}
