//go:build verif

package router

// C24 correspondence harness and direct oracle.
//
// Every history runs in its own testing/synctest bubble (virtual clock, every time.Now()
// of one operation is the same instant) against the REAL code:
//
//   * stream "auth": login attempts go through Session.Authenticate with Basic credentials;
//     auth.AuthService is a counting user store, so "the password was not consulted" is
//     observed (store reads == 0). pruneLoginAttempts is called explicitly as an operation
//     (the real pruner goroutine is started OUTSIDE the bubbles and sleeps 5 real minutes;
//     the harness stops well before that).
//   * stream "raw": CheckRateLimit / RecordFailure / RecordSuccess / pruneLoginAttempts in
//     arbitrary order (orders Authenticate never produces), correspondence only.
//
// Each operation is one correspondence line for the Lean model (egodriver C24); the content
// of loginAttempts is dumped after prunes and at the end of each history.
//
// The CONFIGURATION may change in the middle of a history (operation "cfg": an administrator
// sets ego.server.auth.maxattempts / ego.server.auth.lockout while records exist), in
// particular to limit 0 while a lockout is running, and back.
//
// The direct oracle needs no model: it follows, per lower-cased user name, the OBSERVED
// outcomes (consecutive denied attempts since the last success, time of the denied attempt
// at which that streak reached the limit) and demands locked/not-locked accordingly.
// Under configuration changes: a denied attempt counts against the limit in force at that
// attempt (none while the limit is 0), a lockout lasts for the lockout period in force when
// it began, and with the limit at 0 no attempt is ever refused, whatever happened before.

import (
	"errors"
	"fmt"
	"math/rand"
	"net/http/httptest"
	"strings"
	"testing"
	"testing/synctest"
	"time"

	"github.com/tucats/ego/internal/cli/settings"
	"github.com/tucats/ego/internal/defs"
	auth "github.com/tucats/ego/internal/server/auth"
	"github.com/tucats/ego/internal/verifh"
	"golang.org/x/crypto/bcrypt"
)

// ---------------------------------------------------------------- counting user store

type c24Store struct {
	users map[string]defs.User
	reads int
}

func (s *c24Store) ReadUser(session int, name string, doNotLog bool) (defs.User, error) {
	s.reads++

	if u, ok := s.users[name]; ok {
		return u, nil
	}

	return defs.User{}, errors.New("no such user")
}
func (s *c24Store) WriteUser(session int, user defs.User) error {
	s.users[user.Name] = user
	return nil
}
func (s *c24Store) DeleteUser(session int, name string) error { delete(s.users, name); return nil }
func (s *c24Store) ListUsers(bool) map[string]defs.User       { return s.users }
func (s *c24Store) Flush() error                              { return nil }
func (s *c24Store) Close() error                              { return nil }

// ---------------------------------------------------------------- configuration table

// setting text → the effective value the documentation promises ("as configured")
type c24Limit struct {
	setting string
	limit   int
}

type c24Dur struct {
	setting string
	d       time.Duration
}

var c24Limits = []c24Limit{{"0", 0}, {"1", 1}, {"2", 2}, {"3", 3}, {"4", 4}, {"5", 5}, {"6", 6}, {"", 5}, {"-2", 5}}
var c24Durs = []c24Dur{{"1s", time.Second}, {"250ms", 250 * time.Millisecond}, {"90s", 90 * time.Second},
	{"15m", 15 * time.Minute}, {"1h", time.Hour}, {"3ns", 3}, {"1ns", 1}, {"2500ms", 2500 * time.Millisecond},
	{"", 15 * time.Minute}, {"0s", 15 * time.Minute}, {"-5s", 15 * time.Minute}, {"7", 15 * time.Minute}}

// ---------------------------------------------------------------- users

// presented name, password that is right for it ("" = none can be right)
type c24User struct {
	name  string
	right string
}

var c24Users = []c24User{
	{"alice", "pw-alice"}, {"ALICE", "pw-alice"}, {"Alice", "pw-alice"},
	{"bob", "pw-bob"}, {"root", "pw-root"},
	{"Kim", "pw-kim"}, {"kim", "pw-kim"}, // KELVIN SIGN lower-cases to "k"
	{"carol", ""}, // exists, right password, but neither logon nor root permission
	{"ghost", ""}, // no such user
	{"", ""},      // empty user name
	{"alice2", "pw-alice2"},
}

func c24NewStore() *c24Store {
	h := func(p string) string {
		b, err := bcrypt.GenerateFromPassword([]byte(p), bcrypt.MinCost)
		if err != nil {
			panic(err)
		}

		return string(b)
	}

	return &c24Store{users: map[string]defs.User{
		"alice":  {Name: "alice", Password: h("pw-alice"), Permissions: []string{defs.LogonPermission}},
		"alice2": {Name: "alice2", Password: h("pw-alice2"), Permissions: []string{defs.LogonPermission}},
		"bob":    {Name: "bob", Password: h("pw-bob"), Permissions: []string{"EGO.LOGON"}},
		"root":   {Name: "root", Password: h("pw-root"), Permissions: []string{defs.RootPermission}},
		"kim":    {Name: "kim", Password: h("pw-kim"), Permissions: []string{defs.LogonPermission, "x"}},
		"carol":  {Name: "carol", Password: h("pw-carol"), Permissions: []string{"tables"}},
	}}
}

// ---------------------------------------------------------------- history

type c24Op struct {
	kind string // att, adv, prune, chk, fail, succ, cfg
	user int    // index in c24Users
	pw   string // g (right password), b (wrong), e (empty)
	d    time.Duration
	lim  c24Limit // cfg: the new settings
	dur  c24Dur
}

func (o c24Op) String() string {
	switch o.kind {
	case "att":
		return fmt.Sprintf("att %q %s", c24Users[o.user].name, o.pw)
	case "adv":
		return fmt.Sprintf("adv %d", int64(o.d))
	case "prune":
		return "prune"
	case "cfg":
		return fmt.Sprintf("cfg maxattempts=%q lockout=%q", o.lim.setting, o.dur.setting)
	default:
		return fmt.Sprintf("%s %q", o.kind, c24Users[o.user].name)
	}
}

type c24Hist struct {
	lim c24Limit
	dur c24Dur
	ops []c24Op
}

func (h c24Hist) text(upto int) string {
	var b strings.Builder

	fmt.Fprintf(&b, "maxattempts=%q lockout=%q :", h.lim.setting, h.dur.setting)

	for i := 0; i <= upto && i < len(h.ops); i++ {
		b.WriteString(" " + h.ops[i].String() + ";")
	}

	return b.String()
}

// observed answer of one attempt
type c24Obs struct {
	locked bool
	auth   bool
	retry  int
	reads  int
}

// per-identity oracle state, driven by observed outcomes only
type c24Track struct {
	streak  int
	lockSet bool
	lockT   time.Duration
	lockEnd time.Duration // lockT + the lockout period in force at lockT
	// the same, but forgetting what a prune of a stale, unlocked entry may forget
	aStreak  int
	aLockSet bool
	aLockT   time.Duration
	aLockEnd time.Duration
	aLast    time.Duration
}

func c24ID(name string) string { return strings.ToLower(name) }

// effective kind of an attempt for the model line: g only when the login must succeed
func c24Kind(u c24User, pw string) string {
	if pw == "e" || u.name == "" {
		return "e"
	}

	if pw == "g" && u.right != "" {
		return "g"
	}

	return "b"
}

type c24Run struct {
	cases *verifh.Writer
	fails *verifh.Writer
	stats *verifh.Stats
	store *c24Store
	nfail int
}

func (c *c24Run) fail(class, what string, h c24Hist, upto int, got, want string) {
	c.nfail++
	if c.nfail <= 200 {
		c.fails.Write(verifh.Failure{Class: class, What: what, Input: h.text(upto), Got: got, Want: want})
	}
}

// what an administrator does through the configuration API, records untouched
func c24Set(lim c24Limit, dur c24Dur) {
	settings.Set(defs.AuthMaxAttemptsSetting, lim.setting)
	settings.Set(defs.AuthLockoutDurationSetting, dur.setting)
}

func c24Configure(h c24Hist) {
	c24Set(h.lim, h.dur)

	loginAttemptsMu.Lock()
	loginAttempts = map[string]*loginRecord{}
	loginAttemptsMu.Unlock()
}

func c24Dump(epoch time.Time, id string) string {
	loginAttemptsMu.Lock()
	defer loginAttemptsMu.Unlock()

	rec, ok := loginAttempts[id]
	if !ok {
		return "none"
	}

	lu := int64(0)
	if !rec.lockedUntil.IsZero() {
		lu = int64(rec.lockedUntil.Sub(epoch))
	}

	return fmt.Sprintf("%d %d %d", rec.failures, int64(rec.lastFailure.Sub(epoch)), lu)
}

// one real login attempt through Session.Authenticate
func (c *c24Run) authenticate(session int, u c24User, pw string) c24Obs {
	req := httptest.NewRequest("GET", "/services/admin/users", nil)

	pass := "wrong-" + u.name
	switch pw {
	case "g":
		pass = u.right
		if pass == "" {
			pass = "pw-" + c24ID(u.name) // carol: the stored password; ghost: anything
		}
	case "e":
		pass = ""
	}

	req.SetBasicAuth(u.name, pass)

	before := c.store.reads
	s := (&Session{ID: session}).Authenticate(req)

	return c24Obs{locked: s.LockedOut, auth: s.Authenticated, retry: s.RetryAfter, reads: c.store.reads - before}
}

// exec runs one history in a bubble. `only` (if >= 0 as identity filter "" excluded) keeps
// only the attempts of one identity (metamorphic independence run); it returns the observed
// answers of that identity's attempts. gen, when not nil, extends the history while running
// (so that time steps can aim at the unlock instant the oracle expects).
func (c *c24Run) exec(t *testing.T, h *c24Hist, stream string, onlyID *string, gen func(now time.Duration, tr map[string]*c24Track, i int) (c24Op, bool)) []c24Obs {
	var result []c24Obs

	synctest.Test(t, func(t *testing.T) {
		epoch := time.Now()
		c24Configure(*h)

		D := h.dur.d
		L := h.lim.limit
		quiet := onlyID != nil
		tr := map[string]*c24Track{}

		get := func(id string) *c24Track {
			if tr[id] == nil {
				tr[id] = &c24Track{}
			}

			return tr[id]
		}

		emit := func(in, impl string) {
			if !quiet {
				c.cases.Write(verifh.Case{In: in, Impl: impl, Desc: stream})
			}
		}

		emit(fmt.Sprintf("reset %d %d", L, int64(D)), "ok")

		dumpAll := func() {
			if quiet {
				return
			}

			seen := map[string]bool{}
			for _, u := range c24Users {
				id := c24ID(u.name)
				if !seen[id] {
					seen[id] = true
					emit("dump "+verifh.Hex(id), c24Dump(epoch, id))
				}
			}
		}

		for i := 0; ; i++ {
			if gen != nil {
				op, more := gen(time.Since(epoch), tr, i)
				if !more {
					break
				}

				h.ops = append(h.ops, op)
			} else if i >= len(h.ops) {
				break
			}

			op := h.ops[i]
			now := time.Since(epoch)

			switch op.kind {
			case "adv":
				time.Sleep(op.d)
				emit(fmt.Sprintf("adv %d", int64(op.d)), "ok")

			case "cfg":
				c24Set(op.lim, op.dur)

				L, D = op.lim.limit, op.dur.d
				emit(fmt.Sprintf("cfg %d %d", L, int64(D)), "ok")
				c.stats.Inc("ops.cfg")

			case "prune":
				pruneLoginAttempts()
				emit("prune", "ok")

				for _, k := range tr {
					if k.aStreak > 0 && k.aLast+2*D < now && !(k.aLockSet && now <= k.aLockEnd) {
						k.aStreak, k.aLockSet = 0, false
					}
				}

				dumpAll()

			case "chk":
				id := c24ID(c24Users[op.user].name)
				emit("chk "+verifh.Hex(id), fmt.Sprint(CheckRateLimit(id)))

			case "fail":
				id := c24ID(c24Users[op.user].name)
				RecordFailure(i, id)
				emit("fail "+verifh.Hex(id), "ok")

			case "succ":
				id := c24ID(c24Users[op.user].name)
				RecordSuccess(id)
				emit("succ "+verifh.Hex(id), "ok")

			case "att":
				u := c24Users[op.user]
				id := c24ID(u.name)

				if onlyID != nil && id != *onlyID {
					continue
				}

				kind := c24Kind(u, op.pw)
				o := c.authenticate(i, u, op.pw)

				if onlyID != nil {
					result = append(result, o)

					continue
				}

				impl := ""
				rd := "r0"
				if o.reads > 0 {
					rd = "r1"
				}

				switch {
				case o.locked:
					impl = fmt.Sprintf("locked %d %s", o.retry, rd)
				case o.auth:
					impl = "ok " + rd
				default:
					impl = "denied " + rd
				}

				emit(fmt.Sprintf("att %s %s", verifh.Hex(id), kind), impl)
				c.stats.Inc("att." + strings.Fields(impl)[0])

				// ---------------- direct oracle
				k := get(id)
				if k.lockSet && now == k.lockEnd {
					c.stats.Inc("att.at-unlock-instant")
				}

				if L == 0 && k.lockSet && now < k.lockEnd {
					c.stats.Inc("att.limit-zero-in-window") // lockout disabled while a lockout is running
				}

				literal := L > 0 && k.lockSet && now < k.lockEnd
				aware := L > 0 && k.aLockSet && now < k.aLockEnd
				got := impl
				wantLocked := fmt.Sprintf("locked (streak %d reached the limit at t=%d, limit now %d, now t=%d, lockout until t=%d)", k.streak, int64(k.lockT), L, int64(now), int64(k.lockEnd))

				if o.locked {
					switch {
					case L == 0:
						c.fail("locked-with-limit-zero", "an account was locked although the limit is 0", *h, i, got, "not locked")
					case !literal:
						c.fail("spurious-lock", "attempt refused as locked although the consecutive failures of this user never reached the limit within the last lockout period", *h, i, got, "not locked")
					}

					if o.reads != 0 {
						c.fail("password-checked-while-locked", "the user store was read for a locked account", *h, i, got, "no store read")
					}

					if o.retry <= 0 || o.auth {
						c.fail("locked-bad-response", "locked session has RetryAfter <= 0 or is authenticated", *h, i, got, "RetryAfter > 0, not authenticated")
					}

					c.stats.Inc("oracle.locked")
				} else {
					switch {
					case aware:
						c.fail("not-locked-in-window", "consecutive failures reached the limit, the lockout period has not passed, yet the password was consulted", *h, i, got, wantLocked)
					case literal:
						c.fail("prune-forgets-failures", "consecutive failures reached the limit but the pruner had deleted the stale entry in between, so the account was not locked", *h, i, got, wantLocked)
					}

					if o.auth != (kind == "g") {
						c.fail("wrong-auth-result", "authentication result differs from the credential's validity", *h, i, got, kind)
					}

					if (o.reads == 0) != (kind == "e") {
						c.fail("store-read-mismatch", "user store read count unexpected for a non-locked attempt", *h, i, got, kind)
					}

					if o.auth {
						if d := c24Dump(epoch, id); d != "none" {
							c.fail("success-did-not-clear", "a failure record survives a successful login", *h, i, d, "none")
						}

						*k = c24Track{}
					} else if L > 0 { // while lockout is disabled failures are not counted
						k.streak++
						if k.streak >= L {
							k.lockSet, k.lockT, k.lockEnd = true, now, now+D
							c.stats.Inc("oracle.lock-started")
						}

						k.aStreak++
						k.aLast = now

						if k.aStreak >= L {
							k.aLockSet, k.aLockT, k.aLockEnd = true, now, now+D
						}
					}
				}
			}
		}

		dumpAll()
	})

	return result
}

// ---------------------------------------------------------------- generators

func c24PickCfg(r *rand.Rand) (c24Limit, c24Dur) {
	return c24Limits[r.Intn(len(c24Limits))], c24Durs[r.Intn(len(c24Durs))]
}

// generator of one "auth" history; aims time steps at the instants that matter
func c24Gen(r *rand.Rand, h *c24Hist, n int) func(now time.Duration, tr map[string]*c24Track, i int) (c24Op, bool) {
	focus := r.Intn(len(c24Users))
	second := r.Intn(len(c24Users))
	D := h.dur.d
	pBad := 50 + r.Intn(45)
	curLim, curDur := h.lim, h.dur
	reconfigure := r.Intn(100) < 40 // histories in which an administrator changes the settings on the way

	return func(now time.Duration, tr map[string]*c24Track, i int) (c24Op, bool) {
		if i >= n {
			return c24Op{}, false
		}

		if reconfigure && r.Intn(100) < 8 {
			k := tr[c24ID(c24Users[focus].name)]
			running := k != nil && k.lockSet && now < k.lockEnd
			y := r.Intn(10)

			switch {
			case curLim.limit != 0 && running && y < 6:
				curLim = c24Limits[0] // lockout disabled while the focus identity is locked out
			case curLim.limit == 0 && y < 4:
				curLim = h.lim // ... and back
			case y < 8:
				curLim = c24Limits[r.Intn(len(c24Limits))]
			default:
				curLim, curDur = c24Limits[r.Intn(len(c24Limits))], c24Durs[r.Intn(len(c24Durs))]
			}

			D = curDur.d

			return c24Op{kind: "cfg", lim: curLim, dur: curDur}, true
		}

		x := r.Intn(100)

		switch {
		case x < 62:
			u := focus
			switch y := r.Intn(10); {
			case y < 2:
				u = second
			case y < 3:
				u = r.Intn(len(c24Users))
			case y < 4:
				// a case variant of the focus identity, if there is one
				for j, cu := range c24Users {
					if j != focus && c24ID(cu.name) == c24ID(c24Users[focus].name) && r.Intn(2) == 0 {
						u = j
					}
				}
			}

			pw := "b"
			if z := r.Intn(100); z >= pBad {
				pw = "g"
			} else if z < 8 {
				pw = "e"
			}

			return c24Op{kind: "att", user: u, pw: pw}, true

		case x < 90:
			// time step: relative to the lockout, or aimed at the unlock / prune instant of the focus identity
			k := tr[c24ID(c24Users[focus].name)]
			cands := []time.Duration{0, 1, D - 1, D, D + 1, D / 2, 2 * D, 2*D + 1, 3 * D, time.Duration(r.Int63n(int64(2*D) + 1))}

			if k != nil && k.lockSet {
				if left := k.lockEnd - now; left > 0 {
					cands = append(cands, left, left, left, left-1, left+1, left/2)
				}
			}

			if k != nil && k.aStreak > 0 {
				if left := k.aLast + 2*D - now; left > 0 {
					cands = append(cands, left, left+1)
				}
			}

			d := cands[r.Intn(len(cands))]
			if d < 0 {
				d = 0
			}

			return c24Op{kind: "adv", d: d}, true

		default:
			return c24Op{kind: "prune"}, true
		}
	}
}

func c24GenRaw(r *rand.Rand, h *c24Hist, n int) {
	D := h.dur.d
	users := []int{0, 3, r.Intn(len(c24Users))}
	reconfigure := r.Intn(2) == 0

	for i := 0; i < n; i++ {
		u := users[r.Intn(len(users))]

		if reconfigure && r.Intn(100) < 8 {
			op := c24Op{kind: "cfg", lim: c24Limits[r.Intn(len(c24Limits))], dur: h.dur}
			if r.Intn(3) == 0 {
				op.lim = c24Limits[0]
			}

			if r.Intn(4) == 0 {
				op.dur = c24Durs[r.Intn(len(c24Durs))]
			}

			D = op.dur.d
			h.ops = append(h.ops, op)

			continue
		}

		switch x := r.Intn(100); {
		case x < 40:
			h.ops = append(h.ops, c24Op{kind: "fail", user: u})
		case x < 60:
			h.ops = append(h.ops, c24Op{kind: "chk", user: u})
		case x < 68:
			h.ops = append(h.ops, c24Op{kind: "succ", user: u})
		case x < 92:
			cands := []time.Duration{0, 1, D - 1, D, D + 1, D / 2, 2 * D, 2*D + 1, time.Duration(r.Int63n(int64(2*D) + 1)), 999999999, 1000000000}
			h.ops = append(h.ops, c24Op{kind: "adv", d: cands[r.Intn(len(cands))]})
		default:
			h.ops = append(h.ops, c24Op{kind: "prune"})
		}
	}
}

// corpus: seeded / past failures first
func c24Corpus() []c24Hist {
	att := func(u int, pw string) c24Op { return c24Op{kind: "att", user: u, pw: pw} }
	adv := func(d time.Duration) c24Op { return c24Op{kind: "adv", d: d} }
	prune := c24Op{kind: "prune"}
	s := time.Second
	cfg := func(lim string, l int, dur string, d time.Duration) c24Op {
		return c24Op{kind: "cfg", lim: c24Limit{lim, l}, dur: c24Dur{dur, d}}
	}

	return []c24Hist{
		// the settings change while records exist: lockout disabled during a lockout (and back, inside and
		// after the window), the limit lowered below / raised above the current streak, the period changed
		{c24Limit{"2", 2}, c24Dur{"1h", time.Hour}, []c24Op{att(0, "b"), att(0, "b"), att(0, "g"), cfg("0", 0, "1h", time.Hour), att(0, "b"), att(1, "g"),
			cfg("2", 2, "1h", time.Hour), att(0, "b"), att(0, "b"), att(0, "g")}},
		{c24Limit{"2", 2}, c24Dur{"15m", 15 * time.Minute}, []c24Op{att(3, "b"), att(3, "b"), cfg("0", 0, "15m", 15*time.Minute), att(3, "b"), att(3, "e"), prune,
			cfg("2", 2, "15m", 15*time.Minute), att(3, "g"), adv(15 * time.Minute), att(3, "g")}},
		{c24Limit{"", 5}, c24Dur{"90s", 90 * s}, []c24Op{att(0, "b"), att(0, "b"), att(0, "b"), cfg("2", 2, "90s", 90*s), att(0, "g"), att(0, "b"), att(0, "b"), att(0, "g"),
			cfg("6", 6, "90s", 90*s), att(0, "g"), adv(90 * s), att(0, "b"), att(0, "b"), cfg("0", 0, "", 15*time.Minute), att(0, "b"), cfg("3", 3, "", 15*time.Minute), att(0, "b"), att(0, "g")}},
		{c24Limit{"1", 1}, c24Dur{"1s", s}, []c24Op{att(4, "b"), cfg("1", 1, "1h", time.Hour), att(4, "g"), adv(s), att(4, "g"), att(4, "b"), cfg("1", 1, "1s", s), adv(s), att(4, "g"),
			adv(2 * s), prune, adv(time.Hour), att(4, "g")}},
		// a failure exactly at the unlock instant must lock again (boundary of Before/After)
		{c24Limit{"2", 2}, c24Dur{"1s", s}, []c24Op{att(0, "b"), att(0, "b"), att(0, "b"), adv(s), att(0, "b"), att(0, "b"), att(0, "g")}},
		{c24Limit{"1", 1}, c24Dur{"3ns", 3}, []c24Op{att(3, "b"), adv(3), att(3, "b"), att(3, "b"), adv(2), att(3, "b"), adv(1), att(3, "g")}},
		// the pruner forgets failures older than twice the lockout
		{c24Limit{"2", 2}, c24Dur{"1s", s}, []c24Op{att(0, "b"), adv(2*s + 1), prune, att(0, "b"), att(0, "b")}},
		// ... but not younger ones, and never a locked entry
		{c24Limit{"2", 2}, c24Dur{"1s", s}, []c24Op{att(0, "b"), adv(2 * s), prune, att(0, "b"), att(0, "b"), prune, att(0, "g")}},
		// success clears; case variants share the account; other users unaffected
		{c24Limit{"3", 3}, c24Dur{"90s", 90 * s}, []c24Op{att(0, "b"), att(1, "b"), att(2, "g"), att(0, "b"), att(0, "b"), att(3, "b"), att(1, "b"), att(0, "g"), att(3, "g")}},
		// limit 0, and defaults
		{c24Limit{"0", 0}, c24Dur{"1s", s}, []c24Op{att(0, "b"), att(0, "b"), att(0, "b"), att(0, "b"), att(0, "b"), att(0, "b"), att(0, "b"), att(0, "g")}},
		{c24Limit{"", 5}, c24Dur{"", 15 * time.Minute}, []c24Op{att(5, "b"), att(6, "b"), att(5, "b"), att(6, "b"), att(6, "b"), att(5, "g"), adv(15*time.Minute - 1), att(6, "g"), adv(1), att(6, "g")}},
		// empty password / unknown user / no permission count as failures
		{c24Limit{"3", 3}, c24Dur{"1s", s}, []c24Op{att(7, "g"), att(7, "g"), att(7, "g"), att(7, "g"), att(8, "e"), att(8, "b"), att(8, "g"), att(8, "g"), att(9, "g"), att(9, "b"), att(9, "b"), att(9, "b")}},
	}
}

func TestVerifC24(t *testing.T) {
	realStart := time.Now()

	c := &c24Run{cases: verifh.Out("c24_cases.jsonl"), fails: verifh.Out("c24_failures.jsonl"), stats: verifh.NewStats()}

	defer func() {
		c.cases.Close()
		c.fails.Close()
		c.stats.Save("c24_stats.json")
	}()

	c.store = c24NewStore()
	auth.AuthService = c.store

	// start the real pruner goroutine outside every bubble (sync.Once + endless loop on the real clock)
	startRateLimitScan()

	deadline := 200 * time.Second // the real pruner fires after 5 real minutes and would wipe the virtual-time records
	r := verifh.Rand(24)
	seen := map[string]bool{}

	locksBefore := 0

	finish := func(h c24Hist, sample bool) {
		key := h.text(len(h.ops))
		nAdv := 0

		for _, o := range h.ops {
			if o.kind == "adv" && o.d > 0 {
				nAdv++
			}
		}

		// non-trivial: a lockout actually began in this history and the clock moved
		locks := c.stats.M["oracle.lock-started"]
		if locks > locksBefore && nAdv > 0 && !seen[key] {
			seen[key] = true

			c.stats.Inc("distinct_nontrivial")
		}

		locksBefore = locks

		if sample {
			c.stats.Sample(map[string]string{"history": key})
		}
	}

	for _, h := range c24Corpus() {
		h := h
		c.exec(t, &h, "corpus", nil, nil)
		c.stats.Inc("histories.corpus")
		finish(h, false)
	}

	maxLen := verifh.N(50, 110)
	nRaw := verifh.N(600, 6000)
	for i := 0; i < nRaw && time.Since(realStart) < deadline; i++ {
		lim, dur := c24PickCfg(r)
		h := c24Hist{lim: lim, dur: dur}

		c24GenRaw(r, &h, 5+r.Intn(maxLen))
		c.exec(t, &h, "raw", nil, nil)
		c.stats.Inc("histories.raw")
		c.stats.Add("ops.raw", len(h.ops))
	}

	nAuth := verifh.N(1000, 3000)

	for i := 0; i < nAuth && time.Since(realStart) < deadline; i++ {
		lim, dur := c24PickCfg(r)
		h := c24Hist{lim: lim, dur: dur}
		n := 4 + r.Intn(maxLen)

		c.exec(t, &h, "auth", nil, c24Gen(r, &h, n))
		c.stats.Inc("histories.auth")
		c.stats.Add("ops.auth", len(h.ops))
		finish(h, i < 3)

		// metamorphic independence: the answers one identity gets do not depend on the
		// presence of the other identities' attempts
		if i%4 == 0 {
			id := c24ID(c24Users[r.Intn(len(c24Users))].name)
			with := c.exec(t, &h, "indep", &id, nil)

			// answers of that identity in the full run
			all := ""
			full := c.execAnswers(t, &h, id)

			for j := range full {
				if j >= len(with) || full[j] != with[j] {
					all = fmt.Sprintf("attempt #%d of %q: alone %+v, with the others %+v", j, id, with, full)

					break
				}
			}

			if all != "" || len(full) != len(with) {
				c.fail("cross-user-interference", "the answers to one user's attempts change when other users' attempts are removed from the history", h, len(h.ops), all, "identical answers")
			}

			c.stats.Inc("histories.indep")
		}
	}

	if time.Since(realStart) >= deadline {
		c.stats.Inc("truncated")
	}

	c.stats.Add("failures", c.nfail)

	settings.Set(defs.AuthMaxAttemptsSetting, "")
	settings.Set(defs.AuthLockoutDurationSetting, "")
}

// execAnswers re-runs the full history quietly and returns the answers given to one identity.
func (c *c24Run) execAnswers(t *testing.T, h *c24Hist, id string) []c24Obs {
	var res []c24Obs

	synctest.Test(t, func(t *testing.T) {
		c24Configure(*h)

		for i, op := range h.ops {
			switch op.kind {
			case "adv":
				time.Sleep(op.d)
			case "cfg":
				c24Set(op.lim, op.dur)
			case "prune":
				pruneLoginAttempts()
			case "att":
				o := c.authenticate(i, c24Users[op.user], op.pw)
				if c24ID(c24Users[op.user].name) == id {
					res = append(res, o)
				}
			}
		}
	})

	return res
}
