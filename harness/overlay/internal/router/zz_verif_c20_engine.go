//go:build verif

// C20 — routes run only for authorized requests: correspondence + oracle engine.
//
// This file is not a _test.go file because the real route table is built in package
// commands (which imports router): internal/commands/zz_verif_c20_test.go builds the table
// with the repository's own functions and hands it to this engine, which lives in package
// router so that it can read Route's unexported fields and swap handlers for probes.
// It is copied into a scratch copy of the repository only (build tag verif).
package router

import (
	"encoding/base64"
	"encoding/hex"
	"encoding/json"
	"fmt"
	"math/rand"
	"os"
	"path/filepath"
	"sort"
	"strings"
	"time"

	"github.com/google/uuid"
	"github.com/tucats/ego/internal/caches"
	"github.com/tucats/ego/internal/cli/settings"
	"github.com/tucats/ego/internal/defs"
	"github.com/tucats/ego/internal/language/tokens"
	"github.com/tucats/ego/internal/server/auth"
	"github.com/tucats/ego/internal/util"
	"github.com/tucats/ego/internal/verifh"
	"golang.org/x/crypto/bcrypt"
)

// c20Pool is the fixed pool of local users. `send` is the name as typed in Basic credentials
// (the server lower-cases it); `name` is the database key.
var c20Pool = []struct{ name, send, pass string }{
	{"alice", "alice", "pw-alice"},
	{"bob", "bob", "pw-bob"},
	{"carol", "CaRoL", "pw-carol"},
	{"dave", "Dave", "pw-dave"},
}

const c20TokenKey = "verif-c20-token-key-0123456789"

// VerifC20Engine holds the server-side state shared by all cases of one run.
type VerifC20Engine struct {
	rnd       *rand.Rand
	cases     *verifh.Writer
	fails     *verifh.Writer
	stats     *verifh.Stats
	hash      map[string]string // user -> bcrypt(cost 4) of the pool password
	token     map[string]string // user -> valid native token
	tokenID   map[string]uuid.UUID
	expired   string              // correctly encrypted token whose Expires is in the past (alice)
	tampered  string              // alice's token with one ciphertext nibble changed
	revoked   string              // a valid token of bob whose id is on the blacklist
	db        map[string][]string // current user database: user -> permissions
	want      []string            // permissions the current route declares (steers databases and scopes)
	distinct  map[string]bool
	budget    int // remaining expensive (Argon2) credential evaluations
	jwt       *c20JWT
	nfail     int
	perClass  map[string]int
	seqBudget int      // remaining Argon2 evaluations for the request sequences
	history   []string // steps of the running request sequence (zz_verif_c20_seq.go); empty outside sequences
}

// NewVerifC20Engine prepares the user database, the token key, the blacklist store, tokens of
// every kind, and (best effort) the OAuth2 resource-server role with an in-process identity provider.
func NewVerifC20Engine() (*VerifC20Engine, error) {
	e := &VerifC20Engine{
		rnd: verifh.Rand(20), cases: verifh.Out("c20_cases.jsonl"), fails: verifh.Out("c20_failures.jsonl"),
		stats: verifh.NewStats(), hash: map[string]string{}, token: map[string]string{},
		tokenID: map[string]uuid.UUID{}, db: map[string][]string{}, distinct: map[string]bool{}, perClass: map[string]int{},
		budget: 5,
	}

	os.Setenv("EGO_SERVER_TOKEN_KEY", c20TokenKey)
	InitializeValidations()
	settings.SetDefault(defs.ServerAuthoritySetting, "")
	settings.SetDefault(defs.AuthMaxAttemptsSetting, "3")

	svc, err := auth.NewFileService("memory", "c20-default", "")
	if err != nil {
		return nil, err
	}

	auth.AuthService = svc
	_ = svc.DeleteUser(0, "c20-default")

	for _, u := range c20Pool {
		h, err := bcrypt.GenerateFromPassword([]byte(u.pass), bcrypt.MinCost)
		if err != nil {
			return nil, err
		}

		e.hash[u.name] = string(h)
	}

	dir := os.Getenv("VERIF_OUT")
	if dir == "" {
		dir = os.TempDir()
	}

	if err := tokens.SetDatabasePath("sqlite3://" + filepath.Join(dir, "c20_blacklist.db")); err != nil {
		return nil, fmt.Errorf("blacklist store: %v", err)
	}

	instance := uuid.NewString()

	// Every token encryption / decryption is an Argon2id evaluation (32 MiB), which is very slow
	// on a loaded machine: only alice gets a really issued token; the other users present opaque
	// strings that are valid BECAUSE they sit in the token cache (the path of a previously
	// validated token), re-entered before each use so that cache expiry cannot interfere.
	for i, u := range c20Pool {
		if i == 0 {
			t, err := tokens.New(u.name, "", "2h", instance, 0)
			if err != nil {
				return nil, err
			}

			e.token[u.name] = t

			continue
		}

		e.token[u.name] = "c20cached" + hex.EncodeToString([]byte(u.name))
		e.tokenID[u.name] = uuid.New()
	}

	// expired: the real encryption of a token whose lifetime ended a minute ago
	old := tokens.Token{Name: "alice", TokenID: uuid.New(), Created: time.Now().Add(-time.Hour),
		Expires: time.Now().Add(-time.Minute), AuthID: uuid.New()}
	b, _ := json.Marshal(old)

	enc, err := util.Encrypt(string(b), c20TokenKey)
	if err != nil {
		return nil, err
	}

	e.expired = hex.EncodeToString([]byte(enc))

	// tampered: one nibble in the middle of the ciphertext
	t := []byte(e.token["alice"])
	i := len(t) - 9
	if t[i] == '0' {
		t[i] = '1'
	} else {
		t[i] = '0'
	}

	e.tampered = string(t)

	// revoked: issue, learn the id through the real unwrap, then blacklist it
	rv, err := tokens.New("bob", "", "2h", instance, 0)
	if err != nil {
		return nil, err
	}

	tok, err := tokens.Unwrap(rv, 0)
	if err != nil || tok == nil {
		return nil, fmt.Errorf("unwrap of a fresh token failed: %v", err)
	}

	if err := tokens.Blacklist(tok.TokenID.String()); err != nil {
		return nil, fmt.Errorf("blacklist: %v", err)
	}

	e.revoked = rv

	if verifh.Thorough() {
		e.budget = 25
	}
	e.jwt = newC20JWT()

	return e, nil
}

// Finish writes the statistics and closes the result files.
func (e *VerifC20Engine) Finish() {
	e.stats.Add("distinct_nontrivial", len(e.distinct))
	e.stats.Save("c20_stats.json")
	e.cases.Close()
	e.fails.Close()
	e.jwt.close()
	tokens.Close()
	_ = tokens.SetDatabasePath("")
}

// installDB makes the user database exactly `db`.
func (e *VerifC20Engine) installDB(db map[string][]string) {
	for _, u := range c20Pool {
		if perms, ok := db[u.name]; ok {
			_ = auth.AuthService.WriteUser(0, defs.User{Name: u.name, ID: uuid.Nil, Password: e.hash[u.name],
				Permissions: append([]string{}, perms...)})
		} else {
			_ = auth.AuthService.DeleteUser(0, u.name)
		}
	}

	e.db = db
}

// randomDB draws a database in which the holders of `want` (the route's permissions) vary:
// all of them, all but one, case variants, root, nothing.
func (e *VerifC20Engine) randomDB(want []string) map[string][]string {
	db := map[string][]string{}
	extras := []string{"ego.logon", "perm.extra", "EGO.Logon", ""}

	for _, u := range c20Pool {
		if e.rnd.Intn(8) == 0 {
			continue // user absent
		}

		perms := []string{}

		switch e.rnd.Intn(6) {
		case 0: // nothing relevant
		case 1: // root, in some spelling
			perms = append(perms, []string{"ego.root", "EGO.ROOT", "Ego.Root"}[e.rnd.Intn(3)])
		case 2, 3: // everything the route wants
			for _, p := range want {
				perms = append(perms, c20Recase(e.rnd, p))
			}
		default: // a strict subset
			drop := -1
			if len(want) > 0 {
				drop = e.rnd.Intn(len(want))
			}

			for i, p := range want {
				if i != drop && e.rnd.Intn(4) != 0 {
					perms = append(perms, c20Recase(e.rnd, p))
				}
			}
		}

		if e.rnd.Intn(4) != 0 { // most users may log in with a password
			perms = append(perms, []string{"ego.logon", "ego.logon", "EGO.LOGON"}[e.rnd.Intn(3)])
		}

		for e.rnd.Intn(3) == 0 {
			perms = append(perms, extras[e.rnd.Intn(len(extras))])
		}

		e.rnd.Shuffle(len(perms), func(i, j int) { perms[i], perms[j] = perms[j], perms[i] })
		db[u.name] = perms
	}

	return db
}

func c20Recase(r *rand.Rand, s string) string {
	switch r.Intn(4) {
	case 0:
		return strings.ToUpper(s)
	case 1:
		return strings.Title(s) //nolint
	default:
		return s
	}
}

func c20List(l []string) string {
	if len(l) == 0 {
		return "e"
	}

	h := make([]string, len(l))
	for i, s := range l {
		h[i] = verifh.Hex(s)
	}

	return strings.Join(h, ",")
}

// dbField renders the database for the model line (sorted: it comes from a Go map).
func (e *VerifC20Engine) dbField() string {
	if len(e.db) == 0 {
		return "db=e"
	}

	names := make([]string, 0, len(e.db))
	for n := range e.db {
		names = append(names, n)
	}

	sort.Strings(names)

	parts := make([]string, len(names))
	for i, n := range names {
		parts[i] = verifh.Hex(n) + ":" + c20List(e.db[n])
	}

	return "db=" + strings.Join(parts, ";")
}

func c20Basic(user, pass string) string {
	return "Basic " + base64.StdEncoding.EncodeToString([]byte(user+":"+pass))
}

// c20ResetAuthState clears the login-failure records. The token cache is left alone: a valid
// token is unwrapped (Argon2) on first use and is a genuine cache hit afterwards.
func c20ResetAuthState() {
	loginAttemptsMu.Lock()
	for k := range loginAttempts {
		delete(loginAttempts, k)
	}
	loginAttemptsMu.Unlock()
}

var _ = caches.TokenCache
