//go:build verif

package router

// C40 helper for the fuzz-search harness in internal/commands: a read-only dump of the
// server's route table with the declared attributes of every route, so that the request
// generator can aim at each route (declared query parameters and their types, accepted
// media types, permissions). Only built with -tags verif in the scratch copy of the
// repository; never part of /repo.

import (
	"net/http"
	"sort"
)

// VerifC40Route describes one route of the table.
type VerifC40Route struct {
	Endpoint    string
	Method      string
	Parameters  map[string]string
	Accept      []string
	Content     []string
	Permissions []string
	MustAuth    bool
	LightWeight bool
	Redirect    string
	Validations []string
	HasHandler  bool
	Filename    string
}

// VerifC40Routes lists the router's table sorted by (endpoint, method).
func (m *Router) VerifC40Routes() []VerifC40Route {
	m.mutex.Lock()
	defer m.mutex.Unlock()

	t := make([]VerifC40Route, 0, len(m.routes))

	for _, r := range m.routes {
		p := map[string]string{}
		for k, v := range r.parameters {
			p[k] = v
		}

		t = append(t, VerifC40Route{
			Endpoint:    r.endpoint,
			Method:      r.method,
			Parameters:  p,
			Accept:      append([]string{}, r.acceptMediaTypes...),
			Content:     append([]string{}, r.contentMediaTypes...),
			Permissions: append([]string{}, r.requiredPermissions...),
			MustAuth:    r.mustAuthenticate,
			LightWeight: r.lightweight,
			Redirect:    r.redirect,
			Validations: append([]string{}, r.validations...),
			HasHandler:  r.handler != nil,
			Filename:    r.filename,
		})
	}

	sort.Slice(t, func(i, j int) bool {
		if t[i].Endpoint != t[j].Endpoint {
			return t[i].Endpoint < t[j].Endpoint
		}

		return t[i].Method < t[j].Method
	})

	return t
}

// VerifC40Observe wraps every handler of the table so that `ran` is called (with the route's pattern and
// method) each time ServeHTTP dispatches to it. The wrapper adds no recover and changes no argument.
func (m *Router) VerifC40Observe(ran func(endpoint, method string)) {
	m.mutex.Lock()
	defer m.mutex.Unlock()

	for _, r := range m.routes {
		if r.handler == nil {
			continue
		}

		inner, endpoint, method := r.handler, r.endpoint, r.method
		r.handler = func(s *Session, w http.ResponseWriter, req *http.Request) int {
			ran(endpoint, method)

			return inner(s, w, req)
		}
	}
}
