//go:build verif

package router

// C32 correspondence harness and direct oracles on generated route tables.
//
// For every generated (table, method, path) the table is registered through Router.New in
// several fresh routers (shuffled registration order, fresh map seed), the REAL FindRoute is
// called several times on each, and
//   - the answers must all be the same (O1), the chosen route must be eligible on its own and
//     have the fewest variables among the eligible routes (O2, O3)  -- no model involved;
//   - the answer is written as a correspondence case `find <method> <path> <routes…>` that
//     ./check pipes through the Lean model (egodriver C32).

import (
	"math/rand"
	"strings"
	"testing"

	"github.com/tucats/ego/internal/verifh"
)

var c32Lits = []string{"a", "b", "c", "a", "b", "tables", "@sql", "rows", "A", "x-1", "", "é", "a}}", "{x}", "..."}
var c32Vars = []string{"{{x}}", "{{y}}", "{{name}}", "{{x}}", "{{y}}", "{{}}", "{{x", "{{a}}{{b}}"}
var c32Globs = []string{"{{rest...}}", "{{...}}", "{{item...}}"}
var c32RouteMethods = []string{"GET", "GET", "POST", "PUT", "DELETE", "PATCH", "HEAD", "UPDATE", "ANY", "ANY", "", "*", "get", "Post", "any"}
var c32ReqMethods = []string{"GET", "GET", "GET", "POST", "PUT", "DELETE", "get", "Post", "ANY", "HEAD", "BOGUS", ""}

func c32CanonMethod(m string) string {
	if m == "" || m == "*" {
		return AnyMethod
	}

	return strings.ToUpper(m)
}

// a family of patterns over one base path: every pattern matches the base path, so the
// table is full of ambiguity (the situation C32 is about).
func c32GenTable(r *rand.Rand) ([]VerifC32Route, []string) {
	depth := 1 + r.Intn(4)
	base := make([]string, depth)

	for i := range base {
		base[i] = c32Lits[r.Intn(len(c32Lits))]
	}

	keys := map[string]bool{}
	table := []VerifC32Route{}

	add := func(ep, method string) {
		k := ep + "\x00" + c32CanonMethod(method)
		if keys[k] {
			return
		}

		keys[k] = true

		table = append(table, VerifC32Route{Endpoint: ep, Method: method})
	}

	n := 1 + r.Intn(7)
	for i := 0; i < n; i++ {
		var ep string

		switch k := r.Intn(20); {
		case k == 0:
			ep = "/"
		case k == 1:
			ep = []string{"", "//", "a", "/{{x}}", "{{x}}", "/{{rest...}}"}[r.Intn(6)]
		default:
			segs := append([]string{}, base...)
			// lengthen or shorten now and then
			if r.Intn(5) == 0 && len(segs) > 1 {
				segs = segs[:len(segs)-1]
			}

			if r.Intn(5) == 0 {
				segs = append(segs, c32Lits[r.Intn(len(c32Lits))])
			}

			for j := range segs {
				switch r.Intn(5) {
				case 0, 1:
					segs[j] = c32Vars[r.Intn(len(c32Vars))]
				case 2:
					if r.Intn(4) == 0 {
						segs[j] = c32Lits[r.Intn(len(c32Lits))]
					}
				}
			}

			if r.Intn(6) == 0 {
				cut := r.Intn(len(segs))
				segs = append(segs[:cut:cut], c32Globs[r.Intn(len(c32Globs))])

				if r.Intn(6) == 0 {
					segs = append(segs, "tail")
				}
			}

			ep = "/" + strings.Join(segs, "/")
			if r.Intn(3) == 0 {
				ep += "/"
			}

			if r.Intn(25) == 0 {
				ep = strings.TrimPrefix(ep, "/")
			}
		}

		method := c32RouteMethods[r.Intn(len(c32RouteMethods))]
		add(ep, method)

		// the same endpoint under a second method (specific + ANY is the interesting pair)
		if r.Intn(4) == 0 {
			add(ep, c32RouteMethods[r.Intn(len(c32RouteMethods))])
		}

		// the same endpoint with / without the trailing slash: two keys, one normal form
		if r.Intn(6) == 0 && len(ep) > 1 {
			if strings.HasSuffix(ep, "/") {
				add(strings.TrimSuffix(ep, "/"), method)
			} else {
				add(ep+"/", method)
			}
		}
	}

	return table, base
}

func c32GenPaths(r *rand.Rand, table []VerifC32Route, base []string) []string {
	p := "/" + strings.Join(base, "/")
	paths := []string{p}

	if r.Intn(2) == 0 {
		paths = append(paths, p+"/")
	}

	for i := 0; i < 3; i++ {
		segs := append([]string{}, base...)

		switch r.Intn(8) {
		case 0:
			segs = segs[:r.Intn(len(segs)+1)]
		case 1:
			segs = append(segs, c32Lits[r.Intn(len(c32Lits))])
		case 2:
			segs[r.Intn(len(segs))] = c32Lits[r.Intn(len(c32Lits))]
		case 3:
			j := r.Intn(len(segs))
			segs = append(segs[:j:j], append([]string{""}, segs[j:]...)...)
		case 4:
			// the literal text of one of the patterns (exact-match rule, braces in the path)
			e := table[r.Intn(len(table))].Endpoint
			paths = append(paths, e)

			continue
		case 5:
			segs[r.Intn(len(segs))] = "value"
		case 6:
			paths = append(paths, []string{"", "/", "//", "a", "/a", "///"}[r.Intn(6)])

			continue
		case 7:
			segs = append(segs, "p", "q")
		}

		q := "/" + strings.Join(segs, "/")
		if r.Intn(3) == 0 {
			q += "/"
		}

		paths = append(paths, q)
	}

	return paths
}

func c32Many(n int, s string) string { return strings.Repeat(s, n) }

// corpus: the design-round witness and the other tie shapes, run first on every seed
func c32Corpus() []struct {
	table []VerifC32Route
	reqs  [][2]string
} {
	T := func(r ...string) []VerifC32Route {
		t := []VerifC32Route{}
		for i := 0; i+1 < len(r); i += 2 {
			t = append(t, VerifC32Route{Endpoint: r[i+1], Method: r[i]})
		}

		return t
	}

	return []struct {
		table []VerifC32Route
		reqs  [][2]string
	}{
		{T("GET", "/a/{{x}}/c", "GET", "/a/b/{{y}}", "GET", "/a/{{x}}/{{y}}"), [][2]string{{"GET", "/a/b/c"}, {"GET", "/a/b/c/"}, {"GET", "/a/z/c"}, {"GET", "/a"}}},
		{T("GET", "/t/{{x}}", "ANY", "/t/{{x}}", "POST", "/t/{{x}}"), [][2]string{{"GET", "/t/v"}, {"POST", "/t/v"}, {"PUT", "/t/v"}}},
		{T("GET", "/", "GET", "/x"), [][2]string{{"GET", "/x"}, {"GET", "/x/"}, {"POST", "/x"}, {"POST", "/"}, {"GET", "/y"}}},
		{T("GET", "/x", "GET", "/x/"), [][2]string{{"GET", "/x"}, {"GET", "/x/"}}},
		{T("GET", "/a/{{x}}", "GET", "/a/{{y}}/"), [][2]string{{"GET", "/a/b"}, {"GET", "/a"}, {"GET", "/a/b//c"}}},
		{T("GET", "/{{x}}/b", "GET", "/a/{{y}}", "GET", "/{{rest...}}"), [][2]string{{"GET", "/a/b"}, {"GET", "/a"}, {"GET", "/q/r/s"}}},
		{T("GET", "/a/{{x}}/{{y}}", "GET", "/a/{{x}}", "GET", "/a/{{p...}}"), [][2]string{{"GET", "/a"}, {"GET", "/a/b"}, {"GET", "/a/b/c"}}},
		{T("GET", "/s/admin/users/", "ANY", "/s/admin/cache/", "ANY", "/s/admin/"), [][2]string{{"GET", "/s/admin/use"}, {"GET", "/s/admin/users"}, {"ANY", "/s/admin"}, {"GET", ""}}},
		{T("GET", "/v"+c32Many(100, "/{{a}}"), "GET", "/v"+c32Many(101, "/{{a}}"), "GET", "/v"+c32Many(99, "/{{a}}")+"/{{b}}"), [][2]string{{"GET", "/v"}, {"GET", "/v/1"}}},
		{T("GET", "/v"+c32Many(100, "/{{a}}"), "GET", "/v"+c32Many(101, "/{{a}}")), [][2]string{{"GET", "/v"}}},
		{T("GET", "/a}}", "GET", "/{{x}}", "GET", "/{{x}}{{y}}"), [][2]string{{"GET", "/a}}"}, {"GET", "/{{x}}"}, {"GET", "/{{x}}/"}}},
	}
}

func TestVerifC32(t *testing.T) {
	cases := verifh.Out("c32_cases.jsonl")
	fails := verifh.Out("c32_failures.jsonl")
	stats := verifh.NewStats()
	chk := VerifC32NewChecker(fails, stats)

	defer func() {
		cases.Close()
		fails.Close()
		stats.Save("c32_stats.json")
	}()

	r := verifh.Rand(32)

	run := func(table []VerifC32Route, reqs [][2]string, nRouters, calls int, kind string) {
		routers := make([]*Router, nRouters)
		for i := range routers {
			routers[i] = VerifC32Build(table, r.Perm(len(table)))
		}

		// what the model is given: the table as stored (canonical methods), in the first
		// router's own order of the moment
		stored := routers[0].VerifC32Table()
		r.Shuffle(len(stored), func(i, j int) { stored[i], stored[j] = stored[j], stored[i] })
		fields := VerifC32Fields(stored)

		for _, q := range reqs {
			impl, eligible := chk.Check(stored, routers, q[0], q[1], calls)
			cases.Write(verifh.Case{In: "find " + verifh.Hex(q[0]) + " " + verifh.Hex(q[1]) + fields, Impl: impl, Desc: kind})
			stats.Inc("cases." + kind)

			if eligible >= 2 && len(stats.S) < 6 {
				stats.Sample(map[string]string{"request": q[0] + " " + q[1], "table": VerifC32Show(stored), "answer": VerifC32Readable(impl)})
			}
		}
	}

	for _, c := range c32Corpus() {
		run(c.table, c.reqs, 12, 6, "corpus")
	}

	n := verifh.N(8000, 60000)
	for i := 0; i < n; i++ {
		table, base := c32GenTable(r)
		paths := c32GenPaths(r, table, base)
		reqs := make([][2]string, 0, len(paths)+1)

		for _, p := range paths {
			reqs = append(reqs, [2]string{c32ReqMethods[r.Intn(len(c32ReqMethods))], p})
		}

		// the method of one of the routes, so that specific-vs-ANY pairs are hit
		reqs = append(reqs, [2]string{c32CanonMethod(table[r.Intn(len(table))].Method), paths[0]})

		run(table, reqs, 3, 3, "gen")
	}
}
