//go:build verif

package router

import (
	"strings"
	"time"

	"github.com/google/uuid"
	"github.com/tucats/ego/internal/caches"
	"github.com/tucats/ego/internal/language/tokens"
	"github.com/tucats/ego/internal/verifh"
)

// c20Cred is one credential form, with what is known about it BY CONSTRUCTION (never read
// back from the server): whether it proves an identity, which one, and the model's verdict field.
type c20Cred struct {
	form      string   // stable label of the form
	header    string   // Authorization header ("" = absent)
	payload   string   // JSON body carrying credentials (logon style), when header is absent
	model     string   // cred=… field of the model line
	authentic bool     // proves an identity
	user      string   // that identity
	perms     []string // permissions of that identity (database entry or JWT claims)
	prep      func()   // server-side state to arrange just before the request
	costly    bool     // needs an Argon2 evaluation
}

// canLogin: auth.ValidatePassword accepts the right password only of an existing user who holds
// the logon (or root) permission.
func (e *VerifC20Engine) canLogin(u string) bool {
	perms, ok := e.db[u]

	return ok && (c20HasCI(perms, "ego.logon") || c20HasCI(perms, "ego.root"))
}

// basicCred: Basic credentials with the right password; authentic iff the user may log in.
func (e *VerifC20Engine) basicCred(i int) c20Cred {
	u := c20Pool[i]
	ok := e.canLogin(u.name)
	c := c20Cred{form: "basic-valid", header: c20Basic(u.send, u.pass),
		model: "cred=basic:" + verifh.Hex(u.send) + ":0" + c20Bit(ok), authentic: ok, user: u.name, perms: e.db[u.name]}

	if !ok {
		c.form = "basic-no-logon-or-deleted"
		c.perms = nil
	}

	return c
}

func c20Bit(b bool) string {
	if b {
		return "1"
	}

	return "0"
}

// tokenCred: the user's valid native token. A token stays valid when its user is deleted
// (the identity then holds nothing).
func (e *VerifC20Engine) tokenCred(i int, scheme string, uncached bool) c20Cred {
	u := c20Pool[i]
	tok := e.token[u.name]
	c := c20Cred{form: "token-valid", header: scheme + tok, model: "cred=tok:" + verifh.Hex(u.name),
		authentic: true, user: u.name, perms: e.db[u.name]}

	if i != 0 {
		// previously validated token: present in the cache with an unexpired lifetime
		c.form = "token-valid-cached"
		id := e.tokenID[u.name]
		c.prep = func() {
			caches.Add(caches.TokenCache, tok, &tokens.Token{Name: u.name, TokenID: id, Expires: time.Now().Add(time.Hour)})
		}
	} else if uncached {
		c.form = "token-valid-uncached"
		c.costly = true
		c.prep = func() { caches.Delete(caches.TokenCache, tok) }
	}

	return c
}

// credForms lists every credential form for the current database. Costly forms are included
// while the budget lasts.
func (e *VerifC20Engine) credForms(checkCredentials bool) []c20Cred {
	r := e.rnd
	who := r.Intn(len(c20Pool))
	u := c20Pool[who]
	fail := func(form, header string) c20Cred { return c20Cred{form: form, header: header, model: "cred=tokfail"} }
	mal := func(form, header string) c20Cred { return c20Cred{form: form, header: header, model: "cred=bmal"} }
	wrong := func(form, name, pass string) c20Cred {
		return c20Cred{form: form, header: c20Basic(name, pass), model: "cred=basic:" + verifh.Hex(name) + ":00"}
	}

	forms := []c20Cred{
		{form: "none", model: "cred=none"},
		mal("basic-bad-base64", "Basic !!!not-base64!!!"),
		mal("basic-no-colon", "Basic YWxpY2U="),
		mal("unknown-scheme", "Digest username=\"alice\""),
		mal("bearer-no-space", "Bearer"),
		mal("basic-bare", "Basic"),
		wrong("basic-wrong-password", u.send, u.pass+"x"),
		wrong("basic-empty-password", u.send, ""),
		wrong("basic-unknown-user", "mallory", "pw-mallory"),
		wrong("basic-password-of-another", u.send, c20Pool[(who+1)%len(c20Pool)].pass),
		fail("token-not-hex", "Bearer zz-not-a-token"),
		fail("token-short-hex", "Bearer abcdef0123"),
		fail("token-empty", "Bearer "),
		fail("token-two-dots", "Bearer a.b"),
	}

	// locked out: enough recorded failures, then the CORRECT password
	lu := c20Pool[r.Intn(len(c20Pool))]
	forms = append(forms, c20Cred{form: "basic-locked-out", header: c20Basic(lu.send, lu.pass),
		model: "cred=basic:" + verifh.Hex(lu.send) + ":1" + c20Bit(e.canLogin(lu.name)),
		prep: func() {
			for i := 0; i < 3; i++ {
				RecordFailure(0, lu.name)
			}
		}})

	// a cache entry that has outlived its token: must be evicted, not honoured
	stale := "deadbeef" + c20HexOf(r.Int63())
	forms = append(forms, c20Cred{form: "token-cached-expired", header: "Bearer " + stale, model: "cred=tokfail",
		prep: func() {
			caches.Add(caches.TokenCache, stale, &tokens.Token{Name: "alice", TokenID: uuid.New(),
				Expires: time.Now().Add(-time.Second)})
		}})

	for i := range c20Pool {
		forms = append(forms, e.basicCred(i))
	}

	forms = append(forms, e.tokenCred(0, "Bearer ", false), e.tokenCred(1+r.Intn(len(c20Pool)-1), "Bearer ", false),
		e.tokenCred(r.Intn(len(c20Pool)), []string{"bearer ", "BEARER ", "BeArEr "}[r.Intn(3)], false))

	if checkCredentials {
		pu := c20Pool[r.Intn(len(c20Pool))]
		ok := e.canLogin(pu.name)
		forms = append(forms,
			c20Cred{form: "payload-valid", payload: `{"username":"` + pu.send + `","password":"` + pu.pass + `"}`,
				model: "cred=basic:" + verifh.Hex(pu.send) + ":0" + c20Bit(ok), authentic: ok, user: pu.name, perms: e.db[pu.name]},
			c20Cred{form: "payload-wrong-password", payload: `{"username":"` + pu.send + `","password":"nope"}`,
				model: "cred=basic:" + verifh.Hex(pu.send) + ":00"},
			c20Cred{form: "payload-garbage", payload: `{"username":`, model: "cred=none"})
	}

	forms = append(forms, e.jwt.forms(e)...)

	if e.budget > 0 {
		costly := []c20Cred{
			e.tokenCred(0, "Bearer ", true),
			{form: "token-expired", header: "Bearer " + e.expired, model: "cred=tokfail", costly: true},
			{form: "token-tampered", header: "Bearer " + e.tampered, model: "cred=tokfail", costly: true},
			{form: "token-revoked", header: "Bearer " + e.revoked, model: "cred=tokfail", costly: true},
			{form: "token-truncated", header: "Bearer " + e.token["alice"][:len(e.token["alice"])-8], model: "cred=tokfail", costly: true},
		}
		pick := costly[e.budget%len(costly)] // every costly form in turn
		forms = append(forms, pick)
		e.budget--
	}

	return forms
}

func c20HexOf(n int64) string {
	const d = "0123456789abcdef"

	var b strings.Builder
	for i := 0; i < 12; i++ {
		b.WriteByte(d[n&15])
		n >>= 4
	}

	return b.String()
}
