//go:build verif

package util

// C19 correspondence harness and direct oracle.
//
//  * stream "tok": token-structured JSON-like texts (strings with escapes, backslashes,
//    quotes, Unicode spaces; gaps of Unicode whitespace) and a malformed stream of raw
//    strings; JSONMinify's answer is compared with the Lean model's.
//  * stream "val": random Go values through WriteJSON (gzip accepted or not, several
//    thresholds); the response must decode to the value (direct oracle, no model), and
//    the compress/plain decision is compared with the model's compressDecision.
//  * stream "wr" (zz_verif_c19_writers_test.go): hostile values (escape lookalikes, backslashes,
//    invalid UTF-8, extreme numbers, structs, raw JSON) through WriteJSON, ErrorResponse and the
//    composed MarshalIndent+JSONMinify+WriteMaybeCompressed path; direct oracle only.

import (
	"bytes"
	"compress/gzip"
	"encoding/json"
	"fmt"
	"io"
	"math/rand"
	"net/http"
	"net/http/httptest"
	"reflect"
	"runtime"
	"strconv"
	"strings"
	"testing"
	"unicode/utf8"

	"github.com/tucats/ego/internal/cli/settings"
	"github.com/tucats/ego/internal/defs"
	egostrings "github.com/tucats/ego/internal/util/strings"
	"github.com/tucats/ego/internal/verifh"
)

var c19Spaces = []string{" ", "\t", "\n", "\r", "\v", "\f", "\u0085", " ", " ", "　", " "}
var c19Plain = []rune{'a', 'z', ' ', '\t', ' ', ':', ',', '{', '}', '[', ']', 'é', '世', ' ', '/', '1', '-', '\'', 'n', 'u'}
var c19Esc = []rune{'"', '\\', 'n', 't', 'u', '/', 'b', ' ', '"', '\\'}
var c19Atoms = []rune{'{', '}', '[', ']', ':', ',', '1', '0', '-', '.', 'e', 't', 'r', 'u', 'n', 'l', 'f', 'a', 's', '+'}

func c19GenTokText(r *rand.Rand) (padded string, tight string, nontrivial bool) {
	var p, t strings.Builder

	gap := func() {
		for r.Intn(3) == 0 {
			p.WriteString(c19Spaces[r.Intn(len(c19Spaces))])
		}
	}

	n := r.Intn(12)
	for i := 0; i < n; i++ {
		gap()

		if r.Intn(2) == 0 {
			var s strings.Builder

			s.WriteByte('"')

			m := r.Intn(8)
			for j := 0; j < m; j++ {
				if r.Intn(3) == 0 {
					s.WriteByte('\\')
					s.WriteRune(c19Esc[r.Intn(len(c19Esc))])

					nontrivial = true
				} else {
					c := c19Plain[r.Intn(len(c19Plain))]
					if c == ' ' || c == '\t' {
						nontrivial = true
					}

					s.WriteRune(c)
				}
			}

			s.WriteByte('"')
			p.WriteString(s.String())
			t.WriteString(s.String())
		} else {
			c := c19Atoms[r.Intn(len(c19Atoms))]
			p.WriteRune(c)
			t.WriteRune(c)
		}
	}

	gap()

	return p.String(), t.String(), nontrivial
}

func c19GenRaw(r *rand.Rand) string {
	alphabet := []rune{'"', '\\', ' ', '\n', 'a', '{', ':', ' ', '世', '\t', ','}

	var b strings.Builder

	n := r.Intn(16)
	for i := 0; i < n; i++ {
		b.WriteRune(alphabet[r.Intn(len(alphabet))])
	}

	return b.String()
}

func c19GenString(r *rand.Rand) string {
	alphabet := []string{"\\", "\"", " ", "  ", "\t", "\n", "a", "b", "é", "世", " ", " ", "<", "&", "\x00", "\x1f", "/", "\\\\", "\\\"", "x y", "\r\n"}

	var b strings.Builder

	n := r.Intn(6)
	for i := 0; i < n; i++ {
		b.WriteString(alphabet[r.Intn(len(alphabet))])
	}

	return b.String()
}

func c19GenValue(r *rand.Rand, depth int) any {
	k := r.Intn(8)
	if depth <= 0 && k >= 6 {
		k = r.Intn(6)
	}

	switch k {
	case 0:
		return nil
	case 1:
		return r.Intn(2) == 0
	case 2:
		return float64(r.Intn(2000000)-1000000) / float64([]int{1, 1, 4, 1000}[r.Intn(4)])
	case 3, 4, 5:
		return c19GenString(r)
	case 6:
		n := r.Intn(4)
		a := make([]any, n)

		for i := range a {
			a[i] = c19GenValue(r, depth-1)
		}

		return a
	default:
		n := r.Intn(4)
		m := map[string]any{}

		for i := 0; i < n; i++ {
			m[c19GenString(r)] = c19GenValue(r, depth-1)
		}

		return m
	}
}

func TestVerifC19(t *testing.T) {
	cases := verifh.Out("c19_cases.jsonl")
	fails := verifh.Out("c19_failures.jsonl")
	stats := verifh.NewStats()

	defer func() {
		cases.Close()
		fails.Close()
		stats.Save("c19_stats.json")
	}()

	seen := map[string]bool{}
	r := verifh.Rand(19)

	emitMin := func(in string, kind string) string {
		got := egostrings.JSONMinify(in)
		cases.Write(verifh.Case{In: "min " + verifh.Hex(in), Impl: verifh.Hex(got), Desc: kind})
		stats.Inc("min." + kind)

		return got
	}

	// corpus of past / seeded failures first
	for _, in := range []string{
		`{"a": "x\\", "b": "y z"}`, `["\\\\", "a b"]`, `{"k\\": " "}`, `"\\\" \\\\" , " "`, "{ \"a b\" : 1 }",
	} {
		got := emitMin(in, "corpus")

		var a, b any
		if json.Unmarshal([]byte(in), &a) == nil {
			if err := json.Unmarshal([]byte(got), &b); err != nil || !reflect.DeepEqual(a, b) {
				fails.Write(verifh.Failure{Class: "minify-alters-value", What: "JSONMinify output decodes to a different value", Input: in, Got: got})
			}
		}
	}

	n := verifh.N(6000, 400000)
	for i := 0; i < n; i++ {
		padded, tight, nontrivial := c19GenTokText(r)
		got := emitMin(padded, "tok")

		if nontrivial && !seen[padded] {
			seen[padded] = true

			stats.Inc("distinct_nontrivial")
		}

		if got != tight {
			fails.Write(verifh.Failure{Class: "minify-alters-tokens", What: "JSONMinify changed a token of a whitespace-padded token text", Input: padded, Got: got, Want: tight})
		}

		if i < 3 {
			stats.Sample(map[string]string{"input": padded, "minified": got})
		}

		if i%4 == 0 {
			raw := c19GenRaw(r)
			if utf8.ValidString(raw) {
				emitMin(raw, "raw")
			}
		}
	}

	// value level, through the real response writer
	nv := verifh.N(1500, 60000)
	thresholds := []string{"", "0", "1", "16", "64", "4096", "-5", "abc"}

	for i := 0; i < nv; i++ {
		v := c19GenValue(r, 3)
		if i%50 == 0 {
			// a large body so that the default threshold is reached
			big := make([]any, 300)
			for j := range big {
				big[j] = map[string]any{"name": c19GenString(r), "value\\": "a b\\"}
			}

			v = big
		}

		th := thresholds[r.Intn(len(thresholds))]
		settings.Set(defs.ServerCompressionThresholdSetting, th)

		accepts := r.Intn(2) == 0
		rec := httptest.NewRecorder()
		length := 0
		pretty := WriteJSON(rec, ResponseInfo{SessionID: 1, AcceptsGzip: accepts, Length: &length}, 200, v)

		body := rec.Body.Bytes()
		encoded := rec.Header().Get("Content-Encoding") == "gzip"
		plain := body

		if encoded {
			zr, err := gzip.NewReader(bytes.NewReader(body))
			if err == nil {
				plain, err = io.ReadAll(zr)
			}

			if err != nil {
				fails.Write(verifh.Failure{Class: "gzip-undecodable", What: "compressed response cannot be decoded", Input: string(pretty)})

				continue
			}

			if !accepts {
				fails.Write(verifh.Failure{Class: "gzip-not-accepted", What: "compressed response sent to a client that does not accept gzip", Input: string(pretty)})
			}
		}

		want, _ := json.Marshal(v)

		var a, b any

		_ = json.Unmarshal(want, &a)

		if err := json.Unmarshal(plain, &b); err != nil || !reflect.DeepEqual(a, b) {
			fails.Write(verifh.Failure{Class: "response-alters-value", What: "response body decodes to a different JSON value than the handler produced", Input: string(want), Got: string(plain)})
		}

		stats.Inc("val")

		if encoded {
			stats.Inc("val.gzip")
		}

		// correspondence of the compress decision: the model gets the sizes the real gzip produced
		minified := egostrings.JSONMinify(string(pretty))

		gl := "fail"
		if zb, err := gzipBytes([]byte(minified)); err == nil {
			gl = strconv.Itoa(len(zb))
		}

		acc := "0"
		if accepts {
			acc = "1"
		}

		impl := "plain"
		if encoded {
			impl = "gzip"
		}

		cases.Write(verifh.Case{
			In:   fmt.Sprintf("resp %d %s %d %s", CompressionThreshold(), acc, len(minified), gl),
			Impl: impl, Desc: "threshold setting " + strconv.Quote(th),
		})
	}

	// ---- hostile handler values through every JSON response writer of the package (zz_verif_c19_writers_test.go)
	c19WriterStream(verifh.Rand(1919), cases, fails, stats)

	// ---- overlapping responses: a client that is slow to take its bytes must still get its own
	// data while other responses are produced meanwhile (the payload handed to Write must not be
	// storage that a later response reuses). Deterministic: writer A stalls half way through
	// Write, a second full response B is produced, then A completes.
	settings.Set(defs.ServerCompressionThresholdSetting, "64")

	prevProcs := runtime.GOMAXPROCS(1)
	no := verifh.N(60, 1500)

	for i := 0; i < no; i++ {
		mk := func(tag string) []any {
			rows := make([]any, 40+r.Intn(40))
			for j := range rows {
				rows[j] = map[string]any{"who": tag, "n": j, "text": c19GenString(r) + tag}
			}

			return rows
		}

		va, vb := mk(fmt.Sprintf("A%d", i)), mk(fmt.Sprintf("B%d", i))
		slow := &c19SlowWriter{header: http.Header{}, stall: make(chan struct{}), resume: make(chan struct{})}
		done := make(chan struct{})

		go func() {
			WriteJSON(slow, ResponseInfo{SessionID: 2, AcceptsGzip: true}, 200, va)
			close(done)
		}()

		<-slow.stall // A is inside Write, half of its payload taken

		recB := httptest.NewRecorder()
		WriteJSON(recB, ResponseInfo{SessionID: 3, AcceptsGzip: true}, 200, vb)
		close(slow.resume)
		<-done

		for _, c := range []struct {
			name string
			enc  bool
			body []byte
			v    any
		}{{"slow", slow.header.Get("Content-Encoding") == "gzip", slow.buf.Bytes(), va},
			{"second", recB.Header().Get("Content-Encoding") == "gzip", recB.Body.Bytes(), vb}} {
			plain := c.body

			if c.enc {
				zr, err := gzip.NewReader(bytes.NewReader(c.body))
				if err == nil {
					plain, err = io.ReadAll(zr)
				}

				if err != nil {
					fails.Write(verifh.Failure{Class: "overlap-undecodable", What: "with two responses in flight the " + c.name + " client's compressed body does not decode", Input: fmt.Sprintf("round %d", i), Got: err.Error()})

					continue
				}
			}

			want, _ := json.Marshal(c.v)

			var a, b any

			_ = json.Unmarshal(want, &a)

			if err := json.Unmarshal(plain, &b); err != nil || !reflect.DeepEqual(a, b) {
				fails.Write(verifh.Failure{Class: "overlap-wrong-data", What: "with two responses in flight the " + c.name + " client received data that is not what its handler produced", Input: fmt.Sprintf("round %d", i)})
			}
		}

		stats.Inc("overlap")
	}

	runtime.GOMAXPROCS(prevProcs)
	settings.Set(defs.ServerCompressionThresholdSetting, "")
}

// c19SlowWriter is a ResponseWriter whose Write takes the first half of p, lets the test do other
// work, and then takes the rest.
type c19SlowWriter struct {
	header http.Header
	buf    bytes.Buffer
	stall  chan struct{}
	resume chan struct{}
	once   bool
}

func (w *c19SlowWriter) Header() http.Header { return w.header }
func (w *c19SlowWriter) WriteHeader(int)     {}
func (w *c19SlowWriter) Write(p []byte) (int, error) {
	if w.once || len(p) < 2 {
		return w.buf.Write(p)
	}

	w.once = true
	half := len(p) / 2
	w.buf.Write(p[:half])
	close(w.stall)
	<-w.resume
	w.buf.Write(p[half:])

	return len(p), nil
}
