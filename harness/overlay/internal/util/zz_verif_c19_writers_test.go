//go:build verif

package util

// C19, stream "wr": hostile handler VALUES through every writer of this package that produces a
// JSON response body, with the model-free oracle
//
//	decode(gunzip(body))  ==  decode(encoding/json.Marshal(value))
//
// (numbers compared as their literal text, so no precision is forgiven). The writers are
//
//	WriteJSON                      MarshalIndent + JSONMinify + WriteMaybeCompressed (minified, gzip or not)
//	ErrorResponse                  MarshalIndent, written as is (not minified, never compressed)
//	the composed path the router's handlers spell out themselves
//	                               MarshalIndent + JSONMinify + WriteMaybeCompressed(contentType, …)
//
// The values are nested maps / slices / structs whose strings (and map keys) are built from
// fragments that are hostile to any step that treats the marshalled text as plain bytes: literal
// backslashes, text that LOOKS like a JSON escape (backslash-n, backslash-quote, backslash-u-0-0-3-c … as characters),
// quotes, control characters, HTML-significant characters, U+2028/9, non-ASCII, invalid UTF-8,
// whitespace runs and JSON punctuation; numbers at the limits of int64 / uint64 / float64 and
// json.Number literals beyond them. A failing value is shrunk (children, then string runes) before
// it is reported, so the replay file names a minimal input.
//
// The marshalled texts also go to the Lean model of JSONMinify as "min" correspondence lines.

import (
	"bytes"
	"compress/gzip"
	"encoding/json"
	"fmt"
	"io"
	"math"
	"math/rand"
	"net/http/httptest"
	"reflect"
	"strings"

	"github.com/tucats/ego/internal/cli/settings"
	"github.com/tucats/ego/internal/cli/ui"
	"github.com/tucats/ego/internal/defs"
	egostrings "github.com/tucats/ego/internal/util/strings"
	"github.com/tucats/ego/internal/verifh"
)

// Text that looks like a JSON (or other) escape sequence; used as LITERAL characters.
// (The backslash-u forms are assembled from their hex digits so that this file contains no such sequence itself.)
var c19EscapeLookalikes = func() []string {
	out := []string{`\n`, `\t`, `\r`, `\b`, `\f`, `\"`, `\\`, `\/`, `\'`, `\0`, `\x41`, `\U0001F600`,
		`&lt;`, `&gt;`, `&amp;`, `&#34;`, `%3C`, `%22`, `%5C`}

	for _, h := range []string{"", "00", "0000", "000a", "001f", "0022", "0026", "0027", "003c", "003C", "003e", "003E",
		"005c", "007f", "00e9", "2028", "2029", "fffd", "d83d", "D83D", "dc00"} {
		out = append(out, `\`+"u"+h)
	}

	return append(out, `\`+"ud83d"+`\`+"ude00")
}()

// The characters those sequences would stand for, and other characters encoding/json treats specially.
var c19Specials = func() []string {
	out := []string{"<", ">", "&", "'", "\"", "\\", "/", "\x00", "\x01", "\x08", "\x0c", "\x1f", "\x7f",
		"\xff", "\xc3", "\xe4\xb8", "\xed\xa0\x80", "\xf8\x88"} // the last five: invalid UTF-8

	for _, c := range []rune{0x85, 0xA0, 0xE9, 0x4E16, 0x2028, 0x2029, 0xFEFF, 0xFFFD, 0x1F600, 0x10FFFF} {
		out = append(out, string(c))
	}

	return out
}()

var c19Fillers = []string{
	" ", "  ", "\t", "\n", "\r\n", "a", "Z", "u", "00", "3c", "26", "x y", "null", "true", "1e5", "-0",
	"{", "}", "[", "]", ":", ",", `": "`, `", "`, `{"a": "b c"}`, "</script>", "<!--", "C:", "select * from t where a < 5 && b > 2",
}

func c19HostileString(r *rand.Rand) string {
	var b strings.Builder

	n := r.Intn(7)
	for i := 0; i < n; i++ {
		switch r.Intn(6) {
		case 0, 1:
			// optionally with extra literal backslashes in front
			b.WriteString(strings.Repeat(`\`, []int{0, 0, 0, 1, 2, 3}[r.Intn(6)]))
			b.WriteString(c19EscapeLookalikes[r.Intn(len(c19EscapeLookalikes))])
		case 2:
			// backslash-u followed by four arbitrary hex digits
			fmt.Fprintf(&b, []string{`\u%04x`, `\u%04X`, `\\u%04x`}[r.Intn(3)], []int{r.Intn(0x80), r.Intn(0x10000)}[r.Intn(2)])
		case 3, 4:
			b.WriteString(c19Specials[r.Intn(len(c19Specials))])
		default:
			b.WriteString(c19Fillers[r.Intn(len(c19Fillers))])
		}
	}

	return b.String()
}

func c19HostileNumber(r *rand.Rand) any {
	switch r.Intn(12) {
	case 0:
		return int64(math.MaxInt64)
	case 1:
		return int64(math.MinInt64)
	case 2:
		return uint64(math.MaxUint64)
	case 3:
		return int64(1<<53 + 1 + r.Intn(1000))
	case 4:
		return math.MaxFloat64
	case 5:
		return math.SmallestNonzeroFloat64
	case 6:
		return []float64{1e20, 1e21, -1e21, 1e-6, 1e-7, 123456789.125, math.Copysign(0, -1), 0.1}[r.Intn(8)]
	case 7:
		return float32(math.MaxFloat32)
	case 8:
		return json.Number([]string{"123456789012345678901234567890", "-0", "1e400", "-1E-400", "0.000000000000000000000000001", "1E+2", "18446744073709551616"}[r.Intn(7)])
	case 9:
		return r.Int63() - r.Int63()
	case 10:
		return r.NormFloat64() * math.Pow(10, float64(r.Intn(600)-300))
	default:
		return r.Intn(2000) - 1000
	}
}

// c19Row is a typical handler reply shape: tagged fields, omitempty, nested containers, raw JSON.
type c19Row struct {
	Name string            `json:"name"`
	Text string            `json:"text,omitempty"`
	Tags []string          `json:"tags"`
	Attr map[string]string `json:"attr,omitempty"`
	N    int64             `json:"n"`
	U    uint64            `json:"u,omitempty"`
	F    float64           `json:"f"`
	Raw  json.RawMessage   `json:"raw,omitempty"`
	Any  any               `json:"any"`
	Ptr  *string           `json:"ptr"`
}

func c19HostileValue(r *rand.Rand, depth int) any {
	k := r.Intn(14)
	if depth <= 0 && k >= 7 {
		k = r.Intn(7)
	}

	switch k {
	case 0:
		return []any{nil, true, false}[r.Intn(3)]
	case 1:
		return c19HostileNumber(r)
	case 2, 3, 4, 5, 6:
		return c19HostileString(r)
	case 7:
		a := make([]any, r.Intn(4))
		for i := range a {
			a[i] = c19HostileValue(r, depth-1)
		}

		return a
	case 8, 9:
		m := map[string]any{}
		for i := r.Intn(4); i > 0; i-- {
			m[c19HostileString(r)] = c19HostileValue(r, depth-1)
		}

		return m
	case 10:
		a := make([]string, r.Intn(4))
		for i := range a {
			a[i] = c19HostileString(r)
		}

		return a
	case 11:
		m := map[string]string{}
		for i := r.Intn(4); i > 0; i-- {
			m[c19HostileString(r)] = c19HostileString(r)
		}

		return m
	case 12:
		return defs.RestStatusResponse{ServerInfo: MakeServerInfo(r.Intn(100)), Status: 100 + r.Intn(500), Message: c19HostileString(r)}
	default:
		row := c19Row{Name: c19HostileString(r), Text: c19HostileString(r), N: r.Int63() - r.Int63(), F: r.NormFloat64(), Any: c19HostileValue(r, depth-1)}

		for i := r.Intn(3); i > 0; i-- {
			row.Tags = append(row.Tags, c19HostileString(r))
		}

		if r.Intn(2) == 0 {
			row.Attr = map[string]string{c19HostileString(r): c19HostileString(r)}
		}

		if r.Intn(2) == 0 {
			s := c19HostileString(r)
			row.Ptr = &s
		}

		if r.Intn(2) == 0 {
			// pre-encoded JSON handed through, written with or without encoding/json's HTML escaping
			var raw bytes.Buffer

			e := json.NewEncoder(&raw)
			e.SetEscapeHTML(r.Intn(2) == 0)

			if r.Intn(2) == 0 {
				e.SetIndent("", "  ")
			}

			if e.Encode(c19HostileValue(r, depth-1)) == nil {
				row.Raw = json.RawMessage(raw.Bytes())
			}
		}

		return row
	}
}

// c19Decode decodes exactly one JSON value (numbers kept as their text) and rejects trailing data.
func c19Decode(b []byte) (any, error) {
	var v, extra any

	d := json.NewDecoder(bytes.NewReader(b))
	d.UseNumber()

	if err := d.Decode(&v); err != nil {
		return nil, err
	}

	if err := d.Decode(&extra); err != io.EOF {
		return nil, fmt.Errorf("data after the JSON value")
	}

	return v, nil
}

// c19Writer is one way a handler's value becomes a response body.
type c19Writer struct {
	name  string
	class string
	// send writes v as a response on rec. It returns the value the client is entitled to
	// (v itself, or the reply structure documented to wrap it) and false if v cannot be sent this way.
	send func(rec *httptest.ResponseRecorder, accepts bool, v any) (any, bool)
}

func c19Writers() []c19Writer {
	return []c19Writer{
		{"WriteJSON", "response-alters-value", func(rec *httptest.ResponseRecorder, accepts bool, v any) (any, bool) {
			length := 0
			WriteJSON(rec, ResponseInfo{SessionID: 4, AcceptsGzip: accepts, Length: &length}, 200, v)

			return v, true
		}},
		{"ErrorResponse", "error-response-alters-value", func(rec *httptest.ResponseRecorder, accepts bool, v any) (any, bool) {
			// the message is documented to lose postgres driver prefixes; such messages are not generated
			msg, ok := v.(string)
			if !ok || strings.Contains(msg, "pq: ") {
				return nil, false
			}

			status := 100 + len(msg)%500
			ErrorResponse(rec, 5, msg, status)

			return defs.RestStatusResponse{ServerInfo: MakeServerInfo(5), Message: msg, Status: status}, true
		}},
		{"MarshalIndent+JSONMinify+WriteMaybeCompressed", "composed-response-alters-value", func(rec *httptest.ResponseRecorder, accepts bool, v any) (any, bool) {
			b, err := json.MarshalIndent(v, ui.JSONIndentPrefix, ui.JSONIndentSpacer)
			if err != nil {
				return nil, false
			}

			_, _ = WriteMaybeCompressed(rec, ResponseInfo{SessionID: 6, AcceptsGzip: accepts}, 200, defs.JSONMediaType, []byte(egostrings.JSONMinify(string(b))))

			return v, true
		}},
	}
}

// c19Deliver sends v through w and says what is wrong with what the client receives ("" = nothing).
func c19Deliver(w c19Writer, accepts bool, v any) (problem, got, want string, gz, sent bool) {
	rec := httptest.NewRecorder()

	entitled, ok := w.send(rec, accepts, v)
	if !ok {
		return "", "", "", false, false
	}

	ref, err := json.Marshal(entitled)
	if err != nil {
		return "", "", "", false, false // not a value a handler can send
	}

	wantV, err := c19Decode(ref)
	if err != nil {
		return "", "", "", false, false
	}

	plain := rec.Body.Bytes()
	gz = rec.Header().Get("Content-Encoding") == "gzip"

	if gz {
		if !accepts {
			return "compressed response sent to a client that does not accept gzip", "", string(ref), gz, true
		}

		zr, err := gzip.NewReader(bytes.NewReader(plain))
		if err == nil {
			plain, err = io.ReadAll(zr)
		}

		if err != nil {
			return "compressed response cannot be decoded", err.Error(), string(ref), gz, true
		}
	}

	gotV, err := c19Decode(plain)
	if err != nil {
		return "response body is not JSON (" + err.Error() + ")", string(plain), string(ref), gz, true
	}

	if !reflect.DeepEqual(gotV, wantV) {
		return "response body decodes to a different JSON value than the handler produced", string(plain), string(ref), gz, true
	}

	return "", "", "", gz, true
}

// c19Children lists strictly smaller values to try in place of v.
func c19Children(v any) []any {
	var out []any

	switch x := v.(type) {
	case []any:
		out = append(out, x...)
	case map[string]any:
		for k, e := range x {
			out = append(out, e, k)
		}
	case []string:
		for _, s := range x {
			out = append(out, s)
		}
	case map[string]string:
		for k, e := range x {
			out = append(out, e, k)
		}
	case defs.RestStatusResponse:
		out = append(out, x.Message)
	case c19Row:
		out = append(out, x.Name, x.Text, x.Tags, x.Attr, x.Any)
		if x.Ptr != nil {
			out = append(out, *x.Ptr)
		}

		if x.Raw != nil {
			var inner any
			if json.Unmarshal(x.Raw, &inner) == nil {
				out = append(out, inner) // the value the raw text encodes, sent the ordinary way
			}

			if !reflect.DeepEqual(x, c19Row{Raw: x.Raw}) {
				out = append(out, c19Row{Raw: x.Raw})
			}
		}
	case string:
		rs := []rune(x)
		if string(rs) != x {
			// invalid UTF-8: shrink by bytes
			for i := 0; i < len(x); i++ {
				out = append(out, x[:i]+x[i+1:])
			}

			break
		}

		for i := range rs {
			out = append(out, string(rs[:i])+string(rs[i+1:]))
		}
	}

	return out
}

func c19Shrink(v any, bad func(any) bool) any {
	for steps := 0; steps < 10000; steps++ {
		next := any(nil)
		found := false

		for _, c := range c19Children(v) {
			if bad(c) {
				next, found = c, true

				break
			}
		}

		if !found {
			break
		}

		v = next
	}

	return v
}

func c19WriterStream(r *rand.Rand, cases, fails *verifh.Writer, stats *verifh.Stats) {
	writers := c19Writers()
	thresholds := []string{"", "0", "1", "16", "64", "4096", "-5", "abc"}
	seen := map[string]bool{}
	reported, shrunk, distinct := map[string]int{}, map[string]int{}, map[string]bool{}

	try := func(v any) {
		th := thresholds[r.Intn(len(thresholds))]
		settings.Set(defs.ServerCompressionThresholdSetting, th)

		accepts := r.Intn(2) == 0

		for _, w := range writers {
			problem, got, want, gz, sent := c19Deliver(w, accepts, v)
			if !sent {
				continue
			}

			stats.Inc("wr." + w.name)

			if gz {
				stats.Inc("wr.gzip")
			}

			if problem == "" {
				continue
			}

			class := w.class
			if strings.HasPrefix(problem, "compressed response sent") {
				class = "gzip-not-accepted"
			} else if strings.HasPrefix(problem, "compressed response cannot") {
				class = "gzip-undecodable"
			}

			if reported[class] >= 5 || shrunk[class] >= 40 {
				continue
			}

			shrunk[class]++

			small := c19Shrink(v, func(c any) bool {
				p, _, _, _, s := c19Deliver(w, accepts, c)

				return s && p != ""
			})

			if p, g, wnt, _, s := c19Deliver(w, accepts, small); s && p != "" {
				problem, got, want = p, g, wnt
			} else {
				small = v
			}

			// one report per distinct minimal value
			key := fmt.Sprintf("%s %s %#v", class, w.name, small)
			if distinct[key] {
				continue
			}

			distinct[key] = true
			reported[class]++

			fails.Write(verifh.Failure{
				Class: class, What: w.name + ": " + problem,
				Input: fmt.Sprintf("writer=%s accepts_gzip=%v threshold_setting=%q value=%#v", w.name, accepts, th, small),
				Got:   got, Want: want,
			})
		}

		// the same text through the Lean model of JSONMinify
		if b, err := json.MarshalIndent(v, ui.JSONIndentPrefix, ui.JSONIndentSpacer); err == nil && len(b) < 2000 && !seen[string(b)] {
			seen[string(b)] = true

			cases.Write(verifh.Case{In: "min " + verifh.Hex(string(b)), Impl: verifh.Hex(egostrings.JSONMinify(string(b))), Desc: "wr"})
			stats.Inc("min.wr")

			// non-trivial: the marshalled text has a literal backslash inside a string, or a byte JSON had to escape
			if bytes.Contains(b, []byte(`\`)) {
				stats.Inc("wr.distinct_with_escape")
				stats.Inc("distinct_nontrivial")
			}
		}
	}

	// systematic corpus first: every escape lookalike with 0..3 literal backslashes in front, every
	// special character, alone / as a map key / embedded in text
	var corpus []string

	for _, e := range c19EscapeLookalikes {
		for k := 0; k < 4; k++ {
			corpus = append(corpus, strings.Repeat(`\`, k)+e)
		}
	}

	corpus = append(corpus, c19Specials...)
	corpus = append(corpus, c19Fillers...)

	for _, s := range corpus {
		try(s)
		try(map[string]any{s: []any{"a " + s + " b", s + s}})
	}

	for i := 0; i < 60; i++ {
		try(c19HostileNumber(r))
	}

	n := verifh.N(2500, 120000)
	for i := 0; i < n; i++ {
		var v any

		switch {
		case i%3 == 0:
			v = c19HostileString(r) // also the only shape ErrorResponse takes
		case i%97 == 1:
			// a large body, so that the default threshold is reached
			big := make([]any, 200)
			for j := range big {
				big[j] = map[string]any{"name": c19HostileString(r), "value": c19HostileValue(r, 1)}
			}

			v = big
		default:
			v = c19HostileValue(r, 3)
		}

		try(v)

		if i < 3 {
			b, _ := json.Marshal(v)
			stats.Sample(map[string]string{"stream": "wr", "value": string(b)})
		}
	}

	settings.Set(defs.ServerCompressionThresholdSetting, "")
}
