//go:build verif

package util

// C37 correspondence harness and direct oracles for FormatDuration / ParseDuration /
// parseDurationWithDays (internal/util/time.go).
//
// Streams
//   rt      durations d (boundaries, random at second and nanosecond resolution inside
//           ±10^6 h, full int64 range, strided sweep): s = FormatDuration(d, true) is read
//           (a) by an independent reader of the extended form (regexp + big arithmetic) and
//           (b) by ParseDuration; both must give d truncated to the second (d itself below 1 s).
//   doc     generated spellings of the documented form: [sign] terms `<digits><unit>` with
//           units d h m s ms, optional white space between terms, sometimes permuted /
//           leading zeros; ParseDuration must accept with the exact value (big.Int oracle).
//   docfrac documented Go terms with a fraction or a µs/us/ns unit combined with days or spaces.
//   hostile random / mutated strings over a hostile alphabet: correspondence only, plus
//           "whatever time.ParseDuration accepts, ParseDuration accepts with the same value".
// Every evaluated call is also written as a correspondence case for the Lean model
// (ops parse, gopd, pwd, fmt — see lean/EgoVerif/C37/Driver.lean).

import (
	"fmt"
	"math"
	"math/big"
	"math/rand"
	"regexp"
	"strconv"
	"strings"
	"testing"
	"time"
	"unicode/utf8"

	"github.com/tucats/ego/internal/errors"
	"github.com/tucats/ego/internal/verifh"
)

func c37ErrClass(err error) string {
	if _, ok := err.(*errors.Error); ok {
		switch {
		case errors.Equal(err, errors.ErrInvalidInteger):
			return "err int"
		case errors.Equal(err, errors.ErrInvalidDuration):
			return "err dur"
		}

		return "err other"
	}

	return "err go"
}

func c37Res(d time.Duration, err error) string {
	if err != nil {
		return c37ErrClass(err)
	}

	return "ok " + strconv.FormatInt(int64(d), 10)
}

var c37Ext = regexp.MustCompile(`^(-)?(?:([0-9]+)d)?(?:( ?)([0-9]+)h)?(?:( ?)([0-9]+)m)?(?:( ?)([0-9]+)s)?$`)

// c37ReadExtended is the independent reader of the extended form: terms d h m s in that
// order, separated by exactly one space, hours < 24, minutes and seconds < 60, no zero term.
func c37ReadExtended(s string) (*big.Int, bool) {
	m := c37Ext.FindStringSubmatch(s)
	if m == nil || s == "" || s == "-" {
		return nil, false
	}

	total := new(big.Int)
	first := true

	for _, f := range []struct {
		sep, num string
		secs     int64
		limit    int64
		hasSep   bool
	}{{"", m[2], 86400, 0, false}, {m[3], m[4], 3600, 24, true}, {m[5], m[6], 60, 60, true}, {m[7], m[8], 1, 60, true}} {
		if f.num == "" {
			continue
		}

		if f.hasSep && ((first && f.sep != "") || (!first && f.sep != " ")) {
			return nil, false
		}

		first = false

		n, ok := new(big.Int).SetString(f.num, 10)
		if !ok || n.Sign() == 0 || f.num[0] == '0' || (f.limit > 0 && n.Cmp(big.NewInt(f.limit)) >= 0) {
			return nil, false
		}

		total.Add(total, n.Mul(n, big.NewInt(f.secs)))
	}

	total.Mul(total, big.NewInt(1000000000))

	if m[1] == "-" {
		total.Neg(total)
	}

	return total, true
}

type c37Term struct {
	digits string
	unit   string
	ns     *big.Int // value of the term in nanoseconds
}

var c37UnitNs = map[string]int64{"d": 86400e9, "h": 3600e9, "m": 60e9, "s": 1e9, "ms": 1e6}

func c37GenCount(r *rand.Rand, unit string) string {
	var n int64

	switch r.Intn(10) {
	case 0:
		n = 0
	case 1:
		n = int64(r.Intn(10))
	case 2, 3, 4:
		n = int64(r.Intn(60))
	case 5, 6:
		n = int64(r.Intn(1000))
	case 7:
		n = int64(r.Intn(100000))
	case 8:
		n = r.Int63n(1 << 40)
	default:
		// near the int64 boundary of the unit
		n = math.MaxInt64/c37UnitNs[unit] - int64(r.Intn(3)) + int64(r.Intn(2))
	}

	s := strconv.FormatInt(n, 10)
	if r.Intn(12) == 0 {
		s = strings.Repeat("0", 1+r.Intn(3)) + s
	}

	return s
}

var c37Seps = []string{" ", " ", " ", " ", "", "", "  ", "\t", " \t ", "\u00a0", "\n"}

// c37GenDoc builds a spelling of the documented form and its exact value.
func c37GenDoc(r *rand.Rand) (string, *big.Int) {
	units := []string{"d", "h", "m", "s", "ms"}

	var terms []c37Term

	for len(terms) == 0 {
		for _, u := range units {
			if r.Intn(2) == 0 {
				d := c37GenCount(r, u)
				n, _ := new(big.Int).SetString(d, 10)
				terms = append(terms, c37Term{digits: d, unit: u, ns: n.Mul(n, big.NewInt(c37UnitNs[u]))})
			}
		}
	}

	if r.Intn(5) == 0 {
		r.Shuffle(len(terms), func(i, j int) { terms[i], terms[j] = terms[j], terms[i] })
	}

	var b strings.Builder

	total := new(big.Int)
	sign := r.Intn(6)

	if sign == 0 || sign == 1 {
		b.WriteByte('-')
	} else if sign == 2 {
		b.WriteByte('+')
	}

	style := r.Intn(4) // 0: tight, 1: single spaces, 2,3: mixed

	for i, t := range terms {
		if i > 0 {
			switch style {
			case 0:
			case 1:
				b.WriteByte(' ')
			default:
				b.WriteString(c37Seps[r.Intn(len(c37Seps))])
			}
		}

		b.WriteString(t.digits)
		b.WriteString(t.unit)
		total.Add(total, t.ns)
	}

	if sign == 0 || sign == 1 {
		total.Neg(total)
	}

	return b.String(), total
}

// c37GenDocFrac: Go terms with fractions / sub-millisecond units, combined with days or spaces.
func c37GenDocFrac(r *rand.Rand) (string, *big.Int, bool) {
	var b strings.Builder

	total := new(big.Int)
	special := false

	if r.Intn(2) == 0 {
		n := r.Intn(400)
		b.WriteString(strconv.Itoa(n) + "d")
		total.Add(total, big.NewInt(int64(n)*86400e9))
	}

	sep := []string{"", " "}[r.Intn(2)]

	for _, u := range []string{"h", "m", "s", "ms", "us", "µs", "ns"} {
		if r.Intn(3) != 0 {
			continue
		}

		t := strconv.Itoa(r.Intn(50))

		if u != "ns" && r.Intn(2) == 0 {
			t += "." + []string{"5", "25", "125", "0", "75"}[r.Intn(5)]
			special = true
		}

		if u == "us" || u == "µs" || u == "ns" {
			special = true
		}

		v, err := time.ParseDuration(t + u)
		if err != nil {
			return "", nil, false
		}

		if b.Len() > 0 {
			b.WriteString(sep)
		}

		b.WriteString(t + u)
		total.Add(total, big.NewInt(int64(v)))
	}

	s := b.String()

	return s, total, special && s != "" && (strings.Contains(s, "d") || strings.Contains(s, " "))
}

var c37Alphabet = []string{
	"0", "1", "2", "5", "9", "10", "24", "60", "007", "d", "d", "h", "h", "m", "m", "s", "s", "ms", "us", "ns", "µs", "μs",
	" ", " ", "  ", "\t", "\n", "\u00a0", "\u2003", "\u200b", "\ufeff", ".", ".5", "-", "+", "x", "0x1", "0b1", "0o7", "'", "'A'", "_",
	"q", "e", "٣", "D", "H", "9223372036854775807", "9223372036854775808", "2562047", "2562048", "106751", "384307168202282325",
	"153722867", "18446744073709551616", "99999999999999999999",
}

func c37GenHostile(r *rand.Rand) string {
	var b strings.Builder

	n := 1 + r.Intn(9)
	for i := 0; i < n; i++ {
		b.WriteString(c37Alphabet[r.Intn(len(c37Alphabet))])
	}

	return b.String()
}

func c37Mutate(r *rand.Rand, s string) string {
	rs := []rune(s)
	ins := []rune(c37Alphabet[r.Intn(len(c37Alphabet))])

	switch k := r.Intn(3); {
	case k == 0 && len(rs) > 0:
		i := r.Intn(len(rs))
		rs = append(rs[:i], rs[i+1:]...)
	case k == 1 && len(rs) > 0:
		i := r.Intn(len(rs))
		rs = append(append(append([]rune{}, rs[:i]...), ins...), rs[i+1:]...)
	default:
		i := r.Intn(len(rs) + 1)
		rs = append(append(append([]rune{}, rs[:i]...), ins...), rs[i:]...)
	}

	return string(rs)
}

func TestVerifC37(t *testing.T) {
	cases := verifh.Out("c37_cases.jsonl")
	fails := verifh.Out("c37_failures.jsonl")
	stats := verifh.NewStats()

	defer func() {
		cases.Close()
		fails.Close()
		stats.Save("c37_stats.json")
	}()

	r := verifh.Rand(37)
	seen := map[string]bool{}
	nfail := 0

	fail := func(f verifh.Failure) {
		nfail++
		if nfail <= 200 {
			fails.Write(f)
		}

		stats.Inc("fail." + f.Class)
	}

	nontrivial := func(stream, s string) {
		if strings.ContainsAny(s, " d-") && !seen[s] {
			seen[s] = true

			stats.Inc("distinct_nontrivial")
			stats.Inc("distinct_nontrivial." + stream)
		}
	}

	// the real parser, with a panic guard
	parse := func(s string) (d time.Duration, err error, panicked bool) {
		defer func() {
			if x := recover(); x != nil {
				panicked = true
				err = fmt.Errorf("panic: %v", x)
			}
		}()

		d, err = ParseDuration(s)

		return d, err, false
	}

	emitParse := func(s string, kind string, withParts bool) (time.Duration, error) {
		d, err, panicked := parse(s)
		if panicked {
			fail(verifh.Failure{Class: "panic", What: "ParseDuration panicked", Input: s, Got: err.Error()})
		}

		stats.Inc("parse." + kind)

		if !utf8.ValidString(s) {
			return d, err
		}

		cases.Write(verifh.Case{In: "parse " + verifh.Hex(s), Impl: c37Res(d, err), Desc: kind + " " + strconv.Quote(s)})

		if withParts {
			gd, gerr := time.ParseDuration(s)
			cases.Write(verifh.Case{In: "gopd " + verifh.Hex(s), Impl: c37Res(gd, gerr), Desc: kind + " " + strconv.Quote(s)})

			if gerr == nil && (err != nil || d != gd) {
				fail(verifh.Failure{Class: "go-syntax-changed", What: "a string accepted by Go's time.ParseDuration is rejected or read differently by ParseDuration",
					Input: s, Got: c37Res(d, err), Want: c37Res(gd, nil)})
			}

			days, hours, mins, secs, ms, perr := parseDurationWithDays(s)
			impl := fmt.Sprintf("ok %d %d %d %d %d", days, hours, mins, secs, ms)

			if perr != nil {
				impl = c37ErrClass(perr)
			}

			cases.Write(verifh.Case{In: "pwd " + verifh.Hex(s), Impl: impl, Desc: kind + " " + strconv.Quote(s)})
			stats.Inc("pwd")
		}

		return d, err
	}

	// ---------------------------------------------------------------- rt: round trip
	rtClass := func(d int64) string {
		a := new(big.Int).Abs(big.NewInt(d))
		secs := new(big.Int).Div(a, big.NewInt(1e9))
		days := new(big.Int).Div(secs, big.NewInt(86400)).Sign() > 0
		nf := 0

		for _, x := range []int64{3600, 60, 1} {
			q := new(big.Int).Div(secs, big.NewInt(x))
			m := int64(60)

			if x == 3600 {
				m = 24
			}

			if q.Mod(q, big.NewInt(m)).Sign() != 0 {
				nf++
			}
		}

		switch {
		case secs.Sign() == 0:
			return "roundtrip-subsecond"
		case !days && nf >= 2:
			return "roundtrip-spaced-no-days"
		case d < 0 && days:
			return "roundtrip-negative-days"
		case d%1e9 != 0:
			return "roundtrip-subsecond-part"
		}

		return "roundtrip"
	}

	rt := func(d int64, kind string, corr bool) {
		dur := time.Duration(d)
		s := FormatDuration(dur, true)

		stats.Inc("rt." + kind)
		nontrivial("rt", s)

		if corr {
			cases.Write(verifh.Case{In: fmt.Sprintf("fmt %d %s", d, verifh.Hex(dur.String())), Impl: verifh.Hex(s), Desc: kind})
		}

		if d == math.MinInt64 {
			// outside the property's range (|d| is not representable); correspondence only
			if corr {
				emitParse(s, "rt-min", false)
			}

			return
		}

		want := big.NewInt(d)
		sub := d > -1e9 && d < 1e9

		if !sub {
			want.Quo(want, big.NewInt(1e9)) // truncated toward zero
			want.Mul(want, big.NewInt(1e9))

			got, ok := c37ReadExtended(s)
			if !ok {
				fail(verifh.Failure{Class: "format-not-extended-form", What: "FormatDuration(d, true) is not of the form [-][Nd][ Nh][ Nm][ Ns]",
					Input: strconv.FormatInt(d, 10), Got: s})
			} else if got.Cmp(want) != 0 {
				cl := "format-wrong-value"
				if d%1e9 != 0 {
					cl = "format-wrong-value-subsecond-part"
				}

				fail(verifh.Failure{Class: cl, What: "the extended form printed by FormatDuration denotes a different duration (to the second)",
					Input: strconv.FormatInt(d, 10), Got: s + " = " + got.String() + "ns", Want: want.String() + "ns"})
			}
		}

		var (
			p   time.Duration
			err error
		)

		if corr {
			p, err = emitParse(s, "rt", false)
		} else {
			p, err, _ = parse(s)
		}

		if err != nil || big.NewInt(int64(p)).Cmp(want) != 0 {
			fail(verifh.Failure{Class: rtClass(d), What: "ParseDuration(FormatDuration(d, true)) is not d to the second",
				Input: strconv.FormatInt(d, 10), Got: strconv.Quote(s) + " -> " + c37Res(p, err), Want: "ok " + want.String()})
		}

		if kind == "random" && stats.M["rt.random"] <= 3 {
			stats.Sample(map[string]string{"d": dur.String(), "printed": s, "read_back": c37Res(p, err)})
		}
	}

	const H = int64(time.Hour)

	secB := []int64{1, 2, 59, 60, 61, 119, 3599, 3600, 3601, 3660, 3661, 7199, 86399, 86400, 86401, 86460, 90000, 90061, 172800,
		2 * 86400, 23*3600 + 59*60 + 59, 24*3600 + 5, 365 * 86400, 4096*3600 + 3599, 4097 * 3600, 1e6 * 3600, 1e6*3600 - 1, 1e6*3600 + 3599,
		999999*3600 + 59*60, 2562047*3600 + 47*60 + 16, 2562047 * 3600, 106751 * 86400, 1e9}
	nsB := []int64{0, 1, 2, 215, 1000, 499999999, 500000000, 999999000, 999999785, 999999998, 999999999}

	for _, sB := range secB {
		for _, n := range nsB {
			for _, sg := range []int64{1, -1} {
				v := new(big.Int).Mul(big.NewInt(sB), big.NewInt(1e9))
				v.Add(v, big.NewInt(n))

				if v.IsInt64() {
					rt(sg*v.Int64(), "boundary", true)
				}
			}
		}
	}

	for _, d := range []int64{0, 1, -1, 999, 1000, 1500, 999999, 1000000, 1500000, 355e6, 999999999, -999999999, 100e6, -300e6,
		math.MaxInt64, math.MinInt64, math.MinInt64 + 1, math.MaxInt64 - 1, 14749199999999999, 3600003599999999785} {
		rt(d, "boundary", true)
	}

	nrt := verifh.N(20000, 150000)
	for i := 0; i < nrt; i++ {
		var d int64

		switch i % 6 {
		case 0, 1: // second resolution inside ±10^6 h
			d = (r.Int63n(2*1e6*3600+1) - 1e6*3600) * 1e9
		case 2: // nanosecond resolution inside ±10^6 h
			d = r.Int63n(2*1e6*H+1) - 1e6*H
		case 3: // small magnitudes: most fields zero
			d = (r.Int63n(2*200000+1) - 200000) * 1e9
			if r.Intn(2) == 0 {
				d = d / 60e9 * 60e9
			}
		case 4: // one nanosecond below / above a field boundary, large hour counts (float64 rounding)
			d = (r.Int63n(1e6)+1)*H + []int64{-1, -215, -1000, 0, 1}[r.Intn(5)]
			if r.Intn(2) == 0 {
				d = -d
			}
		default: // whole int64 range
			d = int64(r.Uint64())
		}

		rt(d, "random", true)
	}

	if verifh.Thorough() {
		// strided sweep of ±10^6 h at second resolution (oracle on all, correspondence on 1 in 32)
		stride := int64(3607 + 2*(verifh.Seed()%500))
		i := 0

		for s := int64(-1e6*3600) + verifh.Seed()%stride; s <= 1e6*3600; s += stride {
			rt(s*1e9, "sweep", i%32 == 0)
			i++
		}
	}

	// ---------------------------------------------------------------- doc: documented forms
	docCorpus := []string{"1h 5m", "-2d 3h", "1d 6h 30m", "1d6h30m", "2d", "-2d", "+1d", "5m 3s", "1h 5m 7s", "-1h 5m", "3s 5ms", "1d 5ms",
		"5ms3h1d", "1d 1h 30m", "1d1h30m", "32d 4h 35m 12s", "-32d 4h 35m 12s", "59s", "1h30m", "772h35m12s", "0d", "0h 0m", "10m 0s",
		"1d 0h", "-0d 5m", "106751d 23h 47m 16s", "-106751d 23h 47m 16s", "23h 59m 59s", "1d  2h", "1d\t2h", "01d 02h", "5m 7ms", "5m7ms"}

	docCheck := func(s string, want *big.Int, kind string) {
		p, err := emitParse(s, kind, true)

		nontrivial("doc", s)

		if !want.IsInt64() {
			return // out of int64: any answer but a panic is acceptable; correspondence still checked
		}

		if err != nil || int64(p) != want.Int64() {
			cl := "doc-form"

			hasD := strings.Contains(s, "d")
			hasSp := strings.ContainsFunc(s, func(c rune) bool { return c == ' ' || c == '\t' || c == '\n' || c == '\u00a0' })

			switch {
			case !hasD && hasSp:
				cl = "doc-spaced-no-days"
			case (s[0] == '-' || s[0] == '+') && (hasD || hasSp):
				cl = "doc-signed-extended"
			}

			fail(verifh.Failure{Class: cl, What: "a documented spelling (units d h m s ms, optional spaces, optional sign) is rejected or read with another value",
				Input: s, Got: c37Res(p, err), Want: "ok " + want.String()})
		}
	}

	docValue := func(s string) *big.Int {
		// independent evaluation of a corpus entry: sum of <digits><unit> terms, sign first
		total := new(big.Int)
		re := regexp.MustCompile(`([0-9]+)(ms|d|h|m|s)`)

		for _, m := range re.FindAllStringSubmatch(s, -1) {
			n, _ := new(big.Int).SetString(m[1], 10)
			total.Add(total, n.Mul(n, big.NewInt(c37UnitNs[m[2]])))
		}

		if s[0] == '-' {
			total.Neg(total)
		}

		return total
	}

	for _, s := range docCorpus {
		docCheck(s, docValue(s), "doc-corpus")
	}

	ndoc := verifh.N(20000, 150000)
	for i := 0; i < ndoc; i++ {
		s, want := c37GenDoc(r)
		docCheck(s, want, "doc")

		if i < 3 {
			stats.Sample(map[string]string{"spelling": s, "want_ns": want.String()})
		}
	}

	// ---------------------------------------------------------------- docfrac
	for _, s := range []string{"1d1.5h", "1.5h 30m", "1d 500us", "2d 1.25s"} {
		v := map[string]int64{"1d1.5h": 25*H + H/2, "1.5h 30m": 2 * H, "1d 500us": 24*H + 500e3, "2d 1.25s": 48*H + 1250e6}[s]
		p, err := emitParse(s, "docfrac-corpus", true)

		if err != nil || int64(p) != v {
			fail(verifh.Failure{Class: "ext-fraction-or-subms-unit", What: "Go terms with a fraction or a us/µs/ns unit are rejected when combined with days or spaces",
				Input: s, Got: c37Res(p, err), Want: "ok " + strconv.FormatInt(v, 10)})
		}
	}

	nfrac := verifh.N(2000, 30000)
	for i := 0; i < nfrac; i++ {
		s, want, ok := c37GenDocFrac(r)
		if s == "" {
			continue
		}

		p, err := emitParse(s, "docfrac", true)

		if ok && want.IsInt64() && (err != nil || int64(p) != want.Int64()) {
			fail(verifh.Failure{Class: "ext-fraction-or-subms-unit", What: "Go terms with a fraction or a us/µs/ns unit are rejected when combined with days or spaces",
				Input: s, Got: c37Res(p, err), Want: "ok " + want.String()})
		}
	}

	// ---------------------------------------------------------------- hostile
	for _, s := range []string{"", " ", "  ", "-", "+", "- ", "-d", "d", "dd", "1dd", "1d2d", "3m2m1d", "30md", "1d30mh", "1 d", " 1d", "1d ", "1d 5", "1d5",
		"1d -5m", "1d+5h", "1d-", "0x10d", "'A'h1d", "1d 5 m", "1d 5 5m", "1d1m1", "1d1us", "ms", "1dms", "m d", "1m s", "1 m s 2d", "0", "-0", "+0", "0 ",
		"1h 5", "1h 5m ", " 1h5m", "1h\u00a05m", "1h\u200b5m", "--1d", "-+1d", "- 1d", "-1d -2h", "384307168202282325d", "384307168202282326d",
		"1d 2562047h", "106751d 23h 47m 17s", "1d 99999999999999999999h", "1d 9223372036854775807ms", "9223372036854775808ns9223372036854775808ns",
		"9223372036854775807ns", "9223372036854775808ns", "-9223372036854775808ns", ".5s", "1.s", ".s", "1..5s", "1.5", "1h.5m", "0.9223372036854775807h",
		"0.333333333333h", "1.7µs", "1.7μs", "2.5us", "1٣d", "1_0d", "1e3d", ".5d", "1.5d", "1d.5h"} {
		emitParse(s, "hostile-corpus", true)
	}

	nh := verifh.N(20000, 150000)
	for i := 0; i < nh; i++ {
		var s string

		switch i % 3 {
		case 0:
			s = c37GenHostile(r)
		case 1:
			s, _ = c37GenDoc(r)
			s = c37Mutate(r, s)
		default:
			s = FormatDuration(time.Duration((r.Int63n(2*1e6*3600+1)-1e6*3600)*1e9), true)
			s = c37Mutate(r, s)
		}

		emitParse(s, "hostile", true)
	}

	stats.Add("failures", nfail)
}
