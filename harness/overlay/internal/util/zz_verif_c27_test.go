//go:build verif

package util

// C27 correspondence harness and direct oracle for util.Encrypt / util.Decrypt.
//
// Streams (all through the REAL Encrypt/Decrypt):
//   corpus   short / header-only / magic-only inputs (the early-return guards) and
//            known-answer ciphertexts of the three formats
//   family   an honest ciphertext (v3 from the real Encrypt; v2 and legacy built with Go's
//            crypto) + its round trip + every truncation, an edit at every position,
//            extensions, magic swaps, splices, wrong passphrases
//   junk     byte strings that were never a ciphertext
//
// Oracle (no model): honest ciphertext → exactly the plaintext; anything else → an error
// and no text; a returned text must be a plaintext that AES-GCM itself authenticates on one
// of the three framings of the input (computed here with crypto/aes, crypto/cipher,
// x/crypto directly).
// Correspondence: every line carries the primitives' own verdicts; the Lean model's framing
// must pick the same one and give the same (ok text | err class).

import (
	"encoding/hex"
	stderrors "errors"
	"io"
	"strings"
	"testing"

	"github.com/tucats/ego/internal/verifc27"
	"github.com/tucats/ego/internal/verifh"
)

// known-answer ciphertexts (made once with Go's crypto; they pin the wire formats and KDF parameters)
var c27Known = []struct{ name, ct, pass, plain string }{
	{"v3", "ff454733101112131415161718191a1b1c1d1e1fa0a1a2a3a4a5a6a7a8a9aaab9dd988f36267271aa2994e5d5d8e5e0af9a8ccf97a27d38f59a8660ba3100a", "kat-pass", "known answer v3"},
	{"v2", "ff45474f221f996ace6789dcb7cbbb7d400803ace57ac96598181ac48a8e0b98b772018f02c43e30dcf621b9972ce08b90798773a085e701972a6e38ea244d", "kat-pass", "known answer v2"},
	{"legacy", "98d451281d7851e47bcca1691d07b19c47ebfbcdfae760c338fb057da430db6ae97abc059122677773493357c8a4a5", "kat-pass", "known answer legacy"},
}

func c27Impl(got string, err error) string {
	switch {
	case err == nil:
		return "ok " + verifh.Hex(got)
	case stderrors.Is(err, io.ErrUnexpectedEOF):
		return "err short"
	default:
		return "err auth"
	}
}

func TestVerifC27(t *testing.T) {
	cases := verifh.Out("c27_util_cases.jsonl")
	fails := verifh.Out("c27_util_failures.jsonl")
	stats := verifh.NewStats()

	defer func() {
		for k, v := range verifc27.KDFCalls {
			stats.Add("ref_kdf."+k, v)
		}

		cases.Close()
		fails.Close()
		stats.Save("c27_util_stats.json")
	}()

	r := verifh.Rand(27)
	seen := map[string]bool{}
	unexpectedAll := 0

	// check runs the real Decrypt on (d, pass). want == nil: the input is not an honest
	// ciphertext under pass and must be rejected.
	honestPass := "" // "=" + the passphrase of the family being swept ("" outside families)

	check := func(kind string, d []byte, pass string, want *string) {
		got, err := Decrypt(string(d), pass)

		// an UNEXPECTED acceptance gets the verdicts of every framing (complete reference set
		// of authenticated texts) — the first few only, or a broken implementation costs a KDF
		// pair per line; expected acceptances are covered by the framing their magic / prefix names
		all := err == nil && want == nil && unexpectedAll < 25
		if err == nil && want == nil {
			unexpectedAll++
		}

		tb := verifc27.NewTable()
		tb.UtilFrames(d, pass, all)
		cases.Write(verifh.Case{In: "udec " + verifh.Hex(string(d)) + " " + tb.String(), Impl: c27Impl(got, err), Desc: kind})
		stats.Inc("decrypt." + verifc27.StatKind(kind))

		input := "data=" + verifh.Hex(string(d)) + " pass=" + verifh.Hex(pass) + " (" + kind + ")"

		if want == nil && len(d) >= verifc27.NonceLen+verifc27.TagLen {
			if k := string(d) + "\x00" + pass; !seen[k] {
				seen[k] = true

				stats.Inc("distinct_nontrivial")
			}
		}

		switch {
		case err != nil && got != "":
			fails.Write(verifh.Failure{Class: "text-with-error", What: "Decrypt returned text together with an error", Input: input, Got: verifh.Hex(got)})
		case want != nil && (err != nil || got != *want):
			fails.Write(verifh.Failure{Class: "roundtrip-lost", What: "Decrypt of an honest ciphertext with its passphrase did not return the plaintext",
				Input: input, Got: c27Impl(got, err), Want: "ok " + verifh.Hex(*want)})
		case want == nil && err == nil:
			cls, what := "forged-accepted", "Decrypt accepted a string that is not an honest ciphertext under this passphrase"
			if len(d) < verifc27.NonceLen+verifc27.TagLen {
				cls, what = "short-input-accepted", "Decrypt reports success (empty text) for an input too short to hold a nonce and a GCM tag"
			} else if honestPass != "" && len(d) > 4 && string(d[:4]) == string(verifc27.Magic2) && verifc27.HMACKeyEqual(honestPass[1:], pass) {
				cls, what = "v2-hmac-equivalent-key", "a v2 (PBKDF2-HMAC-SHA256) ciphertext decrypts under a DIFFERENT passphrase that HMAC maps to the same key (trailing NUL bytes; a passphrase longer than 64 bytes and its SHA-256)"
			}

			fails.Write(verifh.Failure{Class: cls, What: what, Input: input, Got: c27Impl(got, err), Want: "error"})
		}

		if err == nil {
			// whatever is returned must be authenticated by AES-GCM itself on some framing of d
			found := false

			for _, p := range tb.Texts {
				found = found || p == got
			}

			if !found && !(want == nil && len(d) < verifc27.NonceLen+verifc27.TagLen) {
				fails.Write(verifh.Failure{Class: "accepted-without-aead", What: "Decrypt returned a text that AES-GCM does not authenticate on any framing of the input",
					Input: input, Got: verifh.Hex(got)})
			}
		}
	}

	// ---- corpus: the guards
	var corpus [][]byte

	for n := 0; n <= 28; n++ {
		corpus = append(corpus, make([]byte, n))
	}

	for _, m := range [][]byte{verifc27.Magic3, verifc27.Magic2} {
		for _, n := range []int{0, 1, 15, 16, 17, 27, 28, 29, 43, 44, 45} {
			b := append(append([]byte{}, m...), make([]byte, n)...)
			for i := 4; i < len(b); i++ {
				b[i] = byte(i * 7)
			}

			corpus = append(corpus, b)
		}

		corpus = append(corpus, m[:3], m[:1])
	}

	for _, d := range corpus {
		for _, pass := range []string{"", "secret"} {
			check("corpus", d, pass, nil)
		}
	}

	for _, k := range c27Known {
		ct, _ := hex.DecodeString(k.ct)
		plain := k.plain
		check("known-"+k.name, ct, k.pass, &plain)
		check("known-"+k.name+"-wrongkey", ct, k.pass+"x", nil)
	}

	// ---- families
	argonExtra := 0

	family := func(kind string, i int, stride int) {
		plain, pass := verifc27.Plain(r, i), verifc27.Pass(r, i)

		mk := func() []byte {
			switch kind {
			case "v3":
				s, err := Encrypt(plain, pass)
				if err != nil {
					t.Fatalf("Encrypt: %v", err)
				}

				return []byte(s)
			case "v2":
				return verifc27.UtilV2(r, plain, pass)
			default:
				return verifc27.UtilLegacy(r, plain, pass)
			}
		}

		d, other := mk(), mk()
		honestPass = "=" + pass

		defer func() { honestPass = "" }()

		if kind == "v3" {
			if len(d) != 4+16+12+len(plain)+16 || !strings.HasPrefix(string(d), string(verifc27.Magic3)) {
				fails.Write(verifh.Failure{Class: "encrypt-format", What: "Encrypt output is not [magic|salt|nonce|ct|tag]", Input: verifh.Hex(plain), Got: verifh.Hex(string(d))})
			}

			if string(d[4:32]) == string(other[4:32]) {
				fails.Write(verifh.Failure{Class: "encrypt-nonce-reuse", What: "two encryptions used the same salt and nonce", Input: verifh.Hex(plain)})
			}
		}

		check(kind+".honest", d, pass, &plain)

		if i < 3 {
			stats.Sample(map[string]string{"format": kind, "plain": verifh.Hex(plain), "pass": verifh.Hex(pass), "ciphertext": verifh.Hex(string(d))})
		}

		for _, m := range verifc27.Mutations(r, d, other, stride) {
			if kind != "v3" && len(m.D) >= 4+verifc27.SaltLen && string(m.D[:4]) == string(verifc27.Magic3) {
				// a v2 / legacy ciphertext dressed up as v3 costs an Argon2id derivation: budgeted
				if argonExtra >= verifh.N(6, 60) {
					stats.Inc("skipped_argon_budget")

					continue
				}

				argonExtra++
			}

			check(kind+"."+m.Kind, m.D, pass, nil)
		}

		for _, k := range verifc27.WrongKeys(r, pass) {
			check(kind+".wrongkey", d, k, nil)
		}

		stats.Inc("families." + kind)
	}

	// Argon2id (32 MiB, ~0.3 s here) and PBKDF2 (100k rounds, ~25 ms) dominate the cost of
	// a Decrypt: the quick tier sweeps ONE v3 family sparsely (header truncations, region
	// boundaries, one position per region), v2 families fully (same code path but for the
	// KDF) and many legacy families fully (same aesGCMDecrypt, same dispatcher).
	for i := 0; i < verifh.N(1, 3); i++ {
		stride := 0
		if verifh.Thorough() && i < 1 {
			stride = 4
		}

		family("v3", i+2, stride)
	}

	for i := 0; i < verifh.N(2, 8); i++ {
		family("v2", i, 1)
	}

	for i := 0; i < verifh.N(60, 300); i++ {
		family("legacy", i, 1)
	}

	// ---- key sweep: the LENGTH of the passphrase and the POSITION of a key difference.
	// A ciphertext made under k must open under k only: every passphrase of KeyVariants(k)
	// (one changed bit at a chosen byte position, an appended suffix, a cut, a case change, a
	// trailing NUL) must be refused.  legacy (MD5-keyed, cheap): every length x every position;
	// v2 (PBKDF2, ~25 ms per derivation): every length with the few essential differences and
	// the boundary positions for the 128-character token-key length; v3 (Argon2id, ~0.3 s per
	// derivation, two per line): a 128-character token-like key and a 1000-byte key in the
	// quick tier, a budgeted set of lengths in the thorough tier.
	kr := verifh.Rand(2704)

	keyFamily := func(kind string, n, style, level int) {
		pass := verifc27.KeyOfLen(kr, n, style)
		plain := verifc27.Plain(kr, 2+kr.Intn(16))

		var d []byte

		switch kind {
		case "v3":
			s, err := Encrypt(plain, pass)
			if err != nil {
				t.Fatalf("Encrypt: %v", err)
			}

			d = []byte(s)
		case "v2":
			d = verifc27.UtilV2(kr, plain, pass)
		default:
			d = verifc27.UtilLegacy(kr, plain, pass)
		}

		honestPass = "=" + pass

		defer func() { honestPass = "" }()

		check(kind+".key.honest", d, pass, &plain)

		for _, v := range verifc27.KeyVariants(kr, pass, level) {
			check(kind+".key."+v.Kind, d, v.Key, nil)
			stats.Inc("keysweep." + kind)
		}

		stats.Inc("keysweep_families." + kind)
	}

	for _, n := range verifc27.KeyLens {
		for style := 0; style < 2; style++ {
			keyFamily("legacy", n, style, 3)
		}

		level := 0
		if n == 128 {
			level = 2
		} else if n == 65 || n == 1000 {
			level = 1
		}

		if verifh.Thorough() {
			level = max(level+1, 2)
		}

		keyFamily("v2", n, n%2, level)
	}

	keyFamily("v3", 128, 0, 1)
	keyFamily("v3", 1000, 1, 0)

	if verifh.Thorough() {
		for _, n := range []int{17, 33, 64, 65, 73, 100, 256} {
			keyFamily("v3", n, n%2, 1)
		}
	}

	// ---- junk
	argonJunk := 0

	for i := 0; i < verifh.N(1500, 10000); i++ {
		d := verifc27.Junk(r)
		if len(d) >= 4+verifc27.SaltLen && string(d[:4]) == string(verifc27.Magic3) {
			// bound the number of 32 MiB key derivations spent on junk
			if argonJunk >= verifh.N(6, 30) {
				d[0] = 0xFE
			}

			argonJunk++
		}

		check("junk", d, verifc27.Pass(r, i%12), nil)
	}
}
