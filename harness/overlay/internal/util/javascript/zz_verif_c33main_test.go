//go:build verif

package javascript

import (
	"fmt"
	"math/rand"
	"os"
	"path/filepath"
	"sort"
	"strings"
	"testing"

	"github.com/tucats/ego/internal/verifh"
)

// fixed corpus: runs first (tie + re-lex statistics); the program-shaped entries also go to node.
var c33Corpus = []string{
	"", " ", "a", "a b", "a+ +b", "a + +b;", "a - -b;", "a++ + b;", "a + ++b;", "a-- - b;", "a - --b;", "x = a / /b/.source;",
	"a < !--b;", "5 .toFixed(2);", "1..toString();", "1.5.toFixed(1);", "x = a ? .5 : 1;", "0xe +1;", "1e+5 + 1E-5;", "10n << 8n;",
	"x = /re/g; y = a / b / c; z = (a) / 2; w = q[0] / 2;", "x = 1 + /a  b/.source;", "x = /* c */ /a  b/;", "x = // c\n /a  b/;",
	"return /x/;", "typeof /x/;", "a = b\n/c/d;", "/x/ in o;", "if (a) /x/.test(b);", "x = y++ / 2;", "x = {} / 2;",
	"s = 'it\\'s' + \"q\\\"\" + `t ${a} \\` u`;", "`a${`b ${c} d`}e`", "s = '\\\\';", "'unterminated", "\"unterminated\\", "`unterminated ${x", "/unterminated[/",
	"/* unterminated", "/*", "/**/", "/***/", "a/**/b", "a//\nb", "//", "/", "/=", "x /= 2;", "x = a /= 2;", "...a", "a?.b", "a ?? b", "a ??= b", "a >>>= 1", "a >>> 1",
	"a => b", "a==b===c!=d!==e", "a<=b>=c&&d||e", "a**b**=c", "a&&=b||=c", "i++ +j", "i+++j", "i---j", "a<!--b", "a-->b",
	"var é = 1;", "let naïve = café;", "x = '日本';", "\xff\xfe", "a b", " ", "#!shebang", "@dec", "a\\u0062",
	"function f(p){return `v=${p}`+p;}", "function f(item){return `${item.value}`;}", "function f(o){const {a = 1, b} = o; return a + b;}",
	"function f(name){return {name(){return 1;}};}", "function f(status){return status;} function g(){return status;}",
	"if (x) { var leak = 1; } function f(q){return q+leak;}", "function f(a,b){return {a,b};}", "function f(a,b){return {a:b,b:a};}",
	"function f(v){return o.v+o?.v+v;}", "function f(v){switch(v){case v: return 1;}}", "class A { m(v){return v;} } function f(m){return m;}",
	"function f(x){lbl: for(;;){break lbl;}} function g(lbl){return lbl;}", "function f(k){const o={k};const {k:z}=o;return z;}",
	"var a=1,b=2;function f(c,d){let a1=c;var e=d;return a1+e;}", "function f(value){let a = value; return a;}",
	"const f = function(p){ let q = p; return q; };", "let x = function(p){return p;}, y = 2; function g(p){return p;}",
	"function f(){ let a; const {b, c:[d, e]} = o; var [g, {h}] = q; for (const k of l) {} for (let i = 0, n = 3; i < n; i++) {} }",
	"function outer(){ class Inner { m(){ let z1 = 1; return z1; } } let after = 2; return after; }",
	"function f(rows, base){ return `${rows.reduce(function (s, r) { return s + r.n; }, base)}`; }", "function f(v, tail){ return `${'}' + tail}${({a: v}).a}`; }",
	"function f(p, q){ return `{${p}}\\${q}$${ {a: 1}.a + q }`; }",
}

// program-shaped corpus: {known class or "none", program}
var c33CorpusProgs = [][2]string{
	{"none", "function f(p){return `v=${p}`+p;} console.log(f(1));"},
	{"none", "function f(item){const o = {item}; return `<td>${item.value}</td>${o.item.value}`;} console.log(f({value:3}));"},
	{"none", "function f(a,b){return {a,b};} function g(a,b){return {a:b,b:a};} console.log(JSON.stringify([f(1,2),g(3,4)]));"},
	{"none", "function f(v){const o={v:v+1}; return o.v+o?.v+v;} function g(v){switch(v){case v: return 1;} return 0;} console.log(f(1),g(2));"},
	{"none", "function f(k){const o={k};const {k:z}=o;return z;} console.log(f(5));"},
	{"none", "var a=1,b=2;function f(c,d){let a1=c;var e=d;return a1+e+a+b;} console.log(f(3,4));"},
	{"none", "function f(value){let a = value; return a;} const g = function(p){ let q = p; return q; }; console.log(f(1)+g(2));"},
	{"none", "function f(x){return 5 .toFixed(x)+1..toString()+(x?.5:1)+ x / /b/.source.length;} console.log(f(1));"},
	{"none", "function f(a,b){return [a+ +b, a- -b, a++ + b, a-- - b, a+ ++b, a- --b, a < !--b];} console.log(f(1,2).join());"},
	{"none", "function f(s){return 1 + /a  b/.source.length + (2 < /c  d/.source.length) + /* c */ /e  f/.source.length;} console.log(f(1));"},
	{"none", "function outer(){ class Inner { m(){ let z1 = 1; return z1; } } let after = 2; return after + new Inner().m(); } console.log(outer());"},
	{"none", "var count = 1; let size = 2; function f(count, size){return count+size;} function g(){return count+size;} console.log(f(1,1)+g());"},
	{"none", "function f(o, value){ return [o?.value, o.value, o ?. value === value, {value}.value]; } console.log(JSON.stringify(f({value:1}, 2)));"},
	{"none", "function f(rows, base){ return `t=${rows.reduce(function (s, r) { return s + r.n; }, base)}/${rows.length}`; } console.log(f([{n:1},{n:2}], 10));"},
	{"none", "function f(list, sep, pad){ const w = 2; return `${list.map((e) => { return e * w; }).join(sep)}${pad}${JSON.stringify({k: 1, o: {k: 2}}) + pad}`; } console.log(f([1,2], '-', '!'));"},
	{"none", "function f(v, tail){ let mark = '#'; return `${'}' + tail}|${({a: v}).a + mark}|${(() => { let z = v; return z; })() + mark}`; } console.log(f(1, 'T'));"},
	{"none", "function f(n, lo, hi){ return `${[1,2,3].filter(function (x) { if (x > lo) { return true; } return x < hi; }).length + n}`; } console.log(f(1, 1, 3));"},
	{"none", "function f(cells){ let out = ''; for (const cell of cells) { const cls = 'c'; out += `<td class=\"${[cell].map((x) => { return x.kind; })[0] || cls}\">${cell.text}</td>`; } return out; } console.log(f([{text:'a'},{kind:'k',text:'b'}]));"},
	// locals spelled like contextual keywords, next to the same words in their keyword role
	{"none", "function pct(part, of){ let t = 0; for (const i of [1, 2]) { t += i; } return t + part * 100 / of; } console.log(pct(1, 4));"},
	{"none", "function f(table, key){ var get = function (k) { return table[k]; }; let set = 2; const o = { get mA(){ return 1; }, set mA(v){ table.y = v; } }; o.mA = 3; return [get(key), set, o.mA, table.y]; } console.log(JSON.stringify(f({x: 9}, 'x')));"},
	{"none", "class K { static mS(){ return 1; } static get mG(){ return 2; } } function* gen(n){ yield n; } async function af(p){ return await p; } " +
		"function f(async, await){ var let = 3; let static = 4, yield = 5; const g = async (q) => { return await q; }; return [async, await, let, static, yield, typeof g(1).then, K.mS(), K.mG, [...gen(6)], typeof af(1).then]; } console.log(JSON.stringify(f(1, 2)));"},
	{"none", "function T(){ return new.target === undefined; } function f(target, meta){ const {a: from, b: as} = {a: 1, b: 2}; return [target, meta, from, as, T(), {from, as}]; } console.log(JSON.stringify(f(3, 4)));"},
	{"rename-label-at-block-start", "function f(x){ {lbl: for(;;){break lbl;}} return x;} function g(lbl){return lbl;} console.log(f(1)+g(2));"},
	{"rename-global-collision", "function f(status){return status;} function g(){return status;} console.log(f(1)+g());"},
	{"rename-member-name", "function f(name){return {name(){return 1;}}.name()+name;} console.log(f(1));"},
	{"rename-member-name", "class A { m(v){return v;} } function f(m){return new A().m(m);} console.log(f(1));"},
	{"rename-destructure-default", "function f(o){const {a = 1, b} = o; return a + b;} console.log(f({a:5,b:2}));"},
	{"nested-template", "function f(p,q){return `a${ p ? `<b>  ${ q }  </b>` : '' }z`;} console.log(f(1,2));"},
	{"block-var-at-file-scope", "if (gShared) { var leak = 1; } function f(q){return q+leak;} console.log(f(1));"},
}

// module-shaped corpus (import/export forms; strict mode): evaluated with vm.SourceTextModule
var c33CorpusModules = []string{
	"import dflt, {impA as impB} from './dep.js'; import * as ns from './dep.js'; export {impA as reA} from './dep.js'; " +
		"function f(from, as){ let of = [from, as]; const r = []; for (const get of of) { r.push(get); } return r; } export const out = JSON.stringify([f(1, 2), dflt, impB, ns.impC, typeof import.meta.url]); export {f as g};",
}

func c33RawString(r *rand.Rand) string {
	const alpha = "ab1 .+-/*'\"`\\\n${}()[];,=<>!&|?:e0x_\t/"
	n := r.Intn(24)
	b := make([]byte, n)

	for i := range b {
		if r.Intn(40) == 0 {
			b[i] = byte(128 + r.Intn(128))
		} else {
			b[i] = alpha[r.Intn(len(alpha))]
		}
	}

	return string(b)
}

var c33Lexemes = []string{"a", "b1", "_x", "$", "return", "typeof", "in", "of", "else", "do", "var", "let", "const", "function", "class", "x", "é",
	"0", "1.5", ".5", "1.", "0x1F", "1e3", "1e", "0xe", "10n", "1_0", "'s'", "\"d\"", "'\\''", "`t`", "`a${b}c`", "/r/", "/[/]/g", "/a b/i", "/\\//",
	"+", "-", "++", "--", "/", "/=", "*", "**", "=", "==", "===", "!", "!=", "<", "<<", "<=", ">", ">>", ">>>", ">>>=", "&", "&&", "&&=", "|", "||", "?", "??", "?.", ".", "...",
	"(", ")", "[", "]", "{", "}", ";", ",", ":", "=>", "~", "^", "%", "@", "#"}

// c33Soup: random lexeme sequences with random gaps; not necessarily valid JavaScript.
func c33Soup(r *rand.Rand) string {
	var sb strings.Builder

	n := 1 + r.Intn(14)
	for i := 0; i < n; i++ {
		sb.WriteString(c33Lexemes[r.Intn(len(c33Lexemes))])

		switch r.Intn(8) {
		case 0, 1, 2:
			sb.WriteByte(' ')
		case 3:
			sb.WriteString("\n")
		case 4:
			sb.WriteString("/*c*/")
		case 5:
			sb.WriteString(" //c\n")
		}
	}

	return sb.String()
}

func TestVerifC33(t *testing.T) {
	o := &c33Out{cases: verifh.Out("c33_cases.jsonl"), fails: verifh.Out("c33_failures.jsonl"), st: verifh.NewStats(), seen: map[string]bool{}}
	defer o.cases.Close()
	defer o.fails.Close()
	defer o.st.Save("c33_stats.json")

	dir := os.Getenv("VERIF_OUT")
	if dir == "" {
		dir = t.TempDir()
	}

	// reserved table
	o.cases.Write(verifh.Case{In: "reserved", Impl: c33Names(reserved)})

	progs := []c33Prog{}

	if rp := verifh.ReplayInput(); rp != nil {
		progs = append(progs, c33Prog{Src: string(rp), Class: c33ClassOfHeader(string(rp)), Module: c33ModuleHeader(string(rp))})
		o.tie(string(rp), "replay", true)
	} else {
		for i, s := range c33Corpus {
			o.tie(s, fmt.Sprintf("corpus#%d", i), true)

		}

		for _, cp := range c33CorpusProgs {
			o.tie(cp[1], "corpus-prog", true)
			progs = append(progs, c33Prog{Src: "//C33 class=" + cp[0] + " idioms=corpus\n" + cp[1], Class: c33ClassOfHeader("//C33 class=" + cp[0] + " ")})
		}

		for _, m := range c33CorpusModules {
			o.tie(m, "corpus-module", true)
			progs = append(progs, c33Prog{Src: "//C33 class=none module=1 idioms=corpus\n" + m, Module: true})
		}

		c33ShippedChecks(t, o, dir)

		r := verifh.Rand(33)

		for i := 0; i < verifh.N(300, 9000); i++ {
			o.tie(c33Soup(r), "soup", true)
		}

		for i := 0; i < verifh.N(200, 6000); i++ {
			o.tie(c33RawString(r), "raw", i%2 == 0)
		}

		for i := 0; i < verifh.N(120, 3600); i++ {
			p := c33GenProgram(r, i%4 == 3)
			progs = append(progs, p)

			if i%3 == 0 {
				o.tie(p.Src, "prog", true)
			}
		}

		// contextual keywords as local names next to their keyword role; every third program is an ES module
		rc := verifh.Rand(3302)

		for i := 0; i < verifh.N(60, 1800); i++ {
			p := c33GenCtxProgram(rc, i%3 == 2)
			progs = append(progs, p)
			o.st.Inc("ctx_keyword_programs")

			if i%3 == 0 {
				o.tie(p.Src, "ctxprog", true)
			}
		}
	}

	c33Oracle(t, o, dir, progs)
}

// c33ModuleHeader: does the first line (the //C33 header) mark the program as an ES module?
func c33ModuleHeader(src string) bool {
	line, _, _ := strings.Cut(src, "\n")

	return strings.HasPrefix(line, "//C33 ") && strings.Contains(line, " module=1")
}

func c33ClassOfHeader(src string) string {
	if !strings.HasPrefix(src, "//C33 class=") {
		return ""
	}

	rest := src[len("//C33 class="):]
	if i := strings.IndexAny(rest, " \n"); i >= 0 {
		rest = rest[:i]
	}

	if rest == "none" {
		return ""
	}

	return rest
}

// c33Oracle runs every program as written, minified and minified+renamed under node.
func c33Oracle(t *testing.T, o *c33Out, dir string, progs []c33Prog) {
	in := make([]c33NodeIn, 0, len(progs))

	for i, p := range progs {
		in = append(in, c33NodeIn{ID: i, Orig: p.Src, Min0: string(Minify([]byte(p.Src), false)), Min1: string(Minify([]byte(p.Src), true)), Module: p.Module})
	}

	res, err := c33RunNode(dir, in)
	if err != nil {
		t.Fatalf("node runner: %v", err)
	}

	distinct := map[string]bool{}

	for i, p := range progs {
		r, ok := res[i]
		if !ok {
			t.Fatalf("node runner lost program %d", i)
		}

		o.st.Inc("programs")

		if strings.Contains(r.Orig, `"err":"SyntaxError"`) {
			o.st.Inc("programs_invalid_original_skipped")

			if p.Module {
				o.st.Inc("module_programs_invalid_original_skipped")
			}

			continue
		}

		if !distinct[p.Src] {
			distinct[p.Src] = true

			o.st.Inc("distinct_nontrivial")
			o.st.Sample(map[string]string{"program": p.Src, "observed": r.Orig})
		}

		if strings.Contains(r.Orig, `"err":""`) {
			o.st.Inc("programs_ran_clean")
		} else {
			o.st.Inc("programs_original_threw") // expected 0: every idiom is written to run to completion
		}

		for _, v := range []struct{ name, got, code string }{{"plain", r.Min0, in[i].Min0}, {"renamed", r.Min1, in[i].Min1}} {
			if v.got == r.Orig {
				continue
			}

			cls := p.Class
			if cls == "" || cls == "corpus" || v.name == "plain" && strings.HasPrefix(cls, "rename-") {
				cls = "js-behaviour-differs-" + v.name
			}

			o.st.Inc("oracle_failures")
			o.fails.Write(verifh.Failure{Class: cls, What: "minified (" + v.name + ") program behaves differently under node; minified text: " + v.code,
				Input: p.Src, Got: v.got, Want: r.Orig})
		}
	}
}

// c33ShippedChecks: tie on every shipped dashboard script, `node --check` on both minified
// forms, and the template rule: no renamed name may still be spelled inside a template literal.
func c33ShippedChecks(t *testing.T, o *c33Out, dir string) {
	files := c33Shipped(t)
	if len(files) == 0 {
		t.Fatalf("no shipped dashboard scripts found")
	}

	names := make([]string, 0, len(files))
	for n := range files {
		names = append(names, n)
	}

	sort.Strings(names)

	for _, n := range names {
		src := files[n]
		o.tie(src, "shipped:"+n, true)
		o.st.Inc("shipped_files")

		for _, rn := range []bool{false, true} {
			out := Minify([]byte(src), rn)
			p := filepath.Join(dir, fmt.Sprintf("c33_%s.%v.js", n, rn))

			if err := os.WriteFile(p, out, 0o644); err != nil {
				t.Fatal(err)
			}

			if ok, msg := c33NodeCheck(p); !ok {
				o.fails.Write(verifh.Failure{Class: "shipped-script-does-not-parse", What: fmt.Sprintf("%s minified (rename=%v) fails node --check: %s", n, rn, msg), Input: src})
			}

			os.Remove(p)
		}
		// names that were renamed somewhere but are still spelled inside a template literal
		toks := stripComments(tokenize([]byte(src)))
		m, _ := c33RecoverMap(toks, renameLocals(toks))

		for _, tk := range toks {
			if tk.kind != tkTemplate || !strings.Contains(tk.value, "${") {
				continue
			}

			for _, w := range c33InterpolatedNames(tk.value) {
				if short, ok := m[w]; ok {
					o.fails.Write(verifh.Failure{Class: "template-keeps-renamed-name", Input: tk.value,
						What: fmt.Sprintf("%s: local %q is renamed to %q but a ${...} of a template literal still refers to %q", n, w, short, w),
						Got:  w, Want: short})
				}
			}
		}
	}
}

// c33InterpolatedNames returns the identifiers used as variables inside the ${...} parts of a
// template literal (not after a '.', not inside the literal text).
func c33InterpolatedNames(tpl string) []string {
	out := []string{}

	for i := 0; i+1 < len(tpl); i++ {
		if tpl[i] != '$' || tpl[i+1] != '{' {
			continue
		}

		depth, j := 1, i+2
		for j < len(tpl) && depth > 0 {
			switch tpl[j] {
			case '{':
				depth++
			case '}':
				depth--
			}

			j++
		}

		expr := tpl[i+2 : j-1]
		for _, loc := range c33PH2.FindAllStringIndex(expr, -1) {
			k := loc[0] - 1
			for k >= 0 && expr[k] == ' ' {
				k--
			}

			if k >= 0 && (expr[k] == '.' || c33Word(expr[k])) {
				continue
			}

			out = append(out, expr[loc[0]:loc[1]])
		}

		i = j - 1
	}

	return out
}
