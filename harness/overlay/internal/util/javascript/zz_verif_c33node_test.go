//go:build verif

package javascript

// node side of the C33 oracle: one node process evaluates every variant of every program
// in a fresh vm context and reports what could be observed.

import (
	"bufio"
	"encoding/json"
	"os"
	"os/exec"
	"path/filepath"
)

const c33Runner = `
const vm = require('vm'), fs = require('fs');
function sandbox(out) {
  return { console: { log: (...a) => out.push(a.map(String).join(' ')) },
           gShared: 7, status: 'S', total: 100, helper: (x) => x * 2, name: 'host', event: { type: 'evt' },
           location: { href: 'http://h/' } };
}
function observe(code) {
  const out = [];
  const sb = sandbox(out);
  const base = Object.keys(sb);
  let err = '';
  try { vm.runInNewContext(code, sb, { timeout: 2000 }); } catch (e) { err = (e && e.name) || 'throw'; }
  const keys = Object.keys(sb).filter(k => !base.includes(k)).sort();
  return JSON.stringify({ out, err, keys });
}
// an ES module (import/export forms, import.meta, strict mode): parsed, linked against a synthetic
// './dep.js' and evaluated; observed: printed output, error name, exported names and their values.
async function observeModule(code) {
  const out = [];
  const sb = vm.createContext(sandbox(out));
  let err = '', keys = [];
  try {
    const dep = new vm.SyntheticModule(['default', 'impA', 'impC'], function () {
      this.setExport('default', 11); this.setExport('impA', 22); this.setExport('impC', 33);
    }, { context: sb, identifier: './dep.js' });
    const m = new vm.SourceTextModule(code, { context: sb, identifier: 'main.mjs',
      initializeImportMeta(meta) { meta.url = 'file:///main.mjs'; } });
    await m.link(() => dep);
    await m.evaluate({ timeout: 2000 });
    keys = Object.keys(m.namespace).sort();
    for (const k of keys) { let v; try { v = JSON.stringify(m.namespace[k]); } catch (e) { v = 'unprintable'; } out.push(k + '=' + v); }
  } catch (e) { err = (e && e.name) || 'throw'; }
  return JSON.stringify({ out, err, keys });
}
(async () => {
  const w = fs.createWriteStream(process.argv[3]);
  for (const line of fs.readFileSync(process.argv[2], 'utf8').split('\n')) {
    if (!line) continue;
    const c = JSON.parse(line);
    const ob = c.module ? observeModule : observe;
    w.write(JSON.stringify({ id: c.id, orig: await ob(c.orig), min0: await ob(c.min0), min1: await ob(c.min1) }) + '\n');
  }
  w.end();
})();
`

type c33NodeIn struct {
	ID   int    `json:"id"`
	Orig string `json:"orig"`
	Min0 string `json:"min0"`
	Min1 string `json:"min1"`
	// Module: evaluate as an ES module (vm.SourceTextModule) instead of a script
	Module bool `json:"module,omitempty"`
}

type c33NodeOut struct {
	ID   int    `json:"id"`
	Orig string `json:"orig"`
	Min0 string `json:"min0"`
	Min1 string `json:"min1"`
}

// c33RunNode evaluates all programs in one node process.
func c33RunNode(dir string, in []c33NodeIn) (map[int]c33NodeOut, error) {
	runner := filepath.Join(dir, "c33_runner.js")
	inFile := filepath.Join(dir, "c33_node_in.jsonl")
	outFile := filepath.Join(dir, "c33_node_out.jsonl")

	if err := os.WriteFile(runner, []byte(c33Runner), 0o644); err != nil {
		return nil, err
	}

	f, err := os.Create(inFile)
	if err != nil {
		return nil, err
	}

	enc := json.NewEncoder(f)
	enc.SetEscapeHTML(false)

	for _, c := range in {
		if err := enc.Encode(c); err != nil {
			return nil, err
		}
	}

	f.Close()

	cmd := exec.Command("node", "--experimental-vm-modules", "--no-warnings", runner, inFile, outFile)
	if b, err := cmd.CombinedOutput(); err != nil {
		return nil, &exec.Error{Name: "node: " + string(b), Err: err}
	}

	res := map[int]c33NodeOut{}

	g, err := os.Open(outFile)
	if err != nil {
		return nil, err
	}
	defer g.Close()

	sc := bufio.NewScanner(g)
	sc.Buffer(make([]byte, 1<<20), 1<<26)

	for sc.Scan() {
		var o c33NodeOut
		if json.Unmarshal(sc.Bytes(), &o) == nil {
			res[o.ID] = o
		}
	}

	return res, nil
}

// c33NodeCheck runs `node --check` on a file.
func c33NodeCheck(path string) (bool, string) {
	b, err := exec.Command("node", "--check", path).CombinedOutput()

	return err == nil, string(b)
}
