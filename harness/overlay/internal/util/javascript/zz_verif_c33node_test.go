//go:build verif

package javascript

// node side of the C33 oracle: one node process evaluates every variant of every program
// in a fresh vm context and reports what could be observed.

import (
	"bufio"
	"encoding/json"
	"os"
	"os/exec"
	"path/filepath"
)

const c33Runner = `
const vm = require('vm'), fs = require('fs'), rl = require('readline');
function observe(code) {
  const out = [];
  const sb = { console: { log: (...a) => out.push(a.map(String).join(' ')) },
               gShared: 7, status: 'S', total: 100, helper: (x) => x * 2, name: 'host', event: { type: 'evt' },
               location: { href: 'http://h/' } };
  const base = Object.keys(sb);
  let err = '';
  try { vm.runInNewContext(code, sb, { timeout: 2000 }); } catch (e) { err = (e && e.name) || 'throw'; }
  const keys = Object.keys(sb).filter(k => !base.includes(k)).sort();
  return JSON.stringify({ out, err, keys });
}
const w = fs.createWriteStream(process.argv[3]);
const r = rl.createInterface({ input: fs.createReadStream(process.argv[2]), crlfDelay: Infinity });
r.on('line', (line) => {
  if (!line) return;
  const c = JSON.parse(line);
  w.write(JSON.stringify({ id: c.id, orig: observe(c.orig), min0: observe(c.min0), min1: observe(c.min1) }) + '\n');
});
r.on('close', () => w.end());
`

type c33NodeIn struct {
	ID   int    `json:"id"`
	Orig string `json:"orig"`
	Min0 string `json:"min0"`
	Min1 string `json:"min1"`
}

type c33NodeOut struct {
	ID   int    `json:"id"`
	Orig string `json:"orig"`
	Min0 string `json:"min0"`
	Min1 string `json:"min1"`
}

// c33RunNode evaluates all programs in one node process.
func c33RunNode(dir string, in []c33NodeIn) (map[int]c33NodeOut, error) {
	runner := filepath.Join(dir, "c33_runner.js")
	inFile := filepath.Join(dir, "c33_node_in.jsonl")
	outFile := filepath.Join(dir, "c33_node_out.jsonl")

	if err := os.WriteFile(runner, []byte(c33Runner), 0o644); err != nil {
		return nil, err
	}

	f, err := os.Create(inFile)
	if err != nil {
		return nil, err
	}

	enc := json.NewEncoder(f)
	enc.SetEscapeHTML(false)

	for _, c := range in {
		if err := enc.Encode(c); err != nil {
			return nil, err
		}
	}

	f.Close()

	cmd := exec.Command("node", runner, inFile, outFile)
	if b, err := cmd.CombinedOutput(); err != nil {
		return nil, &exec.Error{Name: "node: " + string(b), Err: err}
	}

	res := map[int]c33NodeOut{}

	g, err := os.Open(outFile)
	if err != nil {
		return nil, err
	}
	defer g.Close()

	sc := bufio.NewScanner(g)
	sc.Buffer(make([]byte, 1<<20), 1<<26)

	for sc.Scan() {
		var o c33NodeOut
		if json.Unmarshal(sc.Bytes(), &o) == nil {
			res[o.ID] = o
		}
	}

	return res, nil
}

// c33NodeCheck runs `node --check` on a file.
func c33NodeCheck(path string) (bool, string) {
	b, err := exec.Command("node", "--check", path).CombinedOutput()

	return err == nil, string(b)
}
