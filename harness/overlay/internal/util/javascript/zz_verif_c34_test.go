//go:build verif

package javascript

// C34 correspondence harness and direct oracle for MinifyCSS.
//
//   - oracle: c34Lex is a tokenizer written from CSS Syntax Level 3 §4.3 ("consume a token",
//     byte-wise: every byte ≥ 0x80 is a name code point), independent of the Lean model.
//     c34Sig drops comments, whitespace that neither separates tokens nor forms a descendant
//     combinator (next to { } ; , > or after :, leading, trailing) and redundant semicolons.
//     Property: c34Sig(c34Lex(MinifyCSS(s))) == c34Sig(c34Lex(s)).
//   - correspondence "min": MinifyCSS(s) against the Lean byte-loop model.
//   - correspondence "sig": the oracle's signature against the Lean tokenizer's (ties the Lean
//     specification to the independently written tokenizer).

import (
	"bytes"
	"math/rand"
	"os"
	"path/filepath"
	"strconv"
	"strings"
	"testing"

	"github.com/tucats/ego/internal/verifh"
)

type c34Tok struct {
	kind string // ws cmt str bad id fn at hash num pct dim d url badurl cdo cdc
	raw  string
}

type c34Flags struct {
	hexEscWS bool // a hex escape outside a string is followed by whitespace (which it swallows) or by a comment
	badStr   bool
	badURL   bool
	urlBody  bool // an unquoted url() token whose body holds "/*", ";;", ";}" or ends in ';'
	cdx      bool // <!-- or --> token
	eofEsc   bool // backslash at end of input
	bsNL     bool // backslash before a newline outside a string (a delim token)
	strOdd   bool // a string holds backslash-CR-LF or a hex escape that swallows a newline
}

func c34WS(b byte) bool    { return b == ' ' || b == '\t' || b == '\n' || b == '\r' || b == '\f' }
func c34NL(b byte) bool    { return b == '\n' || b == '\r' || b == '\f' }
func c34Digit(b byte) bool { return b >= '0' && b <= '9' }
func c34Hex(b byte) bool {
	return c34Digit(b) || (b >= 'a' && b <= 'f') || (b >= 'A' && b <= 'F')
}
func c34NameStart(b byte) bool {
	return (b >= 'a' && b <= 'z') || (b >= 'A' && b <= 'Z') || b == '_' || b >= 0x80
}
func c34Name(b byte) bool { return c34NameStart(b) || c34Digit(b) || b == '-' }

type c34Lexer struct {
	s     []byte
	i     int
	fl    c34Flags
	urlFn bool // tokenize url( as a plain function token (mode used to compare with the Lean tokenizer)
}

func (l *c34Lexer) at(k int) (byte, bool) {
	if l.i+k < len(l.s) {
		return l.s[l.i+k], true
	}

	return 0, false
}

// validEscape: the two bytes at offset k are `\` followed by a non-newline (EOF counts as valid, §4.3.8).
func (l *c34Lexer) validEscape(k int) bool {
	a, ok := l.at(k)
	if !ok || a != '\\' {
		return false
	}

	b, ok := l.at(k + 1)

	return !ok || !c34NL(b)
}

// wouldStartIdent: §4.3.9 at offset k.
func (l *c34Lexer) wouldStartIdent(k int) bool {
	a, ok := l.at(k)
	if !ok {
		return false
	}

	switch {
	case a == '-':
		b, ok := l.at(k + 1)
		if ok && (c34NameStart(b) || b == '-') {
			return true
		}

		return l.validEscape(k + 1)
	case c34NameStart(a):
		return true
	case a == '\\':
		return l.validEscape(k)
	}

	return false
}

// wouldStartNumber: §4.3.10 at offset 0.
func (l *c34Lexer) wouldStartNumber() bool {
	a, _ := l.at(0)
	b, okb := l.at(1)
	c, okc := l.at(2)

	switch {
	case a == '+' || a == '-':
		if okb && c34Digit(b) {
			return true
		}

		return okb && b == '.' && okc && c34Digit(c)
	case a == '.':
		return okb && c34Digit(b)
	}

	return c34Digit(a)
}

// consumeEscape: l.i is just after the backslash.
func (l *c34Lexer) consumeEscape(inString bool) {
	b, ok := l.at(0)
	if !ok {
		l.fl.eofEsc = true

		return
	}

	if !c34Hex(b) {
		l.i++

		return
	}

	for k := 0; k < 6; k++ {
		if b, ok := l.at(0); ok && c34Hex(b) {
			l.i++
		} else {
			break
		}
	}

	if b, ok := l.at(0); ok && c34WS(b) {
		if inString && c34NL(b) {
			l.fl.strOdd = true
		}

		if b2, ok2 := l.at(1); b == '\r' && ok2 && b2 == '\n' {
			l.i++
		}

		l.i++

		if !inString {
			l.fl.hexEscWS = true
		}
	} else if b2, ok2 := l.at(1); ok && b == '/' && ok2 && b2 == '*' && !inString {
		l.fl.hexEscWS = true
	}
}

func (l *c34Lexer) consumeName() {
	for {
		b, ok := l.at(0)

		switch {
		case ok && c34Name(b):
			l.i++
		case ok && l.validEscape(0):
			l.i++
			l.consumeEscape(false)
		default:
			return
		}
	}
}

func (l *c34Lexer) consumeNumber() {
	if b, _ := l.at(0); b == '+' || b == '-' {
		l.i++
	}

	digits := func() {
		for {
			if b, ok := l.at(0); ok && c34Digit(b) {
				l.i++
			} else {
				return
			}
		}
	}

	digits()

	if a, ok := l.at(0); ok && a == '.' {
		if b, ok := l.at(1); ok && c34Digit(b) {
			l.i += 2
			digits()
		}
	}

	if a, ok := l.at(0); ok && (a == 'e' || a == 'E') {
		b, okb := l.at(1)
		c, okc := l.at(2)

		if okb && c34Digit(b) {
			l.i += 2
			digits()
		} else if okb && (b == '+' || b == '-') && okc && c34Digit(c) {
			l.i += 3
			digits()
		}
	}
}

// consumeURL: l.i is just after "url(" (§4.3.6); returns the token.
func (l *c34Lexer) consumeURL() c34Tok {
	for {
		if b, ok := l.at(0); ok && c34WS(b) {
			l.i++
		} else {
			break
		}
	}

	start := l.i

	for {
		b, ok := l.at(0)

		switch {
		case !ok:
			return c34Tok{"url", string(l.s[start:l.i])}
		case b == ')':
			body := string(l.s[start:l.i])
			l.i++

			return c34Tok{"url", body}
		case c34WS(b):
			end := l.i

			for {
				if b, ok := l.at(0); ok && c34WS(b) {
					l.i++
				} else {
					break
				}
			}

			if b, ok := l.at(0); !ok || b == ')' {
				if ok {
					l.i++
				}

				return c34Tok{"url", string(l.s[start:end])}
			}

			return l.badURL(start)
		case b == '"' || b == '\'' || b == '(' || b < 0x09 || b == 0x0b || (b >= 0x0e && b <= 0x1f) || b == 0x7f:
			return l.badURL(start)
		case b == '\\':
			if !l.validEscape(0) {
				return l.badURL(start)
			}

			l.i++
			l.consumeEscape(false)
		default:
			l.i++
		}
	}
}

func (l *c34Lexer) badURL(start int) c34Tok {
	l.fl.badURL = true

	for {
		b, ok := l.at(0)

		switch {
		case !ok:
			return c34Tok{"badurl", string(l.s[start:l.i])}
		case b == ')':
			l.i++

			return c34Tok{"badurl", string(l.s[start : l.i-1])}
		case l.validEscape(0):
			l.i++
			l.consumeEscape(true)
		default:
			l.i++
		}
	}
}

func (l *c34Lexer) identLike(start int) c34Tok {
	l.consumeName()

	name := string(l.s[start:l.i])
	if b, ok := l.at(0); ok && b == '(' {
		l.i++

		if !l.urlFn && strings.EqualFold(name, "url") {
			// §4.3.4: a quoted argument makes it a function token
			k := 0
			for {
				if b, ok := l.at(k); ok && c34WS(b) {
					k++
				} else {
					break
				}
			}

			if b, ok := l.at(k); ok && (b == '"' || b == '\'') {
				return c34Tok{"fn", name + "("}
			}

			t := l.consumeURL()
			if t.kind == "url" && (strings.Contains(t.raw, "/*") || strings.Contains(t.raw, ";;") || strings.Contains(t.raw, ";}") || strings.HasSuffix(t.raw, ";")) {
				l.fl.urlBody = true
			}

			return t
		}

		return c34Tok{"fn", name + "("}
	}

	return c34Tok{"id", name}
}

func (l *c34Lexer) next() c34Tok {
	start := l.i
	c := l.s[l.i]
	b1, ok1 := l.at(1)

	switch {
	case c == '/' && ok1 && b1 == '*':
		l.i += 2
		for l.i < len(l.s) && !(l.s[l.i] == '*' && l.i+1 < len(l.s) && l.s[l.i+1] == '/') {
			l.i++
		}

		if l.i < len(l.s) {
			l.i += 2
		}

		return c34Tok{"cmt", ""}
	case c34WS(c):
		for l.i < len(l.s) && c34WS(l.s[l.i]) {
			l.i++
		}

		return c34Tok{"ws", ""}
	case c == '"' || c == '\'':
		l.i++

		for {
			b, ok := l.at(0)

			switch {
			case !ok:
				return c34Tok{"str", string(l.s[start:l.i])}
			case b == c:
				l.i++

				return c34Tok{"str", string(l.s[start:l.i])}
			case c34NL(b):
				l.fl.badStr = true

				return c34Tok{"bad", string(l.s[start:l.i])}
			case b == '\\':
				l.i++

				if b2, ok2 := l.at(0); ok2 && c34NL(b2) {
					if b3, ok3 := l.at(1); b2 == '\r' && ok3 && b3 == '\n' {
						l.i++
						l.fl.strOdd = true
					}

					l.i++
				} else if ok2 {
					l.consumeEscape(true)
				}
			default:
				l.i++
			}
		}
	case c == '#':
		l.i++

		if b, ok := l.at(0); ok && (c34Name(b) || l.validEscape(0)) {
			l.consumeName()

			return c34Tok{"hash", string(l.s[start:l.i])}
		}

		return c34Tok{"d", "#"}
	case c == '+' || c == '.' || c34Digit(c) || (c == '-' && l.wouldStartNumber()):
		if !l.wouldStartNumber() {
			l.i++

			return c34Tok{"d", string(c)}
		}

		l.consumeNumber()

		if l.wouldStartIdent(0) {
			l.consumeName()

			return c34Tok{"dim", string(l.s[start:l.i])}
		}

		if b, ok := l.at(0); ok && b == '%' {
			l.i++

			return c34Tok{"pct", string(l.s[start:l.i])}
		}

		return c34Tok{"num", string(l.s[start:l.i])}
	case c == '-':
		b2, ok2 := l.at(2)
		if ok1 && b1 == '-' && ok2 && b2 == '>' {
			l.i += 3
			l.fl.cdx = true

			return c34Tok{"cdc", "-->"}
		}

		if l.wouldStartIdent(0) {
			return l.identLike(start)
		}

		l.i++

		return c34Tok{"d", "-"}
	case c == '<':
		if bytes.HasPrefix(l.s[l.i:], []byte("<!--")) {
			l.i += 4
			l.fl.cdx = true

			return c34Tok{"cdo", "<!--"}
		}

		l.i++

		return c34Tok{"d", "<"}
	case c == '@':
		l.i++

		if l.wouldStartIdent(0) {
			l.consumeName()

			return c34Tok{"at", string(l.s[start:l.i])}
		}

		return c34Tok{"d", "@"}
	case c == '\\':
		if l.validEscape(0) {
			return l.identLike(start)
		}

		l.i++
		l.fl.bsNL = true

		return c34Tok{"d", "\\"}
	case c34NameStart(c):
		return l.identLike(start)
	}

	l.i++

	return c34Tok{"d", string(c)}
}

func c34Lex(s []byte, urlFn bool) ([]c34Tok, c34Flags) {
	l := &c34Lexer{s: s, urlFn: urlFn}

	var toks []c34Tok

	for l.i < len(l.s) {
		toks = append(toks, l.next())
	}

	return toks, l.fl
}

func c34Hard(t c34Tok) bool {
	return t.kind == "d" && (t.raw == "{" || t.raw == "}" || t.raw == ";" || t.raw == "," || t.raw == ">")
}

// c34Sig: the significant token sequence, one string per token; a leading "_" marks
// significant whitespace before the token.
func c34Sig(toks []c34Tok) []string {
	// pass 1: comments away
	var a []c34Tok

	for _, t := range toks {
		if t.kind != "cmt" {
			a = append(a, t)
		}
	}

	// pass 2: a semicolon whose next non-space token is ';' or '}' is redundant
	var b []c34Tok

	for i, t := range a {
		if t.kind == "d" && t.raw == ";" {
			j := i + 1
			for j < len(a) && a[j].kind == "ws" {
				j++
			}

			if j < len(a) && a[j].kind == "d" && (a[j].raw == ";" || a[j].raw == "}") {
				continue
			}
		}

		b = append(b, t)
	}

	// pass 3: whitespace is significant only between two tokens neither of which makes it droppable
	var out []string

	for i, t := range b {
		if t.kind == "ws" {
			continue
		}

		gap := false

		if i > 0 && b[i-1].kind == "ws" && !c34Hard(t) {
			k := i - 1
			for k >= 0 && b[k].kind == "ws" {
				k--
			}

			if k >= 0 && !c34Hard(b[k]) && !(b[k].kind == "d" && b[k].raw == ":") {
				gap = true
			}
		}

		s := t.kind + ":" + verifh.Hex(t.raw)
		if gap {
			s = "_" + s
		}

		out = append(out, s)
	}

	return out
}

// c34StripGaps removes whitespace and comments (as the oracle sees them) for the cdo/cdc class predicate.
func c34StripGaps(toks []c34Tok) string {
	var sb strings.Builder

	for _, t := range toks {
		if t.kind != "ws" && t.kind != "cmt" {
			if t.kind == "url" {
				sb.WriteString("url(" + t.raw + ")")
			} else {
				sb.WriteString(t.raw)
			}
		}
	}

	return sb.String()
}

// c34Class: the failure class of an input, decided on the input alone. "" = malformed, not claimed.
func c34Class(in []byte) string {
	toks, fl := c34Lex(in, false)
	flat := c34StripGaps(toks)

	switch {
	case fl.badStr || fl.badURL || fl.bsNL:
		return ""
	case fl.hexEscWS:
		return "hex-escape-then-space"
	case fl.urlBody:
		return "unquoted-url-body"
	case fl.cdx || strings.Contains(flat, "-->") || strings.Contains(flat, "<!--"):
		return "cdo-cdc"
	case fl.eofEsc:
		return "backslash-eof"
	}

	return "tokens-changed"
}

// ---------------------------------------------------------------- generators

func c34Pick(r *rand.Rand, xs []string) string { return xs[r.Intn(len(xs))] }

var c34Gaps = []string{"", "", "", " ", " ", "  ", "\n", "\t", "\r\n", "\f ", "/**/", "/*c*/", " /* c */ ", "/* ; } */", "/***/",
	"/* a *//* b */", " /*x*/", "/*x*/ ", "\n  /* { */\n"}
var c34Idents = []string{"a", "b", "div", "b-c", "--x", "-a", "_q", "\xc3\xa9", "h1", "x\\ y", "x\\{", "x\\;", "\\:z", "e\\,", "k\\>", "q\\\"r",
	"w\\\\", "s\\/", "s\\*", "n\\ ", "url", "and", "not", "important", "A1"}
var c34Nums = []string{"0", "1", "10px", "1.5em", "+.5", "-2", "1e3", "50%", "100%", "1e", "2E-3x", ".5", "-0.25rem", "1.", "00"}
var c34Strings = []string{`"x y"`, `'a\'b'`, `"a\"b  c"`, `"/* no */"`, `"a;}"`, `'\\'`, `""`, `' ; } '`, `"a\` + "\n" + `b"`, `"\41  z"`, `'{ , > :'`,
	`"tab\there  "`, `"\\"`}
var c34URLs = []string{"url(a.png)", "url( a.png )", `url("a b")`, "url(data:image/png;base64,AA==)", "URL(x)", "url(  'q r'  )", "url()", "url(a\\ b)"}
var c34Punct = []string{"{", "}", ";", ";;", "; ;", ":", ",", ">", "+", "~", "(", ")", "[", "]", "*", "/", "=", ".", "#", "@", "!", "-", "%", "|", "^=", "$=", "&"}
var c34Esc = []string{"\\ ", "\\{", "\\}", "\\;", "\\:", "\\,", "\\>", "\\\"", "\\'", "\\\\", "\\/", "\\*", "\\g", "\\-", "\\41 ", "\\a", "\\0041"}

func c34Gap(r *rand.Rand) string { return c34Pick(r, c34Gaps) }

func c34Compound(r *rand.Rand) string {
	var sb strings.Builder

	switch r.Intn(4) {
	case 0:
		sb.WriteString(c34Pick(r, c34Idents))
	case 1:
		sb.WriteString("*")
	}

	for k := r.Intn(3); k > 0 || sb.Len() == 0; k-- {
		switch r.Intn(6) {
		case 0:
			sb.WriteString("." + c34Pick(r, c34Idents))
		case 1:
			sb.WriteString("#" + c34Pick(r, c34Idents))
		case 2:
			sb.WriteString("[" + c34Gap(r) + c34Pick(r, c34Idents) + c34Gap(r) + c34Pick(r, []string{"=", "~=", "^=", "|="}) + c34Gap(r) + c34Pick(r, c34Strings) + c34Gap(r) + "]")
		case 3:
			sb.WriteString(":" + c34Pick(r, []string{"hover", "first-child", "root", "focus"}))
		case 4:
			sb.WriteString("::" + c34Pick(r, []string{"before", "after"}))
		default:
			sb.WriteString(":not(" + c34Gap(r) + "." + c34Pick(r, c34Idents) + c34Gap(r) + ")")
		}
	}

	return sb.String()
}

func c34Selector(r *rand.Rand) string {
	var sb strings.Builder

	sb.WriteString(c34Compound(r))

	for k := r.Intn(4); k > 0; k-- {
		switch r.Intn(6) {
		case 0:
			sb.WriteString(c34Pick(r, []string{" ", "  ", "\n", " /*d*/ ", "/*d*/ ", " /*d*/"}))
		case 1:
			sb.WriteString(c34Gap(r) + ">" + c34Gap(r))
		case 2:
			sb.WriteString(c34Gap(r) + "+" + c34Gap(r))
		case 3:
			sb.WriteString(c34Gap(r) + "~" + c34Gap(r))
		case 4:
			sb.WriteString(c34Gap(r) + "," + c34Gap(r))
		default:
			sb.WriteString(c34Gap(r)) // possibly a comment or nothing between two compounds
		}

		sb.WriteString(c34Compound(r))
	}

	return sb.String()
}

func c34Value(r *rand.Rand, depth int) string {
	var sb strings.Builder

	for k := 1 + r.Intn(4); k > 0; k-- {
		switch r.Intn(9) {
		case 0:
			sb.WriteString(c34Pick(r, c34Idents))
		case 1, 2:
			sb.WriteString(c34Pick(r, c34Nums))
		case 3:
			sb.WriteString(c34Pick(r, c34Strings))
		case 4:
			sb.WriteString(c34Pick(r, c34URLs))
		case 5:
			sb.WriteString("#" + c34Pick(r, []string{"fff", "00ff00", "a1b2c3"}))
		case 6:
			if depth > 0 {
				sb.WriteString(c34Pick(r, []string{"calc", "rgb", "var", "min"}) + "(" + c34Gap(r) + c34Value(r, depth-1) + c34Gap(r) + ")")
			} else {
				sb.WriteString("auto")
			}
		case 7:
			sb.WriteString(c34Pick(r, []string{",", "/", "+", "-", "*"}))
		default:
			sb.WriteString("!" + c34Gap(r) + "important")
		}

		if k > 1 {
			sb.WriteString(c34Pick(r, []string{" ", " ", "  ", "\n", "/*v*/", " /*v*/ ", "", ", ", " , "}))
		}
	}

	return sb.String()
}

func c34Block(r *rand.Rand, depth int) string {
	var sb strings.Builder

	sb.WriteString("{" + c34Gap(r))

	for k := r.Intn(4); k > 0; k-- {
		sb.WriteString(c34Pick(r, []string{"color", "margin", "--v", "font-family", "content", "background"}))
		sb.WriteString(c34Gap(r) + ":" + c34Gap(r) + c34Value(r, 2) + c34Gap(r))
		sb.WriteString(c34Pick(r, []string{";", ";", ";;", "; ;", ";/*s*/;", "", " ;\n"}) + c34Gap(r))
	}

	sb.WriteString("}")

	return sb.String()
}

func c34Sheet(r *rand.Rand) string {
	var sb strings.Builder

	sb.WriteString(c34Gap(r))

	for k := 1 + r.Intn(3); k > 0; k-- {
		switch r.Intn(6) {
		case 0:
			sb.WriteString("@media" + c34Pick(r, []string{" ", "/*m*/", " /*m*/ "}) + c34Pick(r, []string{"screen and ", "not print and ", ""}))
			sb.WriteString("(" + c34Gap(r) + "min-width" + c34Gap(r) + ":" + c34Gap(r) + c34Pick(r, c34Nums) + c34Gap(r) + ")" + c34Gap(r))
			sb.WriteString("{" + c34Gap(r) + c34Selector(r) + c34Gap(r) + c34Block(r, 1) + c34Gap(r) + "}")
		case 1:
			sb.WriteString("@import " + c34Pick(r, c34URLs) + c34Gap(r) + ";")
		default:
			sb.WriteString(c34Selector(r) + c34Gap(r) + c34Block(r, 1))
		}

		sb.WriteString(c34Gap(r))
	}

	return sb.String()
}

// token soup: any fragment next to any other, with or without a gap
func c34Soup(r *rand.Rand) string {
	var sb strings.Builder

	for k := r.Intn(10); k > 0; k-- {
		switch r.Intn(8) {
		case 0, 1:
			sb.WriteString(c34Pick(r, c34Idents))
		case 2:
			sb.WriteString(c34Pick(r, c34Nums))
		case 3:
			sb.WriteString(c34Pick(r, c34Strings))
		case 4:
			sb.WriteString(c34Pick(r, c34URLs))
		case 5:
			sb.WriteString(c34Pick(r, c34Esc))
		default:
			sb.WriteString(c34Pick(r, c34Punct))
		}

		sb.WriteString(c34Gap(r))
	}

	return sb.String()
}

func c34Raw(r *rand.Rand) string {
	alphabet := []byte("ab1-. \n\t{};:,>/*\\\"'()#@%+u\xc3\xa9")

	b := make([]byte, r.Intn(14))
	for i := range b {
		b[i] = alphabet[r.Intn(len(alphabet))]
	}

	return string(b)
}

// ---------------------------------------------------------------- the run

func c34Join(xs []string) string {
	if len(xs) == 0 {
		return "-"
	}

	return strings.Join(xs, ",")
}

func TestVerifC34(t *testing.T) {
	cases := verifh.Out("c34_cases.jsonl")
	lexCases := verifh.Out("c34_lexcases.jsonl")
	fails := verifh.Out("c34_failures.jsonl")
	failHex := verifh.Out("c34_failhex.jsonl")
	stats := verifh.NewStats()

	defer func() {
		cases.Close()
		lexCases.Close()
		fails.Close()
		failHex.Close()
		stats.Save("c34_stats.json")
	}()

	seen := map[string]bool{}

	sigLine := func(b []byte) {
		toks, fl := c34Lex(b, true)
		if fl.hexEscWS || fl.cdx || fl.eofEsc || fl.strOdd {
			stats.Inc("sig.skipped")

			return
		}

		lexCases.Write(verifh.Case{In: "sig " + verifh.Hex(string(b)), Impl: c34Join(c34Sig(toks))})
	}

	check := func(in string, kind string, model bool) {
		src := []byte(in)
		got := MinifyCSS(src)

		stats.Inc("eval." + kind)

		if model {
			cases.Write(verifh.Case{In: "min " + verifh.Hex(in), Impl: verifh.Hex(string(got)), Desc: kind})
			sigLine(src)

			if !bytes.Equal(got, src) {
				sigLine(got)
			}
		}

		a, _ := c34Lex(src, false)
		b, _ := c34Lex(got, false)
		want, have := c34Join(c34Sig(a)), c34Join(c34Sig(b))

		if want != have {
			cls := c34Class(src)
			if cls == "" {
				stats.Inc("malformed.differs")
			} else {
				stats.Inc("fail." + cls)
				fails.Write(verifh.Failure{Class: cls, What: "MinifyCSS changed the significant CSS token sequence", Input: strconv.Quote(in), Got: strconv.Quote(string(got)) + "  sig=" + have, Want: "sig=" + want})
				failHex.Write(verifh.Case{In: "cls " + verifh.Hex(in), Impl: cls})
			}
		}

		nontrivial := !bytes.Equal(got, src) && (strings.Contains(in, "/*") || strings.ContainsAny(in, "\\\"'"))
		if nontrivial && !seen[in] {
			seen[in] = true

			stats.Inc("distinct_nontrivial")

			if len(in) < 120 {
				stats.Sample(map[string]string{"input": in, "minified": string(got), "kind": kind})
			}
		}
	}

	// corpus of suspects and past failures first
	for _, in := range []string{
		"a/**/b{color:red}", "a\\ {color:red}", "a\\{ b{}", "a\\ /**/b", "x\\ ", "a /*c*/ b{}", "a/*c*/ :hover{}", "a/**/:hover{}", "a :hover { color : red ; ; }",
		"1/**/.5", "-/**/-x", "a/**/(", "//**/*", "u/**/rl(x)", "@/**/media", "#/**/a", "a/*x*//*y*/b", "a;/**/}", "a{b:c;/*;*/;}", "\\/*x*/",
		"a/* unterminated", "/*/", "/*", "a'unterminated  string ; }", "\"a\nb  c\" d  e \"", "\\26  b", "\\26 b", "a\\\n b", "x\\", "-- >", "--/**/>", "< !--",
		"url(a/*b*/c)", "url(a;;b)", "url( a )", "url( 'a  b' )", "a{background:url(i.png) no-repeat;;}", "@media (min-width : 600px) and (max-width:9px){a{b:c}}",
		"a > b , c + d ~ e f{}", "a{margin:0 10px 0 10px}", "a{content:\"  x  \" ;}", "a{b:c !important}", ":root{--x: {a:b}}", "a{b:1 /**/ 2}", "  ", "", ";", ";;}", "}; ;{",
	} {
		check(in, "corpus", true)
	}

	// the shipped stylesheets: whole file through the oracle, rule-sized chunks through the model as well
	root, _ := filepath.Abs("../../../lib/assets")
	_ = filepath.Walk(root, func(p string, info os.FileInfo, err error) error {
		if err != nil || info.IsDir() || !strings.HasSuffix(p, ".css") {
			return nil
		}

		data, err := os.ReadFile(p)
		if err != nil {
			return nil
		}

		stats.Inc("shipped.files")
		check(string(data), "shipped", false)

		rest := string(data)
		for len(rest) > 0 {
			cut := len(rest)
			if cut > 1500 {
				cut = 1500
				if k := strings.LastIndex(rest[:cut], "}\n\n"); k > 0 {
					cut = k + 2
				} else if k := strings.LastIndex(rest[:cut], "}\n"); k > 0 {
					cut = k + 2
				} else if k := strings.Index(rest[cut:], "}\n\n"); k >= 0 {
					cut += k + 2
				} else {
					cut = len(rest)
				}
			}

			check(rest[:cut], "shipped-chunk", true)
			rest = rest[cut:]
		}

		return nil
	})

	if stats.M["shipped.files"] == 0 {
		fails.Write(verifh.Failure{Class: "harness", What: "no shipped .css file found under lib/assets", Input: root})
	}

	r := verifh.Rand(34)
	n := verifh.N(6000, 100000)

	for i := 0; i < n; i++ {
		switch i % 8 {
		case 0, 1, 2, 3:
			check(c34Sheet(r), "sheet", true)
		case 4, 5, 6:
			check(c34Soup(r), "soup", true)
		default:
			check(c34Raw(r), "raw", true)
		}
	}
}
