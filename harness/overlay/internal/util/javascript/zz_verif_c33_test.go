//go:build verif

package javascript

// C33 correspondence harness and direct oracle.
//
//   - tie: the real tokenize / Minify / collectLocals / renameLocals against the Lean model
//     (ops tok, min, col, ren, wf, reserved) on a fixed corpus, the shipped dashboard
//     scripts, generated token soups, generated programs and raw byte strings.
//     The random iteration order of the rename map is recovered from the real output and
//     handed to the model (op ren), so the tie is exact although Go's map order is not.
//   - oracle (no model): every generated semicolon-terminated program is run under node
//     (vm context with a few host globals) as written, minified, and minified with local
//     renaming; printed output, error name and the global names defined must agree.
//     A further family declares locals spelled like contextual keywords (get, set, of, from, as, async,
//     await, static, let, yield, target, meta) next to the same words in their keyword role; a third of
//     these are ES modules (import/export … from/as, import.meta), evaluated with vm.SourceTextModule
//     (zz_verif_c33ctx_test.go).
//     Every shipped script must pass `node --check` after minification, and no name that
//     was renamed may survive inside a `${…}` of a template literal.
//
// Generator and node runner are in zz_verif_c33gen_test.go / zz_verif_c33node_test.go.

import (
	"fmt"
	"os"
	"path/filepath"
	"sort"
	"strings"
	"testing"

	"github.com/tucats/ego/internal/verifh"
)

func c33TokString(ts []jsToken) string {
	if len(ts) == 0 {
		return "-"
	}

	parts := make([]string, len(ts))
	for i, t := range ts {
		parts[i] = fmt.Sprintf("%d:%s", int(t.kind), verifh.Hex(t.value))
	}

	return strings.Join(parts, ",")
}

func c33Names(m map[string]bool) string {
	if len(m) == 0 {
		return "-"
	}

	l := make([]string, 0, len(m))
	for k := range m {
		l = append(l, k)
	}

	sort.Strings(l)

	for i := range l {
		l[i] = verifh.Hex(l[i])
	}

	return strings.Join(l, ",")
}

func c33Sig(ts []jsToken) []jsToken {
	out := []jsToken{}

	for _, t := range ts {
		if t.kind != tkWhitespace {
			out = append(out, t)
		}
	}

	return out
}

func c33SameToks(a, b []jsToken) bool {
	if len(a) != len(b) {
		return false
	}

	for i := range a {
		if a[i] != b[i] {
			return false
		}
	}

	return true
}

// c33RecoverMap aligns the input of renameLocals with its output and returns the rename
// map entries that were applied at least once.
func c33RecoverMap(in, out []jsToken) (map[string]string, bool) {
	m := map[string]string{}
	j := 0

	for i := 0; i < len(in); i++ {
		if j >= len(out) {
			return m, false
		}

		t := in[i]
		if t.kind != tkIdentifier {
			if out[j] != t {
				return m, false
			}

			j++

			continue
		}

		if out[j].kind != tkIdentifier {
			return m, false
		}

		if out[j].value != t.value {
			m[t.value] = out[j].value
			j++

			continue
		}
		// unchanged, or expanded shorthand `t : short`
		if j+2 < len(out) && out[j+1] == (jsToken{kind: tkPunct, value: ":"}) && out[j+2].kind == tkIdentifier &&
			(i+1 >= len(in) || in[i+1] != out[j+1]) {
			m[t.value] = out[j+2].value
			j += 3

			continue
		}

		j++
	}

	return m, j == len(out)
}

// c33Order turns the recovered (partial) map into a complete iteration order of the rename
// set: names whose short name is known are placed by the generator index of that name,
// names that were never applied take the remaining slots in sorted order.
func c33Order(tokens, renamed []jsToken, set map[string]bool) ([]string, bool) {
	m, ok := c33RecoverMap(tokens, renamed)
	if !ok {
		return nil, false
	}

	if len(set) == 0 {
		return nil, len(m) == 0
	}

	existing := map[string]bool{}

	for _, t := range tokens {
		if t.kind == tkIdentifier {
			existing[t.value] = true
		}
	}
	// the slots: first len(set) generator names that are not identifiers of the source
	next := nameGen()
	slots := []string{}

	for len(slots) < len(set) {
		s := next()
		if !existing[s] {
			slots = append(slots, s)
		}
	}

	bySlot := map[string]string{}

	for name, short := range m {
		if !set[name] || bySlot[short] != "" {
			return nil, false
		}

		bySlot[short] = name
	}

	rest := []string{}

	for name := range set {
		if _, ok := m[name]; !ok {
			rest = append(rest, name)
		}
	}

	sort.Strings(rest)

	order := []string{}

	for _, s := range slots {
		if name, ok := bySlot[s]; ok {
			order = append(order, name)
			delete(bySlot, s)
		} else {
			if len(rest) == 0 {
				return nil, false
			}

			order = append(order, rest[0])
			rest = rest[1:]
		}
	}

	return order, len(bySlot) == 0 && len(rest) == 0
}

type c33Out struct {
	cases *verifh.Writer
	fails *verifh.Writer
	st    *verifh.Stats
	seen  map[string]bool
}

// tie writes the correspondence lines for one source text. It returns false when the real
// code panicked (a `\` as the last byte of an unterminated literal overruns the slice).
func (o *c33Out) tie(src string, desc string, withRename bool) (ok bool) {
	defer func() {
		if r := recover(); r != nil {
			o.st.Inc("go_panics_skipped")

			ok = false
		}
	}()

	h := verifh.Hex(src)
	toks := tokenize([]byte(src))
	min0 := Minify([]byte(src), false)
	stripped := stripComments(toks)
	relex := c33SameToks(c33Sig(tokenize(min0)), c33Sig(stripped))

	var colLine, renLine, renImpl string

	if withRename {
		locals, fileScope := collectLocals(stripped)
		renamed := renameLocals(stripped)
		// The keys of the rename map are not observable from outside renameLocals, so the
		// set is rebuilt here only to recover the iteration order; the model checks it
		// against its own rename set (answer "bad-order" when they differ).
		set := c33RenameSet(stripped, locals, fileScope)
		colLine = c33Names(locals) + "|" + c33Names(fileScope)

		order, okOrd := c33Order(stripped, renamed, set)
		if okOrd {
			hs := make([]string, len(order))
			for i, n := range order {
				hs[i] = verifh.Hex(n)
			}

			ord := "-"
			if len(hs) > 0 {
				ord = strings.Join(hs, ",")
			}

			renLine = "ren " + h + " " + ord
			renImpl = verifh.Hex(string(emit(renamed)))
		} else {
			o.st.Inc("order_not_recovered")
		}
	}

	o.cases.Write(verifh.Case{In: "tok " + h, Impl: c33TokString(toks), Desc: desc})
	o.cases.Write(verifh.Case{In: "min " + h, Impl: verifh.Hex(string(min0)), Desc: desc})

	rl := "relex=0"
	if relex {
		rl = "relex=1"
	}

	o.cases.Write(verifh.Case{In: "wf " + h, Impl: rl, Desc: desc})

	if colLine != "" {
		o.cases.Write(verifh.Case{In: "col " + h, Impl: colLine, Desc: desc})
	}

	if renLine != "" {
		o.cases.Write(verifh.Case{In: renLine, Impl: renImpl, Desc: desc})
	}

	o.st.Inc("tie_sources")

	return true
}

// c33RenameSet computes, from the real code's own pieces, which names renameLocals puts
// in its map: the locals, minus file-scope names, minus (patched tree) the words of
// template literals. Whether the tree has the template rule is detected by probing the
// real renameLocals once.
func c33RenameSet(tokens []jsToken, locals, fileScope map[string]bool) map[string]bool {
	set := map[string]bool{}

	for n := range locals {
		if !fileScope[n] {
			set[n] = true
		}
	}

	if c33TemplateRule() {
		for _, t := range tokens {
			if t.kind != tkTemplate {
				continue
			}

			for i := 0; i < len(t.value); {
				j := i
				for j < len(t.value) && isIdentCont(t.value[j]) {
					j++
				}

				delete(set, t.value[i:j])

				if j == i {
					j++
				}

				i = j
			}
		}
	}

	return set
}

var c33TplRule = -1

func c33TemplateRule() bool {
	if c33TplRule < 0 {
		out := string(Minify([]byte("function f(longName){return `${longName}`+longName;}"), true))
		c33TplRule = 0

		if strings.Contains(out, "+longName") {
			c33TplRule = 1
		}
	}

	return c33TplRule == 1
}

func c33Shipped(t *testing.T) map[string]string {
	files, _ := filepath.Glob("../../../lib/assets/dashboard/*.js")
	out := map[string]string{}

	for _, f := range files {
		b, err := os.ReadFile(f)
		if err != nil {
			t.Fatal(err)
		}

		out[filepath.Base(f)] = string(b)
	}

	return out
}
