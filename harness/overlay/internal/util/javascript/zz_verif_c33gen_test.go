//go:build verif

package javascript

// Program generator of the C33 oracle. A program is a list of idioms (function or class
// declarations written as token templates) plus one console.log of all call results.
// Template notation: tokens are separated by one blank; `·` is a blank inside a token;
// `%x` placeholders are names (lower case: locals, %K: property names, %M: member names,
// %G: file-scope names, %f/%C: the declared function/class); a trailing `~` forbids a line
// break after the token, `++!`/`--!` are postfix operators (no line break before).
// A template literal is ONE token of the notation (copied verbatim by the minifier); the template idioms put callbacks
// with block bodies, object literals and '}' inside strings/regexes into ${...} and use locals behind them.
// Gaps between tokens are random (nothing, blanks, line breaks, comments) under a
// conservative rule that is independent of needsSep.

import (
	"math/rand"
	"regexp"
	"strings"
)

var c33Locals = []string{"alpha", "beta", "gamma", "delta", "acc", "idx", "tmp", "val", "res", "obj", "arr", "cb",
	"k", "v", "n", "i", "j", "x", "y", "a", "b", "c", "e", "a1", "b1", "z9", "_p", "$q", "value", "key", "item", "size",
	"count", "in1", "of2", "aa", "t"}
var c33Props = []string{"value", "key", "size", "count", "k", "a", "b", "x", "alpha", "deep", "length2",
	"item", "acc", "b1", "data", "kind"}
var c33Members = []string{"mRun", "mGet", "mSet", "mMake", "mCalc"}

type c33Idiom struct {
	name    string
	decl    string // declaration template
	call    string // call expression template ("" = none)
	hostile string // known-class feature this idiom carries ("" = must work)
	// gen, when set, builds decl and call afresh for every use
	gen func(r *rand.Rand) (decl, call string)
}

var c33Idioms = []c33Idiom{
	{name: "arith", call: "%f ( 7 , 2 )", decl: "function %f ( %p , %q ) { let %x = %p + + %q ; let %y = %p - - %q ; let %z = %x ++! + %y ; %z = %z --! - %x ; " +
		"%z = %z + ++ %x ; %z = %z - -- %y ; var %w = [ %p / %q / 2 , ( %p + %q ) / 2 , [ %p ] [ 0 ] / 2 , %x ++! / 2 , %p % %q , %p ** 2 , - %p , + %q , ~ %p , ! %q , " +
		"%p << 1 , %p >>> 1 , %p < %q , %p >= %q , %p === %q , %p !== %q , %p & %q | 1 ^ 2 , %p && %q || 0 , %p ?? 1 , - - %p , + + %q , - + %p , %x - - - %y , %x + + + %y ] ; " +
		"%x += 1 ; %y -= 1 ; %z *= 2 ; %z /= 2 ; %z %= 7 ; return~ [ %x , %y , %z , %w ] ; }"},
	{name: "regex", call: "%f ( 'a/b/c' )", decl: "function %f ( %s ) { const %r = /a\\/b[/]c/ ; var %m = %s . replace ( /[/]/g , '-' ) ; if ( ! %s ) %m = 1 ; else /x··y/ . test ( %s ) ; " +
		"return~ [ %r . test ( %s ) , %m , %s . split ( /b/ ) . length , %s ? /x·y/ . source : /y/ . source , ! /z/ . test ( %s ) , [ /q'q/ . source , /\"/ . source ] , typeof /r/ , " +
		"%s . length / 2 / 1 , ( %s . length ) / 2 , %s && /k··k/ . source , %s || /j/ . source , /[`]/ . source , %s . length ++! / 2 , /=/ . source ] ; }"},
	{name: "regexop", call: "%f ( 4 )", decl: "function %f ( %p ) { return~ [ 1 + /a··b/ . source . length , 2 < /c··d/ . source . length , 'x' + /e'f/ . source , 3 * /g/ . source . length , " +
		"1 == /h··h/ . source . length , %p / /ab/ . source . length , %p - /a··%p/ . source . length , %p % /··/ . source . length ] ; }"},
	{name: "strings", call: "%f ( 1 , 'two' )", decl: "function %f ( %p , %q ) { const %s = 'a//b' + \"/*c*/\" + 'it\\'s' + \"q\\\"q\" + '\\\\' + '··' ; let %u = `no···interpolation` ; " +
		"return~ [ %s , %u , `a\\`b` , `//·x·/*·y·*/` , '`' + \"'\" , %p + '' + %q ] ; }"},
	{name: "template", call: "%f ( 1 , 'two' )", decl: "function %f ( %p , %q ) { let %t = `lit···//··${·%p·}··/*·${·%q·+·1·}·*/·'x'·\"y\"` ; const %item = { %K1 : %p } ; " +
		"return~ [ %t , `${%p}${%q}` , `a\\`b${·%p·}` , `<td>${·helper(·%p·)·}</td><td>${·%item.%K1·}</td>` , `${·[·%p·,·%q·]·.·length·}` ] ; }"},
	// interpolations that contain braces of their own (callback bodies, object literals, a '}' inside a string or a
	// regex) and use locals of the enclosing function AFTER such a brace; several interpolations in one template
	{name: "template-callback", call: "%f ( [ { %K1 : 1 } , { %K1 : 2 } , { %K1 : 4 } ] , 10 )", decl: "function %f ( %rows , %base ) { const %sep = '|' ; let %lim = 1 ; var %top = 3 ; " +
		"return~ [ `t=${·%rows.reduce(function·(%acc,·%it)·{·return·%acc·+·%it.%K1;·},·%base)·}·of·${·%rows.length·}` , " +
		"`${%rows.filter((%e)·=>·{·return·%e.%K1·>·1;·}).map(%e·=>·%e.%K1).join(%sep)}` , " +
		"`n=${·%rows.filter(function·(%e)·{·if·(%e.%K1·>·%lim)·{·return·true;·}·return·%e.%K1·>·%top;·}).length·-·%lim·}${·%top·}` ] ; }"},
	{name: "template-object", call: "%f ( 5 , 'q' )", decl: "function %f ( %p , %q ) { let %t = 'x' ; const %u = 2 ; var %w = [ 8 ] ; " +
		"return~ [ `${·JSON.stringify({·%K1:·1,·%K2:·{·%K3:·2·}·})·+·%p·}` , `a${·({·%K1:·7·}).%K1·*·%u·}b${·%q·}c${·'}'·+·%t·}d${·/[}]/.source·+·%w[0]·}` , " +
		"`{${·typeof·function·()·{}·}}\\${x}` ] ; }"},
	{name: "template-mixed", gen: c33GenTemplateIdiom},
	{name: "object", call: "%f ( 1 , 2 )", decl: "function %f ( %p , %q ) { const %o = { %K1 : %p , %K2 : %q , 'k-3' : 1 , [ 'c' + %p ] : 2 , 7 : 3 , in : %p , of : %q , new : 1 , length : 2 } ; const %o2 = { %p , %q } ; " +
		"const %o3 = { %p , %K1 : %q , ... %o } ; let %r = %o . %K1 + %o ?. %K2 + %o [ '%K1' ] + %o2 . %p + %o3 . %K1 ; " +
		"return~ [ %r , %o , %o2 , %o3 , { %K1 : %p ? %q : %p , %K2 : [ %p , %q ] , %K3 : { %q } } , Object . keys ( { %q , %p } ) , { %K3 : %p } . %K3 , [ { %p } ] ] ; }"},
	{name: "destructure", call: "%f ( { %K1 : 1 , %K2 : 2 } , { %K3 : 3 , %K4 : 4 } , [ 5 , 6 ] )", decl: "function %f ( %o , { %K3 , %K4 : %z } , [ %g , %h ] ) { const { %K1 : %x , %K2 } = %o ; " +
		"let [ %u , %v = 9 , ... %w ] = [ 1 , undefined , 3 , 4 ] ; var { %K5 : { %K6 } } = { %K5 : { %K6 : 5 } } ; const { %K2 : %y = 8 } = { } ; " +
		"return~ [ %x , %K2 , %u , %v , %w , %K6 , %y , %K3 , %z , %g , %h , ( ( { %K1 } ) => %K1 ) ( %o ) ] ; }"},
	{name: "closure", call: "%f ( 3 )", decl: "function %f ( %p ) { let %c = 0 ; function %in ( %q ) { %c += %q ; return~ %c ; } const %ar = ( %z ) => %in ( %z ) + %p ; " +
		"const %ar2 = %z => { return~ %z * 2 ; } ; var %fe = function ( %q ) { return~ %q + %c ; } ; " +
		"return~ [ %in ( 1 ) , %ar ( 2 ) , %ar2 ( 3 ) , %fe ( 4 ) , ( function ( %p ) { return~ %p + 1 ; } ) ( 5 ) , [ 1 , 2 ] . map ( function ( %e ) { return~ %e * %p ; } ) , " +
		"[ 3 ] . map ( ( %e , %i ) => %e + %i ) , ( ( ) => { let %p = 8 ; return~ %p ; } ) ( ) ] ; }"},
	{name: "control", call: "%f ( 1 )", decl: "function %f ( %n ) { let %r = [ ] ; let %v = 1 ; { let %v = 2 ; %r . push ( %v ) ; } %r . push ( %v ) ; " +
		"for ( let %i = 0 , %m = 2 ; %i < %m ; %i ++! ) { %r . push ( %i ) ; } for ( const %k of [ 5 , 6 ] ) { %r . push ( %k ) ; } for ( var %d in { %K1 : 1 } ) { %r . push ( %d ) ; } " +
		"switch ( %n ) { case 1 : %r . push ( 'one' ) ; break~ ; case %v : %r . push ( 'v' ) ; break~ ; default : %r . push ( 'd' ) ; } " +
		"try { throw~ new Error ( 'x' ) ; } catch ( %e ) { %r . push ( %e . message ) ; } finally { %r . push ( 'f' ) ; } lbl1 : for ( ; ; ) { break~ lbl1 ; } " +
		"while ( %n > 0 ) { %n --! ; } do { %n ++! ; } while ( %n < 2 ) ; if ( %n ) { %r . push ( 1 ) ; } else if ( %v ) { %r . push ( 2 ) ; } else { %r . push ( 3 ) ; } " +
		"%r . push ( %n ? %v : %i , typeof %n , void 0 , '%K1' in { %K1 : 1 } , %r instanceof Array , ( 1 , 2 ) ) ; return~ %r ; }"},
	{name: "globals", call: "%f ( 2 )", decl: "function %f ( %p ) { return~ [ gShared + %p , status , helper ( %p ) , typeof missingGlobal , total / 2 , name , location . href , event . type ] ; }"},
	{name: "numbers", call: "%f ( 1 )", decl: "function %f ( %p ) { return~ [ 1.5 + .5 , 0x1F , 1e3 , 1e-3 , 2E+2 , 0b11 , 0o7 , 1_000 , String ( 10n + 5n ) , 5..toFixed ( 1 ) , 1.0.toFixed ( 1 ) , " +
		"0xe + 1 , %p ? .5 : 1 , 1e3 .toFixed ( 0 ) , 5 .toFixed ( 2 ) , 3 in [ 1 ] , 1.5e3 , .5e1 , %p . toFixed ( 1 ) ] ; }"},
	{name: "class", call: "%f ( 4 )", decl: "class %C { constructor ( %v ) { this . %K1 = %v ; } %M1 ( %w ) { return~ this . %K1 + %w ; } static %M2 ( %x ) { return~ new %C ( %x ) ; } } " +
		"function %f ( %p ) { const %o = new %C ( %p ) ; delete %o . zz ; return~ [ %o . %M1 ( 1 ) , %C . %M2 ( 2 ) . %K1 , %o instanceof %C ] ; }"},
	{name: "filescope", call: "%f ( 1 )", decl: "var %G1 = 1 , %G2 = [ 2 ] ; let %G3 = { %K1 : 3 } ; const %G4 = function ( %p ) { return~ %p + %G1 ; } ; " +
		"function %f ( %q ) { let %r = %G1 + %G2 [ 0 ] + %G3 . %K1 + %G4 ( %q ) ; %G1 = %r ; return~ [ %r , %G1 ] ; }"},
	{name: "utf8ident", call: "%f ( )", decl: "var café = 1 ; function %f ( ) { let naïve = café + 1 ; const o = { café , 'ü' : 2 } ; return~ [ naïve , o . café , 'é··è' ] ; }"},
	{name: "ltbang", call: "%f ( 3 , 2 )", decl: "function %f ( %p , %q ) { return~ [ %p < ! -- %q , %p --! > %q , %p / %q / 1 ] ; }"},
	{name: "comment-ctx", call: "%f ( 'a··b' )", decl: "function %f ( %s ) { const %r = /*·c·*/ /a··b/ ; return~ [ %r . test ( %s ) , /*·d·*/ /e··%s/ . source ] ; }"},
	// ---- idioms that carry a KNOWN defect class of the (patched) minifier ----
	{name: "global-collision", hostile: "rename-global-collision", call: "%f ( 2 ) , %f2 ( 1 , 2 )",
		decl: "function %f ( %p ) { return~ [ status , total + %p , typeof helper ] ; } function %f2 ( status , total ) { let helper = 1 ; return~ status + total + helper ; }"},
	{name: "method-shorthand", hostile: "rename-member-name", call: "%f ( 2 )",
		decl: "function %f ( %p ) { const %o = { %p ( %a ) { return~ %a + 1 ; } , get %q ( ) { return~ 2 ; } } ; let %q = 3 ; return~ [ %o . %p ( %q ) , %o . %q ] ; }"},
	{name: "class-member", hostile: "rename-member-name", call: "%f ( 2 )",
		decl: "class %C { %p ( ) { return~ 1 ; } } function %f ( %p ) { return~ new %C ( ) . %p ( ) + %p ; }"},
	{name: "destructure-default", hostile: "rename-destructure-default", call: "%f ( { %K1 : 7 , %K2 : 2 } )",
		decl: "function %f ( %o ) { const { %K1 = 5 , %K2 } = %o ; return~ [ %K1 , %K2 ] ; }"},
	{name: "nested-template", hostile: "nested-template", call: "%f ( 1 , 2 )",
		decl: "function %f ( %p , %q ) { return~ `a${·%p·?·`<b>··${·%q·}··</b>`·:·''·}z` ; }"},
	{name: "nested-template-callback", hostile: "nested-template", call: "%f ( 1 , 2 )",
		decl: "function %f ( %p , %q ) { return~ `a${·[·%p·].map(function·(%e)·{·return·`<i>··${·%e·}··</i>`;·}).join('')·+·%q·}z` ; }"},
	{name: "block-var", hostile: "block-var-at-file-scope", call: "%f ( 1 )",
		decl: "if ( gShared ) { var %G1 = 1 ; } function %f ( %p ) { return~ %p + %G1 ; }"},
}

// ---- generated template-literal idiom ("template-mixed") ----
// Expressions placed inside ${...}. `%L` is replaced by a local of the enclosing function; the other placeholders
// are names bound inside the expression itself. Group A has a closing brace (or a '}' in a string / regex) BEFORE a
// use of `%L`; group B are plain expressions.
var c33InterpBraced = []string{
	"%items.reduce(function·(%acc,·%it)·{·return·%acc·+·%it.%K1;·},·%L)",
	"%items.map((%e)·=>·{·return·%e.%K1·*·2;·}).join(%L)",
	"JSON.stringify({·%K2:·1,·%K3:·{·%K1:·2·}·})·+·%L",
	"[1,·2,·3].filter(function·(%n)·{·if·(%n·>·1)·{·return·true;·}·return·%L·===·%n;·}).length·+·%L",
	"(()·=>·{·let·%w·=·5;·return·%w;·})()·+·%L",
	"'}'·+·%L",
	"\"{}\"·+·%L·+·'${'",
	"({·%K1:·7·}).%K1·+·%L",
	"%items.map(function·(%e)·{·return·{·%K2:·%e.%K1·};·}).length·?·%L·:·0",
	"((%a1,·%b1)·=>·{·return·%a1·+·%b1;·})(1,·%L)",
	"[%L].map(%e·=>·({·%K1:·%e·}))[0].%K1·+·'/'·+·%L",
	"/[}]/.source·+·%L",
	"typeof·function·()·{}·+·%L",
	"[%L,·{·%K3:·%L·}.%K3,·%L].length·+·%L",
	"(function·()·{·try·{·throw·1;·}·catch·(%e)·{·return·%e;·}·})()·+·%L",
}
var c33InterpPlain = []string{"%L", "%L·+·1", "helper(%L)", "%L·?·'y'·:·'n'", "[%L,·%L].length", "%items.length", "String(%L).length"}
var c33TplText = []string{"", "", "·", "<td>", "</td>", "}", "{", "$", "\\${x}", "·//·", "'", "{·}", "$·{", "·=·", "/*", "\"", "·}·"}

// c33GenTemplateIdiom: a function with locals declared in several ways (parameters, let/const/var, destructuring,
// a loop variable, an arrow-function parameter) that returns template literals built from the fragments above.
// Each `%L` takes the next local of a shuffled list, so that many locals are used in one position only.
func c33GenTemplateIdiom(r *rand.Rand) (decl, call string) {
	pool := []string{"%L1", "%L2", "%L3", "%L4", "%L5", "%L6", "%L7"}
	r.Shuffle(len(pool), func(i, j int) { pool[i], pool[j] = pool[j], pool[i] })

	next := func() string {
		if len(pool) == 0 {
			return "%L" + string(rune('1'+r.Intn(7)))
		}

		n := pool[0]
		pool = pool[1:]

		return n
	}

	tpl := func(first string) string {
		var sb strings.Builder

		sb.WriteString("`")
		sb.WriteString(c33TplText[r.Intn(len(c33TplText))])

		for k, n := 0, 1+r.Intn(3); k < n; k++ {
			var e string
			if r.Intn(4) == 0 {
				e = c33InterpPlain[r.Intn(len(c33InterpPlain))]
			} else {
				e = c33InterpBraced[r.Intn(len(c33InterpBraced))]
			}
			// the LAST %L of a braced fragment is the one behind the brace: give it `first` (a local used nowhere else)
			parts := strings.Split(e, "%L")
			e = parts[0]

			for k, part := range parts[1:] {
				l := ""
				if k == len(parts)-2 && first != "" {
					l, first = first, ""
				} else {
					l = next()
				}

				e += l + part
			}

			pad := []string{"", "·", "··"}[r.Intn(3)]
			sb.WriteString("${" + pad + e + pad + "}")
			sb.WriteString(c33TplText[r.Intn(len(c33TplText))])
		}

		sb.WriteString("`")

		return sb.String()
	}

	var sb strings.Builder

	sb.WriteString("function %f ( %items , %L1 , %L2 ) { let %L3 = 3 ; const %L4 = 'c4' ; var %L5 = [ 5 ] ; let { %K4 : %L6 } = { %K4 : 6 } ; const [ %L7 ] = [ 'c7' ] ; const %r = [ ] ; ")

	for k, n := 0, 1+r.Intn(3); k < n; k++ {
		sb.WriteString("%r . push ( " + tpl("") + " ) ; ")
	}

	if r.Intn(2) == 0 {
		sb.WriteString("for ( let %L8 = 0 ; %L8 < 2 ; %L8 ++! ) { %r . push ( " + tpl("%L8") + " ) ; } ")
	}

	if r.Intn(2) == 0 {
		sb.WriteString("%r . push ( ( ( %L9 ) => { return~ " + tpl("%L9") + " ; } ) ( 9 ) ) ; ")
	}

	sb.WriteString("return~ %r ; }")

	return sb.String(), "%f ( [ { %K1 : 1 } , { %K1 : 2 } ] , 10 , 'two' )"
}

var c33PH = regexp.MustCompile(`%[A-Za-z][A-Za-z0-9]*`)
var c33FnPH = regexp.MustCompile(`^%f[0-9]*$`) // %f, %f2, %f3 …: function names declared by the idiom
var c33PH2 = regexp.MustCompile(`[A-Za-z_$][A-Za-z0-9_$]*`)

type c33Prog struct {
	Src    string
	Class  string // "" or the known-defect class of the one hostile idiom used
	Idioms []string
	Module bool // an ES module (import/export, strict mode): evaluated with vm.SourceTextModule
}

func c33Pick(r *rand.Rand, pool []string, used map[string]bool) string {
	for {
		s := pool[r.Intn(len(pool))]
		if !used[s] {
			used[s] = true

			return s
		}
	}
}

// c33Expand instantiates one idiom: placeholder → name, consistently inside the idiom.
func c33Expand(r *rand.Rand, id c33Idiom, serial int) (decl []string, call []string) {
	names := map[string]string{}
	used := map[string]bool{} // locals, property names and file-scope names of one idiom are distinct

	sub := func(ph string) string {
		if n, ok := names[ph]; ok {
			return n
		}

		var n string

		switch {
		case c33FnPH.MatchString(ph):
			n = "fn" + ph[1:] + "_" + string(rune('A'+serial%26)) + string(rune('a'+serial/26%26))
		case ph == "%C":
			n = "Cls" + string(rune('A'+serial%26))
		case ph[1] == 'K':
			n = c33Pick(r, c33Props, used)
		case ph[1] == 'M':
			n = c33Members[r.Intn(len(c33Members))] + ph[2:]
		case ph[1] == 'G':
			if ph[2] <= '2' && r.Intn(2) == 0 {
				n = c33Pick(r, c33Locals, used) // a file-scope `var` whose name is a local elsewhere
			} else {
				n = "fs" + ph[2:] + "_" + string(rune('A'+serial%26))
			}
		default:
			n = c33Pick(r, c33Locals, used)
		}

		names[ph] = n

		return n
	}

	inst := func(tpl string) []string {
		out := []string{}

		for _, tok := range strings.Split(tpl, " ") {
			if tok == "" {
				continue
			}

			tok = c33PH.ReplaceAllStringFunc(tok, sub)
			out = append(out, strings.ReplaceAll(tok, "·", " "))
		}

		return out
	}

	return inst(id.decl), inst(id.call)
}

func c33Word(b byte) bool {
	return b == '_' || b == '$' || b >= 0x80 || (b >= '0' && b <= '9') || (b >= 'a' && b <= 'z') || (b >= 'A' && b <= 'Z')
}

const c33OpBytes = "+-*/%<>=!&|?.:^~"

// c33MustSep: must the source keep something between tokens a and b? (conservative)
func c33MustSep(a, b string) bool {
	la, fb := a[len(a)-1], b[0]
	if c33Word(la) && c33Word(fb) {
		return true
	}

	if strings.IndexByte(c33OpBytes, la) >= 0 && strings.IndexByte(c33OpBytes, fb) >= 0 {
		return true
	}

	num := (a[0] >= '0' && a[0] <= '9') || (a[0] == '.' && len(a) > 1)

	return (num && fb == '.') || (la == '.' && fb >= '0' && fb <= '9')
}

var c33CommentBodies = []string{"c", " note ", "it's", "\"q\"", "`t`", "* /", "//x", "${a}", "/re/", "a*b", ""}

func c33Gap(r *rand.Rand, must, nl bool) string {
	for {
		switch k := r.Intn(100); {
		case k < 30:
			if !must {
				return ""
			}
		case k < 62:
			return " "
		case k < 70:
			return "  "
		case k < 73:
			return "\t"
		case k < 83:
			if nl {
				return "\n"
			}
		case k < 85:
			if nl {
				return "\r\n  "
			}
		case k < 94:
			body := c33CommentBodies[r.Intn(len(c33CommentBodies))]
			if nl && r.Intn(4) == 0 {
				body += "\n * more"
			}

			return []string{"/*", " /*", "/*"}[r.Intn(3)] + body + []string{"*/", "*/ ", "*/"}[r.Intn(3)]
		default:
			if nl {
				return " //" + c33CommentBodies[r.Intn(len(c33CommentBodies))] + "\n"
			}
		}
	}
}

// c33Join renders tokens with random gaps.
func c33Join(r *rand.Rand, toks []string) string {
	var sb strings.Builder

	prev, nlAfterPrev := "", true

	for _, t := range toks {
		nlBefore := true

		if t == "++!" || t == "--!" {
			t = t[:2]
			nlBefore = false
		}

		if t == "=>" {
			nlBefore = false
		}

		nlAfter := true
		if len(t) > 1 && strings.HasSuffix(t, "~") {
			t = t[:len(t)-1]
			nlAfter = false
		}

		if prev != "" {
			g := c33Gap(r, c33MustSep(prev, t), nlBefore && nlAfterPrev)
			if strings.HasSuffix(prev, "/") && strings.HasPrefix(g, "/") {
				g = " " + g // `/` followed by `/*` would read as a line comment
			}

			sb.WriteString(g)
		}

		sb.WriteString(t)

		prev, nlAfterPrev = t, nlAfter
	}

	return sb.String()
}

// c33GenProgram builds one program. At most one idiom with a known defect class is used,
// and only when allowHostile is set; a program that fails without one is a new finding.
func c33GenProgram(r *rand.Rand, allowHostile bool) c33Prog {
	var benign, hostile []c33Idiom

	for _, id := range c33Idioms {
		if id.hostile == "" {
			benign = append(benign, id)
		} else {
			hostile = append(hostile, id)
		}
	}

	p := c33Prog{}
	n := 1 + r.Intn(4)
	chosen := []c33Idiom{}

	for i := 0; i < n; i++ {
		chosen = append(chosen, benign[r.Intn(len(benign))])
	}

	if allowHostile {
		h := hostile[r.Intn(len(hostile))]
		p.Class = h.hostile
		chosen[r.Intn(len(chosen))] = h
	}

	c33Assemble(r, &p, chosen)

	return p
}

// c33Assemble instantiates the chosen idioms and renders the program text (script, or ES module when p.Module).
func c33Assemble(r *rand.Rand, p *c33Prog, chosen []c33Idiom) {
	toks := []string{}
	calls := []string{}

	if p.Module {
		toks = append(toks, strings.Fields(c33ModuleHead)...)
	}

	for i, id := range chosen {
		if id.gen != nil {
			id.decl, id.call = id.gen(r)
		}

		d, c := c33Expand(r, id, i+r.Intn(3)*26)
		toks = append(toks, d...)
		p.Idioms = append(p.Idioms, id.name)

		if len(c) > 0 {
			if len(calls) > 0 {
				calls = append(calls, ",")
			}

			calls = append(calls, c...)
		}
	}

	if p.Module {
		toks = append(toks, strings.Fields("const outAll = JSON . stringify ( [")...)
		toks = append(toks, calls...)
		toks = append(toks, strings.Fields(c33ModuleTail)...)
	} else {
		toks = append(toks, "console", ".", "log", "(", "JSON", ".", "stringify", "(", "[")
		toks = append(toks, calls...)
		toks = append(toks, "]", ")", ")", ";")
	}

	cls := p.Class
	if cls == "" {
		cls = "none"
	}

	if p.Module {
		cls += " module=1"
	}

	p.Src = "//C33 class=" + cls + " idioms=" + strings.Join(p.Idioms, ",") + "\n" + c33Join(r, toks)
}
