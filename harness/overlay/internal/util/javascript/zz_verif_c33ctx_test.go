//go:build verif

package javascript

// Contextual-keyword programs of the C33 oracle.
//
// JavaScript has words that are keywords only in certain positions (`for (x of y)`, `{ get p() {} }`,
// `static m() {}`, `async function`, `await e`, `yield e`, `import {a as b} from 'm'`, `new.target`,
// `import.meta`) and ordinary identifiers everywhere else. renameLocals renames by SPELLING, so a local or
// parameter that is spelled like such a word is safe only while the word is never renamed (the `reserved`
// table) or while every keyword position is recognised. The idiom generated here declares locals spelled like
// these words in every way collectLocals knows (parameter, var, let, const, object/array destructuring, loop
// variable, inner function parameter), uses them, and ALSO uses the same words in their keyword role in the
// same file. Programs are run under node as written / minified / minified+renamed like every other program;
// a third of them are ES modules (import/export forms, import.meta, strict mode), evaluated with
// vm.SourceTextModule against a synthetic './dep.js'.

import (
	"math/rand"
	"strings"
)

// words usable as a binding name in a sloppy-mode script function (outside async functions and generators)
var c33CtxWords = []string{"get", "set", "of", "from", "as", "async", "await", "static", "let", "yield", "target", "meta"}

// … and in module (strict) code, where let/static/yield/await are reserved
var c33CtxWordsStrict = []string{"get", "set", "of", "from", "as", "async", "target", "meta"}

// keyword-role fragments: `top` is placed before the function, `body` inside it (%r is the result array).
// Member names are %M names (never the name of a local, so the known class rename-member-name stays out).
type c33CtxRole struct {
	words     []string
	top, body string
}

var c33CtxRoles = []c33CtxRole{
	{words: []string{"of"}, body: "for ( const %k of [ 1 , 2 ] ) { %r . push ( %k ) ; } for ( %j of [ 3 ] ) %r . push ( %j ) ;", top: "var %j ;"},
	{words: []string{"get", "set"}, body: "const %o = { get %M1 ( ) { return~ 1 ; } , set %M1 ( %v ) { %r . push ( %v ) ; } , %K7 : 2 , get [ 'c' + 1 ] ( ) { return~ 3 ; } } ; " +
		"%o . %M1 = 5 ; %r . push ( %o . %M1 , %o . c1 , %o ) ;"},
	{words: []string{"static", "get", "set"}, top: "class %C { static %M2 ( ) { return~ 2 ; } static get %M3 ( ) { return~ 3 ; } static %M7 = 4 ; static { %C . %K9 = 5 ; } " +
		"get %M4 ( ) { return~ this . %K7 ; } set %M4 ( %w ) { this . %K7 = %w ; } }",
		body: "const %ci = new %C ( ) ; %ci . %M4 = 8 ; %r . push ( %C . %M2 ( ) , %C . %M3 , %C . %M7 , %C . %K9 , %ci . %M4 ) ;"},
	{words: []string{"async", "await"}, top: "async~ function %f2 ( %p ) { const %x = await %p ; for await ( const %y of [ %x ] ) { await %y ; } return~ %x ; }",
		body: "const %ar = async~ ( %q ) => { return~ await %q ; } ; const %ar2 = async~ %q2 => %q2 ; const %ao = { async~ %M5 ( ) { return~ await 1 ; } , async~ * %M6 ( ) { yield~ 1 ; } } ; " +
			"%r . push ( typeof %f2 ( 1 ) . then , typeof %ar ( 2 ) . then , typeof %ar2 ( 3 ) . then , typeof %ao . %M5 ( ) . then , typeof %ao . %M6 ( ) . next ) ;"},
	{words: []string{"yield"}, top: "function * %f3 ( %p ) { yield~ %p ; const %x = yield~ * [ %p + 1 ] ; yield ; }",
		body: "%r . push ( [ ... %f3 ( 1 ) ] ) ;"},
	{words: []string{"target"}, top: "function %f4 ( ) { return~ new . target === undefined ; }", body: "%r . push ( %f4 ( ) , typeof new %f4 ( ) ) ;"},
	{words: []string{"let"}, body: "let %x2 = 1 ; { let %x2 = 2 ; %r . push ( %x2 ) ; } %r . push ( %x2 ) ;"},
}

// module wrapper: from / as / import.meta in their keyword roles. The imported and exported names are never locals.
const c33ModuleHead = "import impDflt , { impA as impB , impC } from './dep.js' ; import * as impNs from './dep.js' ; " +
	"export { impA as reA , impC } from './dep.js' ; export * as reNs from './dep.js' ;"
const c33ModuleTail = ", impDflt , impB , impC , impNs . impA , typeof import . meta . url ] ) ; export { outAll as expAll } ; export default outAll ; console . log ( outAll ) ;"

// uses of a local spelled w (never at the start of a statement, so `let [`, `async function` … cannot arise)
var c33CtxUses = []string{
	"%r . push ( W + 1 ) ;", "%r . push ( [ W , W ] . length , W ) ;", "%r . push ( { W } ) ;", "%r . push ( { %K2 : W } ) ;",
	"%r . push ( W ? 'y' : 'n' ) ;", "%r . push ( helper ( W ) ) ;", "%r . push ( typeof W ) ;", "%r . push ( ( ( ) => W ) ( ) ) ;",
	"%r . push ( { %K3 : [ W ] , W } ) ;", "%r . push ( ( function ( ) { return~ W ; } ) ( ) ) ;", "%r . push ( `t` + W ) ;",
}

// uses that assign (not for const bindings)
var c33CtxAssign = []string{"%r . push ( W += 2 ) ;", "%r . push ( W ++! ) ;", "%r . push ( ( W = W * 2 ) ) ;"}

// shadowing declarations of W in an inner scope
var c33CtxInner = []string{
	"for ( const W of [ N ] ) { %r . push ( W + 1 ) ; }",
	"%r . push ( ( function ( W ) { return~ W * 2 ; } ) ( N ) ) ;",
	"%r . push ( ( ( W ) => W * 3 ) ( N ) ) ;",
	"{ let W = N ; %r . push ( W ) ; }",
	"%r . push ( ( function ( %p9 , W ) { var %q9 = W + %p9 ; return~ %q9 ; } ) ( 1 , N ) ) ;",
}

func c33GenCtxKwIdiom(strict bool) func(r *rand.Rand) (decl, call string) {
	return func(r *rand.Rand) (string, string) {
		pool := c33CtxWords
		if strict {
			pool = c33CtxWordsStrict
		}

		words := append([]string{}, pool...)
		r.Shuffle(len(words), func(i, j int) { words[i], words[j] = words[j], words[i] })
		words = words[:2+r.Intn(4)]

		params := []string{}
		decls := []string{}
		stmts := []string{}
		num := 3

		for _, w := range words {
			form := r.Intn(6)
			if w == "let" && form >= 2 {
				form = r.Intn(2) // `let let` / `const let` are not JavaScript
			}

			if form == 0 && len(params) == 2 {
				form = 1
			}

			n := string(rune('0' + num%10))
			num++
			isConst := false

			switch form {
			case 0:
				params = append(params, w)
			case 1:
				decls = append(decls, "var W = "+n+" ;")
			case 2:
				decls = append(decls, "let W = "+n+" ;")
			case 3:
				decls = append(decls, "const { %K1 : W } = { %K1 : "+n+" } ;")
				isConst = true
			case 4:
				decls = append(decls, "let [ %u"+n+" , W = "+n+" ] = [ 1 ] ;")
			default:
				decls = append(decls, "const %c"+n+" = 1 , W = "+n+" ;")
				isConst = true
			}

			if form != 0 {
				decls[len(decls)-1] = strings.ReplaceAll(decls[len(decls)-1], "W", w)
			}

			for k, m := 0, 1+r.Intn(3); k < m; k++ {
				u := c33CtxUses[r.Intn(len(c33CtxUses))]
				if !isConst && r.Intn(4) == 0 {
					u = c33CtxAssign[r.Intn(len(c33CtxAssign))]
				}

				stmts = append(stmts, strings.ReplaceAll(u, "W", w))
			}

			if w != "let" && r.Intn(3) == 0 {
				u := c33CtxInner[r.Intn(len(c33CtxInner))]
				stmts = append(stmts, strings.ReplaceAll(strings.ReplaceAll(u, "W", w), "N", n))
			}
		}

		// keyword roles: always the role of every chosen word that has one, plus random others
		top := []string{}

		for _, role := range c33CtxRoles {
			take := r.Intn(3) == 0

			for _, rw := range role.words {
				for _, w := range words {
					take = take || rw == w
				}
			}

			if !take {
				continue
			}

			if role.top != "" {
				top = append(top, role.top)
			}

			stmts = append(stmts, role.body)
		}

		r.Shuffle(len(decls), func(i, j int) { decls[i], decls[j] = decls[j], decls[i] })
		r.Shuffle(len(stmts), func(i, j int) { stmts[i], stmts[j] = stmts[j], stmts[i] })

		for len(params) < 2 {
			params = append(params, "%p"+string(rune('7'+len(params))))
		}

		decl := strings.Join(top, " ") + " function %f ( " + strings.Join(params, " , ") + " ) { const %r = [ ] ; " +
			strings.Join(decls, " ") + " " + strings.Join(stmts, " ") + " return~ %r ; }"

		return decl, "%f ( 1 , 2 )"
	}
}

// c33GenCtxProgram: one contextual-keyword idiom plus up to two ordinary idioms; as a script or as a module.
func c33GenCtxProgram(r *rand.Rand, module bool) c33Prog {
	chosen := []c33Idiom{{name: "ctx-keywords", gen: c33GenCtxKwIdiom(module)}}

	for k, n := 0, r.Intn(3); k < n; k++ {
		id := c33Idioms[r.Intn(len(c33Idioms))]
		if id.hostile == "" {
			chosen = append(chosen, id)
		}
	}

	r.Shuffle(len(chosen), func(i, j int) { chosen[i], chosen[j] = chosen[j], chosen[i] })

	p := c33Prog{Module: module}
	c33Assemble(r, &p, chosen)

	return p
}
