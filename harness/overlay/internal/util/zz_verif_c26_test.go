//go:build verif

package util

// C26 correspondence harness and direct oracle for util.SandboxJoin (the helper every sandboxed
// runtime function routes its path through).
//
//  * stream "clean"/"wr": filepath.Clean and withinRoot on hostile spellings vs the Lean path algebra.
//  * stream "sj-str":     SandboxJoin on roots that do not exist (pure string behaviour), relative roots.
//  * stream "sj":         generated layouts in a scratch directory (dirs, files, symlinks: escaping,
//                         dangling, looping, chained; root possibly a symlink or missing) x hostile
//                         paths: SandboxJoin's answer vs the model's on the same layout.
//  * direct oracle (no model): the KERNEL decides where the returned path leads: open it and read
//    /proc/self/fd/N (must be physically inside the root, content must not be a canary), then a
//    destructive phase (WriteFile / MkdirAll / OpenFile(O_CREATE) / Chmod / Remove on the returned
//    path) after which a snapshot of everything outside the root must be unchanged.

import (
	"fmt"
	"os"
	"path/filepath"
	"strings"
	"testing"

	"github.com/tucats/ego/internal/verifh"
)

func c26Spelling(r interface{ Intn(int) int }) string {
	segs := []string{"a", "b", "..", ".", "", "sandbox", "sandbox-evil", "..x", "...", "c d", "é"}
	n := r.Intn(7)
	parts := make([]string, n)

	for i := range parts {
		parts[i] = segs[r.Intn(len(segs))]
	}

	p := strings.Join(parts, "/")

	switch r.Intn(5) {
	case 0:
		p = "/" + p
	case 1:
		p = "/sandbox/" + p
	case 2:
		p = "sandbox/" + p
	}

	return p
}

func TestVerifC26(t *testing.T) {
	cases := verifh.Out("c26_cases.jsonl")
	fails := verifh.Out("c26_failures.jsonl")
	stats := verifh.NewStats()

	defer func() { cases.Close(); fails.Close(); stats.Save("c26_stats.json") }()

	distinct := map[string]bool{}
	r := verifh.Rand(2601)

	// ---- path algebra ---------------------------------------------------------------
	nStr := verifh.N(1500, 12000)
	roots := []string{"/sandbox", "/sandbox/", "/", "sandbox", ".", "..", "../sandbox", "/sandbox/a/..", "/nx-c26/root", "a/b", "./a"}

	for i := 0; i < nStr; i++ {
		p := c26Spelling(r)
		cases.Write(verifh.Case{In: "clean " + verifh.Hex(p), Impl: verifh.Hex(filepath.Clean(p))})

		root := roots[r.Intn(len(roots))]
		cr, cp := filepath.Clean(root), filepath.Clean(p)
		w := "0"

		if withinRoot(cp, cr) {
			w = "1"
		}

		cases.Write(verifh.Case{In: "wr " + verifh.Hex(cp) + " " + verifh.Hex(cr), Impl: w})

		// roots that do not exist: SandboxJoin is its string self
		if _, err := os.Lstat(cr); err == nil && cr != "/" {
			continue
		}

		if cr == "/" || cr == "." || cr == ".." {
			continue // these exist; covered by the layout stream (absolute) / out of the model's scope (relative)
		}

		q := SandboxJoin(root, p)
		cases.Write(verifh.Case{In: "sj " + verifh.Hex(root) + " " + verifh.Hex(p), Impl: verifh.Hex(q)})
		stats.Inc("sj_string_cases")

		if !withinRoot(filepath.Clean(q), cr) {
			fails.Write(verifh.Failure{Class: "string-escape", What: "SandboxJoin result is lexically outside the root",
				Input: fmt.Sprintf("root=%q path=%q", root, p), Got: q})
		}
	}

	// ---- layouts ----------------------------------------------------------------------
	nLay := verifh.N(40, 400)
	perLay := 40
	scratch := os.Getenv("VERIF_OUT")

	for li := 0; li < nLay; li++ {
		l := verifh.C26NewLayout(r, scratch, 0)
		cases.Write(verifh.Case{In: "fs " + verifh.Hex(l.Line()), Impl: fmt.Sprintf("ok %d", len(l.Entries)+strings.Count(filepath.Dir(l.Base), "/"))})
		stats.Inc(fmt.Sprintf("layout_variant_%d", l.Variant))

		if l.Dangling {
			stats.Inc("layouts_with_dangling_escape")
		}

		before := l.C26Snapshot()
		paths := make([]string, perLay)

		for i := range paths {
			paths[i] = l.C26Path(r)
		}

		for _, p := range paths {
			q := SandboxJoin(l.Root, p)
			cases.Write(verifh.Case{In: "sj " + verifh.Hex(l.Root) + " " + verifh.Hex(p), Impl: verifh.Hex(q)})
			stats.Inc("sj_layout_cases")

			in := fmt.Sprintf("layout=%q root=%q path=%q", l.Line(), l.Root, p)

			if strings.Contains(p, "..") || len(l.Links) > 0 {
				if k := l.Root + "\x00" + p; !distinct[k] {
					distinct[k] = true
					stats.Inc("distinct_nontrivial")
				}
			}

			// the kernel's verdict on where q leads (read-only)
			if f, err := os.Open(q); err == nil {
				phys, _ := os.Readlink(fmt.Sprintf("/proc/self/fd/%d", f.Fd()))
				buf := make([]byte, 64)
				n, _ := f.Read(buf)
				f.Close()
				stats.Inc("opened")

				if !l.C26PhysWithin(phys) {
					fails.Write(verifh.Failure{Class: "escape-open", What: "opening the SandboxJoin result reaches a file outside the root",
						Input: in, Got: q + " => " + phys, Want: "inside " + l.PhysRoot})
				} else if strings.Contains(string(buf[:n]), "CANARY") {
					fails.Write(verifh.Failure{Class: "escape-read", What: "canary content read through the SandboxJoin result", Input: in, Got: q})
				}
			}

			stats.Sample(map[string]string{"root": l.Root, "path": p, "result": q})
		}

		// destructive phase: the layout changes, so no model comparison here
		for i, p := range paths {
			if i%2 == 1 {
				continue
			}

			q := SandboxJoin(l.Root, p)
			op := r.Intn(6)

			switch op {
			case 0:
				_ = os.WriteFile(q, []byte("W"), 0o600)
			case 1:
				_ = os.MkdirAll(q, 0o700)
			case 2:
				if f, err := os.OpenFile(q, os.O_CREATE|os.O_WRONLY|os.O_APPEND, 0o600); err == nil {
					_, _ = f.WriteString("A")
					f.Close()
				}
			case 3:
				_ = os.Chmod(q, 0o700)
			case 4:
				// (removing the clamp result = the configured root entry itself is not an escape; Ego's
				// os.Remove/RemoveAll are refused outright in a sandboxed context)
				if q != l.Root {
					_ = os.Remove(q)
				}
			case 5:
				if f, err := os.Create(q); err == nil {
					f.Close()
				}
			}

			stats.Inc("destructive_ops")

			if after := l.C26Snapshot(); after != before {
				cls := "escape-write"
				if l.Dangling {
					cls = "escape-write-dangling-link"
				}

				fails.Write(verifh.Failure{Class: cls, What: "an operation on the SandboxJoin result changed the tree outside the root",
					Input:  fmt.Sprintf("layout=%q root=%q path=%q op=%d", l.Line(), l.Root, p, op),
					Got:    q + " ; " + verifh.C26Diff(before, after), Want: "outside tree unchanged"})

				break
			}
		}

		_ = os.Chmod(l.Base, 0o700)
		_ = os.RemoveAll(l.Base)
	}
}
