//go:build verif

// Package verifc27 is the reference side of the C27 harnesses: an independent
// re-statement of the primitives (Argon2id / PBKDF2 / MD5 / SHA-256 key derivation and
// AES-256-GCM, straight from Go's crypto libraries with the parameters documented in the
// wire-format comments), the table of primitive verdicts handed to the Lean model, and the
// hostile generators (plaintexts, passphrases, mutations).  It never calls the code under
// test and is copied into the scratch tree only for a C27 run.
package verifc27

import (
	"crypto/aes"
	"crypto/cipher"
	"crypto/md5"
	"crypto/sha256"
	"encoding/base64"
	"encoding/hex"
	"math/rand"
	"sort"
	"strconv"
	"strings"

	"golang.org/x/crypto/argon2"
	"golang.org/x/crypto/pbkdf2"
)

var (
	Magic3 = []byte{0xFF, 0x45, 0x47, 0x33}
	Magic2 = []byte{0xFF, 0x45, 0x47, 0x4F}
)

const (
	SaltLen  = 16
	NonceLen = 12
	TagLen   = 16
)

var kdfCache = map[string][]byte{}

// KDFCalls counts real (uncached) key derivations, for the statistics.
var KDFCalls = map[string]int{}

func cached(kind, pass string, salt []byte, f func() []byte) []byte {
	k := kind + "\x00" + pass + "\x00" + string(salt)
	if v, ok := kdfCache[k]; ok {
		return v
	}

	if len(kdfCache) > 4096 {
		kdfCache = map[string][]byte{}
	}

	v := f()
	kdfCache[k] = v
	KDFCalls[kind]++

	return v
}

// Argon2id: t=2, m=32 MiB, p=1, 32-byte key (the v3 format).
func Argon(pass string, salt []byte) []byte {
	return cached("argon", pass, salt, func() []byte { return argon2.IDKey([]byte(pass), salt, 2, 32*1024, 1, 32) })
}

// PBKDF2-SHA256, 100000 iterations, 32-byte key (the util v2 format).
func PBKDF2(pass string, salt []byte) []byte {
	return cached("pbkdf2", pass, salt, func() []byte { return pbkdf2.Key([]byte(pass), salt, 100_000, 32, sha256.New) })
}

// MD5Hex: the 32 ASCII hex digits of MD5(pass) used as an AES-256 key (legacy format).
func MD5Hex(pass string) []byte {
	h := md5.Sum([]byte(pass))

	return []byte(hex.EncodeToString(h[:]))
}

// SHA256 of the passphrase (the settings v2 format).
func SHA256(pass string) []byte {
	h := sha256.Sum256([]byte(pass))

	return h[:]
}

func gcm(key []byte) cipher.AEAD {
	b, err := aes.NewCipher(key)
	if err != nil {
		panic(err)
	}

	g, err := cipher.NewGCM(b)
	if err != nil {
		panic(err)
	}

	return g
}

// Open is AES-256-GCM's own verdict on (key, nonce, ct).
func Open(key, nonce, ct []byte) ([]byte, bool) {
	p, err := gcm(key).Open(nil, nonce, ct, nil)
	if err != nil {
		return nil, false
	}

	return p, true
}

// Seal returns ciphertext+tag (without the nonce).
func Seal(key, nonce, pt []byte) []byte {
	return gcm(key).Seal(nil, nonce, pt, nil)
}

func hx(b []byte) string {
	if len(b) == 0 {
		return "-"
	}

	return hex.EncodeToString(b)
}

// Table collects primitive verdicts for one protocol line.
type Table struct {
	seen map[string]bool
	ents []string
	// Texts are the plaintexts of the verdicts that authenticated (reference "what may be returned").
	Texts []string
}

func NewTable() *Table { return &Table{seen: map[string]bool{}} }

func (t *Table) add(k, v string) {
	if !t.seen[k] {
		t.seen[k] = true
		t.ents = append(t.ents, k+"="+v)
	}
}

// AddOpen records gcm.Open(key, nonce, ct); id is the model's name of the key.
func (t *Table) AddOpen(id []byte, key, nonce, ct []byte) {
	v := "N"

	if p, ok := Open(key, nonce, ct); ok {
		v = "P" + hx(p)
		t.Texts = append(t.Texts, string(p))
	}

	t.add("O:"+hx(id)+"/"+hx(nonce)+"/"+hx(ct), v)
}

// AddB64 records base64.StdEncoding.DecodeString(body) and returns its result.
func (t *Table) AddB64(body string) ([]byte, bool) {
	raw, err := base64.StdEncoding.DecodeString(body)
	if err != nil {
		t.add("B:"+hx([]byte(body)), "N")

		return nil, false
	}

	t.add("B:"+hx([]byte(body)), "P"+hx(raw))

	return raw, true
}

func (t *Table) String() string {
	if len(t.ents) == 0 {
		return "-"
	}

	sort.Strings(t.ents)

	return strings.Join(t.ents, ",")
}

// UtilFrames adds the verdict for the util framings of a byte string: legacy [nonce|ct]
// whenever it is long enough; [magic|salt|nonce|ct] under Argon2id / PBKDF2 when the string
// carries that format's magic (the documented wire format; the key derivations are too
// expensive to run on every line) — or under both, whatever the magic, when `all` is set
// (used for every input the implementation ACCEPTED, so that the reference set of
// authenticated texts is complete).
func (t *Table) UtilFrames(d []byte, pass string, all bool) {
	if len(d) >= NonceLen {
		t.AddOpen([]byte{1}, MD5Hex(pass), d[:NonceLen], d[NonceLen:])
	}

	if len(d) >= 4+SaltLen+NonceLen {
		salt := d[4 : 4+SaltLen]
		rest := d[4+SaltLen:]

		if all || string(d[:4]) == string(Magic3) {
			t.AddOpen(append([]byte{3}, salt...), Argon(pass, salt), rest[:NonceLen], rest[NonceLen:])
		}

		if all || string(d[:4]) == string(Magic2) {
			t.AddOpen(append([]byte{2}, salt...), PBKDF2(pass, salt), rest[:NonceLen], rest[NonceLen:])
		}
	}
}

// SettingsFrames adds base64 verdicts for the candidate bodies of a settings ciphertext
// string and the gcm verdicts of every framing of whatever they decode to (Argon2id only
// behind the "v3:" prefix, or always when `all` is set — see UtilFrames).
func (t *Table) SettingsFrames(d string, pass string, all bool) {
	if raw, ok := t.AddB64(d); ok && len(raw) >= NonceLen {
		t.AddOpen([]byte{1}, MD5Hex(pass), raw[:NonceLen], raw[NonceLen:])
	}

	if len(d) >= 3 {
		if raw, ok := t.AddB64(d[3:]); ok {
			if len(raw) >= NonceLen {
				t.AddOpen([]byte{4}, SHA256(pass), raw[:NonceLen], raw[NonceLen:])
			}

			if len(raw) >= SaltLen+NonceLen && (all || d[:3] == "v3:") {
				salt := raw[:SaltLen]
				rest := raw[SaltLen:]
				t.AddOpen(append([]byte{3}, salt...), Argon(pass, salt), rest[:NonceLen], rest[NonceLen:])
			}
		}
	}
}

// ---------------------------------------------------------------- honest ciphertexts

func randBytes(r *rand.Rand, n int) []byte {
	b := make([]byte, n)
	for i := range b {
		b[i] = byte(r.Intn(256))
	}

	return b
}

// UtilV2 builds a v2 (PBKDF2) util ciphertext the way the previous Encrypt did.
func UtilV2(r *rand.Rand, pt, pass string) []byte {
	salt, nonce := randBytes(r, SaltLen), randBytes(r, NonceLen)
	out := append([]byte{}, Magic2...)
	out = append(out, salt...)
	out = append(out, nonce...)

	return append(out, Seal(PBKDF2(pass, salt), nonce, []byte(pt))...)
}

// UtilLegacy builds a legacy (MD5-keyed) util ciphertext: [nonce|ct]; the nonce never
// starts with 0xFF 'E' 'G' so that it is not mistaken for a magic.
func UtilLegacy(r *rand.Rand, pt, pass string) []byte {
	nonce := randBytes(r, NonceLen)
	if nonce[0] == 0xFF {
		nonce[0] = 0x7F
	}

	return append(nonce, Seal(MD5Hex(pass), nonce, []byte(pt))...)
}

// SettingsV2 / SettingsLegacy build the older profile formats.
func SettingsV2(r *rand.Rand, pt, pass string) string {
	nonce := randBytes(r, NonceLen)

	return "v2:" + base64.StdEncoding.EncodeToString(append(nonce, Seal(SHA256(pass), nonce, []byte(pt))...))
}

func SettingsLegacy(r *rand.Rand, pt, pass string) string {
	nonce := randBytes(r, NonceLen)

	return base64.StdEncoding.EncodeToString(append(nonce, Seal(MD5Hex(pass), nonce, []byte(pt))...))
}

// ---------------------------------------------------------------- generators

var plainCorpus = []string{
	"", "a", "hello", "\x00", "\xff\x45\x47\x33", "\xffEGO", "v3:", "v2:AAAA", "{\"name\":\"x\"}",
	"päßwörd 世界", "line1\nline2\r\n", strings.Repeat("A", 15), strings.Repeat("B", 16), strings.Repeat("C", 17),
	strings.Repeat("xyz", 40), "\xff\xfe\xfd", " ", "0123456789abcdef0123456789abcdef",
}

var passCorpus = []string{
	"", "k", "secret", "päss 世", "\x00\x01", strings.Repeat("K", 128), "key with spaces", "ÿEG3", "a\nb",
}

// Plain returns a plaintext: corpus entries first, then random (binary and text) strings.
func Plain(r *rand.Rand, i int) string {
	if i < len(plainCorpus) {
		return plainCorpus[i]
	}

	n := r.Intn(40)
	if r.Intn(8) == 0 {
		n = 100 + r.Intn(300)
	}

	if r.Intn(2) == 0 {
		return string(randBytes(r, n))
	}

	const al = "abcdefghijklmnopqrstuvwxyzABCDEFGHIJKLMNOPQRSTUVWXYZ0123456789 {}\":,."

	b := make([]byte, n)
	for j := range b {
		b[j] = al[r.Intn(len(al))]
	}

	return string(b)
}

func Pass(r *rand.Rand, i int) string {
	if i < len(passCorpus) {
		return passCorpus[i]
	}

	return string(randBytes(r, 1+r.Intn(24)))
}

// HMACKeyEqual reports whether HMAC-SHA256 (hence PBKDF2) treats two passphrases as the
// same key: keys longer than the 64-byte block are replaced by their SHA-256, shorter ones
// are padded with NUL bytes.
func HMACKeyEqual(a, b string) bool {
	norm := func(k string) string {
		if len(k) > 64 {
			h := sha256.Sum256([]byte(k))
			k = string(h[:])
		}

		return strings.TrimRight(k, "\x00")
	}

	return norm(a) == norm(b)
}

// WrongKeys returns passphrases different from pass.
func WrongKeys(r *rand.Rand, pass string) []string {
	res := []string{pass + "a", pass + "\x00", " " + pass}
	if pass != "" {
		res = append(res, "", pass[:len(pass)-1], strings.ToUpper(pass), pass+pass)
		b := []byte(pass)
		b[r.Intn(len(b))] ^= 1 << uint(r.Intn(8))
		res = append(res, string(b))
	} else {
		res = append(res, "\x00", "x")
	}

	seen := map[string]bool{pass: true}
	out := res[:0]

	for _, k := range res {
		if !seen[k] {
			seen[k] = true
			out = append(out, k)
		}
	}

	return out
}

// ---------------------------------------------------------------- key sweeps

// KeyLens are the passphrase lengths of the key sweep: around the AES block and key sizes
// (16, 32), the SHA-256 / HMAC block (64), bcrypt's 72, the server's generated token keys
// (128 characters, tokens.randomKey), and long ones.
var KeyLens = []int{0, 1, 15, 16, 17, 31, 32, 33, 63, 64, 65, 100, 128, 255, 256, 1000}

// TokenKeyAlphabet is the alphabet of the server's generated token keys.
const TokenKeyAlphabet = "ABCDEFGHIJKLMNOPQRSTUVWXYZabcdefghijklmnopqrstuvwxyz0123456789"

// KeyOfLen returns a passphrase of exactly n bytes. style 0: characters of the generated
// token keys; style 1: arbitrary bytes (the last one is never NUL, so that the key is not a
// NUL-padded form of a shorter one).
func KeyOfLen(r *rand.Rand, n, style int) string {
	b := make([]byte, n)

	for i := range b {
		if style == 0 {
			b[i] = TokenKeyAlphabet[r.Intn(len(TokenKeyAlphabet))]
		} else {
			b[i] = byte(r.Intn(256))
		}
	}

	if style != 0 && n > 0 && b[n-1] == 0 {
		b[n-1] = 0x5A
	}

	return string(b)
}

// KeyVar is a passphrase DIFFERENT from the honest one, with the way it differs.
type KeyVar struct {
	Kind string
	Key  string
}

func swapCase(k string, from int) string {
	b := []byte(k)

	for i := from; i < len(b); i++ {
		if c := b[i] | 0x20; c >= 'a' && c <= 'z' {
			b[i] ^= 0x20
		}
	}

	return string(b)
}

// keyBoundaries are byte positions around the sizes a passphrase could plausibly be cut,
// padded or blocked at.
var keyBoundaries = []int{0, 1, 15, 16, 17, 31, 32, 33, 55, 56, 63, 64, 65, 71, 72, 73, 99, 100, 127, 128, 129, 254, 255, 256, 257, 511, 512, 513}

// KeyVariants returns passphrases that differ from k in exactly one controlled way; every
// one of them is a WRONG key for a ciphertext made under k.  level selects how many:
//
//	0  one changed bit in the LAST byte; one appended character
//	1  + one changed bit at byte 64 (the first byte beyond the hash block); an appended NUL;
//	     the case of every letter swapped
//	2  + one changed bit at each boundary position (keyBoundaries, the middle, the last two,
//	     two random positions); suffixes (space, newline, NUL NUL, 64 bytes, k again); a
//	     prepended space; every prefix of a boundary length and of length-1; case swapped only
//	     beyond a boundary; for keys longer than 64 bytes their SHA-256 (what HMAC replaces them by)
//	3  + one changed bit at EVERY byte position (every 7th beyond 256)
func KeyVariants(r *rand.Rand, k string, level int) []KeyVar {
	var res []KeyVar

	seen := map[string]bool{k: true}
	add := func(kind, key string) {
		if !seen[key] {
			seen[key] = true
			res = append(res, KeyVar{kind, key})
		}
	}

	n := len(k)
	flip := func(p int) {
		if p >= 0 && p < n {
			b := []byte(k)
			b[p] ^= 1 << uint(r.Intn(8))
			add("bit@"+itoa(p)+"/"+itoa(n), string(b))
		}
	}

	flip(n - 1)
	add("suffix-char", k+"a")

	if level >= 1 {
		flip(64)
		add("suffix-nul", k+"\x00")
		add("case-all", swapCase(k, 0))
	}

	if level >= 2 {
		for _, p := range keyBoundaries {
			flip(p)
		}

		flip(n / 2)
		flip(n - 2)

		if n > 0 {
			flip(r.Intn(n))
			flip(r.Intn(n))
		}

		add("suffix-space", k+" ")
		add("suffix-newline", k+"\n")
		add("suffix-nulnul", k+"\x00\x00")
		add("suffix-64", k+KeyOfLen(r, 64, 0))
		add("suffix-self", k+k)
		add("prefix-space", " "+k)

		for _, p := range append([]int{n - 1}, keyBoundaries...) {
			if p >= 0 && p < n {
				add("cut@"+itoa(p)+"/"+itoa(n), k[:p])
				add("case-from@"+itoa(p)+"/"+itoa(n), swapCase(k, p))
			}
		}

		if n > 64 {
			h := sha256.Sum256([]byte(k))
			add("sha256-of-key", string(h[:]))
		}
	}

	if level >= 3 {
		for p := 0; p < n; p++ {
			if p < 256 || p%7 == 0 {
				flip(p)
			}
		}
	}

	return res
}

func itoa(i int) string { return strconv.Itoa(i) }

// StatKind is the counter name of a line kind: the "@position/length" detail of a key
// variant stays in the line's description and in a failure's input, not in the counters.
func StatKind(kind string) string {
	if i := strings.IndexByte(kind, '@'); i >= 0 {
		return kind[:i]
	}

	return kind
}

// Mut is one forged candidate derived from an honest ciphertext.
type Mut struct {
	Kind string
	D    []byte
}

// Mutations derives forged byte strings from the honest ciphertext d: truncation to EVERY
// length, an edit at EVERY position (bit flip, or a random other byte), extensions at both
// ends and in the middle, magic swaps / removal / insertion, duplication, and splices with
// another honest ciphertext `other` (salt, nonce, body exchanged).
// stride > 1 thins the per-position sweeps beyond the first 64 positions (never the header
// region or the tag).  stride == 0 is the sparse sweep for the formats whose key derivation
// costs a third of a second (Argon2id): every truncation into the header (those never reach
// the KDF) and, beyond it, only the region boundaries (magic|salt|nonce|ct|tag) and one
// random position per region.
func Mutations(r *rand.Rand, d, other []byte, stride int) []Mut {
	var ms []Mut

	add := func(kind string, b []byte) {
		if string(b) != string(d) {
			ms = append(ms, Mut{kind, b})
		}
	}

	sparse := map[int]bool{}

	if stride == 0 {
		for _, i := range []int{0, 1, 2, 3, 4, 5, 19, 20, 21, 31, 32, 33, len(d) - 17, len(d) - 16, len(d) - 15, len(d) - 1} {
			sparse[i] = true
		}

		if len(d) > 52 {
			sparse[33+r.Intn(len(d)-17-33)] = true
		}

		sparse[5+r.Intn(14)] = true
		sparse[21+r.Intn(10)] = true
	}

	keep := func(i int) bool {
		if stride == 0 {
			return sparse[i]
		}

		return i < 64 || stride == 1 || i%stride == 0 || i >= len(d)-17
	}

	for n := 0; n < len(d); n++ {
		if keep(n) || (stride == 0 && n < 4+SaltLen) {
			add("truncate", append([]byte{}, d[:n]...))
		}
	}

	for n := 1; n < len(d); n++ {
		if keep(n) && (n <= 48 || n%7 == 0) {
			add("behead", append([]byte{}, d[n:]...))
		}
	}

	for i := 0; i < len(d); i++ {
		if !keep(i) {
			continue
		}

		b := append([]byte{}, d...)
		if r.Intn(2) == 0 {
			b[i] ^= 1 << uint(r.Intn(8))
		} else {
			b[i] = byte(int(b[i]) + 1 + r.Intn(255))
		}

		add("edit", b)
	}

	for _, ext := range [][]byte{{0}, {0xFF}, randBytes(r, 3), randBytes(r, 16)} {
		add("append", append(append([]byte{}, d...), ext...))
		add("prepend", append(append([]byte{}, ext...), d...))
	}

	if len(d) > 20 {
		k := 1 + r.Intn(len(d)-1)
		add("insert", append(append(append([]byte{}, d[:k]...), byte(r.Intn(256))), d[k:]...))
		add("delete", append(append([]byte{}, d[:k]...), d[k+1:]...))
	}

	add("double", append(append([]byte{}, d...), d...))

	if len(d) > 4 {
		add("magic->v2", append(append([]byte{}, Magic2...), d[4:]...))
		add("magic->v3", append(append([]byte{}, Magic3...), d[4:]...))
		add("magic-stripped", append([]byte{}, d[4:]...))
	}

	add("magic3-added", append(append([]byte{}, Magic3...), d...))
	add("magic2-added", append(append([]byte{}, Magic2...), d...))

	if len(other) == len(d) && len(d) >= 4+SaltLen+NonceLen+TagLen {
		s := append([]byte{}, d...)
		copy(s[4:4+SaltLen], other[4:4+SaltLen])
		add("splice-salt", s)

		s = append([]byte{}, d...)
		copy(s[4+SaltLen:4+SaltLen+NonceLen], other[4+SaltLen:4+SaltLen+NonceLen])
		add("splice-nonce", s)

		s = append([]byte{}, d...)
		copy(s[len(s)-TagLen:], other[len(other)-TagLen:])
		add("splice-tag", s)

		s = append([]byte{}, other...)
		copy(s[4:4+SaltLen+NonceLen], d[4:4+SaltLen+NonceLen])
		add("splice-body", s)
	}

	return ms
}

// Junk returns a byte string that was never an honest ciphertext: random bytes of random
// length, often behind a magic, often around the header boundaries.
func Junk(r *rand.Rand) []byte {
	var n int

	switch r.Intn(4) {
	case 0:
		n = r.Intn(12)
	case 1:
		n = 10 + r.Intn(40)
	case 2:
		n = []int{3, 4, 5, 11, 12, 13, 15, 16, 17, 19, 20, 21, 27, 28, 29, 31, 32, 33, 47, 48, 49}[r.Intn(21)]
	default:
		n = r.Intn(120)
	}

	b := randBytes(r, n)

	switch r.Intn(5) {
	case 0:
		b = append(append([]byte{}, Magic3...), b...)
	case 1:
		b = append(append([]byte{}, Magic2...), b...)
	case 2:
		if len(b) > 0 {
			b[0] = 0xFF
		}
	}

	return b
}
