"""C22 — JWT bearer tokens are verified and revocable (OAuth resource-server mode)."""

META = {
    "level": "proof",
    "text": "Lean theorems over an executable model of ValidateJWT (result cache, cache-hit and cache-miss paths), "
            "selectVerificationKey/keyByID with the JWKS cache (fetched key set, fetch time, TTL, unknown-kid refresh "
            "with its 30 s cooldown, failed refresh) over a provider whose JWKS document may be replaced at any moment, "
            "and the blacklist store with its own cache: for EVERY library verdict function, start-up JWKS, configuration, "
            "JWKS TTL and EVERY history of present/revoke/unrevoke/flush/advance/purge/evict/setKeys operations, a token "
            "is accepted only if it parses, its alg is RS*/ES*, its signature verifies under a key the provider HAS "
            "PUBLISHED for signatures (under the kid the header names), iss and aud match, nbf <= now < exp and its jti "
            "is not revoked at that moment (C22_accept_implies); for a token with a kid and no live result-cache entry "
            "that key is published NOW or was last published less than one JWKS TTL ago (C22_key_staleness), so a "
            "never-presented token signed with a withdrawn key is rejected once one TTL has passed "
            "(C22_withdrawn_key_rejected); revocation takes effect for every later request (C22_revocation_effective); "
            "while the provider keeps its document the answer never depends on any cache (C22_present_eq_spec / "
            "C22_seen_or_not / C22_accept_implies_fixed_keys). The model is tied to the code by running the real "
            "ValidateJWT, refreshJWKS/keyByID against a JWKS served from memory that the history replaces (publish, "
            "withdraw, rotate under the same kid, reorder, no usable key), tokens.Blacklist/Delete/Flush, caches.Purge and "
            "the real cache sweepers under a synctest virtual clock (advances across the JWKS TTL and the cooldown) on "
            "generated histories with hand-assembled tokens, and diffing every answer with the Lean model; a model-free "
            "oracle restates the property on the same runs, including: accepted => the verifying key is in the "
            "provider's CURRENT document, or was withdrawn less than one JWKS TTL ago, or the token string still has "
            "its entry in the JWT result cache. A second, end-to-end leg issues tokens with Ego's own authorization "
            "server, revokes them through POST /oauth2/revoke (RevokeHandler) and presents them to the resource server "
            "configured by the real oauth.Initialize (HTTP discovery + JWKS). Both legs inject WRITE FAILURES of the "
            "credentials database into the revocation lookup while its reads keep working (every UPDATE of the "
            "blacklist table refused by a trigger, the store opened read-only with sqlite mode=ro, the SQLite write "
            "lock held by a second connection past the busy timeout) at the moment a revoked jti is looked up with "
            "a cold BlacklistCache, for every JWT-side caller (ValidateJWT result-cache-hit path and step 5b, "
            "authserver UserinfoHandler): the model has no such operation - a revoked jti is rejected whatever the "
            "'last used' audit UPDATE of tokens.IsIDBlacklisted returns - and the oracle is unchanged.",
    "note": "The model mirrors the code WITH fixes/C22.patch (blacklist check on the cache-miss path); the code before the "
            "patch is the `fixed := false` variant and C22_unpatched_counterexample shows it accepts a token revoked "
            "before first presentation. KNOWN FINDING (class accept-withdrawn-key-token-without-kid): for a token WITHOUT "
            "kid selectVerificationKey uses allKeys(), which never looks at the age of the JWKS cache, so a withdrawn key "
            "stays trusted for such tokens until some token with a kid triggers a refresh (C22_nokid_stale_counterexample; "
            "C22_key_staleness has the hypothesis kid != 0). Staleness the code allows and the theorems state: a cached "
            "key set is used while age < ttl, so a key withdrawn at w is honoured only while now - w < ttl; a token string "
            "already in the JWT result cache is not re-verified until that entry lapses (sliding jwt cache ttl + sweep, "
            "bounded by the token's exp). Trusted: Lean kernel; golang-jwt + Go crypto (the library verdict is a "
            "parameter: each signature verifies under at most the key that made it); the harness's recipe as ground "
            "truth. Modelled as an environment assumption: the provider is reachable (refreshJWKS fails only for a "
            "document without usable keys); the cache size limit and sweeper are over-approximated by an `evict` "
            "operation that may drop any entry at any time (the harness reports the real evictions through "
            "caches.SetOnEvict). Assumed: a blacklist store is configured and its reads succeed (ValidateJWT fails open "
            "on a blacklist read error; WRITE errors of the store are not assumed away: the harness injects them); a "
            "server with a read-only store is emulated by writing the rows through a second connection and dropping "
            "this instance's lookup caches the way tokens.Blacklist/Delete/Flush drop them; tokens without a jti cannot be revoked (by design of the code). Permission "
            "mapping is not part of C22.",
    "technique": "Lean 4 proof (invariant over all histories) + model/implementation correspondence under synctest",
    "design_ref": "DESIGN.md §6 C22",
}


def run(ctx):
    ctx.trusted += ["golang-jwt v5 and Go crypto (library verdict enters the model as the parameter World.lib)",
                    "translator: none; correspondence harness internal/server/oauth/zz_verif_c22_test.go + egodriver C22",
                    "end-to-end oracle harness internal/server/oauth/authserver/zz_verif_c22_test.go (no model)"]
    ctx.assumptions += ["the JWKS endpoint is reachable (its document may change at any moment of a history)",
                        "a blacklist store is configured and its reads succeed",
                        "whole-second clock (JWT NumericDate without fractions)"]
    ctx.lean_audit(required=["C22_accept_implies", "C22_key_staleness", "C22_withdrawn_key_rejected",
                             "C22_never_presented_not_cached", "C22_nokid_stale_counterexample",
                             "C22_accept_implies_fixed_keys", "C22_present_eq_spec", "C22_seen_or_not",
                             "C22_revocation_effective", "C22_valid_accepted", "C22_unpatched_counterexample"])
    if not ctx.quick:
        ctx.leanchecker()
    ctx.prepare_tree()
    rc, out = ctx.go_test("./internal/server/oauth/", "TestVerifC22", timeout=1500)
    if rc != 0:
        ctx.log(out[-3000:])
        ctx.broken.append("harness TestVerifC22 failed to run (rc=%d)" % rc)
    cases = ctx.read_jsonl("c22_cases.jsonl")
    ctx.correspond(cases)
    leg1 = ctx.read_jsonl("c22_failures.jsonl")
    # end-to-end leg: AS-issued tokens, POST /oauth2/revoke (RevokeHandler), real Initialize/discovery/JWKS over HTTP
    rc, out = ctx.go_test("./internal/server/oauth/authserver/", "TestVerifC22Revoke", timeout=900)
    if rc != 0:
        ctx.log(out[-3000:])
        ctx.broken.append("harness TestVerifC22Revoke failed to run (rc=%d)" % rc)
    leg2 = ctx.read_jsonl("c22_revoke_failures.jsonl")
    # the replay file keeps the first 20 failures: make sure both legs are represented in it
    for f in leg1[:12] + leg2[:8] + leg1[12:] + leg2[8:]:
        ctx.fail(f["class"], f["what"], input=f.get("input"), got=f.get("got"), want=f.get("want"))
    rst = (ctx.read_jsonl("c22_revoke_stats.json") or [{}])[0].get("counters", {})
    if rc == 0 and rst.get("rounds.revoked", 0) == 0:
        ctx.broken.append("end-to-end leg is vacuous: no revocation succeeded")
    if rc == 0:
        for k in ("trigger", "readonly", "lock", "first-caller-UserinfoHandler", "first-caller-ValidateJWT"):
            if rst.get("rounds.revoked.write-fault." + k, 0) == 0:
                ctx.broken.append("end-to-end leg is vacuous: no revoked token was presented under the write fault / "
                                  "caller order '%s'" % k)
    st = (ctx.read_jsonl("c22_stats.json") or [{}])[0]
    c = st.get("counters", {})
    if cases and c.get("present.accepted", 0) == 0:
        ctx.broken.append("harness is vacuous: no token was ever accepted")
    if cases and (c.get("op.keys", 0) == 0 or c.get("present.accepted-after-document-change", 0) == 0
                  or c.get("present.accepted-withdrawn-key-within-allowance", 0) == 0):
        ctx.broken.append("harness is vacuous: no JWKS document change was exercised "
                          "(changes=%d, accepted after a change=%d, accepted on a withdrawn key inside the TTL allowance=%d)"
                          % (c.get("op.keys", 0), c.get("present.accepted-after-document-change", 0),
                             c.get("present.accepted-withdrawn-key-within-allowance", 0)))
    if cases:
        for k in ("trigger", "readonly", "lock", "result-cache-hit-path", "step-5b-path"):
            if c.get("present.revoked-cold-lookup-under-write-fault." + k, 0) == 0:
                ctx.broken.append("harness is vacuous: no cold lookup of a revoked jti under a failing audit write (%s)" % k)
    ctx.coverage.update({
        "evaluations": c.get("op.present", 0),
        "histories": c.get("histories", 0),
        "distinct_nontrivial": c.get("distinct_nontrivial", 0),
        "rule": "histories of present/revoke/unrevoke/flush/advance/purge/JWKS-document-change over 3-8 hand-assembled "
                "tokens and random JWKS layouts (duplicate kids, enc-only, oct, bad curve, off-curve, bad base64; two "
                "histories in five replace the document one to three times: withdraw, publish, rotate under the same kid, "
                "reorder, earlier document, no usable key; one history in four has stretches in which every UPDATE of the "
                "blacklist table fails, one in sixteen runs on a read-only revocation store, corpus histories hold the "
                "SQLite write lock during the lookup); a presentation is non-trivial when at most one acceptance "
                "condition fails; distinct = distinct (failing condition, alg family, kid present, kid selects signer, "
                "seen before, exp boundary, nbf, audience configured, user claim, key current / withdrawn < ttl / "
                "withdrawn >= ttl / never published, document changed, audit-write fault in force) vectors",
        "samples": st.get("samples", []),
        "counters": c,
        "e2e_counters": rst,
    })
    return ctx.finish()
