"""C22 — JWT bearer tokens are verified and revocable (OAuth resource-server mode)."""

META = {
    "level": "proof",
    "text": "Lean theorems over an executable model of ValidateJWT (result cache, cache-hit and cache-miss paths), "
            "selectVerificationKey/keyByID over the filtered JWKS, and the blacklist store with its own cache: for EVERY "
            "library verdict function, JWKS, configuration and EVERY history of present/revoke/unrevoke/flush/advance/"
            "purge/evict operations, a token is accepted only if it parses, its alg is RS*/ES*, its signature verifies "
            "under the published signature key its kid selects, iss and aud match, nbf <= now < exp and its jti is not "
            "revoked at that moment (C22_accept_implies); the answer never depends on the cache contents "
            "(C22_present_eq_spec / C22_seen_or_not), so revocation takes effect for every later request "
            "(C22_revocation_effective). The model is tied to the code by running the real ValidateJWT, tokens.Blacklist/"
            "Delete/Flush, caches.Purge and the real cache sweepers under a synctest virtual clock on generated histories "
            "with hand-assembled tokens, and diffing every answer with the Lean model; a model-free oracle restates the "
            "property on the same runs. A second, end-to-end leg issues tokens with Ego's own authorization server, "
            "revokes them through POST /oauth2/revoke (RevokeHandler) and presents them to the resource server "
            "configured by the real oauth.Initialize (HTTP discovery + JWKS).",
    "note": "The model mirrors the code WITH fixes/C22.patch (blacklist check on the cache-miss path); the code before the "
            "patch is the `fixed := false` variant and C22_unpatched_counterexample shows it accepts a token revoked "
            "before first presentation. Trusted: Lean kernel; golang-jwt + Go crypto (the library verdict is a parameter: "
            "each signature verifies under at most the key that made it); the harness's recipe as ground truth. "
            "Modelled as transparent, exercised but not proved: JWKS cache TTL/refresh/unknown-kid cooldown with a fixed "
            "published key set and a reachable provider (no key rotation inside a history); cache size limit and sweeper "
            "are over-approximated by an `evict` operation that may drop any entry at any time. Assumed: a blacklist "
            "store is configured and its reads succeed (ValidateJWT fails open on a blacklist read error); tokens "
            "without a jti cannot be revoked (by design of the code). Permission mapping is not part of C22.",
    "technique": "Lean 4 proof (invariant over all histories) + model/implementation correspondence under synctest",
    "design_ref": "DESIGN.md §6 C22",
}


def run(ctx):
    ctx.trusted += ["golang-jwt v5 and Go crypto (library verdict enters the model as the parameter World.lib)",
                    "translator: none; correspondence harness internal/server/oauth/zz_verif_c22_test.go + egodriver C22",
                    "end-to-end oracle harness internal/server/oauth/authserver/zz_verif_c22_test.go (no model)"]
    ctx.assumptions += ["the set of published keys does not change inside a history and the JWKS endpoint is reachable",
                        "a blacklist store is configured and its reads succeed",
                        "whole-second clock (JWT NumericDate without fractions)"]
    ctx.lean_audit(required=["C22_accept_implies", "C22_present_eq_spec", "C22_seen_or_not",
                             "C22_revocation_effective", "C22_valid_accepted", "C22_unpatched_counterexample"])
    if not ctx.quick:
        ctx.leanchecker()
    ctx.prepare_tree()
    rc, out = ctx.go_test("./internal/server/oauth/", "TestVerifC22", timeout=1500)
    if rc != 0:
        ctx.log(out[-3000:])
        ctx.broken.append("harness TestVerifC22 failed to run (rc=%d)" % rc)
    cases = ctx.read_jsonl("c22_cases.jsonl")
    ctx.correspond(cases)
    leg1 = ctx.read_jsonl("c22_failures.jsonl")
    # end-to-end leg: AS-issued tokens, POST /oauth2/revoke (RevokeHandler), real Initialize/discovery/JWKS over HTTP
    rc, out = ctx.go_test("./internal/server/oauth/authserver/", "TestVerifC22Revoke", timeout=900)
    if rc != 0:
        ctx.log(out[-3000:])
        ctx.broken.append("harness TestVerifC22Revoke failed to run (rc=%d)" % rc)
    leg2 = ctx.read_jsonl("c22_revoke_failures.jsonl")
    # the replay file keeps the first 20 failures: make sure both legs are represented in it
    for f in leg1[:12] + leg2[:8] + leg1[12:] + leg2[8:]:
        ctx.fail(f["class"], f["what"], input=f.get("input"), got=f.get("got"), want=f.get("want"))
    rst = (ctx.read_jsonl("c22_revoke_stats.json") or [{}])[0].get("counters", {})
    if rc == 0 and rst.get("rounds.revoked", 0) == 0:
        ctx.broken.append("end-to-end leg is vacuous: no revocation succeeded")
    st = (ctx.read_jsonl("c22_stats.json") or [{}])[0]
    c = st.get("counters", {})
    if cases and c.get("present.accepted", 0) == 0:
        ctx.broken.append("harness is vacuous: no token was ever accepted")
    ctx.coverage.update({
        "evaluations": c.get("op.present", 0),
        "histories": c.get("histories", 0),
        "distinct_nontrivial": c.get("distinct_nontrivial", 0),
        "rule": "histories of present/revoke/unrevoke/flush/advance/purge over 3-8 hand-assembled tokens and a random JWKS "
                "layout (duplicate kids, enc-only, oct, bad curve, off-curve, bad base64); a presentation is non-trivial "
                "when at most one acceptance condition fails; distinct = distinct (failing condition, alg family, kid "
                "present, kid selects signer, seen before, exp boundary, nbf, audience configured, user claim) vectors",
        "samples": st.get("samples", []),
        "counters": c,
        "e2e_counters": rst,
    })
    return ctx.finish()
