"""C08 — concurrent Ego programs cannot corrupt the interpreter."""
import json, os, re, shutil, subprocess

META = {
    "level": "proof",
    "text": "PARTIAL (proved: the symbol-table locking protocol on a Lean model of goByteCode/GoRoutine/Shared/"
            "SharedParent/Get/Set — for EVERY schedule without an escaping closure, every table reachable from two live "
            "contexts is marked shared before the fork and every access to it is made under its lock; a counterexample "
            "for the code as it is when a closure reaches another goroutine as a `go` argument or through a channel; "
            "schedule-independence of the mutex/channel-synchronised fragment. Only searched: Go's memory model, the "
            "mutual exclusion of sync.RWMutex, and every race outside symbol-table map access — generated concurrent "
            "programs run under the Go race detector for GOMAXPROCS 1,2,4,16 with yield injection). Tie: a verif-tagged, "
            "add-only trace hook (fixes/C08-hook.patch) emits (goroutine, table, read/write, shared flag) for every "
            "symbols.Get/Set/Create/Delete and the fork-time state of the captured chain; every observed trace is "
            "validated by the Lean trace checker (egodriver C08) and by an independent Go checker; the fork-time state is "
            "read along the RAW parent chain (what the boundary-ignoring walks GetAnyScope/InPackage follow), and programs "
            "run in both scope modes (ego.runtime.deep.scope, true by default in the CLI: a helper function's captured "
            "chain then runs through its callers' private blocks; C08_mark_subchain_counterexample shows that marking "
            "less than that chain breaks the invariant); the generator "
            "predicts the one output a fully synchronised program may print.",
    "note": "trusted: Lean kernel; Go race detector; sync.RWMutex; the harness (zz_verif_c08*_test.go) and the hook "
            "placement. Modelled, not verified: proxy/package tables (always shared), SerializeTableAccess=false, "
            "SetParent not used on the modelled paths. NOT PROVED (def only): C08_trace_sound_statement (the model's own "
            "traces pass the checker). The race detector is partly blinded by the interpreter itself: run.go does "
            "atomic.AddInt64(&InstructionsExecuted,1) per instruction, which orders all goroutines for the detector; the "
            "thorough tier therefore repeats the race search on a scratch copy with that one statistics line removed. "
            "Known findings on the unchanged tree: escaping closures (captured scope never marked shared -> DATA RACE / "
            "fatal 'concurrent map read and map write', also seen without -race), GoRoutine's prologue inspecting the "
            "launcher's private current scope (c.symbols, FindNextScope and its cache) while the launcher runs on, the "
            "argument type check dereferencing a pointer argument outside any lock, and a rare wrong parameter binding in a "
            "goroutine that receives pointer arguments (`*p` yields the *sync.Mutex argument; the goroutine dies, main "
            "hangs in wg.Wait) seen about once per 500 runs at GOMAXPROCS 16 on the counter-free copy; output mismatches "
            "of programs with a pointer-argument goroutine are therefore classified as that known finding.",
    "technique": "Lean 4 proof (invariant by induction over all schedules) + trace validation (T3) + race-detector search",
    "design_ref": "DESIGN.md §6 C08",
}

HOOK_FILES = ["internal/language/symbols/verif_on.go", "internal/language/bytecode/verif_on.go"]
COUNTER_LINE = "\t\tatomic.AddInt64(&InstructionsExecuted, 1)\n"
PKG = "./internal/language/compiler/"


def _apply_hook(ctx):
    """True when the tree has the trace hook (already committed in /repo, or the add-only patch applied to the scratch copy)."""
    if all(os.path.exists(os.path.join(ctx.tree, f)) for f in HOOK_FILES):
        ctx.notes.append("hook: present in the tree under test")
        return True
    patch = os.path.join(os.path.dirname(os.path.dirname(os.path.abspath(__file__))), "fixes", "C08-hook.patch")
    p = subprocess.run(["patch", "-p1", "--dry-run", "-s", "-i", patch], cwd=ctx.tree, capture_output=True, text=True)
    if p.returncode == 0:
        subprocess.run(["patch", "-p1", "-s", "-i", patch], cwd=ctx.tree, check=True)
        ctx.notes.append("hook: fixes/C08-hook.patch (add-only) applied to the scratch copy")
        return True
    ctx.log("hook patch does not apply cleanly (%s); inserting the hook calls by anchor" % (p.stdout + p.stderr).strip()[:200])
    if _insert_hook(ctx.tree, patch):
        ctx.notes.append("hook: patch did not apply; the same add-only lines were inserted by anchor into the scratch copy")
        return True
    ctx.log("hook could not be inserted; race detector only")
    q = os.path.join(ctx.tree, "internal/language/compiler", "zz_verif_c08_hook_test.go")
    if os.path.exists(q):
        os.remove(q)
    return False


def _insert_hook(tree, patch):
    """Fallback for trees on which the patch context no longer matches (e.g. a line next to a hook call was
    edited): write the new files of the patch and add the same one-line calls after their anchors. Add-only."""
    cur, new = None, {}
    for line in open(patch).read().split("\n"):
        m = re.match(r"\+\+\+ b/(\S+)", line)
        if m:
            cur = m.group(1) if m.group(1).endswith(("verif_on.go", "verif_off.go")) else None
            if cur:
                new[cur] = []
        elif cur and line.startswith("+"):
            new[cur].append(line[1:])
        elif cur and line.startswith("diff "):
            cur = None
    if len(new) != 4:
        return False
    for f, body in new.items():
        with open(os.path.join(tree, f), "w") as fh:
            fh.write("\n".join(body) + "\n")
    done = 0
    sym = {"get.go": "get", "set.go": "set", "create.go": "set", "delete.go": "set"}
    for f, op in sym.items():
        p = os.path.join(tree, "internal/language/symbols", f)
        src, out, i = open(p).read().split("\n"), [], 0
        while i < len(src):
            out.append(src[i])
            if src[i] == "\tif s.shared.Load() {":
                i += 1
                while i < len(src) and src[i] != "\t}":
                    out.append(src[i]); i += 1
                out += [src[i], "", '\tverifTrace("%s", s)' % op]
                done += 1
            elif src[i] == "\t\tsyms.Lock()":
                out.append('\t\tverifTrace("set", syms)')
            i += 1
        open(p, "w").write("\n".join(out))

    def after(path, anchor_re, text, stop_re=None):
        p = os.path.join(tree, path)
        src, out, n, stopped = open(p).read().split("\n"), [], 0, False
        for l in src:
            out.append(l)
            stopped = stopped or bool(stop_re and re.search(stop_re, l))
            if re.search(anchor_re, l) and n == 0 and not stopped:
                out.append(text); n += 1
        open(p, "w").write("\n".join(out))
        return n

    g = "internal/language/bytecode/goroutine.go"
    stop = r"^func GoRoutine\("   # the fork point is in goByteCode, which precedes GoRoutine in the file
    if not after(g, r"^\s*captured\.Shared\(true\)$", '\t\t\t\tverifPoint("go.fork", c, captured)', stop):
        after(g, r"captured := bc\.GetCapturedScope\(\); captured != nil \{$", '\t\t\t\tverifPoint("go.fork", c, captured)', stop)
    ok = after(g, r"^\tfunctionSymbols := symbols\.NewChildSymbolTable\(", '\tverifPoint("go.start", parentCtx, functionSymbols)')
    ok = after(g, r"^\terr := parentCtx\.runtimeError\(ctx\.Run\(\)\)$", '\tverifPoint("go.end", parentCtx, nil)') and ok
    after("internal/language/bytecode/run.go", r"^\t\tatomic\.AddInt64\(&InstructionsExecuted, 1\)$", '\t\tverifPoint("dispatch", c, nil)') or \
        after("internal/language/bytecode/run.go", r"^\t\timp := dispatchTable\[i\.Operation\]$", '\t\tverifPoint("dispatch", c, nil)')
    return bool(ok) and done >= 8


def _race_blocks(out):
    """[(subtest name, text of the race report)] from `go test -v -race` output."""
    res, cur, lines, i = [], None, out.split("\n"), 0
    while i < len(lines):
        m = re.match(r"=== (?:RUN|CONT)\s+(\S+)", lines[i])
        if m:
            cur = m.group(1)
        if lines[i].startswith("WARNING: DATA RACE"):
            j = i + 1
            while j < len(lines) and not lines[j].startswith("=================="):
                j += 1
            res.append((cur, "\n".join(lines[i:j])))
            i = j
        i += 1
    return res


def _classify(block, prog):
    # the two accesses: the first frame after "Read at/Write at" and after "Previous ..."
    acc = re.findall(r"(?:Read|Write|Previous read|Previous write) at [^\n]*\n((?:  \S+\(\)\n      [^\n]*\n)+)", block + "\n")
    stacks = [re.findall(r"^  (\S+)\(\)$", a, re.M) for a in acc]
    names = [[f.rsplit("/", 1)[-1] for f in st] for st in stacks]
    flat = [f for st in names for f in st]
    if names and all(any(f.startswith("compiler.") for f in st[:1]) for st in names):
        return "harness"
    if prog and prog.get("escape"):
        return "escaping-closure"
    # an access made by GoRoutine's own prologue (GoRoutine on the stack, the dispatch loop not yet): it inspects
    # the launcher's current scope (parentCtx.symbols, FindNextScope and its cache) while the launcher runs on
    if any("bytecode.GoRoutine" in st and not any("RunFromAddress" in f for f in st) for st in names):
        return "race-goroutine-prologue-reads-launcher-scope"
    if any("requiredTypeByteCodeImpl" in f for st in names for f in st[:1]):
        return "race-pointer-arg-typecheck"
    # any other race is named by its two racing interpreter frames (the first frame of each stack outside the Go
    # runtime), e.g. data-race:symbols.Create-vs-symbols.GetAnyScope = a boundary-ignoring walk reading the map of an
    # ancestor table that was left unshared while its owner declares a variable in it
    tops = set()
    for st in names:
        f = next((f for f in st if not f.startswith(("runtime.", "sync.", "internal/"))), None)
        if f:
            tops.add(re.sub(r"\(\*?\w+\)\.", "", re.sub(r"\.func\d+(\.\d+)*$", "", f)))
    return "data-race:" + "-vs-".join(sorted(tops)) if tops else "data-race"


def _race_pass(ctx, tree, label, env):
    open(os.path.join(ctx.out, "c08_progress.jsonl"), "w").close()
    rc, out = ctx.go(["test", "-trimpath", "-tags", "verif", "-vet=off", "-count=1", "-timeout", "3000s", "-race", "-v",
                      "-run", "^TestVerifC08Race$", PKG],
                     env=dict({"VERIF_OUT": ctx.out, "VERIF_SEED": str(ctx.seed), "VERIF_TIER": ctx.tier,
                               "CGO_ENABLED": "1"}, **env), timeout=3100, cwd=tree)
    progs_by_id = {p["id"]: p for p in ctx.read_jsonl("c08_programs.jsonl")}
    blocks = _race_blocks(out)
    n = 0
    for sub, block in blocks:
        pid = (sub or "").split("/")[1] if sub and "/" in sub else None
        prog = progs_by_id.get(pid)
        cls = _classify(block, prog)
        if cls == "harness":
            ctx.broken.append("%s: race inside the harness itself" % label)
            ctx.log(block[:1500])
            continue
        n += 1
        ctx.fail(cls, "%s: DATA RACE in %s" % (label, sub), input=(prog or {}).get("src", sub),
                 got=block[:2500], want="no race report")
    if "fatal error:" in out or "C08-WATCHDOG" in out:
        last = (ctx.read_jsonl("c08_progress.jsonl") or [{}])[-1]
        prog = progs_by_id.get(last.get("id"))
        m = re.search(r"fatal error: [^\n]*", out)
        cls = "escaping-closure" if prog and prog.get("escape") else "fatal-runtime-error"
        if not m and prog and "ptr" in prog.get("units", []):
            cls = "ptr-arg-goroutine-intermittent-error"   # the goroutine died with the error, main waits forever
        ctx.fail(cls, "%s: %s while running %s" % (label, m.group(0) if m else "watchdog", last),
                 input=(prog or {}).get("src", str(last)), got=out[-2500:], want="clean exit")
    elif rc != 0 and not blocks and "--- FAIL" not in out:
        ctx.log(out[-3000:])
        ctx.broken.append("%s: TestVerifC08Race failed to run (rc=%d)" % (label, rc))
    for f in ctx.read_jsonl("c08_race_failures.jsonl"):
        ctx.fail(f["class"], label + ": " + f["what"], input=f.get("input"), got=f.get("got"), want=f.get("want"))
    st = (ctx.read_jsonl("c08_race_stats.json") or [{}])[0].get("counters", {})
    return st.get("race_runs", 0), n


def run(ctx):
    ctx.trusted += ["Go race detector (go test -race), sync.RWMutex mutual exclusion, Go memory model",
                    "hook: fixes/C08-hook.patch (verif build tag, add-only); harness internal/language/compiler/zz_verif_c08*_test.go"]
    ctx.assumptions += ["symbols.SerializeTableAccess = false (the default)",
                        "package/proxy tables are always shared (NewChildProxy) and are not part of the model",
                        "trace rule: an access made without the lock must not conflict with an access of a goroutine alive at that moment"]
    ctx.lean_audit(required=["C08_shared_before_fork_partial", "C08_shared_before_fork_counterexample",
                             "C08_race_free", "C08_lock_iff_shared", "C08_sync_deterministic",
                             "C08_mark_subchain_breaks_inv", "C08_mark_subchain_counterexample"])
    if not ctx.quick:
        ctx.leanchecker()
    ctx.prepare_tree()
    hooked = _apply_hook(ctx)
    have_race = shutil.which("gcc") is not None
    if not have_race:
        ctx.notes.append("gcc missing: -race unavailable; exit status + output determinism only")
    cases, trace_runs, stats = [], 0, {}
    if hooked:
        # no -race here: the recording hook serialises the goroutines; the race search is the separate pass below.
        # Two invocations: an escaping-closure program can kill the process (fatal concurrent map error).
        stats = {"counters": {}, "samples": []}
        for label, env in (("trace", {"VERIF_C08_NOESCAPE": "1"}), ("trace-escape", {"VERIF_C08_ESCAPEONLY": "1"})):
            open(os.path.join(ctx.out, "c08_progress.jsonl"), "w").close()
            for f in ("c08_cases.jsonl", "c08_trace_failures.jsonl", "c08_trace_stats.json"):
                if os.path.exists(os.path.join(ctx.out, f)):
                    os.remove(os.path.join(ctx.out, f))
            rc, out = ctx.go_test(PKG, "TestVerifC08Trace", timeout=3000, race=False, env=env)
            if rc != 0:
                last = (ctx.read_jsonl("c08_progress.jsonl") or [{}])[-1]
                m = re.search(r"fatal error: [^\n]*|C08-WATCHDOG[^\n]*", out)
                if m and label == "trace-escape":
                    ctx.fail("escaping-closure", "%s: %s while running %s" % (label, m.group(0), last),
                             input=str(last), got=out[-2500:], want="clean exit")
                elif m:
                    ctx.fail("fatal-runtime-error", "%s: %s while running %s" % (label, m.group(0), last),
                             input=str(last), got=out[-2500:], want="clean exit")
                else:
                    ctx.log(out[-3000:])
                    ctx.broken.append("harness TestVerifC08Trace (%s) failed to run (rc=%d)" % (label, rc))
            part = ctx.read_jsonl("c08_cases.jsonl")
            ctx.correspond(part, label="%s validation (Go checker vs Lean checkTrace)" % label)
            cases += part
            for f in ctx.read_jsonl("c08_trace_failures.jsonl"):
                ctx.fail(f["class"], f["what"], input=f.get("input"), got=f.get("got"), want=f.get("want"))
            st = (ctx.read_jsonl("c08_trace_stats.json") or [{}])[0]
            for k, v in st.get("counters", {}).items():
                stats["counters"][k] = stats["counters"].get(k, 0) + v
            stats["samples"] += st.get("samples", [])
        stats["samples"] = stats["samples"][:8]
        trace_runs = stats["counters"].get("trace_runs", 0)
    race_runs = races = 0
    if have_race:
        # escaping-closure programs can kill the process (fatal concurrent map error); with the hook they are
        # caught deterministically by the trace pass, so the race passes leave them out
        env = {"VERIF_C08_NOESCAPE": "1"} if hooked else {}
        # pass A: the tree as it is (+ add-only hook)
        r, n = _race_pass(ctx, ctx.tree, "race", env)
        race_runs += r; races += n
        if not ctx.quick:
            # pass B: same tree with the global per-instruction statistics counter removed
            tree2 = os.path.join(ctx.scratch, "tree-desync")
            subprocess.run(["rsync", "-a", "--delete", ctx.tree + "/", tree2 + "/"], check=True)
            p = os.path.join(tree2, "internal/language/bytecode/run.go")
            src = open(p).read()
            if src.count(COUNTER_LINE) == 1:
                open(p, "w").write(src.replace(COUNTER_LINE, "\t\t_ = atomic.AddInt64 // verif: counter removed in this scratch copy\n"))
                r, n = _race_pass(ctx, tree2, "race-desync", env)
                race_runs += r; races += n
            else:
                ctx.notes.append("desync pass skipped: the InstructionsExecuted line was not found exactly once")
    c = stats.get("counters", {})
    ctx.coverage.update({
        "evaluations": trace_runs + race_runs,
        "trace_runs": trace_runs, "race_runs": race_runs, "race_reports": races,
        "traces_checked_by_lean": len(cases),
        "distinct_nontrivial": c.get("distinct_nontrivial", 0),
        "rule": "programs = compositions of 1..6 units (named workers, mutex closures, BUG-94 block captures, nested "
                "goroutines, pipelines, launcher functions that return before their goroutines finish, helper functions 1..3 "
                "calls below main that launch workers, wait for a ready handshake and return while the workers keep calling "
                "Ego functions and main declares variables in its blocks, pointer arguments, globals, escaping closures), "
                "each with a scope mode (ego.runtime.deep.scope true = the CLI/server default, or false; one larger helper "
                "program runs under the race detector only); non-trivial = "
                "distinct unit composition with >= 2 goroutines; each program runs "
                "under GOMAXPROCS 1,2,4,16 with hash-chosen runtime.Gosched in the dispatch loop",
        "samples": stats.get("samples", []), "counters": c, "hooked": hooked, "race_detector": have_race,
        "notes": ctx.notes,
    })
    return ctx.finish()

