"""C43 — Row endpoints enforce table grants."""

META = {
    "level": "proof",
    "text": "Lean theorems over an executable model of security.go Authorized (per-user/DSN/table lookup in "
            "table_perms, restricted flag, exactly-one-record rule, per-operation switch), of the grant / revoke / "
            "create / remove operations on table_perms, of BOTH DSN services — the file service (AuthDSN, GrantDSN, "
            "DeleteDSN) and the database service (dsn_sqldb.go ReadDSN / WriteDSN / DeleteDSN / RevokeAllDSN / AuthDSN / "
            "GrantDSN with caches.DSNCache modelled as a memo next to the stored rows) — and of "
            "the authorization prologue of the four row handlers: for EVERY history of operations and EVERY "
            "user/DSN/table/operation, a non-administrator is authorized on a restricted DSN iff the store holds "
            "exactly one record for exactly that (user, DSN, table) and the record carries the operation (or "
            "admin); histories that never grant to (u,d,t) never authorize (u,d,t); an operation on another key "
            "never changes the decision for (u,d,t); a row request that passes implies the DSN-level and the "
            "table-level grant; the row handlers as reached over HTTP (rows.go dispatch to the default or the abstract "
            "handlers, with the route's ?user= parameter) consult the CALLER's grants only: the decision is the same "
            "for every row format and every ?user= value (C43_row_http_eq, C43_row_quser_irrelevant, "
            "C43_row_http_pass_needs_grants, C43_db_row_http_history; C43_row_quser_override_counterexample shows what "
            "a lookup for the named user would admit). For the database DSN service: after every history (writes, deletes, grants, cache "
            "evictions, cache-filling queries) each DSN cache entry equals the stored row (C43_db_cacheOK_history), so "
            "every row request is decided as if the stored row had been read (C43_db_cache_transparent) and a request "
            "let through on a DSN that the STORE records as restricted had the DSN-level and the table grant "
            "(C43_db_row_history); DSN-level grants are keyed by the pair (user, dsn), no cross-authorization for any "
            "names (C43_db_dsn_no_cross); the first GrantDSN leaves the stored row restricted (C43_db_grant_restricts). "
            "The model is tied to the code by a differential run: generated grant/revoke/DSN "
            "histories interleaved with direct Authorized/AuthDSN calls and real ReadRows/InsertRows/UpdateRows/"
            "DeleteRows requests against the real SQLite permission store, run against the file DSN service AND "
            "against dsns.NewDatabaseService on SQLite (with cache evictions, and the shape: DSN created "
            "unrestricted, used, restricted by its first DSN-level grant, then row requests by users with and without "
            "grants; and row requests read/insert/update/delete in BOTH row formats — default, ?abstract=…, Accept: "
            "application/vnd.ego.rows.abstract+json — with and without ?user= naming the holder of the table grant, the "
            "caller or a third user, by administrators and non-administrators), diffed line by line with the model; the "
            "model-free oracle is the harness's own struct-keyed record of who was granted what and which DSNs are "
            "restricted, cross-checked with raw SQL dumps of table_perms and, for the database service, of dsns and "
            "dsns_auth (so: a DSN that the store records as restricted enforces the grants for non-administrators); for "
            "the HTTP forms of a row request additionally: the decision equals the one on the same request sent in the "
            "default format without ?user= (a ?user= naming somebody else never widens what a non-administrator may do). "
            "Row requests that carry ?transaction=<id> (transactions.go GetDatabase) are modelled as the code stands "
            "(rowRequestTx: db.Restricted of the transaction's DSN, Authorized on the URL's DSN) and driven with one database "
            "file per DSN, so the database a request read or changed is observed: C43_tx_partial covers requests that name the "
            "transaction's own DSN; C43_tx_foreign_dsn_counterexample is the known finding tx-foreign-dsn. Two overlapping "
            "GrantPermissions requests for one record (the second completes while the first waits for its body) are compared "
            "with both sequential orders (known finding grant-overlap-lost-update, C43_grant_lost_update_counterexample).",
    "note": "fixes/C43.patch: Authorized received dsn+\".\"+table and split at the first '.', so a request for "
            "(dsn a.b, table c) was decided as (dsn a, table b.c); the model mirrors the fixed code (separate "
            "parameters); C43_split_counterexample / C43_split_partial describe the old code. Known finding "
            "dsn-key-pipe: the file DSN service keys DSN-level grants by user+\"|\"+dsn, so (a|b, c) and (a, b|c) "
            "share one entry (C43_dsnkey_counterexample, C43_dsnkey_partial). Known finding tx-foreign-dsn: a row request with "
            "?transaction=<id> is served on the transaction's database whatever DSN its URL names and whoever began it (inside "
            "the property: rows of a restricted DSN are read/changed without the grant for that DSN). Known finding "
            "grant-overlap-lost-update: GrantPermissions is an unlocked read / decode body / write-whole-record; judged inside "
            "the property because the grants and revokes of the property are per permission: a completed revoke of write is "
            "undone by an overlapping grant of update, a state neither order of the two requests produces (overlaps other than "
            "read-before / body-after are not driven). Trusted: Lean kernel, SQLite text "
            "equality (exact, bound parameters), uuid uniqueness (a record is updated/deleted by id exactly when it "
            "is the record just read), the harness. Modelled, not verified: the database service variant of the "
            "DSN store (dsn_sqldb.go), strings.ToLower/TrimSpace outside ASCII (permission names in generated "
            "cases are ASCII), the empty permission key (GrantPermissions indexes key[0]), SQL generation after the "
            "authorization point. Assumes the permission store is available (initPermissions() true).",
    "technique": "Lean 4 proof (induction over operation histories) + model/implementation correspondence",
    "design_ref": "DESIGN.md §6 C43",
}

REQUIRED = [
    "C43_iff", "C43_iff_history", "C43_no_cross", "C43_other_key_irrelevant", "C43_unrestricted_admin_unlimited",
    "C43_row_pass_needs_grants", "C43_grant_effect", "C43_revoke_effect", "C43_deleteByDSN_effect",
    "C43_split_counterexample", "C43_split_counterexample_unrestricted", "C43_split_partial",
    "C43_authdsn_iff", "C43_dsnkey_counterexample", "C43_dsnkey_partial", "C43_dsn_no_cross_partial",
    "C43_db_cache_transparent", "C43_db_cacheOK_history", "C43_db_grant_restricts", "C43_db_row_pass_needs_grants",
    "C43_db_row_history", "C43_db_stale_cache_counterexample", "C43_db_authdsn_iff", "C43_db_dsn_no_cross",
    "C43_row_http_eq", "C43_row_quser_irrelevant", "C43_row_http_pass_needs_grants",
    "C43_row_quser_override_counterexample", "C43_db_row_http_eq", "C43_db_row_http_history",
    "C43_tx_foreign_dsn_counterexample", "C43_tx_partial", "C43_grant_lost_update_counterexample",
]


def run(ctx):
    ctx.trusted += ["SQLite (modernc.org/sqlite) text equality with bound parameters is exact string equality",
                    "uuid.NewString never repeats (records are addressed by id)",
                    "correspondence harness internal/server/tables/zz_verif_c43*_test.go + egodriver C43"]
    ctx.assumptions += ["the permission store is available (initPermissions() = true)",
                        "the DSN service is the file service (dsns.NewFileService) or the database service "
                        "(dsns.NewDatabaseService) on SQLite; one server process (no cluster cache invalidation)"]
    ctx.lean_audit(required=REQUIRED)
    if not ctx.quick:
        ctx.leanchecker()
    ctx.prepare_tree()
    rc, out = ctx.go_test("./internal/server/tables/", "TestVerifC43", timeout=3000)
    if rc != 0:
        ctx.log(out[-3000:])
        ctx.broken.append("harness TestVerifC43 failed to run (rc=%d)" % rc)
    cases = ctx.read_jsonl("c43_cases.jsonl")
    ctx.correspond(cases)
    for f in ctx.read_jsonl("c43_failures.jsonl"):
        ctx.fail(f["class"], f["what"], input=f.get("input"), got=f.get("got"), want=f.get("want"))
    st = (ctx.read_jsonl("c43_stats.json") or [{}])[0]
    c = st.get("counters", {})
    ctx.coverage.update({
        "evaluations": len(cases),
        "distinct_nontrivial": c.get("distinct_nontrivial", 0),
        "rule": "histories of GrantPermissions / DeletePermissions / createTablePermissions / removeTablePermissions / "
                "DeletePermissionsByDSN / WriteDSN / DeleteDSN / RevokeAllDSN / GrantDSN (+ DSN cache evictions and the "
                "unrestricted -> used -> restricted-by-first-grant shape) against the file DSN service and the database "
                "DSN service on SQLite, over hostile name universes "
                "(dots, pipes, quotes, ';', case variants, empty, non-ASCII; dot- and pipe-twins), each followed by 1-3 "
                "queries (Authorized, AuthDSN, real row requests, filtered reads) and now and then by a row request in one "
                "of the HTTP forms (default / ?abstract= / Accept header, with or without ?user=) paired with the same "
                "request in the plain form; non-trivial = distinct (query, store "
                "state) pairs on a restricted DSN by a non-administrator with grants recorded (for the HTTP forms: "
                "?user= names another user who holds a record for the table)",
        "samples": st.get("samples", []),
        "counters": c,
    })
    return ctx.finish()
