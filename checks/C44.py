"""C44 — stored secrets never appear in responses (administrator-only endpoints included)."""
import json
import os

from verifpy.lib import sh, VERIF

META = {
    "level": "proof",
    "text": "PARTIAL (proof for the elision predicates and response structs; the all-routes claim is a canary search). Lean: for EVERY setting name (any string, ASCII case variants included) that the specification calls "
            "secret-bearing (token key, logon/refresh token, OAuth client secret, user-database key, default credential, "
            "any name containing password/credentials/secret), both configuration endpoints elide the value "
            "(C44_settings, proved for all rule lists that pass the decidable check `covers` and instantiated by "
            "`decide` for the lists REGENERATED from internal/server/admin/config.go on every run); "
            "the response is independent of every secret setting (C44_settings_noninterference); every JSON response "
            "site of the user/DSN/OAuth handlers, re-extracted with go/ast on every run, renders the same bytes for "
            "stores that differ only in secret-typed fields (C44_structs). Tie: the extracted rule lists drive the "
            "Lean model, which is compared with the real handlers on every defined setting name and on hostile "
            "variants (correspondence). Search (not proof): canaries planted in every store and secret setting, "
            "every GET route of the real route table + create/update/delete echoes + every other method (PATCH/PUT/POST/DELETE) of every /admin and /dsns endpoint with empty, change-nothing and change-one-field bodies, requested as root, every response "
            "scanned for each canary and its hex/base64/URL/JSON forms; data source names of every provider spelling "
            "(sqlite, sqlite3, postgres, case variants, others, none), each with a unique marker as its password, created "
            "through POST /dsns and written into the store directly, then every DSN endpoint (create, get, list with paging, "
            "update, grant, permission listing, delete; as root and as a holder of ego.sql only) and every line the server "
            "logs meanwhile (REST/AUTH/DB/SQL/TABLE/SERVER/ROUTE/INFO/USER loggers, text and JSON format) scanned for every "
            "marker and for the value at rest; every planted DSN is also USED (table list, @sql, in the thorough tier rows and "
            "@metadata), passwords that cannot stand unescaped in a URL (%zz, space, /, ?, #) included, and the error replies and "
            "log lines of the connection attempt are scanned (classes dsn-use*, decided by c44UseClass on provider and password).",
    "note": "partial: the statement about ALL routes is a search (canary scan over the real route table, two storage "
            "backends), not a proof; proved parts are the two configuration endpoints (over the extracted rules) and "
            "non-interference of the extracted response sites. Trusted: the go/ast translator (fail-closed; its "
            "rule extraction is cross-checked by the correspondence, its site analysis is intra-procedural and "
            "trusts that ListDSNS implementations overwrite .Password, which it checks syntactically), the "
            "specification of secret-bearing names in Model.lean `spec` (hand-written from the property and the "
            "comments in internal/defs/config.go), Go strings.EqualFold / strings.ToLower modelled exactly only for "
            "runes that fold into ASCII (verified exhaustively against Go when the model was written; literals are "
            "checked to be ASCII on every run). Not covered: the REST logger's trace of a request body (it repeats what the "
            "client sent, a new password included; such lines are recognised by containing a body the harness sent and are "
            "counted, not judged), log output outside the DSN phase, Ego-language "
            "services under lib/services, webauthn credentials. Defect found and repaired by fixes/C44.patch: the two "
            "endpoints used different lists (refresh token returned by POST /admin/config; client secret, userdata "
            "key, default credential and upper-case …PASSWORD names returned by both). Second defect (found by the dsn-use "
            "requests): dsns.Connection writes the decrypted password unescaped into the connection URL, so a password net/url "
            "cannot parse comes back in the error text of every table / SQL route and in the DB log line; known finding "
            "dsn-use-unescaped-password (+ log-…), repair proposed as fixes/C44-2.patch. egostrings.FindScheme puts the whole "
            "lower-cased connection string into its error; no route reaches it with a decryptable password (POST /dsns refuses "
            "unknown providers, records written into the store in plain text fail in decrypt), the scan has a lower-case form "
            "for it. The Lean model does not cover connection strings (search only).",
    "technique": "Lean 4 proof (induction over names; decidable cover check) + go/ast translator (regenerated model) "
                 "+ model/implementation correspondence + canary search",
    "design_ref": "DESIGN.md §6 C44",
}

KIND = {"eqfold": ("e", ".eqFold"), "contains": ("c", ".contains"), "containslower": ("l", ".containsLower")}
DISP = {"elided": ".elided", "omitted": ".omitted", "copied": ".copied", "sanitized": ".sanitized", "raw": ".raw"}
STATIC_FIXED = [("eqfold", "ego.server.token"), ("eqfold", "ego.server.token.key"), ("eqfold", "ego.logon.token"),
                ("eqfold", "ego.logon.refresh.token"), ("eqfold", "ego.server.oauth.client.secret"),
                ("eqfold", "ego.server.userdata.key"), ("eqfold", "ego.server.default.credential"),
                ("containslower", "password"), ("containslower", "credentials"), ("containslower", "secret")]


def hexs(s):
    return s.encode().hex() if s else "-"


def lean_str(s):
    ok = all(0x20 <= ord(c) <= 0x7e and c not in '"\\' for c in s)
    if not ok:
        raise ValueError("string not representable: %r" % s)
    return '"' + s + '"'


def lean_rules(rules):
    return "[" + ", ".join("%s %s" % (KIND[r["kind"]][1], lean_str(r["arg"])) for r in rules) + "]"


def generated(ex):
    """The Lean obligations for the facts extracted from the current source."""
    t = ["import EgoVerif.C44.Props", "open EgoVerif.C44", "namespace C44Gen", ""]
    t += ["/-- elision rules of GetConfigHandler (POST /admin/config), regenerated -/",
          "def exSingle : List Rule := " + lean_rules(ex["single"]),
          "/-- elision rules of GetAllConfigHandler (GET /admin/config), regenerated -/",
          "def exAll : List Rule := " + lean_rules(ex["all"]), "",
          "theorem cover_single : covers exSingle spec = true := by decide",
          "theorem cover_all : covers exAll spec = true := by decide", "",
          "/-- C44_settings for the rule lists of the current source: every secret-bearing name, every case variant -/",
          "theorem C44_settings_extracted : ∀ name : String, isSecretSetting name = true →",
          "    elide exSingle name.toList = true ∧ elide exAll name.toList = true :=",
          "  C44_settings_param exSingle exAll cover_single cover_all", "",
          "theorem C44_noninterference_single (keys : List String) (σ σ' : String → String)",
          "    (h : ∀ k, isSecretSetting k = false → σ k = σ' k) : respond exSingle keys σ = respond exSingle keys σ' :=",
          "  C44_settings_noninterference exSingle cover_single keys σ σ' h",
          "theorem C44_noninterference_all (keys : List String) (σ σ' : String → String)",
          "    (h : ∀ k, isSecretSetting k = false → σ k = σ' k) : respond exAll keys σ = respond exAll keys σ' :=",
          "  C44_settings_noninterference exAll cover_all keys σ σ' h", ""]
    # every literal of the extracted rules is ASCII (the exactness condition of foldCanon / goLower)
    t += ["example : (exSingle ++ exAll).all (fun r => match r with",
          "    | .eqFold s => allAscii s.toList | .contains s => allAscii s.toList | .containsLower s => allAscii s.toList) = true := by decide", ""]
    # the elided placeholder is the constant the model renders
    t += ["example : %s = \"********\" := by decide" % lean_str(ex["elided"]), ""]
    names = []
    for i, s in enumerate(ex["sites"]):
        if s.get("log_only"):
            continue
        nm = "site%d" % i
        names.append(nm)
        leaves = ", ".join("⟨%s, %s, %s⟩" % (lean_str(l["path"]), "true" if l["secret"] else "false", DISP[l["disp"]])
                           for l in s.get("leaves") or [])
        t += ["/-- %s %s:%d (%s) -/" % (s["func"], s["file"], s["line"], s.get("type", "?")),
              "def %s : Site := ⟨%s, [%s]⟩" % (nm, lean_str(s["func"]), leaves),
              "theorem %s_ok : %s.ok = true := by decide" % (nm, nm),
              "theorem %s_noninterference (σ σ' : String → String)" % nm,
              "    (h : ∀ l ∈ %s.leaves, l.secret = false → σ l.path = σ' l.path) : %s.render σ = %s.render σ' :=" % (nm, nm, nm),
              "  C44_structs %s %s_ok σ σ' h" % (nm, nm), ""]
    t += ["end C44Gen", ""]
    return "\n".join(t), names


def run(ctx):
    ctx.trusted += ["translator tools/extract_c44 (go/ast, fail closed): elision rules, setting names, response sites",
                    "specification of secret-bearing setting names: EgoVerif.C44.spec (hand-written)",
                    "canary scan harness internal/commands/zz_verif_c44_test.go (search, model-free)"]
    ctx.assumptions += ["setting names reach the handlers as valid UTF-8 (they are decoded from JSON)",
                        "rule literals are ASCII (checked in the generated obligation)",
                        "a response site's secret-typed leaves are those whose Go or JSON name contains "
                        "password/secret/private/tokenkey/signingkey or is the JWK member d"]
    ctx.lean_audit(required=["C44_settings", "C44_settings_param", "C44_settings_noninterference", "C44_structs",
                             "C44_settings_counterexample_single", "C44_settings_counterexample_all",
                             "C44_settings_orig_partial", "covers_sound"])
    if not ctx.quick:
        ctx.leanchecker()
    ctx.log("lean audit done")
    ctx.prepare_tree()

    # ---- translator: regenerate the model data from the current source
    env = dict(os.environ)
    env.update({"GOFLAGS": "", "GOPROXY": "off"})
    rc, outp = sh(["go", "run", os.path.join(VERIF, "tools", "extract_c44", "main.go"), ctx.tree],
                  cwd=ctx.scratch, env=env, timeout=600)
    ex = None
    try:
        ex = json.loads(outp)
    except ValueError:
        ctx.log(outp[-2000:])
    if rc != 0 or ex is None:
        ctx.broken.append("translator extract_c44 failed to run (rc=%d)" % rc)
        ex = {"single": [], "all": [], "elided": "", "settings": [], "sites": [], "errors": ["no output"]}
    for e in ex.get("errors") or []:
        ctx.log("translator:", e)
        ctx.broken.append("translator: " + e)
    ex["single"] = ex.get("single") or []
    ex["all"] = ex.get("all") or []
    ex["sites"] = ex.get("sites") or []
    with open(os.path.join(ctx.out, "c44_names.json"), "w") as f:
        json.dump(ex.get("settings") or [], f)
    with open(os.path.join(ctx.out, "c44_extract.json"), "w") as f:
        json.dump(ex, f, indent=1)
    site_names = []
    try:
        text, site_names = generated(ex)
        ok, lout = ctx.lean_obligation("C44Gen", text)
        if not ok:
            # say which obligations failed (the file is small; compile the parts separately is not needed)
            for line in lout.splitlines():
                if "error" in line:
                    ctx.log("  " + line.strip()[:300])
    except (ValueError, KeyError) as e:
        ctx.broken.append("generated obligation could not be written: %s" % e)
    raw = [(s["func"], l["path"], l.get("why", "")) for s in ex["sites"] if not s.get("log_only")
           for l in (s.get("leaves") or []) if l["secret"] and l["disp"] in ("raw", "copied")]
    for r in raw:
        ctx.log("response site exposes a secret-typed field: %s %s (%s)" % r)

    # ---- harness: canary search + elision bits of the real handlers
    ctx.log("translator + generated obligation done; running the harness")
    rc, out = ctx.go_test("./internal/commands/", "TestVerifC44", timeout=2400, extra=["-trimpath"])
    ctx.log("harness done")
    if rc != 0:
        ctx.log(out[-3000:])
        ctx.broken.append("harness TestVerifC44 failed to run (rc=%d)" % rc)
    cases = ctx.read_jsonl("c44_cases.jsonl")
    load = [{"in": "R s %s %s" % (KIND[r["kind"]][0], hexs(r["arg"])), "impl": "ok", "desc": "rule of the single-setting endpoint"}
            for r in ex["single"]]
    load += [{"in": "R a %s %s" % (KIND[r["kind"]][0], hexs(r["arg"])), "impl": "ok", "desc": "rule of the all-settings endpoint"}
             for r in ex["all"]]
    ctx.correspond(load + cases)
    for f in ctx.read_jsonl("c44_failures.jsonl"):
        ctx.fail(f["class"], f["what"], input=f.get("input"), got=f.get("got"), want=f.get("want"))
    st = (ctx.read_jsonl("c44_stats.json") or [{}])[0]
    c = st.get("counters", {})
    routes = ctx.read_jsonl("c44_routes.jsonl")
    get_routes = sorted({r["route"] for r in routes if r.get("route")})
    if cases and c.get("get_routes", 0) < 40:
        ctx.broken.append("route table shrank: only %d GET routes exercised" % c.get("get_routes", 0))
    # the DSN phase must have had something to find: DSNs with a secret at rest, of the sqlite and the postgres kind, made
    # through the endpoint and through the store, and a captured log
    if cases:
        if c.get("dsn_made_post", 0) < 4:
            ctx.broken.append("DSN phase: only %d data source names could be created through POST /dsns" % c.get("dsn_made_post", 0))
        for k in ('dsn_with_secret_store_"sqlite"', 'dsn_with_secret_store_"sqlite3"', 'dsn_with_secret_store_"postgres"'):
            if c.get(k, 0) < 2:
                ctx.broken.append("DSN phase: %s = %d (no such record with a password at rest in both back ends)" % (k, c.get(k, 0)))
        if c.get("dsn_used_dsn-use-unescaped-password", 0) < 2 or c.get("dsn_use_requests", 0) < 10:
            ctx.broken.append("DSN phase: only %d connecting requests, %d DSNs with a password that needs escaping"
                              % (c.get("dsn_use_requests", 0), c.get("dsn_used_dsn-use-unescaped-password", 0)))
        for m, least in (("PATCH", 100), ("POST", 20), ("PUT", 4), ("DELETE", 8)):
            if c.get("sweep_2xx_" + m, 0) < least:
                ctx.broken.append("method sweep: only %d %s requests to administrative / DSN endpoints were answered 2xx (of %d sent)"
                                  % (c.get("sweep_2xx_" + m, 0), m, c.get("sweep_requests_" + m, 0)))
        if c.get("dsn_requests", 0) < 150:
            ctx.broken.append("DSN phase: only %d requests" % c.get("dsn_requests", 0))
        if c.get("log_capture_failed", 0) or c.get("log_lines", 0) < 1000:
            ctx.broken.append("DSN phase: server log not captured (%d lines)" % c.get("log_lines", 0))
    if rc == 0 and len(cases) < 200:
        ctx.broken.append("harness produced only %d correspondence cases" % len(cases))
    ctx.coverage.update({
        "evaluations": len(cases),
        "requests": c.get("requests", 0),
        "distinct_nontrivial": c.get("distinct_nontrivial", 0),
        "rule": "setting names: every constant of internal/defs/config.go + every key in the store + a fixed corpus + random "
                "mutations (case flips, KELVIN SIGN / LONG S / dotted I, padding, truncation, word salads of password/"
                "credentials/secret); non-trivial = distinct name that is secret-bearing by the independent oracle "
                "predicate or contains a non-lower-case rune; each is requested through POST /admin/config and GET /admin/config",
        "samples": st.get("samples", []),
        "counters": c,
        "extracted": {"single_rules": ex["single"], "all_rules": ex["all"], "settings": len(ex.get("settings") or []),
                      "response_sites": len(site_names), "sanitizers": ex.get("sanitizers"),
                      "static_mirror_equal": [(r["kind"], r["arg"]) for r in ex["single"]] == STATIC_FIXED
                      and [(r["kind"], r["arg"]) for r in ex["all"]] == STATIC_FIXED},
        "get_routes_exercised": get_routes,
        "dsn_phase": {k: v for k, v in c.items() if k.startswith(("dsn_", "log_"))},
        "method_sweep": {k: v for k, v in c.items() if k.startswith("sweep_")},
        "search_label": "canary scan is a SEARCH over the real route table, not a proof",
    })
    return ctx.finish(level="proof")
