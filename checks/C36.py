"""C36 — langlint rewrites are crash-safe."""
import json
import os
import random
import re
import resource
import shutil
import subprocess

META = {
    "level": "proof",
    "text": "Lean theorems over a file-system model (three names: path, temporary, backup; operations create/write/close/"
            "stat/chmod/rename/remove, each either failing or yielding the next state): for ANY operation list accepted by "
            "the verified checker, at every point where the process can stop (between operations or inside a write) the path "
            "holds the complete original or the complete new content, a complete run leaves no temporary/backup file, and a "
            "later complete run after a crash anywhere leaves exactly the new file. The list is extracted from the current "
            "source of rewriteFile by a go/ast translator at every run; generated obligations prove the theorems for THAT "
            "list and that it equals the model's `steps`. The list is tied to the binary by strace (observed syscalls = "
            "extracted operations), each operation's model to the OS by replaying every prefix with real os calls against "
            "the model, and the property is tested directly by SIGKILLing the real langlint binary before each syscall "
            "(strace fault injection) and inspecting the path, then running it again and listing the directory. The same direct "
            "oracle (path — and the file it is linked to — holds the complete original or the complete new content; a later run "
            "leaves exactly the new file) is applied to message files named through a symbolic link, through a hard link and in "
            "a read-only directory, under SIGKILL before every syscall, an error injected into every syscall, a write cut in the "
            "middle by a file-size limit (real binary and, as EFBIG, the real rewriteFile in-process) and a full tmpfs (ENOSPC); "
            "these direct oracles run even when the translator fails closed on changed source.",
    "note": "trusted: Lean kernel; tools/extract_c36 (fails closed; success path only: error-handling branches are not "
            "modelled); POSIX rename(2) atomicity (modelled as one step); strace for observation/kill injection (that part is "
            "skipped with a note if ptrace is unavailable; so is the full-file-system part if no tmpfs can be mounted). The Lean "
            "model has three plain names in one directory: links and failing writes are covered by the direct oracles only. 'Process stops' = process death, not power loss: durability "
            "(fsync) is out of scope. Unpatched /repo violates the property: after Rename(path, bak) the path does not exist "
            "(C36_old_counterexample); fixes/C36.patch renames the temporary file over the original.",
    "technique": "Lean 4 proof (sound abstract interpretation of operation lists, induction over the list) + go/ast translator "
                 "obligation + syscall observation, prefix replay correspondence and kill injection",
    "design_ref": "DESIGN.md §6 C36",
}

TRACE = "openat,write,close,fsync,fchmodat,renameat,renameat2,unlinkat,newfstatat"


def _op_str(o):
    return o["op"] + ":" + o["a"] + ((":" + o["b"]) if o.get("b") else "")


def _join_unfinished(text):
    """strace -f splits interleaved calls into '<unfinished ...>' / '<... x resumed>' pairs: rejoin them."""
    pending, lines = {}, []
    for raw in text.splitlines():
        m = re.match(r"^(\d+)\s+(.*)$", raw)
        if not m:
            continue
        pid, rest = m.group(1), m.group(2)
        if rest.endswith("<unfinished ...>"):
            pending[pid] = rest[: -len("<unfinished ...>")]
            continue
        r = re.match(r"^<\.\.\. \w+ resumed>(.*)$", rest)
        if r:
            rest = pending.pop(pid, "") + r.group(1)
        lines.append(rest)
    return lines, pending


def _observed_ops(text, target):
    """syscalls on the target / its .langlint-* siblings → the model's operation names"""
    def sym(p):
        if p == target:
            return "target"
        if p == target + ".langlint-bak":
            return "bak"
        if p.startswith(target + ".langlint-"):
            return "tmp"
        return None

    lines, _ = _join_unfinished(text)
    fds, ops = {}, []
    for l in lines:
        m = re.match(r'^openat\(AT_FDCWD, "([^"]*)", ([A-Z_|]+)(?:, \d+)?\)\s+= (-?\d+)', l)
        if m:
            s, flags, fd = sym(m.group(1)), m.group(2).split("|"), int(m.group(3))
            if s is None or fd < 0:
                continue
            if "O_CREAT" in flags and "O_EXCL" in flags:
                ops.append("createExcl:" + s)
                fds[fd] = s
            elif "O_CREAT" in flags and "O_TRUNC" in flags:
                ops.append("createTrunc:" + s)
                fds[fd] = s
            elif "O_RDONLY" in flags:
                fds[fd] = None            # lintFile reading the file: not part of rewriteFile
            else:
                ops.append("open?:" + s + ":" + m.group(2))
            continue
        m = re.match(r"^(write|close|fsync)\((\d+)", l)
        if m:
            fd = int(m.group(2))
            if fds.get(fd):
                name = {"write": "write", "close": "close", "fsync": "sync"}[m.group(1)] + ":" + fds[fd]
                if not (m.group(1) == "write" and ops and ops[-1] == name):
                    ops.append(name)
            if m.group(1) == "close":
                fds.pop(fd, None)
            continue
        m = re.match(r'^newfstatat\(AT_FDCWD, "([^"]*)", .*, (0|AT_SYMLINK_NOFOLLOW)\)\s+=', l)
        if m:
            s = sym(m.group(1))
            if s and m.group(2) == "0":      # Lstat (inside os.Rename) reads only
                ops.append("stat:" + s)
            continue
        m = re.match(r'^fchmodat\(AT_FDCWD, "([^"]*)",', l)
        if m and sym(m.group(1)):
            ops.append("chmod:" + sym(m.group(1)))
            continue
        m = re.match(r'^renameat2?\(AT_FDCWD, "([^"]*)", AT_FDCWD, "([^"]*)"', l)
        if m and (sym(m.group(1)) or sym(m.group(2))):
            ops.append("rename:%s:%s" % (sym(m.group(1)), sym(m.group(2))))
            continue
        m = re.match(r'^unlinkat\(AT_FDCWD, "([^"]*)",', l)
        if m and sym(m.group(1)):
            ops.append("remove:" + sym(m.group(1)))
    return ops


VIAS = ("direct", "symlink", "hardlink", "rodir")


def _binary_stage(ctx, extracted):
    """The real langlint binary, on message files reached directly, through a symbolic link, through a hard link and
    in a read-only directory: observed syscalls; SIGKILL before every syscall; an error injected into every syscall;
    the process stopped in the middle of the write by a file-size limit; a file system that runs full (tiny tmpfs).
    Oracle after every crashed / failed run: the path (and the other name of a linked file) holds the complete
    original or the complete formatted content, and a later undisturbed run leaves exactly the formatted file.
    `extracted` is None when the translator failed closed: the comparison of the observed syscalls is then skipped,
    the crash oracle is not."""
    exe = os.path.join(ctx.out, "langlint")
    rc, out = ctx.go(["build", "-o", exe, "./tools/langlint"], timeout=900)
    if rc != 0:
        ctx.log(out[-2000:])
        ctx.broken.append("go build ./tools/langlint failed")
        return
    have_strace = True
    if not shutil.which("strace"):
        ctx.notes.append("strace not installed: syscall observation and kill/error injection skipped")
        have_strace = False
    else:
        probe = subprocess.run(["strace", "-o", os.devnull, "true"], stdout=subprocess.PIPE, stderr=subprocess.STDOUT, text=True)
        if probe.returncode != 0:
            ctx.notes.append("strace cannot trace here (%s): syscall observation and kill/error injection skipped" % probe.stdout.strip()[-120:])
            have_strace = False

    rnd = random.Random(ctx.seed * 7919 + 36)
    root_user = os.geteuid() == 0
    NOBODY = 65534

    def content(kind):
        if kind == "small":
            return b"[b]\nz=one\na=two\n"
        if kind == "crlf":
            return b"# c\r\n[s]\r\nb=2\r\na=1\r\n\r\n\r\n[t]\r\nq=1\r\n"
        n = 4000 if kind == "large" else 40
        keys = ["k%05d" % v for v in rnd.sample(range(100000), n)]     # distinct: duplicate keys would make langlint exit 1
        return b"[big]\n" + b"".join(("%s=value %d {{x}}\n" % (k, i)).encode() for i, k in enumerate(keys))

    # (content kind, file name, mode, stale temporary file, how the path reaches the file)
    scen = [("small", "messages_xx.txt", 0o644, None, "direct"), ("mid", "my messages.txt", 0o600, None, "direct"),
            ("small", "messages_en.txt", 0o664, b"stale temporary file", "direct"),
            ("small", "messages_sl.txt", 0o644, None, "symlink"), ("small", "messages_hl.txt", 0o640, None, "hardlink")]
    if not ctx.quick:
        scen += [("large", "messages_big.txt", 0o644, None, "direct"), ("crlf", "messages_fr.txt", 0o640, b"", "direct"),
                 ("mid", "m.langlint-bak", 0o644, None, "direct"), ("mid", "messages_ja.txt", 0o600, b"x" * 100000, "direct"),
                 ("mid", "messages_de.txt", 0o600, b"stale", "symlink"), ("large", "messages_pt.txt", 0o644, None, "symlink"),
                 ("crlf", "messages_it.txt", 0o644, b"", "hardlink")]

    root = os.path.join(ctx.scratch, "c36dirs")
    want = [_op_str(o) for o in extracted] if extracted else None
    tr = os.path.join(ctx.out, "c36_trace.txt")
    n = {"kill_points": 0, "error_points": 0, "fsize_points": 0, "enospc_points": 0, "rodir_points": 0,
         "later_runs": 0, "later_runs_same_as_reference": 0}
    per_via, observed_once = {}, None

    class Site:
        """one scenario laid out on disk: <d>/dir/<name> is the path given to langlint; for a linked file the content
        lives in <d>/real/<name>"""
        def __init__(self, d, kind, name, mode, stale, via, orig):
            self.d, self.kind, self.name, self.mode, self.stale, self.via, self.orig = d, kind, name, mode, stale, via, orig
            self.work, self.real = os.path.join(d, "dir"), os.path.join(d, "real")
            self.p = os.path.join(self.work, name)
            self.other = os.path.join(self.real, name) if via in ("symlink", "hardlink") else None
            self.new = None

        def wipe(self):
            if os.path.isdir(self.work):
                os.chmod(self.work, 0o755)
            shutil.rmtree(self.d, ignore_errors=True)

        def fresh(self):
            self.wipe()
            os.makedirs(self.work)
            first = self.other or self.p
            if self.other:
                os.makedirs(self.real)
            with open(first, "wb") as f:
                f.write(self.orig)
            os.chmod(first, self.mode)
            if self.via == "symlink":
                os.symlink(os.path.join("..", "real", self.name), self.p)
            elif self.via == "hardlink":
                os.link(first, self.p)
            if self.stale is not None:
                with open(self.p + ".langlint-tmp", "wb") as f:
                    f.write(self.stale)
            if self.via == "rodir":
                if root_user:                      # the unprivileged user of the run owns the file but cannot write the directory
                    os.chown(self.p, NOBODY, NOBODY)
                os.chmod(self.d, 0o755)
                os.chmod(self.work, 0o555)
            self.initial = self.snapshot()

        def writable(self):
            if self.via == "rodir":
                os.chmod(self.work, 0o755)

        def snapshot(self):
            snap = {}
            for sub in ("dir", "real"):
                dd = os.path.join(self.d, sub)
                if os.path.isdir(dd):
                    for e in sorted(os.listdir(dd)):
                        q = os.path.join(dd, e)
                        snap[sub + "/" + e] = ("link", os.readlink(q)) if os.path.islink(q) else ("file", read(q), os.stat(q).st_mode & 0o7777)
            return snap

        def listing(self):
            return ["%s/%s" % (sub, e) for sub in ("dir", "real") if os.path.isdir(os.path.join(self.d, sub))
                    for e in sorted(os.listdir(os.path.join(self.d, sub)))]

        def clean_listing(self):
            return ["dir/" + self.name] + (["real/" + self.name] if self.other else [])

        def describe(self):
            return "scenario %s name=%r mode=%o stale_tmp=%s path-is=%s" % (self.kind, self.name, self.mode, short(self.stale), {
                "direct": "regular file", "symlink": "symbolic link to ../real/" + self.name,
                "hardlink": "hard link of ../real/" + self.name, "rodir": "regular file in a read-only directory"}[self.via])

    def read(p):
        try:
            with open(p, "rb") as f:
                return f.read()
        except OSError:
            return None

    def short(b):
        return "absent" if b is None else "%d bytes %r" % (len(b), b[:40])

    def launch(cmd, fsize=None, unprivileged=False):
        def pre():
            if fsize is not None:
                resource.setrlimit(resource.RLIMIT_FSIZE, (fsize, resource.getrlimit(resource.RLIMIT_FSIZE)[1]))
            if unprivileged and root_user:
                os.setgroups([])
                os.setgid(NOBODY)
                os.setuid(NOBODY)
        return subprocess.run(cmd, stdout=subprocess.PIPE, stderr=subprocess.STDOUT,
                              preexec_fn=pre if (fsize is not None or unprivileged) else None)

    def after_stop(site, where, rc):
        """oracle after a run that was killed or failed (or, unknowingly, completed)"""
        per_via[site.via] = per_via.get(site.via, 0) + 1
        got = read(site.p)
        if got != site.orig and got != site.new:
            ctx.fail("crash-window", "after the process stopped the path holds neither the complete original nor the complete new content",
                     input=where, got="rc=%d path: %s ; files=%s" % (rc, short(got), site.listing()), want="original or formatted content")
            return
        if site.other:
            o = read(site.other)
            if o != site.orig and o != site.new:
                ctx.fail("crash-window-linked", "after the process stopped the file the path was linked to holds neither the complete original nor the complete new content",
                         input=where, got="rc=%d linked file: %s ; files=%s" % (rc, short(o), site.listing()), want="original or formatted content")
                return
        if rc == 0 and got != site.new:
            ctx.fail("rewrite-failed", "langlint exits 0 but the path does not hold the new content", input=where, got=short(got))
            return
        # a later undisturbed run completes the job and leaves no stray file
        site.writable()
        if site.snapshot() == site.initial and site.via != "rodir":
            n["later_runs_same_as_reference"] += 1      # nothing changed: the later run IS the reference run made above
            return
        r = launch([exe, site.p])
        n["later_runs"] += 1
        after, listing = read(site.p), site.listing()
        if r.returncode != 0 or after != site.new or listing != site.clean_listing():
            ctx.fail("crash-residue", "a later run after the stop does not leave exactly the reformatted file",
                     input=where, got="rc=%d content=%s files=%s" % (r.returncode, short(after), listing), want="files=%s" % site.clean_listing())

    def reference(site):
        site.fresh()
        site.writable()
        r = launch([exe, site.p])
        new = read(site.p)
        if r.returncode != 0 or new is None or new == site.orig or site.listing() != site.clean_listing():
            ctx.fail("rewrite-residue" if new not in (None, site.orig) else "rewrite-failed",
                     "an undisturbed langlint run does not leave exactly the reformatted file",
                     input=site.describe(), got="rc=%d files=%s" % (r.returncode, site.listing()))
            return False
        site.new = new
        return True

    strace = ["strace", "-f", "-e", "signal=none", "-e", "trace=" + TRACE]
    sites = []
    for i, (kind, name, mode, stale, via) in enumerate(scen):
        site = Site(os.path.join(root, "s%d" % i), kind, name, mode, stale, via, content(kind))
        if not reference(site):
            continue
        sites.append(site)
        if not have_strace:
            continue
        # observed syscall sequence of a complete run
        site.fresh()
        subprocess.run(strace + ["-o", tr, exe, site.p], stdout=subprocess.PIPE, stderr=subprocess.STDOUT)
        with open(tr, errors="replace") as f:
            text = f.read()
        obs = _observed_ops(text, site.p)
        called = {sn for sn in TRACE.split(",") if re.search(r"^\d+\s+(<\.\.\. )?%s[( ]" % sn, text, re.M)}
        observed_once = observed_once or obs
        if want is not None and obs != want:
            ctx.broken.append("observed syscall sequence of langlint differs from the operations extracted from the source "
                              "(%s): observed %s, extracted %s" % (site.describe(), ",".join(obs), ",".join(want)))
        # kill the process before the K-th call of each traced syscall, for every K (strace counts `when` per syscall name);
        # then, instead of the kill, make that call fail
        errno_of = {"write": "ENOSPC", "openat": "EACCES", "renameat": "EXDEV", "renameat2": "EXDEV", "unlinkat": "EBUSY"}
        do_errors = (not ctx.quick) or i == 1 or via != "direct"
        for sysname in TRACE.split(","):
            for what in ("kill", "error"):
                if (what == "error" and not do_errors) or sysname not in called:    # not called in a complete run: no point to stop at
                    continue
                k = 0
                while k < 400:
                    k += 1
                    site.fresh()
                    if os.path.exists(tr):
                        os.remove(tr)
                    inj = "signal=SIGKILL" if what == "kill" else "error=" + errno_of.get(sysname, "EIO")
                    r = subprocess.run(strace + ["-e", "inject=%s:%s:when=%d" % (sysname, inj, k), "-o", tr, exe, site.p],
                                       stdout=subprocess.PIPE, stderr=subprocess.STDOUT)
                    text = ""
                    if os.path.exists(tr):
                        with open(tr, errors="replace") as f:
                            text = f.read()
                    if what == "kill":
                        if r.returncode not in (-9, 137):
                            break                    # fewer than k calls of this syscall: the run completed
                        at = [l for l in text.splitlines() if "= ?" in l or "<unfinished" in l]
                        n["kill_points"] += 1
                        where = "%s: SIGKILL before call #%d of %s: %s" % (site.describe(), k, sysname, (at[-1] if at else "?")[:200])
                    else:
                        at = [l for l in text.splitlines() if "(INJECTED)" in l]
                        if not at:
                            break
                        n["error_points"] += 1
                        where = "%s: call #%d of %s made to fail: %s" % (site.describe(), k, sysname, at[-1][:200])
                    after_stop(site, where, r.returncode)

    # the write stops in the MIDDLE: a file-size limit lets the kernel write the first L bytes, the next write call
    # fails (EFBIG, or SIGXFSZ ends the process)
    for site in sites:
        if len(site.new) < 3 or (ctx.quick and site.kind == "small" and site.via == "direct"):
            continue
        limits = {rnd.randrange(1, len(site.new))}
        if not ctx.quick:
            limits |= {0, 1, len(site.new) // 2, len(site.new) - 1, rnd.randrange(1, len(site.new))}
        for lim in sorted(limits):
            site.fresh()
            r = launch([exe, site.p], fsize=lim)
            n["fsize_points"] += 1
            after_stop(site, "%s: file-size limit (RLIMIT_FSIZE, `ulimit -f`) of %d bytes, formatted content is %d bytes" % (
                site.describe(), lim, len(site.new)), r.returncode)

    # a message file in a directory the user cannot write: the run fails (or finds another way); same oracle
    for j, (kind, mode) in enumerate([("mid", 0o644)] if ctx.quick else [("mid", 0o644), ("small", 0o600), ("large", 0o664)]):
        site = Site(os.path.join(root, "r%d" % j), kind, "messages_ro.txt", mode, None, "rodir", content(kind))
        if root_user:
            os.makedirs(root, exist_ok=True)
            for q in (ctx.scratch, root):           # the unprivileged user must be able to reach the directory
                os.chmod(q, os.stat(q).st_mode | 0o011)
            os.chmod(exe, 0o755)
            os.chmod(ctx.out, os.stat(ctx.out).st_mode | 0o011)
        if not reference(site):
            continue
        for lim in [None, rnd.randrange(1, len(site.new))] + ([] if ctx.quick else [0, len(site.new) // 2]):
            site.fresh()
            r = launch([exe, site.p], fsize=lim, unprivileged=True)
            n["rodir_points"] += 1
            after_stop(site, "%s: run as a user who cannot write the directory, file-size limit %s" % (site.describe(), lim), r.returncode)
        site.wipe()

    # a file system that runs full during the write (ENOSPC after a partial write): a tiny tmpfs, when one can be mounted
    mnt = os.path.join(ctx.scratch, "c36full")
    os.makedirs(mnt, exist_ok=True)
    mounted = subprocess.run(["mount", "-t", "tmpfs", "-o", "size=1024k,mode=755", "tmpfs", mnt],
                             stdout=subprocess.PIPE, stderr=subprocess.STDOUT).returncode == 0 if shutil.which("mount") else False
    if not mounted:
        ctx.notes.append("cannot mount a tmpfs here: the full-file-system (ENOSPC) runs are skipped")
    else:
        try:
            for j, via in enumerate(("direct", "symlink", "hardlink")):
                site = Site(os.path.join(mnt, "f%d" % j), "large", "messages_full.txt", 0o644, None, via, content("large"))
                if not reference(site):
                    continue
                for free in ([rnd.choice([0, 4096 * rnd.randrange(1, 20)])] if ctx.quick else [0, 4096, 4096 * rnd.randrange(2, 20)]):
                    site.fresh()
                    filler = os.path.join(mnt, "filler")
                    with open(filler, "wb", buffering=0) as f:      # fill the file system, then give `free` bytes back
                        size = 0
                        for chunk in (65536, 4096):
                            while True:
                                try:
                                    size += f.write(b"\0" * chunk)
                                except OSError:
                                    break
                        f.truncate(max(0, size - free))
                    r = launch([exe, site.p])
                    os.remove(filler)
                    n["enospc_points"] += 1
                    after_stop(site, "%s: file system full (tmpfs with %d bytes free), formatted content is %d bytes" % (
                        site.describe(), free, len(site.new)), r.returncode)
                site.wipe()
        finally:
            if subprocess.run(["umount", mnt], stdout=subprocess.PIPE, stderr=subprocess.STDOUT).returncode != 0:
                subprocess.run(["umount", "-l", mnt], stdout=subprocess.PIPE, stderr=subprocess.STDOUT)

    for site in sites:
        site.wipe()
    shutil.rmtree(root, ignore_errors=True)
    shutil.rmtree(mnt, ignore_errors=True)
    if have_strace and n["kill_points"] == 0:
        ctx.broken.append("kill injection produced no crash point (strace inject not working?)")
    if n["fsize_points"] == 0:
        ctx.broken.append("no run under a file-size limit was made")
    cov = {"scenarios": len(scen), "stops_per_path_kind": per_via, "observed_ops": observed_once}
    cov.update(n)
    if not have_strace:
        cov["strace"] = "skipped (strace missing or ptrace unavailable)"
    ctx.coverage["strace_stage"] = cov


def _direct_oracles(ctx, ops):
    """in-process harness and the real binary; ops = operations extracted from the source, None if the translator failed closed"""
    # in-process harness: complete runs of the real rewriteFile, prefix replay of the extracted list
    ctx.log("obligations %s; running the in-process harness" % ("done" if ops else "NOT generated"))
    rc, out = ctx.go_test("./tools/langlint/", "TestVerifC36", timeout=1500)
    if rc != 0:
        ctx.log(out[-3000:])
        ctx.broken.append("harness TestVerifC36 failed to run (rc=%d)" % rc)
    cases = ctx.read_jsonl("c36_cases.jsonl")
    if not cases and ops:
        ctx.broken.append("harness produced no correspondence cases")
    ctx.correspond(cases, label="os calls vs model exec")
    per_class = {}
    for f in ctx.read_jsonl("c36_failures.jsonl"):
        per_class[f["class"]] = per_class.get(f["class"], 0) + 1
        if per_class[f["class"]] <= 6:       # keep room in the replay file for the failures of the real binary below
            ctx.fail(f["class"], f["what"], input=f.get("input"), got=f.get("got"), want=f.get("want"))

    # the real binary: observed syscalls, SIGKILL before / error in every syscall, file-size limit, full file system, later run
    ctx.log("harness and correspondence done (%d lines); crash and fault stage on the built binary" % len(cases))
    _binary_stage(ctx, ops)
    ctx.log("binary stage done:", ctx.coverage.get("strace_stage"))

    st = (ctx.read_jsonl("c36_stats.json") or [{}])[0]
    c = st.get("counters", {})
    ctx.coverage.update({
        "evaluations": len(cases) + c.get("complete_runs", 0),
        "distinct_nontrivial": c.get("distinct_nontrivial", 0),
        "rule": "scenarios: original/new contents (empty, binary, message-like, up to 300 KB), stale temporary/backup files, 5 modes, "
                "6 file names; every prefix of the extracted operation list (+ a cut-short write) replayed with real os calls; "
                "random operation lists over the three names; non-trivial = distinct (scenario, non-empty prefix); "
                "complete runs, and runs whose write fails half-way (EFBIG under a file-size limit), of the real rewriteFile on paths "
                "that are regular files, symbolic links and hard links; "
                "kill_points / error_points = real SIGKILLs of the langlint binary before / errors injected into each traced syscall, "
                "fsize_points = runs stopped in the middle of the write by RLIMIT_FSIZE, enospc_points = runs on a full tmpfs, "
                "rodir_points = runs in a directory the user cannot write; paths: regular file, symbolic link, hard link",
        "samples": st.get("samples", []),
        "counters": c,
        "extracted_ops": [_op_str(o) for o in ops] if ops else "translator failed closed",
        "notes": ctx.notes,
    })
    return None


def run(ctx):
    ctx.trusted += ["translator tools/extract_c36 (go/ast, fails closed)", "POSIX rename(2) replaces the target atomically",
                    "strace 6.x syscall tracing and signal injection", "harness tools/langlint/zz_verif_c36_test.go + egodriver C36"]
    ctx.assumptions += ["a crash is the death of the process between (or inside) system calls; the kernel completes each call",
                        "error-handling branches of rewriteFile are not modelled (success path only)",
                        "the three names are distinct files in one directory on one file system"]
    ctx.lean_audit(required=["C36_atomic_of_check", "C36_clean_of_check", "C36_rerun_of_check", "C36_atomic", "C36_clean",
                             "C36_later_run_clean", "C36_old_counterexample"])
    if not ctx.quick:
        ctx.leanchecker()
    ctx.prepare_tree()

    # T1: translator on the current source
    tdir = os.path.join(ctx.tree, "tools", "zz_verif_extract_c36")
    os.makedirs(tdir, exist_ok=True)
    shutil.copy(os.path.join(os.path.dirname(os.path.dirname(os.path.abspath(__file__))), "tools", "extract_c36", "main.go"),
                os.path.join(tdir, "main.go"))
    rc, out = ctx.go(["run", "./tools/zz_verif_extract_c36", "tools/langlint/lint.go"], timeout=900)
    extracted = None
    if rc == 0:
        try:
            extracted = json.loads(out.strip().splitlines()[-1])
        except (ValueError, IndexError):
            pass
    if not extracted:
        ctx.log(out[-2000:])
        ctx.broken.append("translator extract_c36 does not understand rewriteFile (fails closed)")
        # the proof obligations cannot be generated; the direct oracles on the real code still run, so that a real
        # breakage behind the unknown syntax is reported with a failing input
        _direct_oracles(ctx, None)
        return ctx.finish()
    ops = extracted["ops"]
    with open(os.path.join(ctx.out, "c36_ops.json"), "w") as f:
        json.dump(extracted, f)
    ctx.log("extracted operations:", ",".join(_op_str(o) for o in ops))
    ctx.log("model checker on the extracted list:", ctx.driver(["check " + ",".join(_op_str(o) for o in ops)])[0])
    head = "import EgoVerif.C36.Props\nopen EgoVerif.C36\n\n/-- GENERATED by tools/extract_c36 from tools/langlint/lint.go -/\ndef extracted : List Op := %s\n\n" % extracted["lean"]
    ctx.lean_obligation("C36_extracted_safe", head + """
/-- at every crash point of the operations in the source the path holds the original or the new content -/
theorem extracted_atomic (orig new : Bytes) (fs : FS) (h : fs .target = some orig) (s : FS)
    (hs : Crash new fs extracted s) : s .target = some orig ∨ s .target = some new :=
  C36_atomic_of_check extracted (by decide) orig new fs h s hs

theorem extracted_clean (orig new : Bytes) (fs : FS) (h : fs .target = some orig) (hb : fs .bak = none) :
    ∃ s, run new fs extracted = some s ∧ s .target = some new ∧ s .tmp = none ∧ s .bak = none :=
  C36_clean_of_check extracted (by decide) orig new fs h hb

theorem extracted_rerun (orig new : Bytes) (hne : orig ≠ new) (fs : FS) (h : fs .target = some orig)
    (ht : fs .tmp = none) (hb : fs .bak = none) (s : FS) (hs : Crash new fs extracted s) :
    (∃ s2, run new s extracted = some s2 ∧ s2 .target = some new ∧ s2 .tmp = none ∧ s2 .bak = none) ∧
    (s .target = some new → s .tmp = none ∧ s .bak = none) :=
  C36_rerun_of_check extracted (by decide) orig new hne fs h ht hb s hs
""")
    ctx.lean_obligation("C36_extracted_model", head + """
/-- the operation list of the Lean model is the one in the source -/
theorem extracted_is_model : extracted = steps := by decide
""")

    _direct_oracles(ctx, ops)
    return ctx.finish()
