"""C36 — langlint rewrites are crash-safe."""
import json
import os
import random
import re
import shutil
import subprocess

META = {
    "level": "proof",
    "text": "Lean theorems over a file-system model (three names: path, temporary, backup; operations create/write/close/"
            "stat/chmod/rename/remove, each either failing or yielding the next state): for ANY operation list accepted by "
            "the verified checker, at every point where the process can stop (between operations or inside a write) the path "
            "holds the complete original or the complete new content, a complete run leaves no temporary/backup file, and a "
            "later complete run after a crash anywhere leaves exactly the new file. The list is extracted from the current "
            "source of rewriteFile by a go/ast translator at every run; generated obligations prove the theorems for THAT "
            "list and that it equals the model's `steps`. The list is tied to the binary by strace (observed syscalls = "
            "extracted operations), each operation's model to the OS by replaying every prefix with real os calls against "
            "the model, and the property is tested directly by SIGKILLing the real langlint binary before each syscall "
            "(strace fault injection) and inspecting the path, then running it again and listing the directory.",
    "note": "trusted: Lean kernel; tools/extract_c36 (fails closed; success path only: error-handling branches are not "
            "modelled); POSIX rename(2) atomicity (modelled as one step); strace for observation/kill injection (stage is "
            "skipped with a note if ptrace is unavailable). 'Process stops' = process death, not power loss: durability "
            "(fsync) is out of scope. Unpatched /repo violates the property: after Rename(path, bak) the path does not exist "
            "(C36_old_counterexample); fixes/C36.patch renames the temporary file over the original.",
    "technique": "Lean 4 proof (sound abstract interpretation of operation lists, induction over the list) + go/ast translator "
                 "obligation + syscall observation, prefix replay correspondence and kill injection",
    "design_ref": "DESIGN.md §6 C36",
}

TRACE = "openat,write,close,fsync,fchmodat,renameat,renameat2,unlinkat,newfstatat"


def _op_str(o):
    return o["op"] + ":" + o["a"] + ((":" + o["b"]) if o.get("b") else "")


def _join_unfinished(text):
    """strace -f splits interleaved calls into '<unfinished ...>' / '<... x resumed>' pairs: rejoin them."""
    pending, lines = {}, []
    for raw in text.splitlines():
        m = re.match(r"^(\d+)\s+(.*)$", raw)
        if not m:
            continue
        pid, rest = m.group(1), m.group(2)
        if rest.endswith("<unfinished ...>"):
            pending[pid] = rest[: -len("<unfinished ...>")]
            continue
        r = re.match(r"^<\.\.\. \w+ resumed>(.*)$", rest)
        if r:
            rest = pending.pop(pid, "") + r.group(1)
        lines.append(rest)
    return lines, pending


def _observed_ops(text, target):
    """syscalls on the target / its .langlint-* siblings → the model's operation names"""
    def sym(p):
        if p == target:
            return "target"
        if p == target + ".langlint-bak":
            return "bak"
        if p.startswith(target + ".langlint-"):
            return "tmp"
        return None

    lines, _ = _join_unfinished(text)
    fds, ops = {}, []
    for l in lines:
        m = re.match(r'^openat\(AT_FDCWD, "([^"]*)", ([A-Z_|]+)(?:, \d+)?\)\s+= (-?\d+)', l)
        if m:
            s, flags, fd = sym(m.group(1)), m.group(2).split("|"), int(m.group(3))
            if s is None or fd < 0:
                continue
            if "O_CREAT" in flags and "O_EXCL" in flags:
                ops.append("createExcl:" + s)
                fds[fd] = s
            elif "O_CREAT" in flags and "O_TRUNC" in flags:
                ops.append("createTrunc:" + s)
                fds[fd] = s
            elif "O_RDONLY" in flags:
                fds[fd] = None            # lintFile reading the file: not part of rewriteFile
            else:
                ops.append("open?:" + s + ":" + m.group(2))
            continue
        m = re.match(r"^(write|close|fsync)\((\d+)", l)
        if m:
            fd = int(m.group(2))
            if fds.get(fd):
                name = {"write": "write", "close": "close", "fsync": "sync"}[m.group(1)] + ":" + fds[fd]
                if not (m.group(1) == "write" and ops and ops[-1] == name):
                    ops.append(name)
            if m.group(1) == "close":
                fds.pop(fd, None)
            continue
        m = re.match(r'^newfstatat\(AT_FDCWD, "([^"]*)", .*, (0|AT_SYMLINK_NOFOLLOW)\)\s+=', l)
        if m:
            s = sym(m.group(1))
            if s and m.group(2) == "0":      # Lstat (inside os.Rename) reads only
                ops.append("stat:" + s)
            continue
        m = re.match(r'^fchmodat\(AT_FDCWD, "([^"]*)",', l)
        if m and sym(m.group(1)):
            ops.append("chmod:" + sym(m.group(1)))
            continue
        m = re.match(r'^renameat2?\(AT_FDCWD, "([^"]*)", AT_FDCWD, "([^"]*)"', l)
        if m and (sym(m.group(1)) or sym(m.group(2))):
            ops.append("rename:%s:%s" % (sym(m.group(1)), sym(m.group(2))))
            continue
        m = re.match(r'^unlinkat\(AT_FDCWD, "([^"]*)",', l)
        if m and sym(m.group(1)):
            ops.append("remove:" + sym(m.group(1)))
    return ops


def _strace_stage(ctx, extracted):
    exe = os.path.join(ctx.out, "langlint")
    rc, out = ctx.go(["build", "-o", exe, "./tools/langlint"], timeout=900)
    if rc != 0:
        ctx.log(out[-2000:])
        ctx.broken.append("go build ./tools/langlint failed")
        return
    if not shutil.which("strace"):
        ctx.notes.append("strace not installed: syscall observation and kill injection skipped")
        ctx.coverage["strace_stage"] = "skipped (no strace)"
        return
    probe = subprocess.run(["strace", "-o", os.devnull, "true"], stdout=subprocess.PIPE, stderr=subprocess.STDOUT, text=True)
    if probe.returncode != 0:
        ctx.notes.append("strace cannot trace here (%s): syscall observation and kill injection skipped" % probe.stdout.strip()[-120:])
        ctx.coverage["strace_stage"] = "skipped (ptrace unavailable)"
        return

    rnd = random.Random(ctx.seed * 7919 + 36)

    def content(kind):
        if kind == "small":
            return b"[b]\nz=one\na=two\n"
        if kind == "crlf":
            return b"# c\r\n[s]\r\nb=2\r\na=1\r\n\r\n\r\n[t]\r\nq=1\r\n"
        n = 4000 if kind == "large" else 40
        keys = ["k%05d" % v for v in rnd.sample(range(100000), n)]     # distinct: duplicate keys would make langlint exit 1
        return b"[big]\n" + b"".join(("%s=value %d {{x}}\n" % (k, i)).encode() for i, k in enumerate(keys))

    scen = [("small", "messages_xx.txt", 0o644, None), ("mid", "my messages.txt", 0o600, None),
            ("small", "messages_en.txt", 0o664, b"stale temporary file")]
    if not ctx.quick:
        scen += [("large", "messages_big.txt", 0o644, None), ("crlf", "messages_fr.txt", 0o640, b""),
                 ("mid", "m.langlint-bak", 0o644, None), ("mid", "messages_ja.txt", 0o600, b"x" * 100000)]

    root = os.path.join(ctx.scratch, "c36dirs")
    want = [_op_str(o) for o in extracted]
    crash_points, reruns, observed_once = 0, 0, None

    def fresh(i, orig, name, mode, stale):
        d = os.path.join(root, "s%d" % i)
        shutil.rmtree(d, ignore_errors=True)
        os.makedirs(d)
        p = os.path.join(d, name)
        with open(p, "wb") as f:
            f.write(orig)
        os.chmod(p, mode)
        if stale is not None:
            with open(p + ".langlint-tmp", "wb") as f:
                f.write(stale)
        return d, p

    def read(p):
        try:
            with open(p, "rb") as f:
                return f.read()
        except OSError:
            return None

    def short(b):
        return "absent" if b is None else "%d bytes %r" % (len(b), b[:40])

    for i, (kind, name, mode, stale) in enumerate(scen):
        orig = content(kind)
        # reference: an undisturbed run gives the new content
        d, p = fresh(i, orig, name, mode, stale)
        r = subprocess.run([exe, p], stdout=subprocess.PIPE, stderr=subprocess.STDOUT)
        new = read(p)
        if r.returncode != 0 or new is None or new == orig or sorted(os.listdir(d)) != [name]:
            ctx.fail("rewrite-residue" if new not in (None, orig) else "rewrite-failed",
                     "an undisturbed langlint run does not leave exactly the reformatted file",
                     input="scenario %s name=%r stale_tmp=%s" % (kind, name, short(stale)),
                     got="rc=%d dir=%s" % (r.returncode, sorted(os.listdir(d))))
            continue
        # observed syscall sequence of a complete run
        d, p = fresh(i, orig, name, mode, stale)
        tr = os.path.join(ctx.out, "c36_trace_%d.txt" % i)
        subprocess.run(["strace", "-f", "-e", "signal=none", "-e", "trace=" + TRACE, "-o", tr, exe, p],
                       stdout=subprocess.PIPE, stderr=subprocess.STDOUT)
        with open(tr, errors="replace") as f:
            obs = _observed_ops(f.read(), p)
        observed_once = observed_once or obs
        if obs != want:
            ctx.broken.append("observed syscall sequence of langlint differs from the operations extracted from the source "
                              "(scenario %s): observed %s, extracted %s" % (kind, ",".join(obs), ",".join(want)))
        # kill the process before the K-th call of each traced syscall, for every K (strace counts `when` per syscall name)
        for sysname in TRACE.split(","):
            k = 0
            while k < 400:
                k += 1
                d, p = fresh(i, orig, name, mode, stale)
                r = subprocess.run(["strace", "-f", "-e", "signal=none", "-e", "trace=" + TRACE,
                                    "-e", "inject=%s:signal=SIGKILL:when=%d" % (sysname, k), "-o", tr, exe, p],
                                   stdout=subprocess.PIPE, stderr=subprocess.STDOUT)
                if r.returncode not in (-9, 137):
                    break                    # fewer than k calls of this syscall: the run completed
                crash_points += 1
                with open(tr, errors="replace") as f:
                    text = f.read()
                at = [l for l in text.splitlines() if "= ?" in l or "<unfinished" in l]
                where = "scenario %s name=%r mode=%o stale_tmp=%s: SIGKILL before call #%d of %s: %s" % (
                    kind, name, mode, short(stale), k, sysname, (at[-1] if at else "?")[:200])
                got = read(p)
                if got != orig and got != new:
                    ctx.fail("crash-window", "after the process was killed the path holds neither the complete original nor the complete new content",
                             input=where, got=short(got) + " dir=" + str(sorted(os.listdir(d))), want="original or formatted content")
                    continue
                # a later successful run
                r = subprocess.run([exe, p], stdout=subprocess.PIPE, stderr=subprocess.STDOUT)
                reruns += 1
                after, listing = read(p), sorted(os.listdir(d))
                if r.returncode != 0 or after != new or listing != [name]:
                    ctx.fail("crash-residue", "a later run after the crash does not leave exactly the reformatted file",
                             input=where, got="rc=%d content=%s dir=%s" % (r.returncode, short(after), listing), want="dir=[%r]" % name)
    shutil.rmtree(root, ignore_errors=True)
    if crash_points == 0:
        ctx.broken.append("kill injection produced no crash point (strace inject not working?)")
    ctx.coverage["strace_stage"] = {"scenarios": len(scen), "kill_points": crash_points, "later_runs": reruns,
                                    "observed_ops": observed_once}


def run(ctx):
    ctx.trusted += ["translator tools/extract_c36 (go/ast, fails closed)", "POSIX rename(2) replaces the target atomically",
                    "strace 6.x syscall tracing and signal injection", "harness tools/langlint/zz_verif_c36_test.go + egodriver C36"]
    ctx.assumptions += ["a crash is the death of the process between (or inside) system calls; the kernel completes each call",
                        "error-handling branches of rewriteFile are not modelled (success path only)",
                        "the three names are distinct files in one directory on one file system"]
    ctx.lean_audit(required=["C36_atomic_of_check", "C36_clean_of_check", "C36_rerun_of_check", "C36_atomic", "C36_clean",
                             "C36_later_run_clean", "C36_old_counterexample"])
    if not ctx.quick:
        ctx.leanchecker()
    ctx.prepare_tree()

    # T1: translator on the current source
    tdir = os.path.join(ctx.tree, "tools", "zz_verif_extract_c36")
    os.makedirs(tdir, exist_ok=True)
    shutil.copy(os.path.join(os.path.dirname(os.path.dirname(os.path.abspath(__file__))), "tools", "extract_c36", "main.go"),
                os.path.join(tdir, "main.go"))
    rc, out = ctx.go(["run", "./tools/zz_verif_extract_c36", "tools/langlint/lint.go"], timeout=900)
    extracted = None
    if rc == 0:
        try:
            extracted = json.loads(out.strip().splitlines()[-1])
        except (ValueError, IndexError):
            pass
    if not extracted:
        ctx.log(out[-2000:])
        ctx.broken.append("translator extract_c36 does not understand rewriteFile (fails closed)")
        return ctx.finish()
    ops = extracted["ops"]
    with open(os.path.join(ctx.out, "c36_ops.json"), "w") as f:
        json.dump(extracted, f)
    ctx.log("extracted operations:", ",".join(_op_str(o) for o in ops))
    ctx.log("model checker on the extracted list:", ctx.driver(["check " + ",".join(_op_str(o) for o in ops)])[0])
    head = "import EgoVerif.C36.Props\nopen EgoVerif.C36\n\n/-- GENERATED by tools/extract_c36 from tools/langlint/lint.go -/\ndef extracted : List Op := %s\n\n" % extracted["lean"]
    ctx.lean_obligation("C36_extracted_safe", head + """
/-- at every crash point of the operations in the source the path holds the original or the new content -/
theorem extracted_atomic (orig new : Bytes) (fs : FS) (h : fs .target = some orig) (s : FS)
    (hs : Crash new fs extracted s) : s .target = some orig ∨ s .target = some new :=
  C36_atomic_of_check extracted (by decide) orig new fs h s hs

theorem extracted_clean (orig new : Bytes) (fs : FS) (h : fs .target = some orig) (hb : fs .bak = none) :
    ∃ s, run new fs extracted = some s ∧ s .target = some new ∧ s .tmp = none ∧ s .bak = none :=
  C36_clean_of_check extracted (by decide) orig new fs h hb

theorem extracted_rerun (orig new : Bytes) (hne : orig ≠ new) (fs : FS) (h : fs .target = some orig)
    (ht : fs .tmp = none) (hb : fs .bak = none) (s : FS) (hs : Crash new fs extracted s) :
    (∃ s2, run new s extracted = some s2 ∧ s2 .target = some new ∧ s2 .tmp = none ∧ s2 .bak = none) ∧
    (s .target = some new → s .tmp = none ∧ s .bak = none) :=
  C36_rerun_of_check extracted (by decide) orig new hne fs h ht hb s hs
""")
    ctx.lean_obligation("C36_extracted_model", head + """
/-- the operation list of the Lean model is the one in the source -/
theorem extracted_is_model : extracted = steps := by decide
""")

    # in-process harness: complete runs of the real rewriteFile, prefix replay of the extracted list
    ctx.log("obligations done; running the in-process harness")
    rc, out = ctx.go_test("./tools/langlint/", "TestVerifC36", timeout=1500)
    if rc != 0:
        ctx.log(out[-3000:])
        ctx.broken.append("harness TestVerifC36 failed to run (rc=%d)" % rc)
    cases = ctx.read_jsonl("c36_cases.jsonl")
    if not cases:
        ctx.broken.append("harness produced no correspondence cases")
    ctx.correspond(cases, label="os calls vs model exec")
    per_class = {}
    for f in ctx.read_jsonl("c36_failures.jsonl"):
        per_class[f["class"]] = per_class.get(f["class"], 0) + 1
        if per_class[f["class"]] <= 6:       # keep room in the replay file for the failures of the real binary below
            ctx.fail(f["class"], f["what"], input=f.get("input"), got=f.get("got"), want=f.get("want"))

    # the real binary: observed syscalls, SIGKILL before every syscall, later run
    ctx.log("harness and correspondence done (%d lines); strace stage on the built binary" % len(cases))
    _strace_stage(ctx, ops)
    ctx.log("strace stage done:", ctx.coverage.get("strace_stage"))

    st = (ctx.read_jsonl("c36_stats.json") or [{}])[0]
    c = st.get("counters", {})
    ctx.coverage.update({
        "evaluations": len(cases) + c.get("complete_runs", 0),
        "distinct_nontrivial": c.get("distinct_nontrivial", 0),
        "rule": "scenarios: original/new contents (empty, binary, message-like, up to 300 KB), stale temporary/backup files, 5 modes, "
                "6 file names; every prefix of the extracted operation list (+ a cut-short write) replayed with real os calls; "
                "random operation lists over the three names; non-trivial = distinct (scenario, non-empty prefix); "
                "kill_points = real SIGKILLs of the langlint binary before each traced syscall",
        "samples": st.get("samples", []),
        "counters": c,
        "extracted_ops": [_op_str(o) for o in ops],
        "notes": ctx.notes,
    })
    return ctx.finish()
