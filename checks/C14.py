"""C14 — table REST requests cannot inject SQL."""
import re

META = {
    "level": "proof",
    "text": "Lean theorems over a piece-by-piece model of the (repaired) SQL text generators — filterClause (recursive "
            "descent over the token list), sqlTerm, WhereClause, ColumnList, SortList, PagingClauses, FullName, the "
            "SELECT/DELETE/UPDATE/INSERT builders incl. abstract and transaction-task variants, the metadata query — "
            "and of SQLite's tokenizer (string literals, quoted identifiers, comments, ';'): for EVERY accepted request "
            "the generated text lexes to the skeleton of the pieces written; every client text is one literal or one "
            "quoted-identifier token, everything else is fixed vocabulary, a number or a plain-identifier sort name "
            "(C14_structure); hence one statement, no comment (C14_one_statement). Tied to the code by a differential "
            "run of the real generators and of the statements the real handlers execute (captured by a recording "
            "database/sql driver) against the model, by lexing every executed statement with the Lean lexer, and by "
            "model-free oracles on a SQLite database with a canary table (canary/schema unchanged, no canary data in "
            "responses, EXPLAIN: only the addressed table opened, rows affected = independent filter evaluation, "
            "hostile row values stored verbatim), and by a stream of filters that are malformed by construction (one structural "
            "defect -- operator with too many / too few / no operands, missing or extra parenthesis, dangling comma, missing or "
            "unknown operator, sign before a non-number, non-term token, trailing text -- in an operand at every position of the "
            "AND/OR/NOT/HAS lists around it, optionally a second missing parenthesis, optionally behind a quoted term with a "
            "backslash-quote): no builder or handler accepts one, and whatever is accepted is executed against the canary "
            "database and lexed like every other statement.",
    "note": "The model mirrors the code WITH fixes/C14.patch applied; the unrepaired tree is refuted by the oracles "
            "(sort/count( pass-through, quote-combining filters, signed-constant pass-through, unquoted table name in the "
            "metadata query) and by C14_unfixed_*_counterexample. Trusted: Lean kernel; the harness; SQLite (modernc) as "
            "reference for EXPLAIN and for filter semantics; the tokenizer contract TokOK (numeric tokens are spelled "
            "[0-9A-Za-z._+-]*, checked on every case). Modelled, not verified: the ego tokenizer (the model takes its "
            "token list), url.Values decoding, Atoi of paging values, map iteration order (at most one sort key), "
            "SQLite's full grammar (the lexer model covers literals/identifiers/comments/';' only); inputs that are not "
            "valid UTF-8 and dotted table names in the metadata query are covered by the oracles only. Not proved in "
            "Lean: C14_filter_meaning and C14_only_addressed_table (checked dynamically: independent evaluator, EXPLAIN).",
    "technique": "Lean 4 proof (induction over fuel/token lists, lexer state machine) + model/implementation correspondence "
                 "+ verified lexer as checker on executed statements",
    "design_ref": "DESIGN.md §6 C14",
}

KEYWORDS = {"SELECT", "DELETE", "FROM", "WHERE", "AND", "OR", "NOT", "IS", "NULL", "ORDER", "BY", "DESC", "LIMIT", "OFFSET",
            "UPDATE", "SET", "INSERT", "INTO", "VALUES", "POSITION", "IN", "count", "as", "true", "false", "_row_id_"}


def _unhex(h):
    return "" if h == "-" else bytes.fromhex(h).decode("utf-8", "replace")


def run(ctx):
    ctx.trusted += ["SQLite (modernc.org/sqlite) as reference for EXPLAIN and filter semantics",
                    "correspondence harness internal/server/tables/zz_verif_c14_test.go + egodriver C14"]
    ctx.assumptions += ["tokenizer contract TokOK on Integer/Float/Boolean tokens (checked on every case)",
                        "requests carry at most one sort key; text inputs are valid UTF-8 (others: oracles only)"]
    ctx.lean_audit(modules=["EgoVerif.C14.Lex", "EgoVerif.C14.Gen", "EgoVerif.C14.Stmt", "EgoVerif.C14.Props"],
                   required=["C14_structure", "C14_one_statement", "C14_client_text_confined", "C14_metadata_structure",
                             "C14_unfixed_sort_counterexample", "C14_unfixed_quote_counterexample",
                             "C14_unfixed_count_counterexample", "C14_unfixed_signed_counterexample"])
    if not ctx.quick:
        ctx.leanchecker()
    ctx.prepare_tree()
    rc, out = ctx.go_test("./internal/server/tables/", "TestVerifC14", timeout=2400)
    if rc != 0:
        ctx.log(out[-3000:])
        ctx.broken.append("harness TestVerifC14 failed to run (rc=%d)" % rc)
    cases = ctx.read_jsonl("c14_cases.jsonl")
    ctx.correspond(cases)
    for f in ctx.read_jsonl("c14_failures.jsonl"):
        ctx.fail(f["class"], f["what"], input=f.get("input"), got=f.get("got"), want=f.get("want"))

    # every executed statement, and every statement text the builders returned in the "gen" stream, through the Lean
    # model of SQLite's tokenizer (the lexer of the theorems)
    stmts = ctx.read_jsonl("c14_stmts.jsonl")
    lexed = 0
    if stmts:
        outs = ctx.driver(["lex " + (s["sql"].encode("utf-8").hex() or "-") for s in stmts])
        for s, sk in zip(stmts, outs):
            lexed += 1
            toks = sk.split(",") if sk else []
            if any(t in ("SEMI", "COMMENT", "UNTERM") for t in toks):
                ctx.fail("stmt-not-single", "an executed statement has a ';', a comment or an unterminated literal outside its literals",
                         input=s["req"], got=s["sql"], want="one statement")
                continue
            allowed = KEYWORDS | set(s.get("bare") or [])
            for t in toks:
                if not t.startswith("c:"):
                    continue
                for w in re.split(r"[^A-Za-z0-9_.]+", _unhex(t[2:])):
                    if w and not (w[0].isdigit() or w[0] == ".") and w not in allowed:
                        ctx.fail("live-client-text", "an executed statement has a word outside its literals that is neither a keyword "
                                 "of the generators nor a plain sort name of the request", input=s["req"], got=s["sql"], want=w)
                        break

    st = (ctx.read_jsonl("c14_stats.json") or [{}])[0]
    c = st.get("counters", {})
    ctx.coverage.update({
        "evaluations": len(cases) + c.get("requests", 0),
        "requests_through_handlers": c.get("requests", 0),
        "statements_lexed": lexed,
        "distinct_nontrivial": c.get("distinct_nontrivial", 0),
        "rule": "gen: hostile filters (grammar-directed expressions with hostile string leaves, mutations, raw token soup), column/"
                "sort/paging/table/row-key strings into the real generators, incl. names that already look delimited (begin and end "
                "with a double quote around live SQL) for every identifier position; the builders' statement texts are lexed like "
                "the executed ones; req: requests through ReadRows/DeleteRows/UpdateRows/InsertRows, "
                "abstract variants and transaction tasks (incl. drop, given names that are no table); half carry a filter with a known meaning (exact row sets checked), half "
                "are hostile and carry a guard filter that matches nothing; malformed: filters with a structural defect by construction "
                "(counters defect_*), into WhereClause / FormSelectorDeleteQuery (malformed_gen_inputs) and, next to the guard filter, "
                "through every handler that takes a filter (malformed_requests) -- none may be accepted; non-trivial = distinct request "
                "that is hostile or contains a quote, ';' or '-', or distinct malformed filter",
        "samples": st.get("samples", []),
        "counters": c,
    })
    return ctx.finish()
