"""C11 — Runtime packages match the Go functions they wrap."""
import json
import os
import shutil

from verifpy.lib import VERIF

META = {
    "level": "proof",
    "text": "PARTIAL (proved in Lean, for ALL inputs: the base64 StdEncoding round trip decode(encode bs) = bs by induction on "
            "3-byte chunks; soundness+completeness of the sorted-permutation and stability checkers that the harness feeds with "
            "every observed sort result; the native-call glue convertToNative/convertFromNative is the identity on each "
            "parameter/result type's domain (scalars of every mirrored type, arrays, value/error result lists) and injective there; "
            "an int literal a narrower parameter can hold arrives unchanged; FINITE: Roman numerals parse(format n) = n for 1..3999 by "
            "kernel evaluation. Only searched: that each mirrored Ego function equals the Go function of the same name — the Go "
            "library is the specification and is compared differentially on generated hostile arguments). "
            "Tie: tools/extract_c11 (go/ast) regenerates the function table of strings, strconv, math, cmplx, sort, filepath, base64, "
            "json, time, fmt from the current source; a generated Lean obligation proves every native pass-through function only "
            "uses parameter/result types for which the glue is proved faithful; the harness calls every covered function through a "
            "one-line Ego program in-process and the Go function directly on the same arguments (value, float bit pattern, dynamic "
            "type, success/failure); base64, Roman, sort-checker and glue models are diffed line by line against the real code.",
    "note": "trusted: Lean kernel; Go stdlib (strings, strconv, math, math/cmplx, sort, path/filepath, encoding/base64) as the "
            "specification; github.com/brandenc40/romannumeral is modelled (greedy parser) and diffed; the translator and the two "
            "harnesses. Modelled, not verified: float/complex values are opaque bit patterns in the glue model; data.String/Int/… "
            "coercions are modelled on nil/bool/integer/string sources only (float sources answer `unmodelled` and are not emitted); "
            "sandbox prefixing is the identity (no sandbox). Not covered by any reference: fmt.*, json.*, time.*, math.Max/Min/Sum/"
            "Normalize/Random, strings.Format/Template/Tokenize/Truncate/URLPattern/… (listed in coverage.uncovered). "
            "With fixes/C11.patch: sort.Int32s/Sort of MinInt32, Float64sAreSorted/IsSorted with NaN, MinInt32 (int literal, or JSON number) to an int32 parameter/variable, strings.Substring with a count near MaxInt. Known findings outside the Lean models (only searched): fmt.Sprint float precision, json.Unmarshal of integers beyond 2^53.",
    "technique": "Lean 4 proof (induction; finite kernel evaluation for Roman numerals) + go/ast translator + "
                 "model/implementation correspondence + differential oracle against the Go standard library",
    "design_ref": "DESIGN.md §6 C11",
}

REQUIRED = ["C11_base64", "C11_roman", "C11_itor_range", "C11_sortcheck_sound", "C11_stablecheck_sound",
            "C11_conv_roundtrip", "C11_conv_roundtrip_array", "C11_conv_results", "C11_conv_faithful",
            "C11_conv_int_literal", "C11_conv_wrap_counterexample"]

# packages whose native pass-through functions must ALL have a Go reference in the harness
MUST_COVER = ("strings", "strconv", "math", "cmplx", "filepath", "base64", "sort")
# … except these, with the reason
EXEMPT = {
    "strings.NewReader": "returns a *strings.Reader (stateful object, not a value)",
    "strings.Format": "Ego formatter, no Go counterpart of that name",
    "strings.Generate": "Ego-only (AI text generation)", "strings.String": "Ego-only conversion",
    "strings.Substitution": "Ego-only", "strings.Template": "Ego-only", "strings.Tokenize": "Ego-only (Ego tokenizer)",
    "strings.Truncate": "Ego-only, documented in bytes/characters ambiguously", "strings.URLPattern": "Ego-only",
    "math.Max": "Ego variadic over mixed types", "math.Min": "Ego variadic over mixed types", "math.Sum": "Ego variadic",
    "math.Normalize": "Ego-only", "math.Random": "random", "sort.Search": "takes an Ego function",
}


def run(ctx):
    ctx.trusted += ["Go standard library functions are the specification (differential reference)",
                    "translator tools/extract_c11 (go/ast, stdlib only; fails closed on unknown syntax)",
                    "harnesses internal/language/compiler/zz_verif_c11*_test.go (in-process Ego calls) and "
                    "internal/language/bytecode/zz_verif_c11_test.go (convertToNative/convertFromNative) + egodriver C11"]
    ctx.assumptions += ["no sandbox (sandboxName is the identity); ego.runtime.precision.error both on and off in the glue harness, on in the call harness",
                        "Roman-numeral model lines use ASCII input (strings.ToUpper/TrimSpace are modelled on ASCII)",
                        "a Go panic (e.g. strings.Repeat with a negative count) is outside the Go function's domain: the Ego call must then fail too or is not compared"]
    ctx.lean_audit(required=REQUIRED)
    if not ctx.quick:
        ctx.leanchecker()
    ctx.prepare_tree()

    # T1: regenerate the function table from the current source
    xdir = os.path.join(ctx.tree, "tools", "verif_extract_c11")
    os.makedirs(xdir, exist_ok=True)
    shutil.copy(os.path.join(VERIF, "tools", "extract_c11", "main.go"), os.path.join(xdir, "main.go"))
    rc, out = ctx.go(["run", "./tools/verif_extract_c11", "-repo", ".", "-out", ctx.out], timeout=1800)
    ok_x = rc == 0
    ctx.obligations.append(("translator:extract_c11", ok_x, out.strip()[-200:]))
    table = {"functions": [], "others": []}
    if not ok_x:
        ctx.log(out[-2000:])
        ctx.broken.append("translator extract_c11 failed (rc=%d): %s" % (rc, out.strip()[-300:]))
    else:
        with open(os.path.join(ctx.out, "c11_table.json")) as f:
            table = json.load(f)
        with open(os.path.join(ctx.out, "C11Gen.lean")) as f:
            ctx.lean_obligation("C11Gen", f.read())
    fns = table["functions"]
    if ok_x and len(fns) < 100:
        ctx.broken.append("translator found only %d functions" % len(fns))

    # T2: glue correspondence (bytecode package) and the end-to-end differential run (compiler package)
    rc, out = ctx.go_test("./internal/language/bytecode/", "TestVerifC11Glue", timeout=3000)
    if rc != 0:
        ctx.log(out[-3000:])
        ctx.broken.append("harness TestVerifC11Glue failed to run (rc=%d)" % rc)
    rc, out = ctx.go_test("./internal/language/compiler/", "TestVerifC11", timeout=6000)
    if rc != 0:
        ctx.log(out[-3000:])
        ctx.broken.append("harness TestVerifC11 failed to run (rc=%d)" % rc)

    gcases = ctx.read_jsonl("c11g_cases.jsonl")
    ctx.correspond(gcases, label="glue correspondence")
    cases = ctx.read_jsonl("c11_cases.jsonl")
    ctx.correspond(cases, label="base64/roman/sort-checker correspondence")
    if rc == 0 and not os.environ.get("VERIF_CASES") and (len(gcases) < 1000 or len(cases) < 300):
        ctx.broken.append("too few correspondence lines (%d glue, %d model)" % (len(gcases), len(cases)))
    for name in ("c11g_failures.jsonl", "c11_failures.jsonl"):
        for f in ctx.read_jsonl(name):
            ctx.fail(f["class"], f["what"], input=f.get("input"), got=f.get("got"), want=f.get("want"))

    # coverage obligation: every native function of the primary packages is compared with its Go function
    cov = (ctx.read_jsonl("c11_coverage.json") or [{}])[0]
    covered = set(cov.get("covered", []))
    st = (ctx.read_jsonl("c11_stats.json") or [{}])[0]
    c = st.get("counters", {})
    exercised = {k[3:] for k, v in c.items() if k.startswith("fn:") and v > 0}
    missing = []
    for f in fns:
        full = f["pkg"] + "." + f["name"]
        if f["pkg"] in MUST_COVER and full not in exercised and full not in EXEMPT:
            missing.append(full)
    ctx.obligations.append(("coverage: every function of %s has a Go reference in the harness" % ",".join(MUST_COVER),
                            not missing, "missing: " + ",".join(missing)))
    if missing and rc == 0:
        ctx.broken.append("functions without a Go reference in the harness: " + ",".join(missing))

    # stability is only observable beyond the Go library's insertion-sort range (n > 12) when the comparison reports ties:
    # every entry point documented as stable must have been driven with such arrays
    for full in ("sort.SliceStable", "sort.Stable"):
        if any(f["pkg"] + "." + f["name"] == full for f in fns):
            n_tied = c.get("long_tied:" + full, 0)
            ctx.obligations.append(("stability of %s checked on arrays of more than 12 elements with ties" % full,
                                    n_tied >= 20, "%d such arrays" % n_tied))
            if n_tied < 20 and rc == 0 and not os.environ.get("VERIF_CASES"):
                ctx.broken.append("%s was sorted on only %d long arrays with ties" % (full, n_tied))

    gst = (ctx.read_jsonl("c11g_stats.json") or [{}])[0]
    gc = gst.get("counters", {})
    ctx.coverage.update({
        "evaluations": c.get("evaluations", 0) + len(gcases),
        "distinct_nontrivial": c.get("distinct_nontrivial", 0) + gc.get("distinct_nontrivial", 0),
        "rule": "a call (function + argument list) is distinct by its canonical text and non-trivial when some Go result is not the "
                "zero/empty/-1/nil answer or either side fails; glue lines are non-trivial when the value is outside the parameter "
                "type's domain (a coercion happens), an array, or a result list. Arguments: atoms of a hostile alphabet (invalid UTF-8, "
                "NUL, Unicode spaces/case-specials, numeric edge texts, path shapes) combined and mutated; second strings derived from "
                "the first; boundary ints/runes; NaN payloads, ±0, ±Inf, subnormals, random bit patterns; empty to 500-element arrays; sort.SliceStable/Slice and sort.Stable/Sort on 13..200-element arrays whose "
                "comparison reports many ties (key = v/1000, v%7, v%2, descending, constant, b%4, len(s); -0/+0 floats) count as non-trivial",
        "functions_in_table": len(fns),
        "functions_native": sum(1 for f in fns if f["native"]),
        "functions_compared": len(exercised),
        "uncovered": cov.get("uncovered", []),
        "exempt": EXEMPT,
        "model_lines": len(cases), "glue_lines": len(gcases),
        "samples": (st.get("samples", []) + gst.get("samples", []))[:8],
        "counters": {k: v for k, v in c.items() if not k.startswith("fn:")},
        "glue_counters": gc,
    })
    return ctx.finish()
