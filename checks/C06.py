"""C06 — literal values agree with Go."""

REQUIRED = ["C06_int", "C06_rune", "C06_string", "C06_raw", "C06_float", "C06_float_pipeline", "C06_imag_pipeline",
            "C06_imag_radix_counterexample", "C06_minint_counterexample"]

META = {
    "level": "proof",
    "text": "Lean theorems over the Go specification's literal grammar (Spec.lean) and an executable model of Ego's literal "
            "pipeline (text/scanner extent, classifyTokenBySpelling, the i-suffix merge, unQuote, convertRadixToDecimal, "
            "pushIntConstant, compileRuneExpression; strconv.ParseInt/underscoreOK/UnquoteChar/Unquote/FormatInt modelled, "
            "strconv.ParseFloat a parameter): for EVERY Go integer literal that fits int (4 bases, '_' separators also "
            "directly after the prefix, legacy octal) Ego yields the same integer (C06_int); for EVERY rune literal incl. all "
            "escape forms its code point (C06_rune); for EVERY interpreted string the bytes the spec assigns (C06_string); "
            "raw strings verbatim minus CR (C06_raw); for EVERY float literal (decimal and hex grammar) the scanner takes it as "
            "one token, ParseInt rejects it and ParseFloat receives exactly the source spelling (C06_float); an Integer/Float "
            "token followed by i becomes complex(0, ParseFloat(spelling)) (C06_imag_pipeline). The model is tied to the code by a differential run of the real "
            "tokenizer+compiler+bytecode (RunString, variable read back) against the model on grammar-generated and hostile "
            "spellings, and every modelled strconv piece is diffed against the real strconv; a model-free oracle compares "
            "Ego's value with go/scanner + go/constant + strconv.",
    "note": "The model mirrors the code WITH fixes/C06.patch (convertRadixToDecimal via ParseInt(text,0,64); rune literals via "
            "strconv.UnquoteChar; CR dropped from raw strings); on a tree without it the check reports a VIOLATION "
            "(witnesses 0x_FF, 1_000, 0x80000000, '\\n', `a\\rb`). Not proved, stated as a def: C06_imag_grammar_statement "
            "(the scanner/classification hypotheses of C06_imag_pipeline hold for the whole imaginary grammar) — checked by "
            "correspondence only. Known findings kept: imag-radix-int (0x1Fi), min-int64, "
            "raw-multiline-embedded. Trusted: Lean kernel; go/scanner, go/constant, strconv as the Go reference; the model of "
            "text/scanner's token extent (simplified scanEscape, justified in Model.lean, diffed on hostile inputs); the "
            "Lean ParseFloat reference used only by the driver (diffed against strconv.ParseFloat every run). Source text is "
            "modelled as code points (valid UTF-8). int vs int64 result types are not distinguished (value only).",
    "technique": "Lean 4 proof (induction over the literal grammar) + model/implementation correspondence",
    "design_ref": "DESIGN.md §6 C06",
}


def run(ctx):
    ctx.trusted += ["go/scanner, go/constant and strconv (Go stdlib) decide which spellings Go accepts and their values",
                    "translator: none; correspondence harness internal/language/compiler/zz_verif_c06*_test.go + egodriver C06"]
    ctx.assumptions += ["source text is valid UTF-8 (the model works on code points)",
                        "strconv.ParseFloat enters the theorems as a parameter; the Go compiler's float constant → float64 "
                        "conversion equals strconv.ParseFloat of the spelling (checked against go/constant on every case)"]
    ctx.lean_audit(required=REQUIRED)
    if not ctx.quick:
        ctx.leanchecker()
    ctx.prepare_tree()
    rc, out = ctx.go_test("./internal/language/compiler/", "TestVerifC06", timeout=3000)
    if rc != 0:
        ctx.log(out[-3000:])
        ctx.broken.append("harness TestVerifC06 failed to run (rc=%d)" % rc)
    cases = ctx.read_jsonl("c06_cases.jsonl")
    ctx.correspond(cases)
    for f in ctx.read_jsonl("c06_failures.jsonl"):
        ctx.fail(f["class"], f["what"], input=f.get("input"), got=f.get("got"), want=f.get("want"))
    st = (ctx.read_jsonl("c06_stats.json") or [{}])[0]
    c = st.get("counters", {})
    ctx.coverage.update({
        "evaluations": len(cases),
        "distinct_nontrivial": c.get("distinct_nontrivial", 0),
        "rule": "literal spellings generated from the Go spec grammar (int: 4 bases, '_' separators incl. after the prefix, edge magnitudes; "
                "float: decimal/hex, exponents; imaginary; strings/runes with every escape form; raw strings with newlines/CR), each accepted "
                "by go/scanner and run through RunString in three embeddings; non-trivial = has a prefix/underscore/exponent/escape/"
                "non-ASCII/newline; hostile = almost-literals (model vs implementation, strconv models vs strconv)",
        "samples": st.get("samples", []),
        "counters": c,
    })
    return ctx.finish()
