"""C13 — `ego test` isolates each test."""

META = {
    "level": "proof",
    "text": "Lean theorems over an executable model of the per-test guard (token split at @test, compileTestBody's "
            "Try / marker / BeginCapture / CallTest|Signal / EndCapture / DropToMarker / PASS / Branch / FAIL / TryPop "
            "skeleton, handleCatch's search and unwind, callFramePop's try-stack truncation, PushTest/PopTest, @fail's "
            "TryFlush): for EVERY list of test blocks (any order of pass / failed assertion / run-time error / compile "
            "error / @fail, any brace damage, bodies leaving any number of values and any live or spent try entries "
            "behind) the PASS/FAIL lines printed are exactly the verdicts of the blocks before the first @fail, once "
            "each, in order (C13_isolated); the run stops iff an @fail ran (C13_only_atFail_stops); and every block that "
            "does not run @fail gives back the value stack, try stack, output stack and active-test count exactly as it "
            "found them, from ANY starting state (C13_block_restores, C13_run_invariant — the induction that makes "
            "isolation hold for any sequence). Blocks come in eight source shapes: a braced body, a missing / an extra "
            "brace, bare statements without braces (the older style), and braced / bare bodies with an `@compile eof=` "
            "directive whose marker is missing or whose (unbalanced) span ends at its marker; the split is modelled as "
            "collectTestBodyTokens' state machine (inside a span nothing is a boundary; a directive without its marker is "
            "copied as plain tokens: C13_eof_missing_marker_plain, C13_eof_no_span_stops_at_test). A separate model of the "
            "file scope's usage map that every test's clone shares proves that a body which fails to compile cannot make "
            "the FILE fail to compile, whatever it declared or read before it stopped "
            "(C13_failed_body_keeps_file_compiling). Tied to the code by running generated test files (every body template "
            "alone and between passing tests, with and without its braces, all 120 orders of the five outcomes, random "
            "files of 1-12 blocks) through "
            "the real commands.TestAction in-process and comparing the printed PASS/FAIL lines and the stop/no-stop "
            "outcome with the model, plus a model-free oracle from the generator's own knowledge of each block. Bodies "
            "include `@compile` directives carrying each compiler-setting override (unknown=, unused=, optimize=) that "
            "compile, whose block error is caught or raised, and that fail at directive level after the flags are read "
            "(catch clause that does not compile, catch variable not a name / never used, missing ')', missing eof "
            "marker - in any position of the file), each followed by bodies whose verdict depends on the default settings "
            "(a name only known at run time, an unused variable); bodies that declare names before the statement that "
            "does not compile (read before it, after it, never); `@error` without a message and calls of builtins, "
            "package functions and user functions with a wrong argument count; `defer` written directly in a body; `@capture` blocks that end normally, that raise, and that are left through "
            "`return` (directly, from a loop, nested, inside a function the body calls - then passing, failing an "
            "assertion, raising); "
            "a second model-free oracle requires every file to leave the three "
            "process-global compiler settings as a file without @compile leaves them.",
    "note": "The model mirrors the code WITH fixes/C13.patch, fixes/C13-2.patch, fixes/C13-3.patch and fixes/C13-4.patch (six defects of "
            "the unpatched tree are witnessed by C13_capture_return_old_counterexample, C13_fail_line_old_counterexample, C13_split_old_counterexample, "
            "C13_stale_try_old_counterexample, C13_scope_leak_old_counterexample, C13_eof_marker_old_counterexample and "
            "are reported as VIOLATION with concrete files against an unpatched tree: class "
            "bare-test-compile-error-fails-whole-file - a body without braces that declares a name and then does not "
            "compile left the name unread in the file scope, so the unused-variable check at the end of the file failed "
            "the whole file and no test ran (C13-2); class missing-eof-marker-swallows-later-tests - an `@compile eof=` "
            "whose marker is missing took every later @test into its body (C13-3); class return-in-capture-loses-test-line - "
            "a test body, or a function it calls, that executes `return` inside an `@capture v = { ... }` block "
            "(docs/internals/TESTING.md '@capture') never reaches the block's EndCapture and callFramePop did not cut "
            "the output-capture stack back, so the skeleton's EndCapture closed the abandoned capture instead of its own "
            "and the test's own (PASS) line - and, when the test then fails an assertion or raises an error, its (FAIL) "
            "line - was printed into a buffer nobody reads; later tests and the total were right (C13-4: the frame "
            "records the output-stack depth and callFramePop restores it, on return and on unwind)). The file-scope model is tied to the "
            "code by the direct oracle only (the usage map is not observable through `ego test`). Trusted: Lean kernel; the harness; "
            "the parse of 'TEST: … (PASS|FAIL)' lines. Modelled, not verified: a body is run big-step (what it leaves "
            "behind + how it ends), addresses are block-relative, all try entries are catch-all, the text of a line is "
            "(name, verdict). Out of scope: panic() and os.Exit() in a body (they end the run by design, like Go), "
            "lexical damage that hides an @test from the tokenizer (unterminated raw string / comment), an `@compile "
            "eof=` whose marker text appears later in the file (the span then legitimately runs up to it), a body that "
            "shadows `len`/`T`/`__activeTests` at file level, goroutines. Looked at and outside C13: (1) a body without "
            "braces that compiles but declares a name no test ever reads (`@test \"t\"` / `y := 5`) fails the whole file "
            "with 'variable created but never used': the name is a file-level declaration shared by all tests (TESTING.md "
            "'Global scope'), whether it is read is only known when the file ends, so this is the file's compile error - "
            "like an unread top-level variable before the first @test - and not a test that fails to compile; the "
            "generator therefore never writes such a body without braces (c13NoBare); (2) a `defer` written directly in "
            "a test body never runs (reproduced: the deferred increment is not visible to later tests, even a deferred "
            "`@assert false` is not executed) but no test's PASS/FAIL line, the later tests or the summary change "
            "(bodies p-/a-/r-defer-in-body are generated and judged like any other), so it only concerns the deferred "
            "statement itself.",
    "technique": "Lean 4 proof (invariant + induction over the block list, symbolic execution of the skeleton) + "
                 "model/implementation correspondence through the real `ego test` entry",
    "design_ref": "DESIGN.md §6 C13",
}

REQUIRED = ["C13_isolated", "C13_all_reported", "C13_only_atFail_stops", "C13_block_restores", "C13_run_invariant",
            "C13_split_every_test", "C13_fail_line_old_counterexample", "C13_split_old_counterexample",
            "C13_stale_try_old_counterexample", "C13_eof_missing_marker_plain", "C13_eof_no_span_stops_at_test",
            "C13_eof_marker_old_counterexample", "C13_failed_body_keeps_file_compiling", "C13_scope_leak_old_counterexample",
            "C13_capture_return_old_counterexample"]


def run(ctx):
    ctx.trusted += ["correspondence harness internal/commands/zz_verif_c13_test.go + egodriver C13",
                    "commands.TestAction is the action of the `ego test` verb (internal/grammar)"]
    ctx.assumptions += ["a test body either returns, raises a catchable error that leaves its call frame, or runs @fail "
                        "(panic/os.Exit/non-termination excluded)",
                        "try entries left behind by a body are catch-all entries (selective sets are popped by the "
                        "expression that pushed them)"]
    ctx.lean_audit(required=REQUIRED)
    if not ctx.quick:
        ctx.leanchecker()
    ctx.prepare_tree()
    rc, out = ctx.go_test("./internal/commands/", "TestVerifC13", timeout=3000, extra=["-trimpath"])
    cases = ctx.read_jsonl("c13_cases.jsonl")
    failures = ctx.read_jsonl("c13_failures.jsonl")
    if rc != 0:
        ctx.log(out[-3000:])
        ctx.broken.append("harness TestVerifC13 failed to run (rc=%d)" % rc)
    if not cases:
        ctx.broken.append("harness produced no cases")
    ctx.correspond(cases)
    # failures whose printed lines differ from the wanted ones first (the replay file keeps the first 20)
    failures.sort(key=lambda f: f.get("got") == f.get("want"))
    for f in failures:
        ctx.fail(f["class"], f["what"], input=f.get("input"), got=f.get("got"), want=f.get("want"))
    st = (ctx.read_jsonl("c13_stats.json") or [{}])[0]
    c = st.get("counters", {})
    ctx.coverage.update({
        "evaluations": len(cases),
        "blocks_run": c.get("blocks", 0),
        "distinct_nontrivial": c.get("distinct_nontrivial", 0),
        "rule": "one evaluation = one generated test file through commands.TestAction; non-trivial = at least two "
                "blocks of which at least one does not pass (or has brace damage); distinct by the sequence of body "
                "templates and whether each is written with or without its braces. Corpus first: each of the %d body "
                "templates alone and between two passing tests, each body that means the same without braces between a "
                "passing and a failing brace-less test (non-compiling ones also alone), the 120 "
                "orders of {pass, assert, run-time error, compile error, @fail}, every @compile-override body followed by "
                "each default-setting-dependent body, the stale-try bodies (the @capture bodies are ordinary templates of "
                "corpus 1 and of the random stream); then random "
                "files of 1-12 blocks (30%% pass, 20%% assert, 22%% run-time, 23%% compile error incl. missing/extra "
                "brace or eof marker, 5%% @fail; in a third of the files half of the bodies lose their braces), random "
                "descriptions (long, Unicode, containing '(PASS)')"
                % len([k for k in c if k.startswith("tmpl_")]),
        "samples": st.get("samples", []),
        "counters": c,
    })
    return ctx.finish()
