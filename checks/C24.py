"""C24 — failed logins lock the account as configured."""

META = {
    "level": "proof",
    "text": "Lean theorems over an exact model of CheckRateLimit / RecordFailure / RecordSuccess / pruneLoginAttempts "
            "and of the Basic-credentials call site in Session.Authenticate, for EVERY configuration (limit, lockout) and "
            "EVERY history of attempts (any user, right/wrong/empty password), time steps and pruner runs: once a consulted "
            "failure brings the count to the limit at t0 the user is refused, password not consulted, state untouched, at every "
            "instant before t0+lockout whatever happens in between (C24_lock_window, from any state; C24_locked_partial with the "
            "trigger read off the observed trace); a refusal implies the observed consecutive failures reached the limit within "
            "the last lockout period (C24_no_spurious); a success deletes the record and a new refusal needs `limit` new failures "
            "(C24_success_clears); the answers one user gets are unchanged when all other users' attempts are erased "
            "(C24_independent); limit 0 never refuses from any state, so also right after the setting is changed to 0 while lockout "
            "records exist (C24_limit_zero_never_locks, C24_limit_zero_after_reconfig); the pruner never unlocks "
            "(C24_prune_never_unlocks). The model is tied to the code by running the real Session.Authenticate (counting user "
            "store => 'password not consulted' is observed) and the real limiter functions inside testing/synctest bubbles "
            "(virtual clock) on generated histories, comparing every answer and the content of loginAttempts with the model, "
            "plus a model-free oracle that follows only observed outcomes.",
    "note": "The model mirrors the code WITH fixes/C24.patch (RecordFailure's guard `!time.Now().Before(lockedUntil)`): on the "
            "unpatched tree a failure exactly at the unlock instant does not start a new lockout (C24_old_guard_counterexample; "
            "the check reports VIOLATION class not-locked-in-window there). Known finding prune-forgets-failures: the pruner "
            "deletes records whose last failure is older than 2x lockout, so the literal 'consecutive failures' statement is false "
            "(C24_locked_counterexample); C24_locked_partial excludes exactly those histories. Trusted: Lean kernel; the harness and "
            "its canonicalisation; testing/synctest's virtual clock. Modelled, not verified: each operation is atomic at one instant "
            "(concurrent attempts racing between CheckRateLimit and RecordFailure are outside the quantifier), strings.ToLower as "
            "the user identity, settings -> effective (limit, lockout) parsing (checked by the oracle's table of expected values "
            "only), bcrypt, the OAuth authorize.go call site (same three calls in the same order, not driven), the real pruner "
            "goroutine's schedule (prune is an explicit operation of the history).",
    "technique": "Lean 4 proof (invariant over all histories, simulation for independence) + model/implementation correspondence under a virtual clock",
    "design_ref": "DESIGN.md §6 C24",
}

REQUIRED = ["C24_lock_window", "C24_locked_partial", "C24_locked_counterexample", "C24_no_spurious",
            "C24_success_clears", "C24_independent", "C24_independent_step", "C24_limit_zero_never_locks",
            "C24_limit_zero_history", "C24_limit_zero_after_reconfig", "C24_prune_never_unlocks", "C24_prune_forgets_only_stale",
            "C24_old_guard_counterexample"]


def run(ctx):
    ctx.trusted += ["testing/synctest virtual clock (Go 1.26); golang.org/x/crypto/bcrypt at MinCost for the stored passwords",
                    "translator: none; correspondence harness internal/router/zz_verif_c24_test.go + egodriver C24"]
    ctx.assumptions += ["every time.Now() of one operation reads the same instant (true inside a synctest bubble)",
                        "histories are sequential; time never decreases",
                        "getLockoutDuration() > 0 (the code falls back to 15m otherwise)"]
    ctx.lean_audit(required=REQUIRED)
    if not ctx.quick:
        ctx.leanchecker()
    ctx.log("lean audited")
    ctx.prepare_tree()
    ctx.log("tree prepared")
    # -trimpath: the scratch directory name changes per run; without it nothing is reused from the build cache
    rc, out = ctx.go_test("./internal/router/", "TestVerifC24", timeout=1200, extra=["-trimpath"])
    ctx.log("harness done")
    if rc != 0:
        ctx.log(out[-3000:])
        ctx.broken.append("harness TestVerifC24 failed to run (rc=%d)" % rc)
    cases = ctx.read_jsonl("c24_cases.jsonl")
    ctx.correspond(cases)
    for f in ctx.read_jsonl("c24_failures.jsonl"):
        ctx.fail(f["class"], f["what"], input=f.get("input"), got=f.get("got"), want=f.get("want"))
    st = (ctx.read_jsonl("c24_stats.json") or [{}])[0]
    c = st.get("counters", {})
    if rc == 0 and (c.get("att.locked", 0) == 0 or c.get("att.at-unlock-instant", 0) == 0 or c.get("histories.indep", 0) == 0
                    or c.get("att.limit-zero-in-window", 0) == 0):
        ctx.broken.append("harness coverage collapsed: no refused attempt / no attempt at an unlock instant / no independence run / "
                          "no attempt with the limit set to 0 while a lockout is running")
    if c.get("truncated"):
        ctx.notes.append("harness stopped at its real-time deadline (the real pruner goroutine fires after 5 real minutes)")
    ctx.coverage.update({
        "evaluations": len(cases),
        "distinct_nontrivial": c.get("distinct_nontrivial", 0),
        "rule": "histories over 11 presented names (case variants, KELVIN SIGN, empty name, unknown user, user without logon "
                "permission) x right/wrong/empty password, limits {0..6, unset, -2}, 12 lockout settings (1ns..1h, unset, invalid); "
                "time steps aimed at lockout-1/lockout/lockout+1, the exact unlock instant of the focus user and the pruner's "
                "2x-lockout boundary; prune as an operation; non-trivial = distinct history in which a lockout actually began and "
                "the clock moved; in 40% of the histories the settings CHANGE on the way (operation cfg: limit and/or lockout period, "
                "aimed at limit 0 while the focus user's lockout is running, and back; the oracle counts a failure against the limit in "
                "force at that attempt, lets a lockout last for the period in force when it began, and demands that nothing is refused "
                "while the limit is 0); 'raw' histories call the limiter functions in arbitrary order (correspondence only); every 4th "
                "history is re-run with all other users erased (independence)",
        "samples": st.get("samples", []),
        "counters": c,
    })
    return ctx.finish()
