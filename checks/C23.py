"""C23 — OAuth authorization codes and refresh tokens are single-use; PKCE verifier must match."""
import os
import subprocess

META = {
    "level": "proof",
    "text": "Lean theorems over a model of N token requests, each two atomic cache steps (caches.Find, then caches.Delete "
            "whose boolean decides who redeems), under EVERY interleaving: for every schedule (and every history that also "
            "re-issues keys or removes them behind the requests' back, from any starting state) a code / refresh token is "
            "redeemed at most once per issue (C23_single_use, C23_single_use_general), exactly once when one request "
            "runs to the end (C23_exactly_one); the protocol that ignores Delete's result — the code before fixes/C23.patch — "
            "is refuted (C23_two_step_counterexample, N-fold in C23_two_step_unbounded) and is single-use only without "
            "interleaving (C23_two_step_partial). verifyPKCE and the grant decision of the token endpoint: tokens for a "
            "code issued with a challenge only with method S256 and S256(verifier) = challenge, i.e. only the matching "
            "verifier when S256 is injective (C23_pkce, C23_pkce_matching, C23_grant_needs_verifier, "
            "C23_public_requires_pkce); a code is burnt by the first request that reaches it (C23_sequential_replay). "
            "Tied to the code by (a) replaying generated schedules step by step on the real consumeCode / "
            "consumeRefreshToken / TokenHandler through a one-line yield point between Find and Delete and comparing every "
            "request's outcome with the model, (b) free-running N-goroutine bursts with GOMAXPROCS varied, "
            "(c) verifyPKCE and sequential TokenHandler request sequences against the model, each with a model-free oracle.",
    "note": "Atomicity of caches.Find / caches.Delete / caches.Add (each holds cacheLock throughout) is read off the source and "
            "modelled, not verified; expiry is modelled as an arbitrary foreign removal. SHA-256/base64url is a parameter of "
            "the model (injectivity is a hypothesis of C23_pkce_matching); on the wire the harness supplies S256(verifier) "
            "computed with Go's crypto/sha256. The yield point verifPoint(\"consume.afterFind\") is proposed in "
            "fixes/C23-hook.patch; when the tree under test lacks it the check applies that patch to its SCRATCH copy only "
            "(a no-op call between the two statements), and if the patch does not apply it falls back to the free-running "
            "bursts alone (less reproducible: the race window is two adjacent lock acquisitions). "
            "The model mirrors the code after fixes/C23.patch (Delete's boolean decides); on a tree without that fix the "
            "check reports the double redemption as a VIOLATION with the schedule as failing input.",
    "technique": "Lean 4 proof (invariant over all schedules of a two-step protocol) + schedule-replay correspondence with a yield hook",
    "design_ref": "DESIGN.md §6 C23",
}

PKG = "internal/server/oauth/authserver"


def ensure_hook(ctx):
    """True if the scratch tree has the verifPoint hook (already there, or patched in now)."""
    d = os.path.join(ctx.tree, PKG)
    on = os.path.join(d, "verif_on.go")
    with open(os.path.join(d, "codes.go")) as f:
        src = f.read()
    if os.path.exists(on) and "verifPoint(" in src and "verifHook" in open(on).read():
        ctx.notes.append("yield hook present in the tree under test")
        return True
    if os.environ.get("VERIF_C23_NOHOOK"):      # for exercising the fallback path
        ctx.log("VERIF_C23_NOHOOK set: not patching the yield hook in; free-running bursts only")
        return False
    patch = os.path.join(os.path.dirname(os.path.dirname(os.path.abspath(__file__))), "fixes", "C23-hook.patch")
    p = subprocess.run(["git", "apply", "--whitespace=nowarn", patch], cwd=ctx.tree,
                       stdout=subprocess.PIPE, stderr=subprocess.STDOUT, text=True)
    if p.returncode == 0:
        ctx.log("yield hook absent: applied fixes/C23-hook.patch to the scratch copy")
        return True
    ctx.log("yield hook absent and fixes/C23-hook.patch does not apply (%s): free-running bursts only"
            % p.stdout.strip()[-200:])
    return False


def run(ctx):
    ctx.trusted += ["Go crypto/sha256 + encoding/base64 as the reference S256",
                    "correspondence harness internal/server/oauth/authserver/zz_verif_c23*_test.go + egodriver C23",
                    "the yield hook (verifPoint between caches.Find and caches.Delete) does not change behaviour"]
    ctx.assumptions += ["caches.Find, caches.Delete, caches.Add are atomic (each runs under cacheLock)",
                        "S256 = BASE64URL(SHA256(.)) enters the model as a function parameter; injectivity is a hypothesis",
                        "authorization codes / refresh tokens are looked up only through consumeCode / consumeRefreshToken"]
    ctx.lean_audit(required=["C23_single_use", "C23_single_use_general", "C23_single_use_N", "C23_exactly_one",
                             "C23_handler_single_use", "C23_unknown_code_fails",
                             "C23_two_step_counterexample", "C23_two_step_unbounded", "C23_two_step_partial",
                             "C23_pkce", "C23_pkce_matching", "C23_pkce_plain_rejected", "C23_grant_needs_verifier",
                             "C23_public_requires_pkce", "C23_grant_needs_code",
                             "C23_sequential_replay", "C23_sequential_refresh_replay"])
    if not ctx.quick:
        ctx.leanchecker()
    ctx.prepare_tree()
    hooked = ensure_hook(ctx)
    rc, out = ctx.go_test("./" + PKG + "/", "TestVerifC23", timeout=1500,
                          tags="verif,verifhook" if hooked else "verif", extra=["-trimpath"])
    if rc != 0:
        ctx.log(out[-3000:])
        ctx.broken.append("harness TestVerifC23 failed to run (rc=%d)" % rc)
    cases = ctx.read_jsonl("c23_cases.jsonl")
    bad = ctx.correspond(cases)
    if bad:
        # diagnosis: do the schedules on which implementation and model differ follow the unpatched two-step protocol?
        outs = ctx.driver([c["in"] for c in cases])
        diff = [c for c, m in zip(cases, outs) if c["impl"] != m and c["in"].startswith("sched dd ")]
        if diff:
            two = ctx.driver([c["in"].replace("sched dd ", "sched two ", 1) for c in diff])
            same = sum(1 for c, m in zip(diff, two) if c["impl"] == m)
            ctx.log("diagnosis: of %d forced schedules that differ from the model, %d behave exactly like the UNPATCHED "
                    "two-step protocol (the result of caches.Delete is ignored)" % (len(diff), same))
    for f in ctx.read_jsonl("c23_failures.jsonl"):
        ctx.fail(f["class"], f["what"], input=f.get("input"), got=f.get("got"), want=f.get("want"))
    st = (ctx.read_jsonl("c23_stats.json") or [{}])[0]
    c = st.get("counters", {})
    ctx.coverage.update({
        "evaluations": len(cases),
        "distinct_nontrivial": c.get("distinct_nontrivial", 0),
        "rule": "forced: generated schedules (1-6 requests over 1-3 keys; find-all-then-delete-all, arbitrary shuffles, serial, "
                "with-replacement, two racing groups; re-issues and foreign removals dropped in) replayed step by step on "
                "consumeCode / consumeRefreshToken / TokenHandler; non-trivial = two requests presenting the same key overlap "
                "(one's Find falls between the other's Find and Delete), counted per distinct schedule line. "
                "burst: 2-16 free-running goroutines on one key, GOMAXPROCS in {all,1,2,3,4,8}. "
                "pkce: challenge x method x verifier shapes (empty, right, wrong, truncated, padded, plain-style, case, NUL, long). "
                "seq: TokenHandler sequences over 5 registered clients, replayed/unknown/re-issued codes and refresh tokens",
        "yield_hook": "used" if hooked else "unavailable (free-running only)",
        "samples": st.get("samples", []),
        "counters": c,
    })
    if not hooked:
        ctx.notes.append("forced-interleaving stream skipped: no yield hook")
    return ctx.finish()
