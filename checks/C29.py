"""C29 — cluster cache invalidation is bounded and complete; a received flush is never re-broadcast."""
import os
import re

META = {
    "level": "proof",
    "text": "Lean theorems over a model of the invalidation protocol whose per-node functions mirror caches.purge(id, notify), "
            "ListMembers/ListActiveMembers, BroadcastCacheFlush/SendCacheFlush and FlushCacheHandler: for EVERY membership table "
            "(cluster of any size), every process configuration and EVERY step sequence (purges on arbitrary nodes, deliveries in any "
            "order, losses, membership changes, injected foreign requests): one purge sends at most one request per peer and never to "
            "itself / inactive / foreign members; k purges send at most k x (N-1) requests; a delivery never sends (requests in flight "
            "only shrink); if no request of a purge is in flight or lost, every peer that was active when the purge read the table "
            "has discarded that cache because of it; protocol requests always carry hop count 1; the 5 s limit is per peer "
            "(SendCacheFlush builds its own http.Client{Timeout} per call): for EVERY assignment of behaviours to the peers (answer, error "
            "status, hang-up, dead port, answer later than the timeout) the requests issued are the same and every active peer whose "
            "endpoint receives requests at all receives exactly one (C29_send_outcomes_isolated, C29_slow_peer_isolated), and the "
            "broadcast goroutine is busy for at most 5 s x peers (C29_broadcast_time_bounded); purges of ONE cache that overlap (a later "
            "purge issued while the broadcast of an earlier one is still held up by a peer) are each announced on their own: every active "
            "peer whose endpoint receives requests gets exactly one request per purge, n for n purges (C29_overlapping_purges_each_announced, "
            "C29_burst_every_peer_counts; purge.go keeps nothing between purges). The per-node functions are tied to "
            "the code by a differential run of ONE real node in-process (cluster.Initialize, then caches.Purge/PurgeLocal/PurgeAll -> "
            "OnPurge -> BroadcastCacheFlush over a real SQLite cluster table, including bursts of 2-4 purges of one cache issued while a "
            "gated peer sits on the first purge's request: each active peer must RECEIVE a flush after every purge was issued) "
            "against recording HTTP peers, and of a real "
            "router.Router (flush route as declared in commands/server.go) + the real FlushCacheHandler on every recorded request "
            "(unchanged headers and body) and on hostile requests, plus a model-free oracle on the same runs. "
            "The model mirrors the code WITH fixes/C29.patch (SendCacheFlush sets Accept: application/json): as shipped, every flush "
            "request is answered 400 'invalid media type' by the peer's router and no peer ever discards its cache "
            "(C29_unpatched_incomplete_counterexample; the check reports class flush-refused-by-peer on the unpatched tree).",
    "note": "Needs fix: fixes/C29.patch in /repo. PARTIAL BY CONSTRUCTION: the N-node composition (shared table, network multiset, interleavings) exists only in the Lean "
            "model; the implementation is exercised one node step at a time (a purge step with its peers as httptest servers, a "
            "deliver step through FlushCacheHandler). Trusted: Lean kernel; the harness; net/http, encoding/json, database/sql+SQLite. "
            "Modelled, not verified: the router's media check abstracted to one bit per request (the harness classifies the concrete "
            "Accept header; an alternative repair that makes the router admit a missing Accept header would need the model's "
            "`accept` bit re-derived); HMAC cluster token abstracted to 'token of cluster k is accepted exactly by nodes whose "
            "ClusterName is k'; each table row's name is the ClusterName of the process with that node id (Consistent: rows are only "
            "written by upsertMember from the node's own configuration); caches are active on every server (caches.Active(false) has "
            "no production call site - checked by a source obligation each run); a request to an unreachable peer is a 'drop' step; "
            "the health checker is not modelled and in the N-node composition a timed-out request is a drop step (they only change table states / drop requests, which the "
            "step relation already allows at any time); the per-peer timeout IS modelled at the node level (broadcastLoop / sendResult, "
            "connection set-up idealised to 0 ms) and exercised with real slow peers (2 corpus cases, ~5 s of real time each, since the "
            "production code offers no way to shorten the literal 5 s). New rows (joins) are covered by quantifying over all initial tables; within a "
            "run only row states change. The asynchronous 'go OnPurge' is awaited by wrapping the registered hook.",
    "technique": "Lean 4 proof (invariants over an N-node transition system, induction over step sequences) + per-node-step "
                 "model/implementation correspondence + model-free oracle",
    "design_ref": "DESIGN.md §6 C29",
}

REQUIRED = [
    "C29_purge_bounded", "C29_purge_targets_exact", "C29_never_to_self", "C29_at_most_once",
    "C29_no_rebroadcast", "C29_hop_limit", "C29_deliver_never_sends", "C29_only_purge_sends",
    "C29_purge_step_bounded", "C29_total_bounded", "C29_total_bounded_peers", "C29_quiescent",
    "C29_complete", "C29_complete_trace", "C29_deliver_discards", "C29_purge_discards_local",
    "C29_hops_one", "C29_prefix_storm_example",
    "C29_no_rebroadcast_routed", "C29_no_accept_refused", "C29_unpatched_incomplete_counterexample",
    "C29_tags_faithful",
    "C29_send_outcomes_isolated", "C29_slow_peer_isolated", "C29_broadcast_time_bounded",
    "C29_overlapping_purges_each_announced", "C29_burst_every_peer_counts", "C29_burst_fires_each",
]


def source_obligations(ctx):
    """Facts of the source the model relies on, re-read from the tree under test each run (fail closed)."""
    tree = ctx.tree

    def read(rel):
        with open(os.path.join(tree, rel)) as f:
            return f.read()

    def strip(src):
        src = re.sub(r"/\*.*?\*/", "", src, flags=re.S)
        return "\n".join(l.split("//")[0] if '"' not in l.split("//")[0] or l.split("//")[0].count('"') % 2 == 0 else l
                         for l in src.split("\n"))

    inv = strip(read("internal/server/cluster/invalidate.go"))
    m1 = re.search(r"const\s+maxFlushHops\s*=\s*(\d+)", inv)
    m2 = re.search(r"const\s+originHopCount\s*=\s*(\d+)", inv)
    ok = bool(m1 and m2 and m1.group(1) == "4" and m2.group(1) == "1")
    ctx.obligations.append(("source: maxFlushHops = 4, originHopCount = 1 (invalidate.go)", ok,
                            "%s %s" % (m1 and m1.group(1), m2 and m2.group(1))))
    if not ok:
        ctx.broken.append("source constants maxFlushHops/originHopCount differ from the model (4, 1)")

    # the receiving route, as the harness re-declares it on its own router.Router
    flat = re.sub(r"\s+", "", strip(read("internal/commands/server.go")))
    decl = ("r.New(defs.ServicesClusterFlushPath,cluster.FlushCacheHandler,http.MethodPost)."
            "Class(router.AdminRequestCounter).AcceptMedia(defs.JSONMediaType)")
    i = flat.find(decl)
    ok = i >= 0 and flat[i + len(decl):i + len(decl) + 1] != "." and flat.count("ServicesClusterFlushPath") == 1
    rest = strip(read("internal/defs/rest.go"))
    ok2 = bool(re.search(r'ServicesClusterFlushPath\s*=\s*ServicesPath\s*\+\s*"cluster/flush"', rest)
               and re.search(r'\bServicesPath\s*=\s*"/services/"', rest))
    ok3 = '"%s://%s:%d/services/cluster/flush"' in read("internal/server/cluster/invalidate.go")
    ctx.obligations.append(("source: flush route = POST /services/cluster/flush .Class(Admin).AcceptMedia(JSON), nothing else "
                            "(commands/server.go, defs/rest.go); SendCacheFlush posts to that path", ok and ok2 and ok3,
                            "decl=%s path=%s url=%s" % (ok, ok2, ok3)))
    if not (ok and ok2 and ok3):
        ctx.broken.append("the flush route declaration / path / sender URL differ from what the harness and model assume "
                          "(decl=%s path=%s url=%s)" % (ok, ok2, ok3))

    # caches.Active(false) must have no production call site (the model takes caches to be active on servers)
    bad = []
    for dp, dn, fn in os.walk(tree):
        dn[:] = [d for d in dn if d not in (".git", "node_modules")]
        for f in fn:
            if not f.endswith(".go") or f.endswith("_test.go"):
                continue
            p = os.path.join(dp, f)
            try:
                with open(p, errors="replace") as fh:
                    src = strip(fh.read())
            except OSError:
                continue
            if re.search(r"\bcaches\.Active\s*\(", src):
                bad.append(os.path.relpath(p, tree))
    ctx.obligations.append(("source: caches.Active( has no production call site", not bad, ",".join(bad)))
    if bad:
        ctx.broken.append("caches.Active( is now called from production code (%s): the model's 'caches on' assumption "
                          "must be revisited" % ",".join(bad))


def run(ctx):
    ctx.trusted += ["net/http + httptest, encoding/json, database/sql + modernc SQLite (Go side of the harness)",
                    "translator: source obligations in checks/C29.py (constants, call sites); correspondence harness "
                    "internal/server/cluster/zz_verif_c29_test.go + egodriver C29"]
    ctx.assumptions += [
        "N-node composition exists only in the Lean model; the implementation is exercised per node step",
        "cluster token: token of cluster k is accepted exactly by nodes whose ClusterName is k (HMAC-SHA256 abstracted)",
        "Consistent: the row of node i carries the ClusterName of process i (rows are written by upsertMember from the node's own configuration)",
        "caches are active on every server (no production call of caches.Active(false))",
        "completeness is conditional on delivery: a lost request (peer down, timeout) is a `drop` step and voids the conclusion for that peer",
    ]
    ctx.lean_audit(required=REQUIRED)
    if not ctx.quick:
        ctx.leanchecker()
    ctx.prepare_tree()
    source_obligations(ctx)
    # -trimpath: the scratch tree is a new directory every run; without it no compiled package is reused
    rc, out = ctx.go_test("./internal/server/cluster/", "TestVerifC29", timeout=1500, extra=["-trimpath"])
    if rc != 0:
        ctx.log(out[-3000:])
        ctx.broken.append("harness TestVerifC29 failed to run (rc=%d)" % rc)
    cases = ctx.read_jsonl("c29_cases.jsonl")
    ctx.correspond(cases)
    for f in ctx.read_jsonl("c29_failures.jsonl"):
        ctx.fail(f["class"], f["what"], input=f.get("input"), got=f.get("got"), want=f.get("want"))
    st = (ctx.read_jsonl("c29_stats.json") or [{}])[0]
    c = st.get("counters", {})
    if rc == 0 and not ctx.replay_in and (c.get("lines.purge", 0) < 100 or c.get("lines.flush", 0) < 100 or c.get("requests", 0) < 100
                                          or c.get("lines.burst", 0) < 40 or c.get("burst.parked", 0) < 10):
        ctx.broken.append("harness produced too few steps (%s)" % c)
    ctx.coverage.update({
        "evaluations": len(cases),
        "distinct_nontrivial": c.get("distinct_nontrivial", 0),
        "rule": "purge/purgeall lines: a real Purge/PurgeLocal/PurgeAll on the node over a random table (0-9 rows: own row, "
                "active / inactive / removed / mis-spelled states, 4 look-alike cluster names, peers answering 200/500/401/hang-up/dead, and in 2 corpus cases (+2 random "
                "ones in the thorough tier) peers that HOLD the request - one beyond the sender's 5 s timeout, or three for 1.75 s each - "
                "before healthy peers in join order, "
                "random join order, state flips between purges) and configuration (standalone, no DB, no hook, caches off); "
                "non-trivial = at least one peer must and at least one row must not receive a request. burst lines: 2-4 Purge calls of "
                "one cache on the node, from the second on issued while the first broadcast is parked at a 'gate' peer (an httptest peer "
                "that sits on its request until the harness has issued the whole burst; 0-2 such rows at random places in the join order, "
                "also inactive / foreign ones, next to 500/401/hang-up/dead peers; explicit gate, no sleeps); oracle: every active peer "
                "receives a flush after each purge was issued; non-trivial = the node broadcasts, a broadcast parks at a gated peer and "
                "there are at least 2 live peers. flush lines: every request "
                "recorded by the peers replayed into FlushCacheHandler, plus generated requests (9 token kinds x 9 body classes x hop "
                "counts -7..2^40); non-trivial = reaches the hop check or has a non-standard body. Counted: distinct protocol lines.",
        "samples": st.get("samples", []),
        "counters": c,
    })
    return ctx.finish()
