"""C34 — Minified CSS keeps the stylesheet's meaning (MinifyCSS keeps the CSS token sequence)."""

META = {
    "level": "proof",
    "text": "Lean theorem C34_tokens: for EVERY well-formed piece list ps (whitespace runs, closed comments, closed strings "
            "without raw newlines, words with backslash escapes, { } , > : and semicolon runs), "
            "cssSig(cssLex(minify(render ps))) = cssSig(cssLex(render ps)); C34_tokens_bytes states it for every byte string "
            "accepted by the decidable predicate inClass. minify is the exact byte loop of MinifyCSS WITH fixes/C34.patch applied, "
            "cssLex a CSS-Syntax-3 style tokenizer, cssSig drops comments, whitespace next to { } ; , > / after : / leading / "
            "trailing, and semicolons followed by ; or }. Tied to the code by a differential run of the real MinifyCSS against "
            "the model, of an independently written Go CSS tokenizer against the Lean tokenizer, and by a model-free oracle "
            "(token signature of input and output, computed by the Go tokenizer).",
    "note": "fix: fixes/C34.patch (the unpatched code glues `a/**/b` to `ab`, treats the space of `a\\ {` as whitespace, trims the "
            "space of an unterminated string); against the unpatched tree the check reports VIOLATION. "
            "Outside the class (known findings, unrepaired, exotic): a hex escape followed by whitespace or a comment, an unquoted "
            "url() body holding `/*`, `;;` or `;}`, `-- >` becoming `-->`. Not claimed: malformed input (newline inside a "
            "string, backslash-newline outside a string, bad url). Spec.lean's tokenizer deviates from CSS Syntax 3 exactly "
            "there (no CDO/CDC tokens, url( is a function token, hex escapes do not swallow whitespace); inClass excludes "
            "those inputs. trusted: Lean kernel; the Go oracle tokenizer (c34Lex) as reading of CSS Syntax 3 §4.3; the harness.",
    "technique": "Lean 4 proof (piece-level simulation: byte loop = piece function, tokenizer on renderings, invariant between "
                 "last() and the signature's gap state) + model/implementation correspondence + independent tokenizer oracle",
    "design_ref": "DESIGN.md §6 C34",
}

REQUIRED = ["C34_tokens", "C34_tokens_bytes", "C34_minify_pieces", "C34_output_wellformed", "C34_verbatim"]


def run(ctx):
    ctx.trusted += ["Go oracle tokenizer c34Lex (written from CSS Syntax Level 3 §4.3) in zz_verif_c34_test.go",
                    "translator: none; correspondence harness internal/util/javascript/zz_verif_c34_test.go + egodriver C34"]
    ctx.assumptions += ["the theorem is about the code with fixes/C34.patch applied (the model mirrors the fixed loop)",
                        "input class: renderings of well-formed piece lists (Class.lean WF / inClass); bytes >= 0x80 are name bytes"]
    mods = ["EgoVerif.C34.Props"] + ["EgoVerif.C34.Lemmas" + x for x in "ABCDEFG"]
    ctx.lean_audit(modules=mods, required=REQUIRED)
    if not ctx.quick:
        ctx.leanchecker(modules=["EgoVerif.C34.Props"])
    ctx.prepare_tree()
    rc, out = ctx.go_test("./internal/util/javascript/", "TestVerifC34", timeout=1500)
    if rc != 0:
        ctx.log(out[-3000:])
        ctx.broken.append("harness TestVerifC34 failed to run (rc=%d)" % rc)
    cases = ctx.read_jsonl("c34_cases.jsonl")
    ctx.correspond(cases, label="minify model vs MinifyCSS")
    lexcases = ctx.read_jsonl("c34_lexcases.jsonl")
    ctx.correspond(lexcases, label="Lean tokenizer signature vs Go oracle tokenizer")
    # class membership (decided by the Lean driver): how much of the input space the theorem covers,
    # and no oracle failure may lie inside the class
    incls = 0
    shipped = [0, 0]
    if cases:
        res = ctx.driver(["cls " + c["in"].split()[1] for c in cases])
        incls = sum(1 for r in res if r == "1")
        for c, r in zip(cases, res):
            if c.get("desc") == "shipped-chunk":
                shipped[0] += 1
                shipped[1] += r == "1"
    fh = ctx.read_jsonl("c34_failhex.jsonl")
    if fh:
        res = ctx.driver([c["in"] for c in fh])
        bad = [c for c, r in zip(fh, res) if r == "1"]
        if bad:
            ctx.broken.append("%d oracle failures lie INSIDE the class of theorem C34_tokens (model or spec wrong)" % len(bad))
            for c in bad[:5]:
                ctx.disagreements.append({"corr": "in-class failure", "in": c["in"], "impl": c["impl"], "model": "inClass"})
    for f in ctx.read_jsonl("c34_failures.jsonl"):
        ctx.fail(f["class"], f["what"], input=f.get("input"), got=f.get("got"), want=f.get("want"))
    st = (ctx.read_jsonl("c34_stats.json") or [{}])[0]
    c = st.get("counters", {})
    ctx.coverage.update({
        "evaluations": len(cases) + len(lexcases),
        "distinct_nontrivial": c.get("distinct_nontrivial", 0),
        "in_class": incls,
        "in_class_of": len(cases),
        "shipped_chunks_in_class": "%d/%d" % (shipped[1], shipped[0]),
        "rule": "inputs: corpus of suspects; the shipped lib/assets/*.css (whole file through the oracle, rule-sized chunks through "
                "the model too); generated stylesheets (selectors with combinators/pseudo-classes/attribute selectors, at-rules, "
                "declarations with strings+escapes, url(), functions, !important) with gaps (spaces, newlines, comments, nothing) at "
                "every joint; token soup (any fragment next to any other); raw bytes over a hostile alphabet. "
                "non-trivial = the minifier changed the text and the input holds a comment, escape or string",
        "samples": st.get("samples", []),
        "counters": c,
    })
    return ctx.finish()
