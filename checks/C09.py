"""C09 — finished executions leave nothing running."""
import json, os, subprocess

META = {
    "level": "partial",
    "text": "Lean theorems over a lifecycle state machine of the interpreter's goroutines (state = list of live "
            "goroutines keyed by the enclosing function of their `go` statement + a stack of active frames): for "
            "EVERY table whose sites are paired with an allowed stop event, EVERY well-bracketed history (nested "
            "callback executions, user goroutines that finish or never finish, any spawns) and EVERY exit path "
            "(normal, error, panic, callback return) one execution leaves the interpreter-owned live list exactly as "
            "it found it (C09_no_growth), nothing at all when every user goroutine finished (C09_no_growth_all), "
            "hence any sequence of executions does (C09_repeat_any, C09_repeat); whatever is alive afterwards was alive before or "
            "was started by a frame of a never-finishing user goroutine (C09_leftovers_abandoned); an unpaired watcher leaks n goroutines "
            "in n runs (C09_unpaired_leaks, GORTNS-1). The site table is REGENERATED on every run: tools/extract_c09 "
            "(go/ast) lists every `go` statement of bytecode/, runtime/**, server/services with the source facts that "
            "pair it with a stop event (done channel closed in a defer / buffered result received on every path / user "
            "`go` opcode with WaitGroup); `checkTable` (decide) must accept it and C09_all_sites_paired turns that into "
            "the hypothesis of the lifecycle theorems; an unknown or re-shaped `go` site fails the obligation. The model "
            "is tied to the code by running, in one process, generated Ego programs, service requests (ServiceHandler) "
            "and the child-process helpers with every exit path and comparing the live goroutines per site at every probe "
            "point and at the end with the model; the model-free oracle is the goroutine dump diff / runtime.NumGoroutine "
            "returning to its baseline. SEARCHED ONLY (no model): the background workers a server starts on demand while "
            "it handles requests (per-class cache expiration scanners, rate-limit pruner, transaction reaper, database "
            "handles): the real route table is driven with request sequences that purge and refill every cache class "
            "(admin cache flush of all / one class, user / DSN / table-DDL invalidation, revocation flush, cluster "
            "invalidate) repeated W+N+N times within one scan interval; the number of live goroutines per creating "
            "function must not grow with the number of repetitions (class goroutine-growth:<creator>).",
    "note": "partial: the pairing logic is proved; that a goroutine whose stop event fired actually exits (Go scheduler, "
            "select/close semantics, os/exec Wait returning once the process is gone) is OBSERVED by the harness, not "
            "proved. trusted: Lean kernel; tools/extract_c09 and its fact definitions (lexical/path analysis documented in "
            "Model.lean `Facts`); the harness. Not exercised dynamically: the debugger path of ServiceHandler, "
            "the file transport of child services (runChildViaFile has no go statement of its own). User goroutines that never finish "
            "are excluded as the property says (the harness checks exactly those remain).",
    "technique": "Lean 4 proof (induction over histories) over a regenerated go-site table + model/implementation correspondence",
    "design_ref": "DESIGN.md §6 C09",
}

FNS = {
    ("internal/language/bytecode/run.go", "RunFromAddress"): ("run", ".runFromAddress"),
    ("internal/language/bytecode/goroutine.go", "goByteCode"): ("go", ".goByteCode"),
    ("internal/runtime/rest/exchange.go", "Exchange"): ("rest", ".restExchange"),
    ("internal/server/services/child.go", "runChildViaPipe"): ("pipe", ".runChildViaPipe"),
    ("internal/server/services/child.go", "runChildProcess"): ("proc", ".runChildProcess"),
}
BITS = ["litBody", "waitsOnDone", "deferBefore", "deferNext", "sendsBuffered", "recvOnEveryPath", "wgPaired",
        "calleeRunsProgram"]


def extract(ctx):
    """T1: every `go` statement of the interpreter packages with its pairing facts."""
    tool = os.path.join(os.path.dirname(os.path.dirname(os.path.abspath(__file__))), "tools", "extract_c09")
    p = subprocess.run(["go", "run", ".", ctx.tree], cwd=tool,
                       env=dict(os.environ, GOFLAGS="-mod=mod", GOPROXY="off", GOTOOLCHAIN="local"),
                       stdout=subprocess.PIPE, stderr=subprocess.PIPE, text=True)
    if p.returncode != 0:
        ctx.broken.append("translator extract_c09 failed: " + p.stderr[-500:])
        return None
    data = json.loads(p.stdout)
    if data.get("files", 0) < 50:
        ctx.broken.append("translator extract_c09 saw only %d files" % data.get("files", 0))
        return None
    return data["sites"]


def key_of(s):
    if s.get("nestedInLit"):
        return None            # "created by" would name the closure, not the function: unknown site
    return FNS.get((s["file"], s["func"]))


def gen_lean(sites):
    rows = []
    for s in sites:
        k = key_of(s)
        fn = "some " + k[1] if k else "none"
        fields = ", ".join("%s := %s" % (b, "true" if s[b] else "false") for b in BITS)
        rows.append("  -- %s:%d  %s%s  go %s\n  { fn := %s, %s }" % (
            s["file"], s["line"], ("(" + s["recv"] + ").") if s["recv"] else "", s["func"],
            s["callee"].replace("\n", " "), fn, fields))
    body = ",\n".join(rows)
    return f"""import EgoVerif.C09.Props
open EgoVerif.C09
/-- every `go` statement of internal/language/bytecode, internal/runtime/**, internal/server/services of the tree under check -/
def genSites : List Facts := [
{body}
]
theorem gen_check : checkTable genSites = true := by decide
theorem gen_all_sites_paired :
    ∀ f ∈ genSites, ∃ fn, f.fn = some fn ∧ classify f = expected fn ∧ classify f ∈ allowedStops :=
  C09_all_sites_paired genSites gen_check
theorem gen_table_ok : TableOk (tableOf genSites) := tableOk_of_check genSites gen_check
theorem gen_no_growth (p : Prog) (e : Exit) (st : St) (hi : Inv st) :
    owned (exec (tableOf genSites) p e st) = owned st := C09_no_growth _ gen_table_ok p e st hi
theorem gen_no_growth_all (p : Prog) (e : Exit) (hp : p.allFinish = true) (st : St) (hi : Inv st) :
    allLive (exec (tableOf genSites) p e st) = allLive st := C09_no_growth_all _ gen_table_ok p e hp st hi
theorem gen_repeat (xs : List (Prog × Exit)) : owned (execAll (tableOf genSites) init xs) = [] :=
  C09_repeat_from_init _ gen_table_ok xs
#print axioms gen_all_sites_paired
#print axioms gen_no_growth
#print axioms gen_repeat
"""


def run(ctx):
    ctx.trusted += ["harness internal/commands/zz_verif_c09_server_test.go (request sequences, goroutines per creator; no model)",
                    "translator tools/extract_c09 (go/ast, fails closed on unknown go sites)",
                    "harness internal/server/services/zz_verif_c09_test.go + egodriver C09",
                    "Go runtime goroutine dump (runtime.Stack) as the observation of live goroutines"]
    ctx.assumptions += ["a goroutine whose stop event fired exits (observed within a bounded settle loop, not proved)",
                        "goroutines of user programs that never finish are not the interpreter's (property text)",
                        "the child process of runChildProcess terminates once killed"]
    ctx.lean_audit(required=["C09_no_growth", "C09_no_growth_all", "C09_repeat", "C09_repeat_any",
                             "C09_repeat_from_init", "C09_all_sites_paired", "C09_unpaired_leaks",
                             "C09_leftovers_abandoned", "C09_leftovers_none"])
    if not ctx.quick:
        ctx.leanchecker()
    ctx.log("lean audit done")
    ctx.prepare_tree()
    sites = extract(ctx)
    ctx.log("tree prepared, %d go sites extracted" % len(sites or []))
    header = []
    if sites is not None:
        ok, out = ctx.lean_obligation("GenC09", gen_lean(sites))
        if ok and ("sorryAx" in out or "Lean.ofReduceBool" in out):
            ctx.broken.append("generated obligation depends on a forbidden axiom")
        if not ok:
            for s in sites:
                if key_of(s) is None:
                    ctx.log("unknown go site: %s:%d in %s (go %s)" % (s["file"], s["line"], s["func"], s["callee"]))
        for s in sites:
            k = key_of(s)
            header.append("F %s %s" % (k[0] if k else "unknown", "".join("1" if s[b] else "0" for b in BITS)))
        ctx.coverage["go_sites"] = [{"file": s["file"], "line": s["line"], "func": s["func"], "callee": s["callee"],
                                     "key": (key_of(s) or ("unknown",))[0],
                                     "facts": {b: s[b] for b in BITS}} for s in sites]
    ctx.log("generated obligation checked")
    rc, out = ctx.go_test("./internal/server/services/", "TestVerifC09", timeout=3000, extra=["-trimpath"])
    if rc != 0:
        ctx.log(out[-3000:])
        ctx.broken.append("harness TestVerifC09 failed to run (rc=%d)" % rc)
    ctx.log("harness done")
    # server side: request sequences that purge and refill cache classes, goroutines per creating function
    rc, out = ctx.go_test("./internal/commands/", "TestVerifC09Server", timeout=3000, extra=["-trimpath"])
    if rc != 0:
        ctx.log(out[-3000:])
        ctx.broken.append("harness TestVerifC09Server failed to run (rc=%d)" % rc)
    ctx.log("server harness done")
    cases = ctx.read_jsonl("c09_cases.jsonl")
    hdr = [{"in": h, "impl": "ok"} for h in header]
    ctx.correspond(hdr + cases, label="live goroutines per site (probes + end) vs lifecycle model")
    for f in ctx.read_jsonl("c09_failures.jsonl") + ctx.read_jsonl("c09_failures_server.jsonl"):
        ctx.fail(f["class"], f["what"], input=f.get("input"), got=f.get("got"), want=f.get("want"))
    st = (ctx.read_jsonl("c09_stats.json") or [{}])[0]
    c = st.get("counters", {})
    sst = (ctx.read_jsonl("c09_stats_server.json") or [{}])[0]
    sc = sst.get("counters", {})
    if sc.get("sequences", 0) < 20 or sc.get("refill_cycles.schema", 0) < 30:
        ctx.broken.append("server harness exercised too little: %s" % sc)
    ctx.coverage.update({
        "evaluations": len(cases),
        "distinct_nontrivial": c.get("distinct_nontrivial", 0),
        "rule": "histories: a fixed corpus (GORTNS-1 shapes, each exit kind) then random statement trees of probes, "
                "sort.Slice/SliceStable/Search comparator callbacks and fmt String() methods (nested ≤ 4, failing at a chosen invocation before/after "
                "their body), user goroutines (alive across the launcher's further work, finishing, never finishing, failing), "
                "aborts (runtime error, Ego panic, os.Exit, Go panic unwinding through nested native frames); run as programs, "
                "as service requests, repeated 2–31× without settling; runChildProcess (exit 0/≠0, output flood, timeout kill, "
                "self-kill, missing binary), runChildViaPipe (child serves / stays silent / hangs) and rest.Exchange against a "
                "local server that probes while the request is pending (ok / 500 / dropped / refused / user-code mode); a long loop "
                "stopped by a real SIGINT. non-trivial = has nesting, "
                "a goroutine or an abnormal exit; distinct by history line",
        "samples": st.get("samples", []),
        "counters": c,
        "server_sequences": {"rule": "request sequences against the real route table (database-backed user/DSN stores): a fixed corpus, "
                                     "simplest first (one purge of one cache class + one request that refills it, flush-all, "
                                     "cluster invalidate of each class, DDL, user/DSN update, failed logins, console session, "
                                     "transaction begin/rollback, double purge), then random mixes of purging and refilling "
                                     "requests; each repeated W+N+N times; goroutines grouped by creating function after settling",
                             "counters": sc, "samples": sst.get("samples", []),
                             "requests": [r.get("status_request") for r in ctx.read_jsonl("c09_requests_server.jsonl")]},
    })
    return ctx.finish(level="partial")
