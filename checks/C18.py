"""C18 — row values survive a REST round trip (SQLite backend)."""

META = {
    "level": "proof",
    "text": "Lean theorem C18_roundtrip over an executable model of the whole value pipeline of the REST row "
            "endpoints (JSON decode -> CoerceToColumnType -> bindTimeValue -> SQLite bind + column affinity -> "
            "driver scan -> CoerceToColumnType -> JSON encode, with the column metadata derived from "
            "MapColumnType / normalizeColumnType): for EVERY column type the create handler accepts and EVERY "
            "value of its documented domain (int8/16/32/64 ranges, byte, all float64 values except -0.0, all "
            "strings, true/false, null, timestamps of UTC years 0000-9999 with nanoseconds) PUT-then-GET returns "
            "the value written. The model is tied to the code by a differential run of the real TableCreate / "
            "InsertRows / UpdateRows / ReadRows handlers on a real SQLite file (value read back AND the storage "
            "class SQLite chose, typeof()) and by the normalized column type names; a model-free oracle compares "
            "read-back with written values (integers digit for digit, floats by IEEE value, timestamps as instants).",
    "note": "The theorem is about the code WITH fixes/C18.patch (integers decoded exactly instead of through float64; "
            "timestamps bound with fractional seconds); C18_old_int_counterexample / C18_old_int_partial / "
            "C18_old_time_counterexample state what the unpatched code does (exact only for |n| <= 2^53 and whole "
            "seconds). Trusted: Lean kernel; the harness and its canonicalisation; Go's encoding/json, strconv and "
            "time.Parse as reference readers. Modelled, not verified (parameters with stated hypotheses): float64 "
            "arithmetic (FOps/FLaws; the driver instantiates it with Lean's Float), SQLite affinity and storage "
            "(corresponded through typeof()), the time parsers/formatter (TOps/TLaws: parse(format i) = i for years "
            "0000-9999, checked on the real functions by the harness, not proved; the driver uses an executable "
            "RFC 3339 reader/writer). `uuid` and `json` are not column types of this server (create answers 400); "
            "uuid / nested-JSON texts are exercised as string values. A timestamp whose UTC-normalised year falls "
            "outside 0000-9999 is accepted and then makes the table unreadable (known finding, outside InDom). "
            "Out-of-domain inputs not modelled (run through the handlers, oracle only): strings into numeric/bool columns "
            "(egostrings.Atoi / ParseFloat), numeric-looking text into untyped columns, non-RFC-3339 texts into time columns "
            "(dateparse accepts much more, e.g. it reads the digit-free text \"ßß,*/\\nZ;;Z世\" as year 0000).",
    "technique": "Lean 4 proof (case analysis over column types x value kinds, parameterised primitives) + "
                 "model/implementation correspondence + model-free round-trip oracle",
    "design_ref": "DESIGN.md §6 C18",
}

REQUIRED = ["C18_roundtrip", "C18_roundtrip_identity", "C18_roundtrip_float", "C18_time_same_instant",
            "C18_float_intlit_faithful", "C18_null", "C18_branch_table", "C18_affinity_table", "C18_driver_time_table",
            "C18_old_int_partial", "C18_old_int_counterexample", "C18_old_time_counterexample"]


def run(ctx):
    ctx.trusted += ["encoding/json (UseNumber), strconv.ParseFloat, math/big and time.Parse (Go stdlib) are the reference readers of the oracle",
                    "correspondence harness internal/server/tables/zz_verif_c18*_test.go + egodriver C18 (Lean Float as float64)"]
    ctx.assumptions += ["FLaws: float64(n) is never -0.0", "TLaws: for instants of UTC years 0000-9999 the RFC3339Nano text parses back "
                        "to the same instant (ego's parser and the modernc driver's) and is not numeric-looking to SQLite "
                        "(checked on the implementation every run: counter law_time_checks)",
                        "SQLite provider; amd64 float->int conversion semantics for out-of-domain values"]
    ctx.lean_audit(required=REQUIRED)
    if not ctx.quick:
        ctx.leanchecker()
    ctx.log("proofs audited; preparing tree")
    ctx.prepare_tree()
    ctx.log("running harness")
    rc, out = ctx.go_test("./internal/server/tables/", "TestVerifC18", timeout=3000,
                          extra=["-trimpath"])   # build-cache hits across scratch directories
    ctx.log("harness done")
    if rc != 0:
        ctx.log(out[-3000:])
        ctx.broken.append("harness TestVerifC18 failed to run (rc=%d)" % rc)
    cases = ctx.read_jsonl("c18_cases.jsonl")
    if len(cases) < 500:
        ctx.broken.append("harness produced only %d correspondence lines" % len(cases))
    ctx.correspond(cases)
    for f in ctx.read_jsonl("c18_failures.jsonl"):
        ctx.fail(f["class"], f["what"], input=f.get("input"), got=f.get("got"), want=f.get("want"))
    st = (ctx.read_jsonl("c18_stats.json") or [{}])[0]
    c = st.get("counters", {})
    for ty in ("uuid", "json"):
        if c.get("create_accepts_" + ty):
            ctx.notes.append("column type %s is now accepted by TableCreate: extend ColType" % ty)
            ctx.broken.append("TableCreate accepts column type %s, which the model does not cover" % ty)
    ctx.coverage.update({
        "evaluations": c.get("evaluations", 0),
        "distinct_nontrivial": c.get("distinct_nontrivial", 0),
        "rule": "a case is (column type, JSON literal); fixed corpus (type boundaries, 2^53+-1, int64 extremes, float32-"
                "unrepresentable doubles, subnormals, quotes/backslashes/NUL/Unicode/SQL fragments/uuid/nested-JSON texts, "
                "timestamps with zones, fractions and range edges) x all 15 column types, then random natural values per "
                "type and a hostile any-literal-into-any-column stream, through PUT and PATCH; non-trivial = number with "
                "more than 5 digits or a fraction/exponent, string with a non-alphanumeric character, timestamp with "
                "sub-seconds or a non-Z offset",
        "samples": st.get("samples", []),
        "counters": c,
        "correspondence_lines": len(cases),
    })
    return ctx.finish()
