"""C19 — REST JSON responses carry exactly the handler's data."""
import json, os

META = {
    "level": "proof",
    "text": "Lean theorems over an exact model of JSONMinify's loop and of the compress decision: for EVERY "
            "whitespace-padded token text, minify = the unpadded text (strings verbatim); the client always "
            "recovers the body whether or not gzip is applied. The model is tied to the code by a differential "
            "run of JSONMinify / WriteJSON against the model on generated texts and values, and a model-free "
            "oracle (json.Unmarshal of the response equals the handler's value) over every JSON response writer of "
            "internal/util (WriteJSON, ErrorResponse, the composed MarshalIndent+JSONMinify+WriteMaybeCompressed path) "
            "on hostile values.",
    "note": "trusted: Lean kernel; Go encoding/json + compress/gzip as reference decoders; the correspondence "
            "harness; JSON lexical structure as stated in Props.lean (tokens = strings | single non-space chars). "
            "Modelled, not verified: json.MarshalIndent output shape, gzip (hypothesis gunzip∘gzip = id).",
    "technique": "Lean 4 proof (induction over token lists) + model/implementation correspondence",
    "design_ref": "DESIGN.md §6 C19",
}


def run(ctx):
    ctx.trusted += ["encoding/json and compress/gzip (Go stdlib) are the reference decoders",
                    "translator: none; correspondence harness internal/util/zz_verif_c19_test.go + egodriver C19"]
    ctx.assumptions += ["input to JSONMinify is valid UTF-8 (it is the output of json.MarshalIndent)",
                        "gunzip (gzip b) = b enters the model as a hypothesis (structure Gz)"]
    ctx.lean_audit(required=["C19_minify_tokens", "C19_string_verbatim", "C19_idempotent",
                             "C19_compress_transparent", "C19_compress_only_if_accepted"])
    if not ctx.quick:
        ctx.leanchecker()
    ctx.prepare_tree()
    rc, out = ctx.go_test("./internal/util/", "TestVerifC19", timeout=1500)
    if rc != 0:
        ctx.log(out[-3000:])
        ctx.broken.append("harness TestVerifC19 failed to run (rc=%d)" % rc)
    cases = ctx.read_jsonl("c19_cases.jsonl")
    ctx.correspond(cases)
    for f in ctx.read_jsonl("c19_failures.jsonl"):
        ctx.fail(f["class"], f["what"], input=f.get("input"), got=f.get("got"), want=f.get("want"))
    st = (ctx.read_jsonl("c19_stats.json") or [{}])[0]
    c = st.get("counters", {})
    ctx.coverage.update({
        "evaluations": len(cases),
        "distinct_nontrivial": c.get("distinct_nontrivial", 0),
        "rule": "token texts: random token lists (strings with escapes/backslashes/quotes/Unicode, atoms) with Unicode-whitespace gaps; "
                "non-trivial = contains an escape or whitespace inside a string; raw = arbitrary strings over a hostile alphabet; "
                "val = random JSON values through util.WriteJSON with gzip on/off and 8 threshold settings; "
                "wr = hostile handler values (strings/keys made of escape lookalikes such as backslash-n, backslash-u-XXXX with 0..3 "
                "leading backslashes, quotes, controls, HTML characters, U+2028/9, invalid UTF-8, JSON punctuation; int64/uint64/float64 "
                "limits and json.Number literals; maps, slices, tagged structs, json.RawMessage) through every JSON response writer of "
                "internal/util (WriteJSON, ErrorResponse, MarshalIndent+JSONMinify+WriteMaybeCompressed) with gzip accepted or not and "
                "8 threshold settings; oracle: gunzip(body) decodes (UseNumber, no trailing data) to what encoding/json.Marshal(value) "
                "decodes to; failing values are shrunk; their MarshalIndent texts are also 'min' correspondence lines "
                "(counted non-trivial when the text contains a backslash)",
        "samples": st.get("samples", []),
        "counters": c,
    })
    return ctx.finish()
