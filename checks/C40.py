"""C40 — no request can crash a handler."""

META = {
    "level": "proof",
    "text": "PARTIAL (proved: the request front end shared by every route never panics; searched: the individual handlers). "
            "Lean theorems over a line-by-line model of ServeHTTP up to the handler call — FindRoute (path splitting, masking, glob "
            "prefix, candidate selection), partsMap, parmMap, Disallowed, util.ValidateParameters with egostrings.Atoi, validatePaging, "
            "the media-type checks and requestWantsBrowserHTML — in which every Go partial operation (index, slice, nil dereference, "
            "nil call) is a checked operation returning Except Panic: for EVERY route table, method, path, query map, header lists, "
            "authentication outcome and behaviour of the external parsers the front end returns a value (C40_frontend_total), and "
            "FindRoute answers 200 only with a non-nil route (C40_found_route_non_nil), which is what makes ServeHTTP's unguarded "
            "route/session dereferences safe. The model is tied to the code by a differential run of the real FindRoute, partsMap, "
            "ValidateParameters, validatePaging and ServeHTTP (stub handlers) against the model. The handlers themselves are SEARCHED "
            "(fuzzing, not proof): the server's real route table (setupServerRouter, OAuth2 AS enabled, file user/DSN stores, SQLite "
            "data sources) is driven route by route with generated hostile paths, queries, headers and bodies as admin, user, bad "
            "credentials and anonymous through Router.ServeHTTP, and authenticated routes receive a systematic list of structurally "
            "hostile credentials (bearer tokens = hex of each ciphertext magic followed by every payload length, damaged issued tokens, "
            "non-hex / odd-length / empty / very long tokens, malformed Basic credentials); the model-free oracle is that the last-resort recovery "
            "(reportRequestPanic) never runs.",
    "note": "The unpatched tree violates the property in seven places (one witness each in the header of fixes/C40.patch): "
            "InsertAbstractRows (row shorter than the column list on a row-id data source), insertRowSet (null row), BeginHandler "
            "(data source cannot be opened), GrantPermissions (empty permission name), ServiceHandler (Ego service sets status 0), "
            "validate.Validate (validator package reflects on a wrong JSON type), Database.Exec (statement the driver executes without a "
            "result: NUL / comment only). fixes/C40.patch repairs each with a bounds/nil check answering 4xx/5xx; it touches no "
            "front-end code, so the model is the same for both trees; until it is merged the check reports VIOLATION on /repo with "
            "these inputs (they are in the fixed corpus). Trusted: Lean kernel; strings.* primitives as modelled on bytes (ASCII case "
            "mapping; net/http admits only token methods); sort.Slice yields the unique sorted order (C32_sort_unique); the Go "
            "runtime's panic semantics for the four partial operations; the correspondence harness. Modelled, not verified: "
            "Session.Authenticate, permission look-ups, body reading and body validation enter as arbitrary inputs; "
            "negotiateLanguage, AcceptsGzip, logging and ErrorResponse are not modelled (searched only). Search limits: the shutdown "
            "routes are never driven with root credentials (success ends the process); bearer-token and logon requests are thinned "
            "(each costs an argon2id key derivation; in the quick tier the v3 magic with a complete salt is sent only at the lengths "
            "around the salt / nonce / tag boundaries, every length in the thorough tier); a panic in a goroutine a handler starts is outside ServeHTTP's recovery and "
            "shows as a harness crash (reported as broken).",
    "technique": "Lean 4 proof (induction over segment / candidate / query lists, Except-Panic semantics of Go's partial operations) "
                 "+ model/implementation correspondence + fuzz search with a model-free oracle on the real route table",
    "design_ref": "DESIGN.md §6 C40",
}

REQUIRED = ["C40_frontend_total", "C40_findRoute_total", "C40_found_route_non_nil", "C40_partsMap_total",
            "C40_validateParameters_total", "C40_validatePaging_total", "C40_wantsHTML_total", "C40_unguarded_loop_panics"]


def run(ctx):
    ctx.trusted += ["Go runtime: index / slice-bounds / nil-dereference / nil-call are the only faults of the modelled operations",
                    "translator: none; correspondence harness internal/router/zz_verif_c40_test.go + egodriver C40",
                    "fuzz harness internal/commands/zz_verif_c40_test.go (search, not proof)"]
    ctx.assumptions += ["request method and media-type header values are ASCII where case mapping matters (strings.ToLower/EqualFold)",
                        "(endpoint, method) keys of a route table are distinct (Router.New refuses duplicates)",
                        "authentication, permission look-up, body reading and body validation are arbitrary total functions"]
    ctx.lean_audit(required=REQUIRED)
    if not ctx.quick:
        ctx.leanchecker()
    ctx.prepare_tree()

    # T2: the real front-end functions against the model
    ctx.log("correspondence harness (router.TestVerifC40)")
    rc, out = ctx.go_test("./internal/router/", "TestVerifC40", timeout=3000)
    if rc != 0:
        ctx.log(out[-3000:])
        ctx.broken.append("harness router.TestVerifC40 failed to run (rc=%d)" % rc)
    cases = ctx.read_jsonl("c40_cases.jsonl")
    if not cases:
        ctx.broken.append("no correspondence cases from router.TestVerifC40")
    ctx.correspond(cases, label="front end")
    for f in ctx.read_jsonl("c40_t2_failures.jsonl"):
        ctx.fail(f["class"], f["what"], input=f.get("input"), got=f.get("got"), want=f.get("want"))

    # search: every route of the real table
    ctx.log("fuzz harness on the real route table (commands.TestVerifC40)")
    rc, out = ctx.go_test("./internal/commands/", "TestVerifC40", timeout=3000)
    ctx.log("harnesses done")
    if rc != 0:
        ctx.log(out[-4000:])
        ctx.broken.append("fuzz harness commands.TestVerifC40 failed to run (rc=%d): a panic outside ServeHTTP's recovery "
                          "(background goroutine) or a start-up failure" % rc)
    for f in ctx.read_jsonl("c40_failures.jsonl"):
        ctx.fail(f["class"], f["what"], input=f.get("input"), got=f.get("got"), want=f.get("want"))

    t2 = (ctx.read_jsonl("c40_t2_stats.json") or [{}])[0]
    fz = (ctx.read_jsonl("c40_stats.json") or [{}])[0]
    c2, cf = t2.get("counters", {}), fz.get("counters", {})
    routes = ctx.read_jsonl("c40_routes.jsonl")
    if not ctx.replay_in:
        if cf.get("routes", 0) < 60:
            ctx.broken.append("fuzz harness saw only %d routes" % cf.get("routes", 0))
        if cf.get("hostile-credentials", 0) < 400:
            ctx.broken.append("fuzz harness sent only %d structurally hostile credentials" % cf.get("hostile-credentials", 0))
        if cf.get("handler-ran", 0) < 300:
            ctx.broken.append("fuzz harness reached a handler only %d times" % cf.get("handler-ran", 0))
    ops = {}
    for c in cases:
        op = c["in"].split(" ", 1)[0]
        ops[op] = ops.get(op, 0) + 1
    ctx.coverage.update({
        "evaluations": len(cases) + cf.get("requests", 0),
        "distinct_nontrivial": c2.get("distinct_nontrivial", 0) + cf.get("distinct_nontrivial", 0),
        "rule": "correspondence: a case is one call of a real front-end function on generated route tables (literal / {{var}} / {{glob...}} / "
                "malformed-brace segments, '/', '', doubled slashes), paths derived from the patterns (filled, truncated, extended, empty "
                "segments, '?'), query maps (typed values incl. radix prefixes, rune literals, int64 edges, repeated and undeclared keys), "
                "Accept / Content-Type lists; non-trivial = FindRoute chose among several routes, a pattern with variables, a declared "
                "parameter met a query, or ServeHTTP reached the handler or a 400. Search: a request is (route aimed at, method, URL, "
                "headers, body, identity); non-trivial = distinct request that reached the route's handler (observed by a wrapper that "
                "only counts).",
        "correspondence_cases_by_op": ops,
        "fuzz_requests": cf.get("requests", 0),
        "fuzz_handler_ran": cf.get("handler-ran", 0),
        "fuzz_routes": cf.get("routes", 0),
        "fuzz_routes_answered_below_400": cf.get("routes_answered_ok", 0),
        "fuzz_hostile_credentials": cf.get("hostile-credentials", 0),
        "fuzz_hostile_credentials_deriving_a_key": cf.get("credentials-deriving-a-key", 0),
        "fuzz_panics": cf.get("panics", 0),
        "fuzz_rejected_by_net_http": cf.get("rejected-by-net/http", 0),
        "routes_without_success": [r["route"] for r in routes if not r.get("ok")][:60],
        "samples": (t2.get("samples", []) + fz.get("samples", []))[:8],
        "counters": {"correspondence": c2, "fuzz": cf},
    })
    return ctx.finish()
