"""C33 — minified dashboard JavaScript behaves like the original."""

META = {
    "level": "proof",
    "text": "PARTIAL (proved in Lean over an exact model of minify.go's tokenizer, comment stripper, separator rule and "
            "emitter: re-lexing the minified text gives back the same significant tokens for EVERY token list meeting a "
            "stated decidable well-formedness predicate — no two tokens glue, `a + +b` / `a - -b` / `/ /` / `5 .x` keep "
            "their separator; regex-versus-division context is preserved for EVERY source (C33_context_preserved); and over an exact model of renameLocals: for "
            "every iteration order of the rename map the short names are pairwise distinct, differ from every "
            "identifier of the source and from every reserved word, only names collected as locals and not at file "
            "scope (nor spelled inside a template literal) are renamed, a token after `.`/`?.` and an object key are "
            "never touched and a shorthand property keeps its key. Only searched, not proved: that the minified "
            "program BEHAVES like the original — JavaScript semantics is not modelled; generated programs and the "
            "shipped dashboard scripts are run/parsed under node 20 as written, minified, and minified with renaming; one "
            "program family declares locals spelled like contextual keywords — get set of from as async await static let "
            "yield target meta — next to the same words in their keyword role, as scripts and as ES modules). "
            "Model and code are tied by a differential run of tokenize/Minify/collectLocals/renameLocals against the "
            "model on a corpus, token soups, raw bytes, generated programs and every shipped lib/assets/dashboard/*.js.",
    "note": "trusted: Lean kernel; node 20 as the reference JavaScript engine; the correspondence harness. Meta-assumption "
            "(not a Lean theorem): consistently renaming a locally declared name to a fresh one outside property positions "
            "preserves behaviour (alpha-equivalence), absent eval/with. The model mirrors the code WITH fixes/C33.patch. "
            "Well-formedness excludes (harmless or invalid JavaScript): a number ending in e/E directly before +/- "
            "(`0xe +1`), `?` before `.5`, a regex literal directly before an identifier (`/x/ in o`), adjacent operators "
            "that would fuse (`= =`). The fresh-name search of renameLocals is modelled with fuel (termination not "
            "proved; exhaustion would show as a correspondence mismatch). Minify panics (slice out of range) on a source "
            "ending in `\\` inside an unterminated string/template/regex: such inputs are skipped and counted. Known "
            "findings left on the patched tree (name-based, scope-blind renaming): see known_findings.d/C33.json. "
            "Observation: Minify(src, true) is not deterministic (rename map iteration order); this alone cannot break "
            "the property because file-scope names are never renamed and short names avoid every identifier of the file.",
    "technique": "Lean 4 proof (induction over token lists; invariants of the rename loops) + model/implementation "
                 "correspondence + node differential oracle",
    "design_ref": "DESIGN.md §6 C33",
}

REQUIRED = ["C33_relex", "C33_minify_relex", "C33_context_preserved", "C33_minify_relex_lex", "C33_sep_words", "C33_sep_sign", "C33_sep_slash", "C33_sep_number_dot",
            "C33_rename_hygiene", "C33_rename_domain", "C33_rename_shape", "C33_rename_after_dot",
            "C33_rename_object_key", "C33_rename_shorthand"]


def run(ctx):
    ctx.trusted += ["node v20 (vm.runInNewContext, vm.SourceTextModule under --experimental-vm-modules, --check) is the reference JavaScript engine",
                    "translator: none; correspondence harness internal/util/javascript/zz_verif_c33*_test.go + egodriver C33"]
    ctx.assumptions += ["alpha-equivalence of JavaScript under consistent renaming of locally declared names (meta-assumption)",
                        "scripts are semicolon-terminated (no reliance on automatic semicolon insertion)"]
    ctx.lean_audit(required=REQUIRED)
    if not ctx.quick:
        ctx.leanchecker()
    ctx.prepare_tree()
    rc, out = ctx.go_test("./internal/util/javascript/", "TestVerifC33", timeout=3000)
    if rc != 0:
        ctx.log(out[-3000:])
        ctx.broken.append("harness TestVerifC33 failed to run (rc=%d)" % rc)
    cases = ctx.read_jsonl("c33_cases.jsonl")
    plain = [c for c in cases if not c["in"].startswith("wf ")]
    ctx.correspond(plain)
    # op wf: the model answers `wf=<b> relex=<b>`; the implementation's own re-lex result must agree,
    # and (theorem C33_relex) wf=1 must imply relex=1.
    wfc = [c for c in cases if c["in"].startswith("wf ")]
    n_wf = bad = 0
    shipped_wf = shipped = 0
    if wfc:
        outs = ctx.driver([c["in"] for c in wfc])
        for c, m in zip(wfc, outs):
            parts = dict(p.split("=") for p in m.split() if "=" in p)
            if c.get("desc", "").startswith("shipped:"):
                shipped += 1
                shipped_wf += parts.get("wf") == "1"
            if parts.get("wf") == "1":
                n_wf += 1
                if parts.get("relex") != "1":
                    ctx.broken.append("model: wf=1 but relex=0 (contradicts C33_relex) on " + c["in"][:120])
            if "relex=" + parts.get("relex", "?") != c["impl"]:
                bad += 1
                if len(ctx.disagreements) < 50:
                    ctx.disagreements.append({"corr": "relex", "in": c["in"], "impl": c["impl"], "model": m, "desc": c.get("desc", "")})
        if bad:
            ctx.broken.append("relex: %d/%d lines differ between model and implementation" % (bad, len(wfc)))
    for f in ctx.read_jsonl("c33_failures.jsonl"):
        ctx.fail(f["class"], f["what"], input=f.get("input"), got=f.get("got"), want=f.get("want"))
    st = (ctx.read_jsonl("c33_stats.json") or [{}])[0]
    c = st.get("counters", {})
    if c.get("order_not_recovered", 0):
        ctx.broken.append("renameLocals: on %d sources the renamed names are not the collected locals minus file-scope "
                          "names minus template words (rename map keys differ from the model's rename set)"
                          % c["order_not_recovered"])
    ctx.coverage.update({
        "evaluations": len(cases) + 3 * c.get("programs", 0),
        "distinct_nontrivial": c.get("distinct_nontrivial", 0),
        "rule": "distinct generated/corpus programs that node accepts as written (each is run 3 ways: original, minified, "
                "minified+renamed; output, error name and defined globals / module exports compared; counters.ctx_keyword_programs of them "
                "use contextual keywords as local names, every third of those as an ES module); tie lines: tok/min/col/ren/wf on corpus, "
                "shipped scripts, token soups, raw bytes and programs; wf_sources = sources whose token list meets the "
                "well-formedness predicate of C33_relex",
        "wf_sources": n_wf,
        "shipped_scripts_meeting_wf": "%d/%d" % (shipped_wf, shipped),
        "samples": st.get("samples", [])[:4],
        "counters": c,
    })
    return ctx.finish()
