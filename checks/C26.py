"""C26 — sandboxed programs stay inside the sandbox."""
import os
import shutil

from verifpy.lib import VERIF

META = {
    "level": "proof",
    "text": "Lean theorem C26_contained over an exact model of util.SandboxJoin / resolveWithinSandbox / withinRoot "
            "(path algebra Clean/Join/Rel; file system = arbitrary function from physical paths to dir/file/symlink): for "
            "EVERY file system (any symlink arrangement: escaping, dangling, looping, chained), every resolvable absolute "
            "root, every spelling of the requested path and every fuel, whatever location the KERNEL (a fuel-free "
            "resolution relation, proved deterministic; Go's EvalSymlinks/Lstat model proved sound for it) acts on when "
            "handed SandboxJoin's result lies at or below the physical root; C26_string_contained covers unresolvable / "
            "relative roots lexically. Regenerated part: tools/extract_c26 (go/ast) lists every runtime function whose "
            "body passes a program-controlled path to an os/ioutil/filepath/database-sql sink, every native passthrough "
            "declaration of such a sink, and the dispatcher; generated obligation C26_all_routed (decide) = each is routed "
            "through the helper / flagged Sandboxed, with known-finding exceptions by name. Tie: real SandboxJoin vs the "
            "model on generated layouts in a scratch dir (plus Clean / withinRoot directly); model-free oracles: the kernel's "
            "own verdict (/proc/self/fd of the opened result, outside-tree snapshots after destructive operations) and, end "
            "to end, generated Ego programs run by the server's sandboxed run-code path against every file-touching runtime "
            "function with hostile paths: outside snapshot unchanged, working directory inside, and non-interference "
            "(same program, twin layout with a different outside world, equal output). Listing functions (io.ReadDir, "
            "io.Expand; os.Stat / io.ReadDir / os.ReadFile / os.Open on the entries) are also run on inside directories whose "
            "ENTRIES are symlinks leading outside (files, directories, chains, one-world-only names): every returned field "
            "(name, type, mode, size, modification time, children) must equal the twin's and must not change when the "
            "outside world is altered in place.",
    "note": "trusted: Lean kernel; the go/ast translator (sink table, 3-label taint, fails closed on unknown statements and "
            "unknown native passthroughs of os/filepath functions); the harnesses; Linux path resolution as stated by the Walk "
            "relation in Props.lean (component-wise, '..' = physical parent, symlink substitution; creating calls act on a "
            "missing last component). Modelled, not verified: TOCTOU between SandboxJoin's resolution and the later open is "
            "runtime behaviour the model cannot exhibit (the file system is fixed during one call); hard links and bind "
            "mounts; relative sandbox roots (model keeps the string candidate; server start-up makes the root absolute); "
            "no-follow operations on the clamp result itself when the configured root is a symlink (os.Remove/RemoveAll are "
            "refused outright in a sandboxed context). The model mirrors the code WITH fixes/C26.patch (dangling-symlink "
            "clamp in resolveWithinSandbox, json.ReadFile/WriteFile and io.Expand's extension routed through the helper); "
            "C26_dangling_counterexample + C26_contained_old_partial describe the unpatched helper. Known finding: "
            "sql.Open(sqlite path) is not confined. io.Expand on a layout with a directory-symlink cycle recurses without "
            "end under the sandbox (denial of service, outside this property): those cases are skipped by the generator. "
            "`import \"path\"` in a program is compile-time and out of scope. The static routing obligation labels a routed "
            "path extended by a directory entry's name (filepath.Join(routed, entry.Name())) as routed: a symlink-following "
            "call on such a child path is outside the theorem and is searched only by the end-to-end listing oracle.",
    "technique": "Lean 4 proof (inductive kernel-resolution relation, invariants, induction) + go/ast translator with generated "
                 "decide obligation + model/implementation correspondence + model-free end-to-end oracles",
    "design_ref": "DESIGN.md §6 C26",
}

REQUIRED = ["C26_contained", "C26_root_is_kernel_root", "C26_string_contained", "C26_dangling_counterexample",
            "C26_contained_old_partial", "C26_all_routed_meaning"]


def run(ctx):
    ctx.trusted += ["translator tools/extract_c26 (go/ast, stdlib only)",
                    "correspondence harness internal/util/zz_verif_c26_test.go + egodriver C26",
                    "end-to-end harness internal/server/admin/zz_verif_c26e_test.go (executeAdminEgo, non-admin session)",
                    "the Linux kernel is the oracle for where a path leads (/proc/self/fd, snapshots)"]
    ctx.assumptions += ["the file system does not change between SandboxJoin's resolution and the operation (no TOCTOU)",
                        "the sandbox root is absolute and resolvable for C26_contained; otherwise C26_string_contained",
                        "no hard links / bind mounts from inside the root to the outside"]
    ctx.lean_audit(required=REQUIRED)
    if not ctx.quick:
        ctx.leanchecker()
    ctx.prepare_tree()

    # ---- translator on the CURRENT source -> generated Lean obligation
    xdir = os.path.join(ctx.tree, "tools", "verif_extract_c26")
    os.makedirs(xdir, exist_ok=True)
    shutil.copy(os.path.join(VERIF, "tools", "extract_c26", "main.go"), os.path.join(xdir, "main.go"))
    exe = os.path.join(ctx.scratch, "extract_c26")
    rc, out = ctx.go(["build", "-o", exe, "./tools/verif_extract_c26"], timeout=900)
    gen = ""
    if rc == 0:
        import subprocess
        p = subprocess.run([exe, ctx.tree], stdout=subprocess.PIPE, stderr=subprocess.PIPE, text=True, timeout=600)
        rc, gen, out = p.returncode, p.stdout, p.stderr
    ok_x = rc == 0 and "def table" in gen
    ctx.obligations.append(("translator:extract_c26", ok_x, "go/ast extraction of the routing table (fails closed)"))
    unrouted = [l[len("UNROUTED "):] for l in out.splitlines() if l.startswith("UNROUTED ")]
    if not ok_x:
        ctx.broken.append("translator extract_c26 failed (rc=%d): %s" % (rc, out.strip()[-400:]))
    else:
        ctx.log("routing table: %d rows, unrouted: %s" % (gen.count("⟨"), unrouted))
        ctx.lean_obligation("C26Gen", gen)

    # ---- SandboxJoin vs the model, kernel-verdict oracle
    rc, out = ctx.go_test("./internal/util/", "TestVerifC26", timeout=3000)
    if rc != 0:
        ctx.log(out[-3000:])
        ctx.broken.append("harness TestVerifC26 failed to run (rc=%d)" % rc)
    cases = ctx.read_jsonl("c26_cases.jsonl")
    ctx.log("util harness done: %d correspondence lines" % len(cases))
    ctx.correspond(cases)
    ctx.log("model driver done")
    # ---- end to end: sandboxed Ego programs
    rc, out = ctx.go_test("./internal/server/admin/", "TestVerifC26E2E", timeout=6000)
    if rc != 0:
        ctx.log(out[-3000:])
        ctx.broken.append("harness TestVerifC26E2E failed to run (rc=%d)" % rc)
    ctx.log("end-to-end harness done")
    nfail = 0
    for name in ("c26_failures.jsonl", "c26e_failures.jsonl"):
        for f in ctx.read_jsonl(name):
            nfail += 1
            if nfail <= 200:
                ctx.fail(f["class"], f["what"], input=f.get("input"), got=f.get("got"), want=f.get("want"))
    st = (ctx.read_jsonl("c26_stats.json") or [{}])[0]
    se = (ctx.read_jsonl("c26e_stats.json") or [{}])[0]
    c, ce = st.get("counters", {}), se.get("counters", {})
    if ok_x and ce.get("programs", 0) == 0:
        ctx.broken.append("end-to-end harness ran no program")
    if ok_x and rc == 0 and (ce.get("listing_programs", 0) == 0 or ce.get("listing_entries_escaping", 0) == 0):
        ctx.broken.append("end-to-end harness listed no directory with an entry that leads outside the root")
    ctx.coverage.update({
        "evaluations": len(cases) + ce.get("programs", 0),
        "distinct_nontrivial": c.get("distinct_nontrivial", 0) + ce.get("distinct_nontrivial", 0),
        "rule": "SandboxJoin: generated layouts (root plain / symlinked / missing; 3-12 entries: dirs, files, symlinks with 14 "
                "hostile target shapes) x 40 hostile path spellings each; non-trivial = path contains '..' or the layout has a "
                "symlink, counted distinct by (root, path). End to end: per layout pair ~30 generated Ego programs over 21 "
                "file-touching functions; non-trivial = path has '..', is absolute, or the layout has symlinks; distinct by "
                "(function, path, extension). Listing phase (counters listing_*): per layout up to 3 inside directories, one "
                "planted with 4-12 entries (symlinks to outside files/directories, chains, hostile shapes, controls); "
                "listing_entries_escaping = entries the kernel resolves outside the root (measured).",
        "samples": (st.get("samples", [])[:4] + se.get("samples", [])[:4]),
        "counters": {"util": c, "e2e": ce},
        "routing_unrouted": unrouted,
        "oracle_failures": nfail,
    })
    return ctx.finish()
