"""C03 — arithmetic follows the documented typing rules."""
import json, os, subprocess

META = {
    "level": "proof",
    "text": "Lean theorems over a model of Normalize/Coerce/CoerceLossless, the five arithmetic instructions, Negate, "
            "Increment and the Store boundary, for the ten integer kinds and constant operands (int and small float64 "
            "constants): for ALL values the instruction result equals the documented rule (docRule, transcribed from "
            "docs/LANGUAGE.md#typeConversion), results wrap like Go (stated against BitVec), the fused Increment equals "
            "Load/Push/Add/Store, unary minus is total on signed kinds. The per-operator dispatch sets are REGENERATED from "
            "math.go on every run (go/ast) and their completeness is re-proved by `decide`; the model is tied to the code by "
            "a differential run of the real instruction functions and of the real compiler on x++ / x += k / x = x + k at "
            "optimizer levels 0 and 2 in all three type modes, where the target x is a plain variable, an array element "
            "(constant and variable index), a struct field, a map element or an array inside a struct, with model-free "
            "oracles (Go's own typed arithmetic: the target keeps its declared type and holds wrap(T, old ± k); float32/"
            "float64 targets are covered by these oracles only).",
    "note": "trusted: Lean kernel; tools/extract_c03 (go/ast pass) and the harnesses; modelled-not-verified: float32/float64/"
            "complex operand VALUES (only their result kind class `float`), ego.runtime.precision.error=true, strings/bools/"
            "arrays as operands, the argument/return coercion boundaries (covered by C04's harness only), exponent and bit ops. "
            "CoerceLossless's float64 round-trip test is modelled as exact representability (argued in Model.lean).",
    "technique": "Lean 4 proof over a regenerated dispatch table + model/implementation correspondence",
    "design_ref": "DESIGN.md §6 C03",
}

KINDS = {"byte", "int8", "int16", "uint16", "int32", "uint32", "int", "uint", "int64", "uint64"}
FUNCS = {"addByteCode": "add", "subtractByteCode": "sub", "multiplyByteCode": "mul", "divideByteCode": "div",
         "moduloByteCode": "mod", "negateByteCode": "neg", "incrementByteCode": "incr"}


def extract(ctx):
    """T1: dispatch sets of math.go's type switches (innermost switch of each function)."""
    tool = os.path.join(os.path.dirname(os.path.dirname(os.path.abspath(__file__))), "tools", "extract_c03")
    p = subprocess.run(["go", "run", ".", os.path.join(ctx.tree, "internal/language/bytecode/math.go")], cwd=tool,
                       env=dict(os.environ, GOFLAGS="-mod=mod", GOPROXY="off", GOTOOLCHAIN="local"),
                       stdout=subprocess.PIPE, stderr=subprocess.PIPE, text=True)
    if p.returncode != 0:
        ctx.broken.append("translator extract_c03 failed: " + p.stderr[-500:])
        return None
    sets = {}
    for sw in json.loads(p.stdout):
        name = FUNCS.get(sw["func"])
        if not name:
            continue
        kinds = [c for case in sw["cases"] for c in case if c in KINDS]
        # the arithmetic dispatch is the switch with the most integer cases in the function
        if len(kinds) > len(sets.get(name, [])):
            sets[name] = kinds
    missing = [f for f in FUNCS.values() if f not in sets]
    if missing:
        ctx.broken.append("translator: no type switch found for " + ",".join(missing))
        return None
    return sets


def gen_lean(sets):
    def lst(ks):
        return "[" + ", ".join("." + k for k in ks) + "]"
    return f"""import EgoVerif.C03.Props
open EgoVerif.C03
/-- dispatch sets extracted from internal/language/bytecode/math.go of the tree under check -/
def genD : Dispatch :=
  {{ add := {lst(sets['add'])}, sub := {lst(sets['sub'])}, mul := {lst(sets['mul'])}, div := {lst(sets['div'])},
    mod := {lst(sets['mod'])}, neg := {lst(sets['neg'])}, incr := {lst(sets['incr'])} }}
theorem gen_complete : genD.complete = true := by decide
theorem gen_binop_doc (strict : Bool) (op : Op) (a b : Operand) :
    binop genD strict op a b = docRule strict op a b := C03_binop_doc genD gen_complete strict op a b
theorem gen_neg_total (k : Kind) (hs : k.signed = true) (n : Int) :
    negate genD (.var k n) = .ok k (wrap k (-n)) ∧ negate genD (.const k n) = .ok k (wrap k (-n)) :=
  C03_neg_total genD gen_complete k hs n
theorem gen_fused_eq_unfused (m : Mode) (kx : Kind) (nx : Int) (c : Operand) :
    increment genD m kx nx c = stmtUnfused genD m .add kx nx c := C03_fused_eq_unfused_any genD gen_complete m kx nx c
#print axioms gen_binop_doc
#print axioms gen_fused_eq_unfused
"""


def run(ctx):
    ctx.trusted += ["translator tools/extract_c03 (go/ast, fails closed)", "harnesses zz_verif_c03_test.go in bytecode/ and compiler/"]
    ctx.assumptions += ["ego.runtime.precision.error = false (default)", "operand values: integer kinds, int constants, float64 constants 0..127(.5)"]
    ctx.lean_audit(required=["C03_binop_doc", "C03_wrap_bitvec", "C03_neg_total", "C03_fused_eq_unfused", "C03_fused_eq_unfused_any",
                             "C03_incr_keeps_type", "C03_strict_lossless", "C03_const_adapts"])
    if not ctx.quick:
        ctx.leanchecker()
    ctx.prepare_tree()
    sets = extract(ctx)
    header = []
    if sets:
        ok, out = ctx.lean_obligation("GenC03", gen_lean(sets))
        if ok and ("sorryAx" in out or "Lean.ofReduceBool" in out):
            ctx.broken.append("generated obligation depends on a forbidden axiom")
        header = ["D %s %s" % (k, ",".join(v) if v else "-") for k, v in sorted(sets.items())]
        ctx.coverage["dispatch_sets"] = sets
    rc, out = ctx.go_test("./internal/language/bytecode/", "TestVerifC03", timeout=1500)
    if rc != 0:
        ctx.log(out[-3000:])
        ctx.broken.append("harness TestVerifC03 failed to run (rc=%d)" % rc)
    rc2, out2 = ctx.go_test("./internal/language/compiler/", "TestVerifC03Source", timeout=1500)
    if rc2 != 0:
        ctx.log(out2[-3000:])
        ctx.broken.append("harness TestVerifC03Source failed to run (rc=%d)" % rc2)
    cases = ctx.read_jsonl("c03_cases.jsonl")
    scases = ctx.read_jsonl("c03s_cases.jsonl")
    hdr = [{"in": h, "impl": "ok"} for h in header]
    ctx.correspond(hdr + cases, label="instruction-level correspondence")
    ctx.correspond(hdr + scases, label="source-level statement correspondence")
    for name in ("c03_failures.jsonl", "c03s_failures.jsonl"):
        for f in ctx.read_jsonl(name):
            ctx.fail(f["class"], f["what"], input=f.get("input"), got=f.get("got"), want=f.get("want"))
    st = (ctx.read_jsonl("c03_stats.json") or [{}])[0]
    st2 = (ctx.read_jsonl("c03s_stats.json") or [{}])[0]
    c = dict(st.get("counters", {}))
    c.update({"source." + k: v for k, v in st2.get("counters", {}).items()})
    ctx.coverage.update({
        "evaluations": len(cases) + len(scases),
        "distinct_nontrivial": c.get("distinct_nontrivial", 0) + c.get("source.distinct_nontrivial", 0),
        "rule": "instruction cells: operator × strictness × operand pair (variable/constant of each integer kind, float constants; "
                "boundary + random values), executed on a real Context; non-trivial = operands differ in kind or constness, distinct "
                "by protocol line. statement cells: Load/Push/op/Store vs fused Increment in 3 modes. source cells: real compiler on "
                "x++ / x += k / x = x + k (and - forms), 6 target shapes (variable, a[1], a[i], s.f, m[\"k\"], s.a[1]) × 10 integer kinds "
                "+ float32/float64 × boundary starts × 3 modes × optimizer {0,2}",
        "samples": st.get("samples", []) + st2.get("samples", [])[:3],
        "counters": c,
    })
    return ctx.finish()
