"""C30 — the struct-backed resource store behaves like a keyed record set."""

META = {
    "level": "proof",
    "text": "Lean model of internal/resources in two layers — the handle layer (newFilter and the Equals/NotEquals/"
            "LessThan/GreaterThan wrappers, the where/and loop shared by generateReadSQL, Update and Delete, Create/"
            "CreateIf/Insert/ReadOne/DeleteOne/UpdateOne, SetDefaultPrimaryKey) producing clauses with $N "
            "placeholders and an argument list, and a database layer giving those clauses a semantics (syntax, "
            "column resolution by SQL name, placeholder lookup, comparison, primary-key uniqueness). Theorem: for "
            "EVERY history of operations the answers equal those of a plain in-memory list of records "
            "(C30_refines_table), keys stay unique, the generated WHERE is always syntactically well formed, an "
            "unknown column makes the operation fail and change nothing, nil filters mean no constraint. Tied to the "
            "code by random histories on a real SQLite file (3 handle configurations) diffed against the model, "
            "generateReadSQL text diffed against the model's text, and a model-free Go oracle (a keyed slice).",
    "note": "The model mirrors the code WITH fixes/C30.patch (newFilter returns an invalid filter instead of nil for "
            "an unknown column; Read/Update/Delete refuse invalid filters and choose where/and by the number of "
            "filters already emitted; UpdateOne looks its key column up by field name). On the unpatched tree the "
            "check reports VIOLATION (classes invalid-column-filter, nil-first-filter, updateone-renamed-key); "
            "theorems C30_old_* are the Lean counterexamples for the old code. Trusted: Lean kernel; SQLite "
            "(modernc) as the executor of the generated SQL, abstracted by Db.* in Model.lean (statement-level "
            "atomicity, BINARY collation, rowid/primary-key uniqueness); database/sql argument binding; Go "
            "reflection in describe/explode/Read (exercised by the oracle, not modelled: uuid/json columns are "
            "TEXT values in the model). Assumptions: ASCII field names (EqualFold modelled exactly for those), "
            "filter values of the column's own type, records of the handle's struct type, r.Err never written by "
            "callers (asserted nil after every call). Sort/OrderBy is not modelled (results compared as sets).",
    "technique": "Lean 4 proof (refinement by per-operation simulation, induction over histories) + "
                 "model/implementation correspondence + independent in-memory oracle",
    "design_ref": "DESIGN.md §6 C30",
}

REQUIRED = ["C30_refines_table", "C30_keys_unique", "C30_impl_keys_unique", "C30_where_wellformed",
            "C30_invalid_column_fails", "C30_nil_is_no_filter",
            "C30_old_invalid_column_counterexample", "C30_old_nil_first_counterexample"]


def run(ctx):
    ctx.trusted += ["SQLite (modernc.org/sqlite) executes the generated SQL; abstracted by Db.* in Model.lean",
                    "correspondence harness internal/resources/zz_verif_c30_test.go + egodriver C30"]
    ctx.assumptions += ["field names of the record type are ASCII; filter values have the column's type",
                        "records passed to Insert/Update are of the handle's struct type (Op.shaped)",
                        "SQL column names pairwise distinct, field names distinct up to case folding (Schema.WF)"]
    ctx.lean_audit(required=REQUIRED)
    if not ctx.quick:
        ctx.leanchecker()
    ctx.prepare_tree()
    rc, out = ctx.go_test("./internal/resources/", "TestVerifC30", timeout=1500)
    if rc != 0:
        ctx.log(out[-3000:])
        ctx.broken.append("harness TestVerifC30 failed to run (rc=%d)" % rc)
    cases = ctx.read_jsonl("c30_cases.jsonl")
    ctx.correspond(cases)
    for f in ctx.read_jsonl("c30_failures.jsonl"):
        ctx.fail(f["class"], f["what"], input=f.get("input"), got=f.get("got"), want=f.get("want"))
    st = (ctx.read_jsonl("c30_stats.json") or [{}])[0]
    c = st.get("counters", {})
    ctx.coverage.update({
        "evaluations": len(cases),
        "histories": c.get("histories", 0),
        "distinct_nontrivial": c.get("distinct_nontrivial", 0),
        "rule": "distinct calls (protocol line) that run on a non-empty table and are either Read/Update/Delete with at "
                "least one non-nil filter or ReadOne/DeleteOne/UpdateOne; histories mix valid spellings (case, KELVIN "
                "SIGN, LONG S), invalid column names, literal nil filters, quotes/NUL/invalid UTF-8 in values, "
                "duplicate keys, operations before Create",
        "samples": st.get("samples", []),
        "counters": c,
    })
    return ctx.finish()
