"""C02 — performance settings never change program behaviour."""
import json, os, subprocess, threading

META = {
    "level": "proof",
    "text": "The peephole rule table is REGENERATED from optimizations.go on every run (go/ast translator, fails closed) and "
            "every extracted rule must be literally one of the rule shapes with a Lean soundness proof (`decide`); "
            "C02_rule_sound proves, for each of the 23 rules, for EVERY placeholder binding the matcher can produce, EVERY "
            "machine state (value stack with markers and frame pointer, scope chain with read-only flags, receiver stack, "
            "line) and EVERY value-level primitive (arithmetic, comparison, coercion are parameters), that pattern and "
            "replacement have the same outcome (state or error class) under an explicit side condition per rule "
            "(`Table.lean`; trivial for 9 rules), with counterexample theorems showing the conditions are needed. "
            "Constant folding: C02_fold_sound (the optimizer's fast path = the instruction's result) and the fused "
            "increment (C02_incr_law_concrete) on the concrete int/string primitives. The instruction semantics is tied "
            "to the code by executing every rule's pattern and the REAL optimizer's rewrite on real Contexts "
            "(differential against the model + model-free oracle pattern = replacement), and the whole property by "
            "running the tests/ corpus and generated programs in-process across optimizer {0,1,2,3} x registers x "
            "constfold x globalcache x type mode, one process per symbol allocation size, comparing stdout + error text. "
            "The assignment boundary (checkType / checkTypeRegister) is covered systematically: probe programs assign untyped "
            "literals of every numeric flavour, other constants and typed values to a parameter, `:=` local, `var` local, named "
            "result and loop variable of each of the 12 numeric kinds inside register-eligible functions, in every type mode "
            "(a divergent probe program is shrunk before it is reported); and at the primitive level Store/StoreRegister, "
            "CreateAndStore/CreateAndStoreRegister and Load/LoadRegister are run on the same destination and operand values "
            "(plain and constant-wrapped, every kind, every mode) and must agree — inside the model's value domain both sides "
            "of the store pair are also lines for the model's `store`.",
    "note": "partial: slots/registers, the global cache and compile-time const folding are covered by the whole-program "
            "oracle only (no model: C02_slots_refine / C02_globalcache_refine of DESIGN.md are not stated). C02_patch_preserves is proved "
            "for the model's `run` (Branch/BranchTrue/BranchFalse/Stop over `step1`), `patch` and `guardOK`; the matcher loop of "
            "ByteCode.optimize (scan order, back-up, dispatch table) is not modelled — its single rewrites are what the rule-level "
            "harness takes from the real optimizer. Trusted: Lean kernel; tools/extract_c02; "
            "the harnesses. The value model has int/string/bool/nil/undefined/markers/container identities; mixed-type "
            "arithmetic, coercion at the Store boundary and data.Int of non-integers are `unmodelled` (skipped, counted). "
            "Error outcomes compare the error class, not the state at the time of the error (try/catch recovery inside a "
            "rewritten window is outside the model). Rule side conditions exclude states the compiler does not produce "
            "(e.g. a StackMarker under `Store _`, Push nil before StoreIndex, a non-string LoadThis name). "
            "Known findings on the current tree: the global cache and registers change behaviour for late/shadowing "
            "local declarations and out-of-scope uses (classes gcache:late-shadow, regs:shadow-const, regs:out-of-scope-use). "
            "Repaired in /repo (8fe48709): a parallel assignment `x, y = a, b` to register locals did not compile with registers on (was class regs:parallel-assign). "
            "Repaired in /repo (ea96483d): the fused Increment now reports an unknown variable and stores through Store's type "
            "boundary exactly like the Load/Push/Add/Store sequence it replaces (was class opt:relaxed-nonconst-step; the model's "
            "stepIncrement and IncrLaw carry that checkType, so a strict-mode Increment of a constant symbol is ErrInvalidVarType), and LoadThis "
            "unwraps constants.",
    "technique": "Lean 4 proof over a regenerated rule table + model/implementation correspondence + configuration cross-product oracle",
    "design_ref": "DESIGN.md §6 C02",
}

HERE = os.path.dirname(os.path.dirname(os.path.abspath(__file__)))
REQUIRED = ["C02_rule_sound", "C02_rule_sound_of_mem", "C02_fold_sound", "C02_incr_law_concrete", "C02_fold_rule_concrete",
            "C02_storeDiscard_counterexample", "C02_storeIndex_nil_counterexample", "C02_storeAlways_const_counterexample",
            "C02_loadThis_nonstring_counterexample", "C02_guard_needed_counterexample", "C02_patch_preserves",
            "C02_rules_straight_line"]


def extract(ctx):
    """T1: the rule table of optimizations.go as Lean data."""
    tool = os.path.join(HERE, "tools", "extract_c02")
    p = subprocess.run(["go", "run", ".", os.path.join(ctx.tree, "internal/language/bytecode/optimizations.go")], cwd=tool,
                       env=dict(os.environ, GOFLAGS="-mod=mod", GOPROXY="off", GOTOOLCHAIN="local"),
                       stdout=subprocess.PIPE, stderr=subprocess.PIPE, text=True)
    if p.returncode != 0:
        ctx.broken.append("translator extract_c02 failed: " + p.stderr[-500:])
        return None
    return p.stdout


def gen_lean(table):
    return ("import EgoVerif.C02.Props\nopen EgoVerif.C02\n"
            "/-- rule table extracted from internal/language/bytecode/optimizations.go of the tree under check -/\n"
            + table +
            "\n/-- every extracted rule is literally one of the rules with a soundness proof -/\n"
            "theorem gen_all_proved : genRules.all (fun r => provedRules.contains r.2) = true := by decide\n"
            "theorem gen_rule_sound (P : Prim) : ∀ r ∈ genRules, ∃ e ∈ table, e.rule = r.2 ∧ SoundUnder P e.rule e.exact (e.side P) := by\n"
            "  intro r hr\n"
            "  exact C02_rule_sound_of_mem P r.2 (List.all_eq_true.mp gen_all_proved r hr)\n"
            "#print axioms gen_rule_sound\n")


def run(ctx):
    ctx.trusted += ["translator tools/extract_c02 (go/ast, fails closed)",
                    "harnesses zz_verif_c02*_test.go in internal/language/bytecode and internal/commands"]
    ctx.assumptions += ["rule side conditions of lean/EgoVerif/C02/Table.lean (states the compiler produces)",
                        "IncrLaw (fused increment = Add + Store boundary): proved for the concrete int/string primitives; "
                        "for the integer kinds it is property C03's C03_fused_eq_unfused",
                        "fixes/C02.patch applied (incrementByteCode reports an unknown variable as Load does; loadThisByteCode unwraps a constant as Load does)"]
    mods = ["EgoVerif.C02." + m for m in ("Props", "Concrete", "Table", "Shapes", "Shapes2", "Shapes3", "Patch", "PatchSim",
                                          "PatchFwd", "PatchIdx", "PatchDefs", "Run")]
    ctx.lean_audit(modules=mods, required=REQUIRED)
    if not ctx.quick:
        ctx.leanchecker(modules=["EgoVerif.C02.Props"])
    ctx.prepare_tree()
    ctx.log("tree prepared")
    table = extract(ctx)
    if table:
        ok, out = ctx.lean_obligation("GenC02", gen_lean(table))
        if ok and ("sorryAx" in out or "Lean.ofReduceBool" in out):
            ctx.broken.append("generated obligation depends on a forbidden axiom")
        ctx.coverage["rules_extracted"] = table.count("⟩)")

    # (a) single rules on a real Context
    rc, out = ctx.go_test("./internal/language/bytecode/", "TestVerifC02", timeout=3000, extra=["-trimpath"])
    ctx.log("rule-level harness done")
    if rc != 0:
        ctx.log(out[-3000:])
        ctx.broken.append("harness TestVerifC02 failed to run (rc=%d)" % rc)
    cases = ctx.read_jsonl("c02_cases.jsonl")
    # the model says `unmodelled` outside its value domain; the harness prints x:<type> for Go values outside it
    if cases:
        outs = ctx.driver([c["in"] for c in cases])
        kept, unmodelled, bad = 0, 0, 0
        for c, m in zip(cases, outs):
            if m == "unmodelled" or "x:" in c["impl"] or c["impl"].startswith("err other"):
                unmodelled += 1
                continue
            kept += 1
            if c["impl"] != m:
                bad += 1
                if len(ctx.disagreements) < 50:
                    ctx.disagreements.append({"corr": "rule-level", "in": c["in"], "impl": c["impl"], "model": m, "desc": c.get("desc", "")})
        if bad:
            ctx.broken.append("rule-level correspondence: %d/%d lines differ between model and implementation" % (bad, kept))
        ctx.coverage["rule_lines_compared"] = kept
        ctx.coverage["rule_lines_unmodelled"] = unmodelled
    for f in ctx.read_jsonl("c02_failures.jsonl"):
        ctx.fail(f["class"], f["what"], input=f.get("input"), got=f.get("got"), want=f.get("want"))

    # (b) whole programs: one process per allocation size (1 and 7 are clamped to the minimum 16 by the CLI)
    allocs = [32, 16, 1024] if ctx.quick else [32, 16, 17, 1024]
    results = {}

    def one(alloc):
        env = {"VERIF_C02_ALLOC": alloc}
        if alloc != 32:
            env["VERIF_C02_SAMPLE"] = "1"
        results[alloc] = ctx.go_test("./internal/commands/", "TestVerifC02Programs", env=env, timeout=6000, extra=["-trimpath"])
        ctx.log("program harness alloc=%d done" % alloc)

    # build once, then the other sizes in parallel
    one(allocs[0])
    ts = [threading.Thread(target=one, args=(a,)) for a in allocs[1:]]
    for t in ts:
        t.start()
    for t in ts:
        t.join()
    for a in allocs:
        rc, out = results[a]
        timed_out = any(f["class"] == "diverge:timeout" for f in ctx.read_jsonl("c02p_failures_%d.jsonl" % a))
        if rc != 0 and not timed_out:   # the watchdog ends the process after recording the non-terminating configuration
            ctx.log(out[-3000:])
            ctx.broken.append("harness TestVerifC02Programs alloc=%d failed to run (rc=%d)" % (a, rc))

    counters, samples, by_key = {}, [], {}
    for a in allocs:
        for f in ctx.read_jsonl("c02p_failures_%d.jsonl" % a):
            ctx.fail(f["class"], f["what"], input=f.get("input"), got=f.get("got"), want=f.get("want"))
        st = (ctx.read_jsonl("c02p_stats_%d.json" % a) or [{}])[0]
        for k, v in st.get("counters", {}).items():
            counters["alloc%d.%s" % (a, k)] = v
        if a == 32:
            samples = st.get("samples", [])
        for it in ctx.read_jsonl("c02p_results_%d.jsonl" % a):
            by_key.setdefault((it["id"], it["mode"]), {})[a] = it
    # direct oracle across processes: same (program, mode) => same baseline result for every allocation size
    cross = 0
    for (pid, mode), per in sorted(by_key.items()):
        if len(per) < 2:
            continue
        cross += 1
        ref = per.get(32) or per[sorted(per)[0]]
        for a, it in sorted(per.items()):
            if it["key"] != ref["key"]:
                ctx.fail("diverge:alloc", "program output or error differs between symbol-table allocation sizes",
                         input="alloc=%d vs alloc=%d mode=%s program:\n%s" % (a, ref["alloc"], mode, it.get("src") or "tests/" + pid),
                         got="out=%r err=%r" % (it.get("out", "")[-600:], it.get("err", "")),
                         want="out=%r err=%r" % (ref.get("out", "")[-600:], ref.get("err", "")))
                break

    st = (ctx.read_jsonl("c02_stats.json") or [{}])[0]
    rc_ = st.get("counters", {})
    counters.update({"rules." + k: v for k, v in rc_.items()})
    ctx.coverage.update({
        "evaluations": len(cases) + sum(v for k, v in counters.items() if k.endswith(".runs")),
        "distinct_nontrivial": rc_.get("distinct_nontrivial", 0) + counters.get("alloc32.distinct_nontrivial", 0),
        "cross_allocation_comparisons": cross,
        "rule": "rule level: distinct (rule, instantiated pattern, state) triples on which the REAL optimizer fired (hostile "
                "placeholder values: nil, markers, constants, `_`/`_ro`/empty/non-string names; states: 1-3 scopes with plain, "
                "read-only and undefined symbols, stacks with markers/containers, frame pointer at/above/below the stack). "
                "program level: distinct programs whose baseline output exceeds 40 bytes; generated from increment forms on "
                "10 integer types, constant comparisons, `_ =`, nested blocks, constant expressions, globals read/written at "
                "several call depths, closures, late/shadowing declarations, methods, indexed stores, try/catch, defer, "
                "run-time errors, constants and typed values of another numeric type assigned to numeric locals and parameters; "
                "store-boundary probe programs (numeric kind x declaration form x assigned value); const-named binder "
                "probes (variadic / ordinary parameter or receiver carrying the name of a package-level const x "
                "defer / go / channel / capturing closure / none x read position x const declared before or after); "
                "plus the tests/ corpus "
                "through the `ego test` pipeline. primitive level: distinct (mode, destination value, operand) triples run "
                "through the name-based and the register opcode",
        "samples": ((st.get("samples") or [])[:3] + (samples or [])[:3]),
        "counters": counters,
    })
    return ctx.finish()
