"""C35 — langlint formatting never changes the message table."""

META = {
    "level": "proof",
    "text": "Lean theorems over line-by-line models of langlint's Format (parse/splitEntry/render/duplicateKeyWarnings, "
            "tools/langlint/lint.go, with fixes/C35.patch) and of the message compiler's reader (compileFile, "
            "tools/lang/compile.go): for EVERY file on which Format succeeds, the compiler builds exactly the same "
            "key->message table from the formatted text (C35_table), formatting again changes nothing (C35_idempotent), "
            "and a key is reported as duplicate exactly when the compiler assigns it more than once (C35_dup_reported). "
            "Both models are tied to the code by a differential run of the real Format and the real compileFile on "
            "generated files; model-free oracles compare the two compiled maps, re-format, and compare the compiler's own "
            "'Duplicate message' reports with langlint's warnings.",
    "note": "trusted: Lean kernel; the two-stage harness (tools/langlint then tools/lang, both package main). "
            "Modelled over List Char: files are assumed valid UTF-8 (byte order = code-point order); non-UTF-8 inputs are "
            "covered by the oracles only. sort.SliceStable is modelled as THE stable sort (insertion sort). Brace-balance "
            "warnings are not modelled (they do not influence the output). 'fails without touching it' is an oracle on "
            "lintFile, not a theorem. Unpatched /repo violates the property (space-variant keys, indented '[' lines).",
    "technique": "Lean 4 proof (invariants over the parse loop, stable-sort commutation, re-parse of rendered blocks) "
                 "+ model/implementation correspondence",
    "design_ref": "DESIGN.md §6 C35",
}


def run(ctx):
    ctx.trusted += ["correspondence harness tools/langlint/zz_verif_c35_test.go + tools/lang/zz_verif_c35_test.go + egodriver C35",
                    "strings.TrimSpace = unicode.IsSpace trimming; Go string order = code-point order on valid UTF-8"]
    ctx.assumptions += ["message files are valid UTF-8 (theorems); arbitrary bytes are covered by the oracles only",
                        "sort.SliceStable is a stable sort (its result is then unique: modelled by insertion sort)"]
    # Props imports Lemmas: the axiom audit of the Props theorems covers every lemma they use
    ctx.lean_audit(required=["C35_table", "C35_idempotent", "C35_dup_reported"])
    if not ctx.quick:
        ctx.leanchecker(["EgoVerif.C35.Lemmas", "EgoVerif.C35.Props"])
    ctx.prepare_tree()
    rc, out = ctx.go_test("./tools/langlint/", "TestVerifC35", timeout=1500)
    if rc != 0:
        ctx.log(out[-3000:])
        ctx.broken.append("harness TestVerifC35 (tools/langlint) failed to run (rc=%d)" % rc)
    else:
        rc, out = ctx.go_test("./tools/lang/", "TestVerifC35", timeout=1500)
        if rc != 0:
            ctx.log(out[-3000:])
            ctx.broken.append("harness TestVerifC35 (tools/lang) failed to run (rc=%d)" % rc)
    cases = ctx.read_jsonl("c35_cases.jsonl")
    cases2 = ctx.read_jsonl("c35_cases2.jsonl")
    if not cases or not cases2:
        ctx.broken.append("harness produced no correspondence cases")
    ctx.correspond(cases, label="Format vs model")
    ctx.correspond(cases2, label="compileFile vs model")
    for name in ("c35_failures.jsonl", "c35_failures2.jsonl"):
        for f in ctx.read_jsonl(name):
            ctx.fail(f["class"], f["what"], input=f.get("input"), got=f.get("got"), want=f.get("want"))
    st = (ctx.read_jsonl("c35_stats.json") or [{}])[0]
    st2 = (ctx.read_jsonl("c35_stats2.json") or [{}])[0]
    c = dict(st.get("counters", {}))
    c.update(st2.get("counters", {}))
    ctx.coverage.update({
        "evaluations": len(cases) + len(cases2),
        "distinct_nontrivial": c.get("distinct_nontrivial", 0),
        "rule": "files: fixed corpus, the repository's message files (and shuffled prefixes), grammar stream (entries over a tiny "
                "key alphabet with space/tab/NBSP variants or k0..k59, sections incl. clashing 's'+'t.k' / 's.t'+'k', comments, "
                "indented '#', blank lines, CRLF, hostile lines: indented/unterminated headers, empty keys, missing '='), raw stream "
                "incl. invalid UTF-8; non-trivial = Format succeeds AND changes the file (distinct inputs)",
        "samples": st.get("samples", []),
        "counters": c,
    })
    return ctx.finish()
