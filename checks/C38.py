"""C38 — Every user-visible message has localized text."""
import json
import os
import re
import shutil

from verifpy.lib import VERIF, ALLOWED_AXIOMS

META = {
    "level": "proof",
    "text": "Regenerated model: on every run tools/extract_c38 (go/ast) extracts every constant message key that "
            "reaches the catalog (i18n.T/Text/L/M/E/LLang/MLang/ELang, errors.Message incl. all Err* of "
            "internal/errors/messages.go, key-shaped ui.Log/WriteLog/Say formats) and the key->language->text table of "
            "the four language files exactly as tools/lang/compile.go builds it (English-identical translations elided), "
            "and emits Lean rows (<=100 per chunk, `decide +kernel` each, combined by allOk_append). Lean theorems "
            "C38_resolves / C38_placeholders lift the chunks to: every key x every shipped language resolves through "
            "strings.go translate (own entry or English fallback) to non-empty text with exactly the English placeholder "
            "set. C38_negotiate is unbounded: for EVERY header, ParseFloat behaviour and comparison, NegotiateLanguage "
            "answers \"\" or a supported language. Tie: generated messages map == extracted table entry by entry; real "
            "Text() on every key x language vs the Lean translate; real NegotiateLanguage vs the Lean model on hostile "
            "headers; direct oracle through the real subs engine for placeholders; direct negotiation oracle = a reference "
            "implementation of the documented matching (lower-cased tag / primary subtag EQUAL to a shipped code, highest q, "
            "leftmost among equals) on every generated header incl. case-folding-hostile non-ASCII tags, replayed through "
            "router.negotiateLanguage (Accept-Language) and admin.resolveDashboardLanguage (?lang=).",
    "note": "trusted: Lean kernel; the go/ast translator (its sink table fails closed on unclassified i18n functions); "
            "the harness. Keys that reach the catalog through variables (CLI grammar Description fields, re-thrown error "
            "texts, Ego-language callers: 101 dynamic call sites, listed in evidence coverage.dynamic_sites) are NOT "
            "covered - the property quantifies over constant keys. errors.Message codes starting with '_' are flow "
            "signals (not localized by design) and excluded. Placeholders are compared as SETS of names (the part of "
            "{{name|format}} before the first '|'). strconv.ParseFloat / float '>' are parameters of the negotiation "
            "model; the driver instance is exact on decimals of <=15 digits and answers 'oom' elsewhere (those headers "
            "are still checked by the oracle). sort.SliceStable = stable insertion sort assumes '>' is a strict weak "
            "order (false only for NaN qualities). Non-ASCII lower-casing is not modelled beyond U+0130/U+212A; the "
            "harness checks on every run that no other code point lower-cases into ASCII. Current tree: 28 keys have no "
            "text in any language (raw key shown) - recorded per key x language in known_findings.d/C38.json.",
    "technique": "Lean 4 proof (regenerated finite table, chunked kernel decide + lifting lemmas; unbounded negotiation "
                 "theorem) + translator + model/implementation correspondence",
    "design_ref": "DESIGN.md §6 C38",
}

REQUIRED = ["C38_resolves", "C38_placeholders", "C38_negotiate", "C38_negotiate_from_header", "C38_negotiate_best",
            "allOk_append"]


def run(ctx):
    ctx.trusted += ["translator tools/extract_c38 (go/ast, stdlib only): sink table + re-implementation of tools/lang/compile.go, "
                    "cross-checked entry by entry against the real generated messages map at run time",
                    "correspondence harness internal/i18n/zz_verif_c38_test.go + egodriver C38",
                    "github.com/tucats/subs is the reference for what a placeholder is (direct oracle substitutes through it)"]
    ctx.assumptions += ["message keys passed through variables are out of scope (constant keys only)",
                        "strconv.ParseFloat and float comparison are parameters of the negotiation model (theorems hold for all instances)",
                        "no code point other than A-Z, U+0130, U+212A lower-cases into ASCII (checked every run)"]
    ctx.lean_audit(required=REQUIRED)
    if not ctx.quick:
        ctx.leanchecker()
    ctx.log("lean audit done")
    ctx.prepare_tree()
    ctx.log("tree prepared")

    # ---- translator: run inside the scratch tree on the CURRENT source
    xdir = os.path.join(ctx.tree, "tools", "verif_extract_c38")
    os.makedirs(xdir, exist_ok=True)
    shutil.copy(os.path.join(VERIF, "tools", "extract_c38", "main.go"), os.path.join(xdir, "main.go"))
    known = {k["class"]: k for k in ctx.known_findings()}
    kpath = os.path.join(ctx.out, "c38_known.json")
    with open(kpath, "w") as f:
        json.dump(sorted(c for c in known if re.match(r"^(missing|empty|placeholders):[^:]*:", c)), f)
    rc, out = ctx.go(["run", "./tools/verif_extract_c38", "-repo", ".", "-out", ctx.out, "-known", kpath], timeout=900)
    ctx.log(out.strip()[-1500:])
    ok_x = rc == 0 and os.path.exists(os.path.join(ctx.out, "C38Gen.lean"))
    ctx.obligations.append(("translator:extract_c38", ok_x, "go run ./tools/verif_extract_c38 (fails closed on unknown syntax)"))
    facts = {}
    if not ok_x:
        ctx.broken.append("translator extract_c38 failed (rc=%d): %s" % (rc, out.strip()[-400:]))
    else:
        facts = json.load(open(os.path.join(ctx.out, "c38_facts.json")))
        for v in json.load(open(os.path.join(ctx.out, "c38_violations.json"))):
            ctx.fail(v["class"], v["what"], input="key=%s lang=%s site=%s" % (v["key"], v["lang"], v.get("site", "")),
                     got=v.get("got"), want=v.get("want"), source="translator")
        # ---- generated obligations (chunks + lifted theorems)
        with open(os.path.join(ctx.out, "C38Gen.lean")) as f:
            gen = f.read()
        ok, lout = ctx.lean_obligation("C38Gen", gen, timeout=1500)
        ctx.log("generated obligations checked: %s" % ok)
        for m in re.finditer(r"'([^']+)' depends on axioms: \[(.*?)\]", lout, re.S):
            axs = [a.strip() for a in m.group(2).split(",") if a.strip()]
            bad = [a for a in axs if a not in ALLOWED_AXIOMS]
            ctx.obligations.append(("generated:" + m.group(1), not bad, "axioms=" + ",".join(axs)))
            if bad:
                ctx.broken.append("generated theorem %s depends on %s" % (m.group(1), bad))
        if ok and lout.count("depends on axioms") < 2:
            ctx.broken.append("generated obligation C38Gen did not report its axioms")

        # ---- harness on the real code
        rc, out = ctx.go_test("./internal/i18n/", "TestVerifC38", timeout=1500)
        if rc != 0:
            ctx.log(out[-3000:])
            ctx.broken.append("harness TestVerifC38 failed to run (rc=%d)" % rc)
        else:
            # ---- the same headers through the request-level entry points (Session.Language, dashboard ego-lang)
            for pkg, test in (("./internal/router/", "TestVerifC38Router"), ("./internal/server/admin/", "TestVerifC38Admin")):
                rc, out = ctx.go_test(pkg, test, timeout=900)
                if rc != 0:
                    ctx.log(out[-3000:])
                    ctx.broken.append("harness %s failed to run (rc=%d)" % (test, rc))

    ctx.log("harness done")
    cases = ctx.read_jsonl("c38_cases.jsonl")
    oom = 0
    nneg = 0
    if cases:
        outs = ctx.driver([c["in"] for c in cases])
        bad = 0
        for c, m in zip(cases, outs):
            if c["in"].startswith("neg "):
                nneg += 1
                if m == "oom":          # the model declares the q= value outside its decimal domain
                    oom += 1
                    continue
            if c["impl"] != m:
                bad += 1
                if len(ctx.disagreements) < 50:
                    ctx.disagreements.append({"corr": "correspondence", "in": c["in"], "impl": c["impl"], "model": m,
                                              "desc": c.get("desc", "")})
        if bad:
            ctx.broken.append("correspondence: %d/%d lines differ between model and implementation" % (bad, len(cases)))
        if nneg and oom * 4 > nneg:
            ctx.broken.append("negotiation model declared %d/%d headers out of its domain (> 25%%)" % (oom, nneg))
    elif ok_x:
        ctx.broken.append("harness produced no correspondence cases")

    seen = set()
    for f in ctx.read_jsonl("c38_failures.jsonl") + ctx.read_jsonl("c38_failures_router.jsonl") + ctx.read_jsonl("c38_failures_admin.jsonl"):
        ctx.fail(f["class"], f["what"], input=f.get("input"), got=f.get("got"), want=f.get("want"), source="harness")
        seen.add(f["class"])
    stale = sorted(c for c in known if c not in {f["class"] for f in ctx.failures})
    if stale:
        ctx.notes.append("known findings no longer observed: " + ", ".join(stale[:10]))
        ctx.log("note: %d known finding(s) no longer observed (e.g. %s)" % (len(stale), stale[0]))

    st = (ctx.read_jsonl("c38_stats.json") or [{}])[0]
    c = st.get("counters", {})
    for name in ("c38_stats_router.json", "c38_stats_admin.json"):
        for k, v in (ctx.read_jsonl(name) or [{}])[0].get("counters", {}).items():
            c[k] = c.get(k, 0) + v
    streams = sum(v for k, v in c.items() if k in ("neg_corpus", "neg_hostile_corpus", "neg_long", "neg_hostile", "neg_structured", "neg_junk"))
    if ok_x and (c.get("neg_oracle_judged", 0) < max(streams, nneg) or not c.get("router_headers") or not c.get("admin_params")):
        ctx.broken.append("the reference oracle judged %d of %d generated headers (%d sent to the model); entry points replayed %d / %d"
                          % (c.get("neg_oracle_judged", 0), streams, nneg, c.get("router_headers", 0), c.get("admin_params", 0)))
    ctx.coverage.update({
        "evaluations": len(cases),
        "distinct_nontrivial": c.get("distinct_nontrivial", 0),
        "rule": "lookups: every constant source key x every shipped language (+ unknown languages/keys, whole catalog in a random "
                "language); non-trivial = (key, language) pairs whose text carries placeholders. negotiation: fixed nasty corpus, "
                "structured headers (shipped/unshipped tags, case, regions, Unicode blanks, 50 q= shapes, long tie-heavy lists), raw junk "
                "incl. invalid UTF-8 (oracle only), hostile tags derived from the shipped codes (case-kin code points from a scan of the "
                "unicode tables, full-width/mathematical/circled letters, homoglyphs, marks, zero-width, invalid UTF-8, affixes; alone and "
                "above a shipped language), very long tags; EVERY header (also out-of-model ones) is judged by the reference matching "
                "oracle (counters.neg_oracle_judged), and a sample is replayed through router.negotiateLanguage and "
                "admin.resolveDashboardLanguage; non-trivial = distinct headers with a ',' or ';' that select a language",
        "samples": st.get("samples", []),
        "counters": c,
        "negotiation_cases": nneg,
        "negotiation_out_of_model": oom,
        "languages": facts.get("langs"),
        "catalog_keys": facts.get("catalog_keys"),
        "source_keys": facts.get("source_keys"),
        "signal_keys": facts.get("signal_keys"),
        "sinks": facts.get("sinks"),
        "dynamic_total": facts.get("dynamic_total"),
        "dynamic_sites": facts.get("dynamic_sites"),
        "catalog_keys_not_referenced_by_a_constant": facts.get("catalog_keys_not_referenced_by_a_constant"),
        "stale_known_findings": stale,
    })
    return ctx.finish()
