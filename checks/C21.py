"""C21 — native bearer tokens are honoured exactly while valid."""
import os
import subprocess
import threading

META = {
    "level": "proof",
    "text": "Lean theorems over an executable model of tokens.Validate/Unwrap, cipher.Validate/Extract, the router's "
            "bearer branch, tokens.Blacklist/Delete/Flush/IsBlacklisted and internal/caches (expiring map + sweeper "
            "goroutine, capacity): for EVERY sequential history of issue / blacklist / delete-from-blacklist / flush / "
            "purge of any cache / time advance / validation on any path, and every presented string, the verdict is "
            "'accepted' iff the string is an unaltered token issued under the current key, now <= Expires and its id "
            "is not on the revocation list after that history (C21_accept_iff; invariant: every BlacklistCache entry "
            "equals the table's answer and every TokenCache entry decrypts to its value and is not revoked). The model "
            "is tied to the code by a differential run inside testing/synctest bubbles (virtual clock) against the real "
            "functions and REST handlers with SQLite-backed blacklist and credentials, comparing verdicts AND the sizes "
            "of TokenCache/BlacklistCache/AuthCache after every operation, and by a model-free oracle (per-token "
            "issued-with-key/expiry/name and the set of revoked ids kept by the harness). Concurrent histories are "
            "searched, not proved: a real-time stream runs validations (IsBlacklisted, IsIDBlacklisted, Validate, Unwrap, "
            "cipher.Validate, router) overlapping Blacklist/Delete/Flush/cache purges - with the lookup parked at its audit "
            "update behind a held SQLite write lock, in free-running pairs, and in storms - and checks at the quiescent "
            "point (all goroutines joined) that repeated fresh validations agree with the table: revoked => rejected, "
            "not revoked => accepted. The router's TokenCache write-back against a concurrent Blacklist is exercised "
            "deterministically: the router validation is parked at the AUTH log line between its revocation lookup and "
            "its cache write (log output to a full pipe) while Blacklist runs to completion (class "
            "conc-router-cache-after-purge; repaired by fixes/C21-2.patch: write back first, look at the revocation "
            "list once more, take a revoked token out again - the model mirrors the repaired code).",
    "note": "trusted: Lean kernel; the correspondence harness; encoding/hex (decides 'unaltered': a hex-case change "
            "is the same token). Crypto enters as the parameter dec with hypothesis AEAD (a string decrypts iff its "
            "bytes are those sealed under the current key) - C27 is about the framing; the harness tests AEAD on every "
            "single-byte substitution position (all non-hex bytes; a sample of byte-changing hex digits in quick, "
            ">= 2 per position and all 15 on the framing bytes in thorough), deletions, insertions, truncations. "
            "Expiry is `time.Since(Expires) > 0`: a token is still accepted AT its Expires instant. The router "
            "authenticates only tokens with a non-empty Name (explicit conjunct in the theorem). Concurrent "
            "histories are outside the theorems (the model is sequential): they are searched by the concurrent stream, "
            "which judges quiescent points only (a verdict obtained during an overlap may linearise either way). "
            "Why the repaired write-back is right under concurrency is an argument, not a theorem: Blacklist inserts "
            "and purges TokenCache under the revocation list's mutex, the router's second lookup takes the same mutex "
            "after its cache Add, so it either follows the whole Blacklist (sees the row, removes the entry) or precedes "
            "its purge (which removes the entry). Out of scope: a remote authority, SQLite errors, a server with no "
            "blacklist database (Blacklist is then a documented no-op: the list is always empty). The token key is "
            "fixed while the server runs (ego.server.token.key is in defs.ReadonlySetting; a key change would not "
            "purge TokenCache).",
    "technique": "Lean 4 proof (invariant over all op lists) + model/implementation correspondence under synctest "
                 "+ concurrent quiescent-point oracle (real goroutines; SQLite write lock / stalled log consumer held to "
                 "widen the windows)",
    "design_ref": "DESIGN.md §6 C21",
}

PKG = "./internal/server/admin/"


def _run_shards(ctx, shards, timeout):
    """build the test binary once, then run `shards` copies in parallel (the harness is bound by
    Argon2 key derivations: one per decrypt)"""
    binp = os.path.join(ctx.scratch, "c21.test")
    rc, out = ctx.go(["test", "-c", "-tags", "verif", "-vet=off", "-o", binp, PKG], timeout=1800)
    if rc != 0:
        ctx.log(out[-4000:])
        ctx.broken.append("harness TestVerifC21 failed to build (rc=%d)" % rc)
        return
    results = {}

    def one(i):
        env = dict(os.environ)
        env.update({"VERIF_OUT": ctx.out, "VERIF_SEED": str(ctx.seed), "VERIF_TIER": ctx.tier,
                    "VERIF_SHARD": "%d/%d" % (i, shards), "GOMAXPROCS": "2",
                    "TMPDIR": os.path.join(ctx.scratch, "tmp")})
        try:
            p = subprocess.run([binp, "-test.run", "^TestVerifC21$", "-test.timeout", "%ds" % timeout],
                               cwd=os.path.join(ctx.tree, PKG), env=env, stdout=subprocess.PIPE,
                               stderr=subprocess.STDOUT, text=True, timeout=timeout + 60)
            results[i] = (p.returncode, p.stdout)
        except subprocess.TimeoutExpired as e:
            results[i] = (124, "timeout: %s" % e)

    os.makedirs(os.path.join(ctx.scratch, "tmp"), exist_ok=True)
    def conc():
        # the concurrent stream (zz_verif_c21_conc_test.go): real goroutines, real time, its own databases
        env = dict(os.environ)
        env.update({"VERIF_OUT": ctx.out, "VERIF_SEED": str(ctx.seed), "VERIF_TIER": ctx.tier, "GOMAXPROCS": "4",
                    "TMPDIR": os.path.join(ctx.scratch, "tmp")})
        try:
            p = subprocess.run([binp, "-test.run", "^TestVerifC21Conc$", "-test.timeout", "%ds" % timeout],
                               cwd=os.path.join(ctx.tree, PKG), env=env, stdout=subprocess.PIPE,
                               stderr=subprocess.STDOUT, text=True, timeout=timeout + 60)
            results["conc"] = (p.returncode, p.stdout)
        except subprocess.TimeoutExpired as e:
            results["conc"] = (124, "timeout: %s" % e)

    def race():
        # thorough only: the quick-sized concurrent stream under the race detector (Argon2 is ~10x slower there)
        rc, out = ctx.go_test(PKG, "TestVerifC21Conc", race=True, timeout=timeout,
                              env={"VERIF_TIER": "quick", "VERIF_C21_SUFFIX": "race", "GOMAXPROCS": "4"})
        results["race"] = (rc, out)

    ths = [threading.Thread(target=one, args=(i,)) for i in range(shards)] + [threading.Thread(target=conc)]
    if not ctx.quick:
        ths.append(threading.Thread(target=race))
    for t in ths:
        t.start()
    for t in ths:
        t.join()
    for i in sorted(results, key=str):
        rc, out = results[i]
        if rc != 0:
            ctx.log("shard %s:\n%s" % (i, out[-3000:]))
            ctx.broken.append("harness TestVerifC21 shard %s failed to run (rc=%d)" % (i, rc))


def run(ctx):
    ctx.trusted += ["encoding/hex (Go stdlib) decides whether a presented text carries the issued bytes",
                    "translator: none; correspondence harness internal/server/admin/zz_verif_c21_test.go + egodriver C21; "
                    "concurrent stream internal/server/admin/zz_verif_c21_conc_test.go (direct oracle only)",
                    "testing/synctest virtual clock; modernc SQLite as the blacklist / credentials store"]
    ctx.assumptions += ["AEAD: under the current key exactly the byte-identical copies of strings sealed with it decrypt "
                        "(hypothesis of C21_accept_iff; tested on every mutation the harness presents)",
                        "the theorems are about sequential histories (concurrent ones are searched at quiescent points only); "
                        "the token key does not change while the server runs",
                        "issued strings are fresh (random salt, nonce, uuid)"]
    ctx.lean_audit(required=["C21_accept_iff", "C21_accept_iff_decrypts", "C21_accept_iff_model",
                             "C21_altered_rejected", "C21_revocation_immediate", "C21_unrevoke_restores",
                             "C21_caches_transparent", "C21_paths_agree"])
    if not ctx.quick:
        ctx.leanchecker()
    ctx.prepare_tree()
    shards = int(os.environ.get("VERIF_SHARDS", "6" if ctx.quick else "8"))
    _run_shards(ctx, shards, timeout=1500 if ctx.quick else 3000)

    cases, counters, samples = [], {}, []
    for i in range(shards):
        cs = ctx.read_jsonl("c21_cases.%d.jsonl" % i)
        if not cs:
            ctx.broken.append("shard %d produced no cases" % i)
        cases += cs
        for f in ctx.read_jsonl("c21_failures.%d.jsonl" % i):
            ctx.fail(f["class"], f["what"], input=f.get("input", "")[-1500:], got=f.get("got"), want=f.get("want"))
        st = (ctx.read_jsonl("c21_stats.%d.json" % i) or [{}])[0]
        for k, v in st.get("counters", {}).items():
            counters[k] = counters.get(k, 0) + v
        samples += st.get("samples", [])[:2]
    # concurrent stream: direct oracle only (no model of interleavings)
    for name in ["conc"] + ([] if ctx.quick else ["race"]):
        for f in ctx.read_jsonl("c21_failures.%s.jsonl" % name):
            ctx.fail(f["class"], f["what"], input=f.get("input", "")[-1500:], got=f.get("got"), want=f.get("want"))
        st = (ctx.read_jsonl("c21_stats.%s.json" % name) or [{}])[0]
        if not st.get("counters", {}).get("conc_quiescent_reads"):
            ctx.broken.append("concurrent stream (%s) made no quiescent reads" % name)
        for k, v in st.get("counters", {}).items():
            if name == "conc" or k == "oracle_failures":
                counters[k] = counters.get(k, 0) + v
    ctx.correspond(cases)
    ctx.coverage.update({
        "evaluations": len(cases),
        "distinct_nontrivial": counters.get("distinct_nontrivial", 0),
        "rule": "distinct histories (hash of their operation lines) that contain at least one non-trivial validation: "
                "of a current-key token whose id has been revoked at some earlier point, or served from the router's "
                "TokenCache, or within 1 s of its expiry, or of a mutated token string. Histories: fixed corpus + random "
                "over 2-4 tokens (own/foreign key, named/unnamed/unknown user, lifetimes 45 s..1 h, cache capacity "
                "1/2/1000, advances landing on expiry and sweeper wake-ups); mutation history: single-byte substitutions "
                "at every position, deletions, insertions, truncations, swaps. Not counted here: the concurrent stream "
                "(counters conc_*: parked / free / storm rounds and quiescent-point reads)",
        "samples": samples[:6],
        "counters": counters,
    })
    return ctx.finish()
