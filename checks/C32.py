"""C32 — route resolution is deterministic and most specific."""

META = {
    "level": "proof",
    "text": "Lean theorems over a line-by-line model of Router.FindRoute (with fixes/C32.patch): for EVERY route table, "
            "method and path the answer is invariant under every permutation of the table (the Go map's iteration / "
            "registration order), any sorting algorithm yields the same candidate order, the chosen route is a matching "
            "route with the fewest variables among all matching routes (path without '{{'), 404 iff nothing matches. "
            "Tied to the code by a differential run of the real FindRoute against the model on generated ambiguous tables "
            "and on the server's real route table (built by setupServerRouter), plus model-free oracles: same answer over "
            "fresh routers / shuffled registration / repeated calls, chosen route eligible on its own, fewest variables.",
    "note": "The unpatched tree violates the property (ties broken by map iteration order; routes with >= 100 variables "
            "dereference nil): fixes/C32.patch sorts the candidates by (endpoint, method, ANY last) and drops the "
            "sentinel; the model mirrors the PATCHED code, `findRouteRaw`/C32_raw_counterexample document the old one. "
            "Trusted: Lean kernel; sort.Slice returns a sorted permutation (then C32_sort_unique makes it unique); "
            "strings.* primitives as modelled on bytes; correspondence harness. Request methods are modelled for ASCII "
            "(net/http only admits token methods). Modelled, not verified: ui.Log calls, Route.Lock.",
    "technique": "Lean 4 proof (permutation invariance via uniqueness of sorted permutations; loop invariant of the "
                 "fewest-variables scan) + model/implementation correspondence + model-free determinism oracle",
    "design_ref": "DESIGN.md §6 C32",
}

REQUIRED = ["C32_perm_invariant", "C32_sort_unique", "C32_fewest_vars", "C32_answer_is_candidate",
            "C32_not_found_iff", "C32_never_nil", "C32_patch_conservative", "C32_raw_counterexample"]


# -trimpath: the scratch tree has a new path on every run; without it nothing is reused from the Go build cache
TRIM = ["-trimpath"]


def run(ctx):
    ctx.trusted += ["Go sort.Slice yields a permutation ordered by `less` (uniqueness then proved: C32_sort_unique)",
                    "translator: none; correspondence harnesses internal/router/zz_verif_c32_test.go and "
                    "internal/commands/zz_verif_c32_real_test.go + egodriver C32"]
    ctx.assumptions += ["request method is ASCII (net/http rejects non-token methods); strings are compared bytewise",
                        "the route table is only changed through Router.New (keys (endpoint, method) are unique)"]
    ctx.lean_audit(required=REQUIRED)
    if not ctx.quick:
        ctx.leanchecker()
    ctx.prepare_tree()

    rc, out = ctx.go_test("./internal/router/", "TestVerifC32", timeout=1500, extra=TRIM)
    if rc != 0:
        ctx.log(out[-3000:])
        ctx.broken.append("harness TestVerifC32 failed to run (rc=%d)" % rc)
    rc, out = ctx.go_test("./internal/commands/", "TestVerifC32Real", timeout=1500, extra=TRIM)
    if rc != 0:
        ctx.log(out[-3000:])
        ctx.broken.append("harness TestVerifC32Real failed to run (rc=%d)" % rc)

    cases = ctx.read_jsonl("c32_cases.jsonl")
    real = ctx.read_jsonl("c32_real_cases.jsonl")
    if not cases:
        ctx.broken.append("no correspondence cases from TestVerifC32")
    if not real:
        ctx.broken.append("no correspondence cases from TestVerifC32Real")
    ctx.correspond(cases, label="generated tables")
    ctx.correspond(real, label="real route table")       # stateful: `table …` lines then `tfind …`

    for name in ("c32_failures.jsonl", "c32_real_failures.jsonl"):
        for f in ctx.read_jsonl(name):
            ctx.fail(f["class"], f["what"], input=f.get("input"), got=f.get("got"), want=f.get("want"))

    st = (ctx.read_jsonl("c32_stats.json") or [{}])[0]
    rs = (ctx.read_jsonl("c32_real_stats.json") or [{}])[0]
    c, rc_ = st.get("counters", {}), rs.get("counters", {})
    table = ctx.read_jsonl("c32_real_table.jsonl")
    ctx.coverage.update({
        "evaluations": len(cases) + len(real),
        "distinct_nontrivial": c.get("distinct_nontrivial", 0) + rc_.get("distinct_nontrivial", 0),
        "distinct_ties": c.get("distinct_ties", 0) + rc_.get("distinct_ties", 0),
        "rule": "a case is (table, method, path); non-trivial = at least two routes of the table are eligible on their own "
                "(FindRoute has to choose); tie = two eligible routes share the smallest variable count. Generated tables: "
                "families of patterns over one base path (literal/variable/glob per segment, trailing-slash twins, same endpoint "
                "under ANY + specific methods, '/', '', no leading slash, braces in literals, >=100 variables); paths: the base, "
                "truncated, extended, doubled slash, empty segment, a pattern's own text, '', '/'. Each case: 3 fresh routers "
                "(shuffled registration) x 3 calls (corpus: 12 x 6). Real table: every pattern instantiated with sibling "
                "literals / empty / plain values x methods, on the server's router and fresh shuffled copies.",
        "real_table_routes": {"default": rc_.get("real.routes.default", 0), "oauth": rc_.get("real.routes.oauth", 0)},
        "real_table_dump_rows": len(table),
        "real_cases": rc_.get("real.cases", 0),
        "real_multi_candidate": rc_.get("real.multi-candidate", 0),
        "samples": (st.get("samples", []) + rs.get("samples", []))[:8],
        "counters": {"generated": c, "real": rc_},
    })
    return ctx.finish()
