"""C27 — decryption never accepts a forged ciphertext (util.Decrypt, settings.Decrypt, tokens.Unwrap)."""
from concurrent.futures import ThreadPoolExecutor

META = {
    "level": "proof",
    "text": "Lean theorems over an exact model of the FRAMING of util.Decrypt, settings.Decrypt and tokens.Unwrap "
            "(magic / prefix dispatch, salt and nonce split, length guards, base64 / hex transport), with AES-GCM, "
            "the KDFs and the transport decoders as a structure parameter: for EVERY input and passphrase a returned "
            "text is the result of gcm.Open on a correctly split frame under the key derived from the caller's "
            "passphrase (no success path bypasses the AEAD); on every well-formed frame the answer is exactly the "
            "AEAD's verdict; Decrypt(Encrypt p k) k = p for all p, k, salt, nonce; under the functional GCM law "
            "(open k n c = some p -> c = seal k n p) every accepted string IS an honest encryption of the returned "
            "text under that passphrase, hence every input shorter than nonce+tag is an error. The model is tied to "
            "the code by a differential run of the real Encrypt/Decrypt/New/Unwrap/Validate on honest ciphertexts of "
            "all formats and on every truncation, an edit at every position, extensions, splices, prefix/magic swaps, "
            "transport damage and wrong keys (passphrases of 0..1000 bytes, incl. 128-character token-like keys, "
            "against keys differing by one bit at a chosen byte position, a suffix, a cut, letter case, a trailing NUL); each line carries the REAL primitives' verdicts (Go crypto, computed by "
            "the harness) and the model's framing must select the same one. A model-free oracle checks round trip, "
            "rejection of everything else, and that any returned text is authenticated by AES-GCM itself.",
    "note": "ASSUMED (computational, not provable as a function property): AES-GCM unforgeability / wrong-key "
            "rejection, and that Argon2id/PBKDF2/MD5/SHA-256 keys of different passphrases differ — the theorems "
            "reduce acceptance to the AEAD's own verdict and stop there. Trusted: Lean kernel; Go crypto/aes, "
            "crypto/cipher, x/crypto argon2+pbkdf2, encoding/base64, encoding/hex as reference primitives; the "
            "harness. The model mirrors the code WITH fixes/C27.patch (short-input guards return an error); the "
            "unpatched tree is characterised by C27_short_input_counterexample / C27_unpatched_partial and the check "
            "reports a VIOLATION with the failing input on it. Hex digits' case is treated as the same token string. "
            "Known finding (low severity, printed as KNOWN-FINDING): settings ciphertext strings have base64 aliases "
            "(CR/LF ignored, non-zero trailing bits) that are accepted and return the ORIGINAL text "
            "(C27_settings_alias_same_verdict shows they can never yield a different text). Known finding (low "
            "severity): the KDF-injectivity assumption is FALSE for the legacy v2 util format — PBKDF2-HMAC pads "
            "the passphrase with NUL bytes, so k and k+NUL open the same ciphertext (class v2-hmac-equivalent-key).",
    "technique": "Lean 4 proof (case analysis over the dispatcher, list take/drop lemmas; primitives as a structure "
                 "with hypotheses) + model/implementation correspondence with primitive verdicts supplied per line",
    "design_ref": "DESIGN.md §6 C27",
}

REQUIRED = [
    "C27_util_success_needs_open", "C27_util_v3_verdict", "C27_util_v2_verdict", "C27_util_legacy_verdict",
    "C27_util_roundtrip", "C27_util_other_key_verdict", "C27_util_reject_else", "C27_util_forged_is_error", "C27_util_min_length",
    "C27_util_short_is_error", "C27_short_input_counterexample", "C27_unpatched_partial",
    "C27_settings_success_needs_open", "C27_settings_v3_verdict", "C27_settings_roundtrip",
    "C27_settings_reject_else", "C27_settings_alias_same_verdict", "C27_settings_min_length",
    "C27_token_success_needs_open", "C27_token_roundtrip", "C27_token_reject_else",
]

PARTS = [
    ("util", "./internal/util/"),
    ("settings", "./internal/cli/settings/"),
    ("tokens", "./internal/language/tokens/"),
]


def run(ctx):
    ctx.trusted += ["Go crypto/aes, crypto/cipher, golang.org/x/crypto (argon2, pbkdf2), encoding/base64, encoding/hex "
                    "are the reference primitives whose verdicts the harness hands to the model",
                    "translator: none; correspondence harnesses zz_verif_c27_test.go in internal/util, "
                    "internal/cli/settings, internal/language/tokens + egodriver C27"]
    ctx.assumptions += ["AES-GCM is unforgeable and rejects a ciphertext under a different key (computational; the "
                        "theorems reduce every acceptance to gcm.Open's verdict under the caller's key)",
                        "functional GCM laws as hypotheses (structure Laws): open(seal p) = p; open c = p -> c = seal p; "
                        "|seal p| = |p| + 16; base64/hex decode(encode b) = b",
                        "the model is of the tree with fixes/C27.patch applied"]
    ctx.lean_audit(required=REQUIRED)
    if not ctx.quick:
        ctx.leanchecker()
    ctx.log("lean audit done")
    ctx.prepare_tree()
    ctx.log("tree prepared")
    # build once (shared build cache), then run the three harnesses side by side: each spends
    # most of its time in 32 MiB Argon2id derivations
    ctx.go(["test", "-tags", "verif", "-vet=off", "-count=1", "-run", "^$"] + [p for _, p in PARTS], timeout=1500)
    ctx.log("harnesses built")
    with ThreadPoolExecutor(max_workers=len(PARTS)) as ex:
        futs = [(name, ex.submit(ctx.go_test, pkg, "TestVerifC27", None, 3000)) for name, pkg in PARTS]
        results = [(name, f.result()) for name, f in futs]
    for name, (rc, out) in results:
        ctx.log("harness %s: %s" % (name, (out.strip().splitlines() or ["?"])[-1]))
        if rc != 0:
            ctx.log(out[-3000:])
            ctx.broken.append("harness TestVerifC27 (%s) failed to run (rc=%d)" % (name, rc))
    total, nontriv, counters, samples = 0, 0, {}, []
    for name, _ in PARTS:
        cases = ctx.read_jsonl("c27_%s_cases.jsonl" % name)
        if not cases:
            ctx.broken.append("harness %s produced no cases" % name)
        ctx.correspond(cases, label="correspondence(%s)" % name)
        total += len(cases)
        for f in ctx.read_jsonl("c27_%s_failures.jsonl" % name):
            ctx.fail(f["class"], "%s: %s" % (name, f["what"]), input=f.get("input"), got=f.get("got"), want=f.get("want"))
        st = (ctx.read_jsonl("c27_%s_stats.json" % name) or [{}])[0]
        c = st.get("counters", {})
        nontriv += c.get("distinct_nontrivial", 0)
        for k, v in c.items():
            counters["%s.%s" % (name, k)] = v
        samples += st.get("samples", [])[:3]
    ctx.coverage.update({
        "evaluations": total,
        "distinct_nontrivial": nontriv,
        "rule": "inputs = honest ciphertexts of every format (v3 from the real Encrypt/New; v2 and legacy built with Go crypto), "
                "every truncation, an edit at every position (sparse for the Argon2id format in the quick tier: header "
                "truncations, region boundaries, one position per region), extensions, magic/prefix swaps, splices, "
                "string-level base64/hex damage, wrong passphrases, a key sweep (passphrase lengths 0,1,15,16,17,31,32,33,63,64,65,100,"
                "128,255,256,1000 x keys that differ from the honest one by one bit at a byte position — every position for the "
                "MD5/SHA-256-keyed formats, boundary positions for PBKDF2, last byte / byte 64 for Argon2id in the quick tier — "
                "or by an appended suffix, a cut, letter case, a trailing NUL), junk; non-trivial = distinct (input, passphrase) that is "
                "NOT an honest ciphertext under that passphrase and is long enough (>= nonce+tag) that gcm.Open is consulted",
        "samples": samples,
        "counters": counters,
    })
    return ctx.finish()
