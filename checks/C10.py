"""C10 — try/catch and defer run exactly when documented."""

META = {
    "level": "proof",
    "text": "Lean small-step model of the VM fragment that carries control (value stack with try markers and call "
            "frames, try stack, per-frame defer stacks, child contexts for deferred calls, panic state and "
            "panicContext chain; handleCatch, unwindPanic, invokeDeferredStatements/invokePanicDefers, callFramePop) "
            "plus compileCtl (the code skeletons of compileTry/compileDefer/compileReturn/iterationFor/break/continue) "
            "and a big-step source semantics CtlSpec. Proved for ALL stacks/try stacks/defer lists (unbounded call "
            "depth and nesting): an error is transferred to the innermost live try's catch, that entry is spent so it "
            "is never used twice, frames in between are popped; with no live try the context stops with the error and "
            "nothing more is emitted; deferred calls of an activation are started once each, last registered first, on "
            "RunDefers and on panic unwinding; a recover in a deferred call makes unwindPanic pop exactly the panicking "
            "frame and resume its caller; a return whose RunDefers is directly followed by Return (bare return, end of body, "
            "`return <expr>` with NAMED results) starts the activation's deferred calls once each, last first, and the next "
            "step is back in the caller with the caller's defer list (C10_return_defers_once_partial; excluded: `return <expr>` "
            "with UNNAMED results, where the code evaluates <expr> between RunDefers and Return). Tie: every run compares (a) the REAL compiler's control skeleton with "
            "compileCtl, (b) the REAL VM's marker trace at optimizer 0 and 2 with the VM model and with CtlSpec, for "
            "generated programs nesting try/catch, defer, panic/recover, loops with break/continue, `if` on a loop counter "
            "(so a return written ahead of the function's defer statements is executed after they registered calls), calls and functions "
            "with an unnamed / a named result whose return statements carry an expression that emits, raises or panics; "
            "direct oracles: a reference interpreter written from the documented semantics checks the real traces and the "
            "sequence of deferred calls started (each registered call once, last registered first), and — needing no "
            "reference at all — no deferred call is started more often than its defer statement was executed.",
    "note": "trusted: Lean kernel; the harness; the reference interpreter's reading of docs/LANGUAGE.md (+ Go's rules for "
            "defer/panic/recover). Modelled-not-verified: value stack reduced to try markers and frames, symbol tables "
            "reduced to loop counters, catch sets = catch-all (no `?` operator), three-clause loops only, `if` only as "
            "`if <loop counter> == <constant>` without else. The refinement "
            "traceVM (compileCtl p) = traceSpec p is NOT proved (def C10_compile_correct_statement); it is checked by "
            "correspondence on every run. The property is silent about an ERROR leaving an activation (Ego abandons its "
            "deferred calls); the oracle follows Ego there. For `return <expr>` with an UNNAMED result the oracle follows Ego's own tests "
            "(tests/defer/basic.ego, tests/flow/defer.ego: deferred calls run BEFORE <expr> is evaluated) and then demands "
            "exactly once. Known findings (each with a Lean _counterexample): a panic raised inside a deferred call; an "
            "error escaping a deferred call into the function's own try; recover() in a nested deferred call reaching an "
            "outer panic; deferred calls run a second time when the expression of an unnamed-result return panics or raises "
            "an error caught in the same function (moving RunDefers behind the expression breaks 7 of the project's tests, "
            "so it is recorded, not repaired). Requires fixes/C10.patch (two compiler defects "
            "that made errors miss an active try).",
    "technique": "Lean 4 proof (induction over stacks / try stacks / defer lists of a small-step VM model) + "
                 "compiler-skeleton and trace correspondence + reference-interpreter oracle",
    "design_ref": "DESIGN.md §6 C10",
}

REQUIRED = ["C10_catch_once", "C10_catch_never_twice", "C10_uncaught_stops", "C10_defer_lifo_once",
            "C10_defer_lifo_once_partial", "C10_defer_lifo_once_unwind", "C10_recover_stops_panic",
            "C10_recover_resumes_caller", "C10_unrecovered_keeps_unwinding", "C10_compile_sizes",
            "C10_return_defers_once_partial", "C10_return_shapes",
            "C10_defer_abort_counterexample", "C10_defer_twice_counterexample",
            "C10_recover_outer_counterexample", "C10_return_expr_twice_counterexample"]


def run(ctx):
    ctx.trusted += ["reference interpreter c10Ref (harness) = documented semantics; Go rules for defer/panic/recover",
                    "correspondence harness internal/language/compiler/zz_verif_c10*_test.go + egodriver C10"]
    ctx.assumptions += ["the value stack holds only try markers and call frames between control instructions of the fragment",
                        "the frame pointer designates the topmost call frame on the stack",
                        "refinement compileCtl/VM vs CtlSpec is corresponded, not proved"]
    ctx.lean_audit(required=REQUIRED)
    if not ctx.quick:
        ctx.leanchecker()
    ctx.prepare_tree()
    rc, out = ctx.go_test("./internal/language/compiler/", "TestVerifC10", timeout=3000, extra=["-trimpath"])
    if rc != 0:
        ctx.log(out[-3000:])
        ctx.broken.append("harness TestVerifC10 failed to run (rc=%d)" % rc)
    cases = ctx.read_jsonl("c10_cases.jsonl")
    if not cases:
        ctx.broken.append("harness produced no cases")
    ctx.correspond([c for c in cases if c["in"].startswith("vm ")], label="trace: real VM (opt 0) vs VM model")
    ctx.correspond([c for c in cases if c["in"].startswith("spec ")], label="trace: real VM (opt 2) vs CtlSpec")
    ctx.correspond([c for c in cases if c["in"].startswith("skel ")], label="skeleton: real compiler vs compileCtl")
    for f in ctx.read_jsonl("c10_failures.jsonl"):
        ctx.fail(f["class"], f["what"], input=f.get("input"), got=f.get("got"), want=f.get("want"))
    st = (ctx.read_jsonl("c10_stats.json") or [{}])[0]
    c = st.get("counters", {})
    ctx.coverage.update({
        "evaluations": len(cases),
        "distinct_nontrivial": c.get("distinct_nontrivial", 0),
        "rule": "programs of 1-4 functions (no result / one unnamed / one named result) over emit/raise/panic/try-catch/"
                "defer-closure/call/return/return-with-expression (mkv(k) | f() | 1/zero)/loop/break/continue/"
                "recover/if-on-the-counter-of-an-enclosing-loop, a quarter of the functions (and any nested position) from the family "
                "'loop whose body leaves the function on pass k >= 1 (return / return <expr> / break / continue under `if i == k`, "
                "optionally under a try) and registers 1-2 deferred calls BEHIND it in text order on the earlier passes (optionally "
                "inside a try body, catch block, inner loop or `if i == j`)' (counters ref_late_return_programs, ref_late_returns, "
                "ref_late_return_defers: returns executed with only later-written defers registered / calls registered then), "
                "half of the other result functions from the family '0-3 deferred calls, then return <expr>, under a try "
                "of the same function or not, in a loop or not' (counters shape_ret_<kind>_defers<n>_<try|plain>, "
                "ref_ret_expr_with_defers, ref_ret_expr_failed), nesting depth <= 6 (quick) / 12 (thorough) plus up to 7 levels of the biased shape family "
                "(iteration left by break/continue from a catch block or try body 1-3 try levels inside the loop, the "
                "loop 1-4 try/loop levels inside an outer try whose body raises again afterwards; counted by "
                "ref_catch_left_by_break_continue / ref_catch_after_catch_left), fixed corpus of nasty shapes first; each program "
                "gives 3 protocol lines (vm, spec, skel); non-trivial = the reference run used at least two of: a catch, "
                "a recover, an error/panic crossing a deferred call or abandoning defers, call depth > 2, a return "
                "expression evaluated with deferred calls registered, a return executed while all registered deferred calls "
                "come from defer statements written behind it",
        "samples": st.get("samples", []),
        "counters": c,
    })
    return ctx.finish()
