"""C07 — no source text crashes the host process (PARTIAL: proof for the indexing primitives, search for the rest)."""
import os
import subprocess

META = {
    "level": "proof",
    "text": "PARTIAL (proved: the raw-indexing primitives never panic; searched by fuzzing: the rest of the compiler/VM). "
            "Lean theorems over executable models of the token cursor (Next/Peek/Advance/IsNext/AnyNext/Set/Mark/Delete/Insert/"
            "GetTokenText/GetTokens/Remainder), the VM value stack + call frames (push/Pop/callFramePush/callFramePop/readStack/"
            "stackCheck/drop/dup/swap) and data.Array (Get/Set/SetAlways/Append/GetSlice/GetSliceAsArray/SetSize/Delete): for EVERY "
            "token list / array size, EVERY call sequence and EVERY operand (negative, huge, wrapping, forged frames) the run "
            "ends without a Go panic (Go's index, slice and make are partial operations in an Except monad; proofs by induction "
            "over the call sequence with a bounds invariant). Also proved, over a model of data.Channel on Go's native channel "
            "(FIFO wait queues; `ch <- v` on a closed channel and close of a closed channel are panics, also for a sender that is "
            "already PARKED when another goroutine closes): for EVERY channel size and EVERY schedule of Send/Receive/Close/Len/"
            "Cap/IsOpen/IsEmpty calls made by concurrent goroutines no Go panic leaves a call (invariant isOpen = !closed, and "
            "Send's deferred recover; C07_chan_norecover_counterexample: without a working recover the parked sender kills the "
            "process). Tied to the code by (T2c) deterministic schedules on the real data.Channel under testing/synctest, one "
            "goroutine per call, completions per step compared with the model, plus a racing hammer (senders, receivers, two "
            "closers, prober at a barrier) whose oracle is: no panic reaches the top of a goroutine, exactly one Close wins, "
            "every value whose Send returned nil is received exactly once; by (T2) differential runs of random call sequences "
            "against the real functions under recover() and (T1) a go/ast pass that lists every raw index/slice on X.Tokens / "
            "c.stack and every raw write to TokenP/stackPointer/framePointer OUTSIDE the modelled functions; the generated Lean "
            "obligation is that this list equals the committed, reviewed allow-list. "
            "SEARCH (fuzzing, not proof): in-process compile+run through executeAdminEgo (the /admin/run worker, also fed line by "
            "line REPL-style) and the `ego test` pipeline of a nasty corpus, token-level mutations of tests/*.ego, generated "
            "programs aimed at partial operations, concurrent programs (goroutines + channels + sync: senders and receivers parked "
            "while another goroutine closes, double close, close racing sends, closed and nil channels), byte noise and deep "
            "nesting, and constant-expression programs (literals of every integer width, / and % by a literal zero, MinInt64 / -1, "
            "huge and negative shift counts, out-of-range conversions, constant indexing) run at EVERY optimizer level 0-3 "
            "(ego.compiler.optimize; at 1-3 the peephole optimizer evaluates them inside ByteCode.Seal while compiling; the other "
            "generators run a share of their cases a second time at a level 1-3), under recover(), a SIGINT deadline and a heap "
            "watchdog, in child processes so that runtime fatals (stack overflow) are attributed to an input.",
    "note": "trusted: Lean kernel; tools/extract_c07 (go/ast, syntactic: field names Tokens/stack/TokenP/stackPointer/framePointer); "
            "the T2 harnesses; the reviewed allow-list (lean/EgoVerif/C07/Sites.lean) — its entries are reviewed, not proved. "
            "Modelled, not verified: slice capacity (the model checks slice bounds against len, Go against cap>=len); slices have "
            "< 2^63 elements; Pop's Immutable unwrapping, symbol-table and profiling side effects of callFramePush/Pop; array element "
            "type coercion in Array.Set (elements are ints in range); the channel model takes one call at a time (a call completes "
            "or parks before the next starts; the window INSIDE Send between the IsOpen test and the native send is not a step "
            "of the model — only the racing hammer and the concurrent Ego programs reach it), values are ints, "
            "trace logging and String() are not modelled. NOT covered by any proof: nil dereferences, type assertions, "
            "unbounded recursion and every other crash path in the ~40 kLoC that call the primitives — those are only searched. "
            "The real REPL reader (commands/run.go line continuation on stdin) and the HTTP layer of /admin/run are not driven; "
            "their workers are. The model mirrors the code WITH fixes/C07.patch (guards in callFramePop, readStackByteCode, "
            "stackCheckByteCode); the patch also repairs two defects found by the search: zero-argument math.Max/Min/Sum "
            "(slice [1:0]), the source text `x := [:]` (unbounded recursion parseArray <-> compileArrayRangeInitializer: fatal stack "
            "overflow in the compiler), make() with a size beyond Go's allocation limit (makeslice panic) and the debugger's getLine on a comment-only / empty-string command (index [-1] in the debugger "
            "goroutine: kills the server from /admin/run debug mode). Left as known findings: self-referential maps/arrays "
            "overflow the Go stack in the formatter / JSON sanitizer (fatal, unrecoverable). Repaired later in /repo (c3e03a6e): the "
            "exponent operator with a float base and a non-float exponent (1.5 ^ 2) panicked in exponentByteCode.",
    "technique": "Lean 4 proof (induction over call sequences, Except-monad model of Go partial operations) + go/ast translator "
                 "obligation + model/implementation correspondence + budgeted fuzz search",
    "design_ref": "DESIGN.md §6 C07",
}

REQUIRED = ["C07_cursor_total", "C07_cursor_no_panic", "C07_stack_total", "C07_stack_no_panic",
            "C07_array_total", "C07_array_no_panic", "C07_array_get_out_of_range", "C07_stack_unfixed_counterexample",
            "C07_chan_step_total", "C07_chan_no_panic", "C07_chan_close_wakes", "C07_chan_norecover_counterexample"]


def translator(ctx):
    tool = os.path.join(os.path.dirname(os.path.dirname(os.path.abspath(__file__))), "tools", "extract_c07")
    env = dict(os.environ, GOFLAGS="-mod=mod", GOPROXY="off", GOTOOLCHAIN="auto")
    p = subprocess.run(["go", "run", ".", ctx.tree], cwd=tool, env=env, stdout=subprocess.PIPE, stderr=subprocess.PIPE, text=True, timeout=1200)
    if p.returncode != 0:
        ctx.broken.append("translator extract_c07 failed: " + p.stderr[-500:])
        return
    nsites = p.stdout.count("|index|") + p.stdout.count("|slice|") + p.stdout.count("|write|")
    text = ("import EgoVerif.C07.Sites\n" + p.stdout +
            "open EgoVerif.C07 in\n"
            "/-- every raw access outside the modelled accessors is on the reviewed allow-list, and nothing on the list is stale -/\n"
            "example : Gen.sites = allowedSites := by decide\n"
            "open EgoVerif.C07 in\n"
            "/-- every modelled accessor function still exists under its name -/\n"
            "example : Gen.modelledFound = modelledFunctions := by decide\n")
    ctx.lean_obligation("C07RawIndexSites", text)
    ctx.coverage["raw_sites_outside_model"] = nsites


def record(ctx, fails, per_class=3):
    """at most `per_class` failures of a class, so that every class shows up in the replay file"""
    seen = {}
    for f in fails:
        seen[f["class"]] = seen.get(f["class"], 0) + 1
        if seen[f["class"]] <= per_class:
            ctx.fail(f["class"], f["what"], input=f.get("input"), got=f.get("got"), want=f.get("want"))
    return seen


def run(ctx):
    ctx.trusted += ["translator tools/extract_c07 (go/ast, fails closed on parse errors)",
                    "harnesses zz_verif_c07*_test.go in tokenizer/, bytecode/, data/, server/admin/ + egodriver C07",
                    "allow-list lean/EgoVerif/C07/Sites.lean (reviewed by hand)"]
    ctx.assumptions += ["a Go slice has fewer than 2^63 elements (x+1 on an index below len does not wrap)",
                        "Go's native channel behaves as modelled (FIFO wait queues, a parked sender panics when the channel is closed); "
                        "testing/synctest.Wait returns only when every goroutine of the schedule has finished or is parked",
                        "compiled programs reach the stack only through the modelled functions and the allow-listed sites",
                        "the fuzz search is a search: absence of a panic in N cases is not a proof for the compiler/VM"]
    ctx.lean_audit(modules=["EgoVerif.C07.Props", "EgoVerif.C07.ChanProps", "EgoVerif.C07.Sites"], required=REQUIRED)
    if not ctx.quick:
        ctx.leanchecker()
    ctx.prepare_tree()
    translator(ctx)

    cases = []
    for pkg, pre in (("./internal/language/tokenizer/", "c07_cur"), ("./internal/language/bytecode/", "c07_vm"),
                     ("./internal/language/data/", "c07_chan")):
        rc, out = ctx.go_test(pkg, "TestVerifC07", timeout=3000)
        if rc != 0:
            ctx.log(out[-3000:])
            ctx.broken.append("harness TestVerifC07 in %s failed to run (rc=%d)" % (pkg, rc))
        cs = ctx.read_jsonl(pre + "_cases.jsonl")
        ctx.correspond(cs, label="correspondence " + pre)
        cases += cs
        record(ctx, ctx.read_jsonl(pre + "_failures.jsonl"))

    known = ",".join(k["class"] for k in ctx.known_findings())
    rc, out = ctx.go_test("./internal/server/admin/", "TestVerifC07", timeout=6000,
                          env={"C07_KNOWN": known, "TMPDIR": ctx.out})
    if rc != 0:
        ctx.log(out[-3000:])
        ctx.broken.append("search harness TestVerifC07 in internal/server/admin failed to run (rc=%d)" % rc)
    record(ctx, ctx.read_jsonl("c07_failures.jsonl"))

    def st(name):
        return (ctx.read_jsonl(name) or [{}])[0]
    cur, vm, fz, chn = st("c07_cur_stats.json"), st("c07_vm_stats.json"), st("c07_stats.json"), st("c07_chan_stats.json")
    cc = chn.get("counters", {})
    if not ctx.replay_in and (cc.get("schedules_close_meets_parked_sender", 0) == 0 or cc.get("hammer_rounds", 0) == 0):
        ctx.broken.append("channel harness: no schedule closed a channel with a parked sender / no hammer round ran")
    # (a search child that died took its unsaved counters with it: then the deaths are the evidence)
    if (fz.get("counters", {}).get("gen.conc", 0) + fz.get("counters", {}).get("gen.concgen", 0) == 0
            and fz.get("counters", {}).get("child_deaths", 0) == 0 and not ctx.replay_in):
        ctx.broken.append("search harness ran no concurrent program")
    fc = fz.get("counters", {})
    if fc.get("cases", 0) == 0:
        ctx.broken.append("search harness executed no case")
    ctx.coverage.update({
        "evaluations": len(cases) + fc.get("cases", 0),
        "primitive_call_sequences": len(cases),
        "primitive_calls": cur.get("counters", {}).get("calls", 0) + vm.get("counters", {}).get("calls", 0) + cc.get("calls", 0),
        "channel_schedules": cc.get("schedules", 0),
        "channel_schedules_close_meets_parked_sender": cc.get("schedules_close_meets_parked_sender", 0),
        "channel_hammer_rounds": cc.get("hammer_rounds", 0),
        "fuzz_concurrent_programs": fc.get("gen.conc", 0) + fc.get("gen.concgen", 0),
        "fuzz_cases": fc.get("cases", 0),
        "distinct_nontrivial": cur.get("counters", {}).get("distinct_nontrivial", 0) + vm.get("counters", {}).get("distinct_nontrivial", 0)
                               + cc.get("distinct_nontrivial", 0)
                               + fc.get("distinct_nontrivial", 0),
        "distinct_nontrivial_fuzz": fc.get("distinct_nontrivial", 0),
        "rule": "primitive sequences: distinct sequences of >=3 (cursor, over >=2 tokens) / >=4 (stack, array) calls with operands from "
                "{MinInt64, MinInt64+1, -5..3, len-1..len+2, 999999, 2^62, MaxInt64-1, MaxInt64} and forged frames; "
                "channel schedules: distinct schedules of >=3 calls with a Send in which at least one call parks; "
                "fuzz: distinct (mode, text) with >=4 tokens incl. a bracket and a word. The fuzz part is a SEARCH.",
        "samples": (cur.get("samples", [])[:2] + vm.get("samples", [])[:2] + chn.get("samples", [])[:2] + fz.get("samples", [])[:4]),
        "counters": {"cursor": cur.get("counters", {}), "vm": vm.get("counters", {}), "channel": cc, "fuzz": fc},
    })
    return ctx.finish()
