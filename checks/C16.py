"""C16 — SQL reformatting preserves statements."""

META = {
    "level": "proof",
    "text": "Lean theorems over an executable model of the sqlparse expression printer, lexer and precedence-ladder parser "
            "(literals, identifiers with quoting, NOT, unary - + ~, every binary operator tier, parentheses): for EVERY "
            "expression of the shape the parser produces, lexing and parsing the printed text gives the expression back and "
            "printing is idempotent; string '' doubling and identifier quoting round-trip for every character list. The model "
            "is tied to the code by a differential run (real printer text, real lexer+parser reading) on generated fragment "
            "ASTs and hostile fragment texts; whole statements of every kind are checked by a model-free oracle: "
            "Parse→Format→Parse AST equality, Format idempotence and execution of original vs formatted text on SQLite.",
    "note": "partial: proof level for the expression fragment only (IS/IN/BETWEEN/LIKE/COLLATE/CASE/CAST/function calls/"
            "subqueries and all statement skeletons are covered by the correspondence harness and the execution oracle, not by "
            "theorems). The round trip is proved 'for all sufficiently large fuel' of the model's recursion bound (the driver "
            "uses 16*(len+4) and any shortfall would show as a correspondence difference). unicode.IsLetter/IsDigit are "
            "modelled on ASCII. The model mirrors the code WITH fixes/C16.patch (space between nested unary minus); "
            "identifiers that are keywords are a recorded finding and an explicit decidable hypothesis (`wf`: nameSafe) of the "
            "theorem, with C16_keyword_ident_counterexample showing it is needed; `wf` also asks that a schema part comes with a "
            "non-empty table part (s.\"\".c prints as s.c). C16_parse_canon proves the other hypothesis (`canon`) for every parser "
            "output. Nothing is left as an unproved statement. Trusted: Lean kernel, SQLite (modernc) as execution "
            "reference, the harness.",
    "technique": "Lean 4 proof (induction over expressions, precedence-ladder invariant) + model/implementation correspondence + SQLite differential execution",
    "design_ref": "DESIGN.md §6 C16",
}

REQUIRED = ["C16_expr_roundtrip", "C16_parse_canon", "C16_idempotent", "C16_literal_ident_roundtrip",
            "C16_keyword_ident_counterexample", "C16_negneg_unfixed_counterexample"]


MODULES = ["EgoVerif.C16.%s" % m for m in ("LexLemmas", "LexProps", "ParseLemmas", "ParseProps", "CanonProps", "Props")]


def run(ctx):
    ctx.trusted += ["SQLite (modernc.org/sqlite, the repo's own driver) is the execution reference",
                    "correspondence harness internal/sqlparse/zz_verif_c16_test.go + egodriver C16"]
    ctx.assumptions += ["unicode.IsLetter / unicode.IsDigit modelled on ASCII (non-ASCII identifiers: harness oracle only)",
                        "model mirrors internal/sqlparse/format_expr.go with fixes/C16.patch applied",
                        "statement skeletons, IS/IN/BETWEEN/LIKE/COLLATE/CASE/CAST/calls/subqueries: correspondence + execution oracle only"]
    ctx.lean_audit(modules=MODULES, required=REQUIRED)
    if not ctx.quick:
        ctx.leanchecker(modules=MODULES)
    ctx.prepare_tree()
    rc, out = ctx.go_test("./internal/sqlparse/", "TestVerifC16", timeout=1500)
    if rc != 0:
        ctx.log(out[-3000:])
        ctx.broken.append("harness TestVerifC16 failed to run (rc=%d)" % rc)
    cases = ctx.read_jsonl("c16_cases.jsonl")
    # the model answers "outside" where the real parser enters a construct the fragment does not model
    # (function call, *, subquery, IS/IN/…): those lines carry no information and are skipped, but counted
    model = ctx.driver([c["in"] for c in cases]) if cases else []
    kept, outside = [], 0
    for c, m in zip(cases, model):
        if m.endswith("outside"):
            outside += 1
        else:
            kept.append(c)
    if cases and outside * 5 > len(cases):
        ctx.broken.append("correspondence: %d/%d lines fall outside the modelled fragment" % (outside, len(cases)))
    ctx.correspond(kept)
    for f in ctx.read_jsonl("c16_failures.jsonl"):
        ctx.fail(f["class"], f["what"], input=f.get("input"), got=f.get("got"), want=f.get("want"))
    st = (ctx.read_jsonl("c16_stats.json") or [{}])[0]
    c = st.get("counters", {})
    if not ctx.replay_in and c.get("exec.ok", 0) < 200:
        ctx.broken.append("execution oracle ran on only %d statements" % c.get("exec.ok", 0))
    ctx.coverage.update({
        "evaluations": c.get("accepted", 0) + len(kept),
        "distinct_nontrivial": c.get("distinct_nontrivial", 0),
        "rule": "statements: generated source text of every statement kind over a fixed schema (flat operator chains over all "
                "tiers with prefix operators, comparison-tier constructs, subqueries in expression/FROM/IN/EXISTS positions, CTEs, "
                "joins, DDL with constraints, odd identifiers, nasty string literals, comments, random keyword case); counted when the "
                "real parser accepts them; non-trivial = uses quoting, a comment, an operator chain, a subquery/CTE or a constraint; "
                "fragment: %d AST/text lines compared with the model (%d outside the fragment skipped)" % (len(kept), outside),
        "samples": st.get("samples", []),
        "counters": c,
        "correspondence_lines": len(kept),
        "outside_fragment_lines": outside,
    })
    return ctx.finish()
