"""C05 — `ego fmt` keeps programs and comments intact."""

META = {
    "level": "partial",
    "text": "Lean theorems over a model of the formatter's expression printer (print_expr.go), of the tokenizer's "
            "crush step (lexer.go/crusher.go) and of the AST parser's expression grammar (expression.go, atom.go, "
            "tables.go): for EVERY expression AST e of the fragment {Ident, BasicLit(int), ParenExpr, BinaryExpr (18 "
            "operators), UnaryExpr, StarExpr, AddrExpr, RecvExpr, SelectorExpr, IndexExpr, CallExpr} that is well "
            "formed (WF = the shape the parser produces: stated as C05_parse_wf_statement, not proved, and tied by `wf` correspondence lines on every AST the real parser returns), "
            "parseExpr (lexTokens (printExpr e)) = some e, hence printing is idempotent; the unfixed printer has "
            "the counterexamples - -5 and & &x. Tied to the code by exact correspondence (real parser AST, real "
            "`ego fmt` text, real tokenizer tokens vs the model on generated and mutated expressions). Statement "
            "forms and comments are validated on observed files only (T3): every .ego file under tests/ and lib/, "
            "statement fragments cut from them and generated programs go through the real `ego fmt`; the real "
            "tokenizer's significant token sequence must be unchanged, formatting idempotent, every comment kept, "
            "the formatted text must compile, and runnable sources must behave the same.",
    "note": "trusted: Lean kernel; Go text/scanner raw scan (abstracted to 'pieces' = raw tokens + glued flag; tied by "
            "the tok/parse correspondence lines); the compiler and VM as the behaviour reference. Partial: statements, "
            "declarations, types, composite/function literals and comments are not in the Lean model. The token oracle "
            "drops every ';' (Ego inserts one after almost every line), trailing commas, result-list parentheses and "
            "commas inside struct bodies. Proposed fix fixes/C05.patch (blank in '- -x' / '& &x', composite literal of "
            "a non-name type in a control header, idempotent block-comment re-indent); the model mirrors the fixed "
            "printer. Known finding kept: comment-inside-struct-body.",
    "technique": "Lean 4 proof (induction on a fuel/size measure over a mutual AST) + model/implementation "
                 "correspondence + validation of observed files",
    "design_ref": "DESIGN.md §6 C05",
}

REQUIRED = ["C05_lex_print", "C05_parse_toks", "C05_expr_roundtrip", "C05_idempotent",
            "C05_unfixed_counterexample", "C05_unfixed_addr_counterexample"]


MODULES = ["EgoVerif.C05.Props", "EgoVerif.C05.ParseMain", "EgoVerif.C05.ParseSteps", "EgoVerif.C05.ParseLemmas",
           "EgoVerif.C05.LexMain", "EgoVerif.C05.LexProof", "EgoVerif.C05.Lex", "EgoVerif.C05.WFB"]


def run(ctx):
    ctx.trusted += ["Go text/scanner raw scan is abstracted (pieces); compiler + VM are the behaviour reference",
                    "translator: none; correspondence harness internal/commands/zz_verif_c05*_test.go + egodriver C05"]
    ctx.assumptions += ["identifiers of generated expressions are not reserved words or type names",
                        "statement forms and comments: validation of observed files only (T3)"]
    ctx.lean_audit(modules=MODULES, required=REQUIRED)
    if not ctx.quick:
        ctx.leanchecker(MODULES[:1])
    ctx.prepare_tree()
    rc, out = ctx.go_test("./internal/commands/", "TestVerifC05", timeout=3000, extra=["-trimpath"])
    if rc != 0:
        ctx.log(out[-3000:])
        ctx.broken.append("harness TestVerifC05 failed to run (rc=%d)" % rc)
    cases = ctx.read_jsonl("c05_cases.jsonl")
    ctx.correspond(cases)
    for f in ctx.read_jsonl("c05_failures.jsonl"):
        ctx.fail(f["class"], f["what"], input=f.get("input"), got=f.get("got"), want=f.get("want"))
    st = (ctx.read_jsonl("c05_stats.json") or [{}])[0]
    c = st.get("counters", {})
    if c.get("checked", 0) < 500 or c.get("ran", 0) < 100:
        ctx.broken.append("harness checked too few sources (checked=%s ran=%s)" % (c.get("checked"), c.get("ran")))
    ctx.coverage.update({
        "evaluations": len(cases) + c.get("checked", 0),
        "distinct_nontrivial": c.get("distinct_nontrivial", 0),
        "rule": "sources: distinct accepted source texts with >= 12 significant tokens (corpus files, @test fragments, "
                "generated programs with hostile layout and comments); expressions: distinct parsed ASTs with >= 3 nodes "
                "(grammar-directed with random gluing, hostile gluing that triggers crushes, one-token mutations)",
        "samples": st.get("samples", [])[:6],
        "counters": c,
    })
    return ctx.finish(level="partial")
