"""C39 — static assets are served exactly and only from the asset root."""

META = {
    "level": "proof",
    "text": "Lean theorems over an executable model of AssetsHandler / Loader / readAssetRange / normalizeAssetPath in which "
            "Go's slice index, make([]byte,n) and re-slice panics and int64 wrap-around are explicit: for EVERY Range header "
            "byte string, path, file content and cache state the model never panics and answers an error status, the full "
            "representation, or 206 with body = file[start..min(end,len-1)] and the Content-Range built from exactly those "
            "numbers; every well-formed satisfiable `bytes=a-b` / `bytes=a-` is served; the path handed to the OS is the root "
            "followed by components none of which is '..'. The model is tied to the code by a differential run of the real "
            "AssetsHandler, normalizeAssetPath and strconv.ParseInt against the model, plus a model-free oracle on the responses; "
            "the asset root holds small files and generated assets of MaxAssetSize-1 / MaxAssetSize / MaxAssetSize+1 / 1.5 x "
            "MaxAssetSize / cache-limit+1 bytes that are asked for ranges wider than, equal to and just under MaxAssetSize.",
    "note": "The theorems are about the code WITH fixes/C39.patch (the model's `fixed = true`); `C39_orig_*` theorems exhibit the "
            "panics / wrong Content-Range of the unpatched code. Trusted: Lean kernel; the harness; os/net/http; filepath.Clean, "
            "strings.ReplaceAll/Split and strconv.ParseInt are modelled functionally and tied by correspondence only. Modelled, "
            "not verified: javascript.Minify / mdToHTML (parameters), the ETag / If-None-Match block (not exercised), cache "
            "eviction, smartRangeLoading=false (debug switch; the harness asserts it is true). Containment is lexical: symbolic "
            "links placed inside the asset root are followed (administrator-controlled content); allocation sizes assume files "
            "below 2^48 bytes. javascript.Minify with shortenNames=true is not a function of its input (names follow map "
            "order), so the harness keeps ego.server.js.shortvarnames off.",
    "technique": "Lean 4 proof (total model with explicit Go panics, induction over header bytes and path components) + "
                 "model/implementation correspondence + direct oracle",
    "design_ref": "DESIGN.md §6 C39",
}

REQUIRED = ["C39_total", "C39_range", "C39_parse_total", "C39_wellformed_parsed", "C39_wellformed_served",
            "C39_wellformed_served_open", "C39_contained", "C39_cache_invariant",
            "C39_orig_nodash_counterexample", "C39_orig_beyond_counterexample", "C39_orig_cached_counterexample",
            "C39_orig_markdown_counterexample"]


def run(ctx):
    ctx.trusted += ["Go os / net/http/httptest; javascript.Minify and mdToHTML are reference primitives (parameters of the model)",
                    "translator: none; correspondence harness internal/server/assets/zz_verif_c39_test.go + egodriver C39"]
    ctx.assumptions += ["smartRangeLoading = true (asserted by the harness at start)",
                        "asset files are smaller than 2^48 bytes and static while cached",
                        "containment is lexical; symlinks inside the root are administrator content",
                        "theorems describe the tree with fixes/C39.patch applied"]
    ctx.lean_audit(required=REQUIRED)
    if not ctx.quick:
        ctx.leanchecker()
    ctx.prepare_tree()
    rc, out = ctx.go_test("./internal/server/assets/", "TestVerifC39", timeout=1500)
    if rc != 0:
        ctx.log(out[-3000:])
        ctx.broken.append("harness TestVerifC39 failed to run (rc=%d)" % rc)
    cases = ctx.read_jsonl("c39_cases.jsonl")
    ctx.correspond(cases)
    for f in ctx.read_jsonl("c39_failures.jsonl"):
        ctx.fail(f["class"], f["what"], input=f.get("input"), got=f.get("got"), want=f.get("want"))
    st = (ctx.read_jsonl("c39_stats.json") or [{}])[0]
    c = st.get("counters", {})
    if cases and (c.get("oracle_206", 0) == 0 or c.get("oracle_200", 0) == 0 or c.get("oracle_error", 0) == 0):
        ctx.broken.append("harness exercised no 200 / 206 / error responses: %s" % c)
    if cases and (c.get("big_req", 0) == 0 or c.get("oracle_206_span_gt_max", 0) == 0 or c.get("oracle_206_span_at_max", 0) == 0):
        ctx.broken.append("harness served no range wider than / as wide as MaxAssetSize from the large assets: %s" % c)
    ctx.coverage.update({
        "evaluations": len(cases),
        "distinct_nontrivial": c.get("distinct_nontrivial", 0),
        "rule": "req: distinct (path, Range values, method); non-trivial = a Range header that is not a well-formed in-bounds "
                "single range (missing dash, open-ended beyond EOF, inverted, multi-range, signs, overflow, junk bytes) or a "
                "path containing '..', '//' or '/./'; counters big_* / oracle_206_span_* count the requests to the large generated "
                "assets and the 206 answers whose span exceeds / reaches MaxAssetSize; pint: hostile number spellings; norm: hostile roots x paths",
        "samples": st.get("samples", []),
        "counters": c,
    })
    return ctx.finish()
