"""C41 — child-process services answer like in-process services."""
import os

META = {
    "level": "proof",
    "text": "PARTIAL (proved: the request/response re-encoding between server and child process; only observed: process "
            "spawn, sockets/files, timeouts, the Ego interpreter). Lean theorems over a model of callChildServices / "
            "runChildRequest / getHeadersFromResponse and of ServiceHandler: for EVERY session and request whose strings "
            "are valid UTF-8 (maps with distinct keys) the Ego Request value and request symbols a service observes in a "
            "child equal the in-process ones (method, URL, endpoint, typed URL parts, parameters, filtered multi-valued "
            "headers, body, user/admin/auth flags, permissions); for EVERY successful handler outcome with single-valued, "
            "canonically distinct, UTF-8 headers, status != 401 and (status < 400 or non-empty body) the HTTP response "
            "(status, every header, body) written by the parent equals the in-process one, also when the JSON-reply decision "
            "(default Content-Type) is taken by the child from the headers it received: the decision scans every value of "
            "every Accept line on both sides (C41_json_reply_scans_all_values, C41_exchange_survives). Counterexamples are proved for "
            "each excluded class (non-UTF-8 strings, multi-valued response headers, empty error bodies, 401). The model is "
            "tied to the code by running the REAL ServiceHandler in-process, via the socket transport and via the file "
            "transport (the real ego binary as child) on shipped and generated services x generated requests: a model-free "
            "oracle compares the three HTTP responses field by field, and the request/response documents the real code "
            "exchanged are compared with the model's. The theorems hold for values of every length; the oracle therefore also "
            "runs bodies, header values and query values of 0 B, 1 B, 4 KiB, 64 KiB +- 1, 1 MiB +- 1 and several MiB (one long "
            "line, many lines, JSON-escaped, multi-byte, control and binary bytes) in both directions through all three paths.",
    "note": "trusted: Lean kernel; encoding/json as the transport (its string behaviour is modelled by `sanitize` and checked "
            "on every case); the harness builds router.Session the way router.ServeHTTP does (it does not go through the "
            "router, authentication is given, not performed); httptest.ResponseRecorder as the client. Modelled, not "
            "verified: the Ego interpreter running the handler (same code in both modes), process spawn, pipes, timeouts, "
            "child concurrency limit, order of Go map iteration in callChildServices (keys are canonical and distinct after "
            "the fix). Service state kept by the in-process service cache between requests is out of scope (C42); the "
            "harness flushes it. Configuration: ego.compiler.import=true (the shipped default); with it off "
            "runChildRequest still imports every package, ServiceHandler does not. Error paths of a failing service are a "
            "known finding, not modelled.",
    "technique": "Lean 4 proof (induction over association lists and byte strings) + model/implementation correspondence + "
                 "differential execution in-process vs child process",
    "design_ref": "DESIGN.md §6 C41",
}

REQUIRED = ["C41_string_survives", "C41_string_counterexample", "C41_map_survives", "C41_request_fields_survive",
            "C41_request_counterexample", "C41_response_fields_survive", "C41_response_multivalue_counterexample",
            "C41_response_emptybody_counterexample", "C41_response_401_counterexample", "C41_response_body_counterexample",
            "C41_json_reply_scans_all_values", "C41_json_reply_later_line", "C41_exchange_survives"]


def run(ctx):
    ctx.trusted += ["encoding/json (Go stdlib) is the transport; httptest.ResponseRecorder is the client",
                    "translator: none; harness internal/server/services/zz_verif_c41_test.go + egodriver C41"]
    ctx.assumptions += ["router.Session is built as router.ServeHTTP builds it (Parameters = r.URL.Query(), canonical header names)",
                        "parent and child read the same configuration profile; ego.compiler.import=true",
                        "the in-process service cache is empty before each request"]
    ctx.lean_audit(required=REQUIRED)
    if not ctx.quick:
        ctx.leanchecker()
    ctx.prepare_tree()
    ego = os.path.join(ctx.out, "ego")
    rc, out = ctx.go(["build", "-trimpath", "-o", ego, "."], timeout=3000)
    if rc != 0:
        ctx.log(out[-3000:])
        ctx.broken.append("go build of the ego binary (the child process) failed")
        return ctx.finish()
    rc, out = ctx.go_test("./internal/server/services/", "TestVerifC41", env={"VERIF_EGO": ego}, timeout=3000)
    if rc != 0:
        ctx.log(out[-3000:])
        ctx.broken.append("harness TestVerifC41 failed to run (rc=%d)" % rc)
    cases = ctx.read_jsonl("c41_cases.jsonl")
    ctx.correspond(cases)
    for f in ctx.read_jsonl("c41_failures.jsonl"):
        ctx.fail(f["class"], f["what"], input=f.get("input"), got=f.get("got"), want=f.get("want"))
    st = (ctx.read_jsonl("c41_stats.json") or [{}])[0]
    c = st.get("counters", {})
    if not cases or c.get("cases", 0) == 0:
        ctx.broken.append("harness produced no cases")
    # the generator must have exercised what the handlers interpret in the request headers
    for k in ("accept_lines_json_later", "accept_lines_json_first", "accept_lines_json_absent", "req_multi_valued_header"):
        if cases and c.get(k, 0) == 0:
            ctx.broken.append("harness ran no request of shape %s" % k)
    # ... and payloads on both sides of the sizes at which buffers, line readers and pipes change behaviour
    for k in ("size_resp_body_ge_64KiB", "size_resp_body_ge_1MiB", "size_req_body_ge_64KiB", "size_req_body_ge_1MiB",
              "size_resp_header_ge_64KiB", "size_req_header_ge_64KiB"):
        if cases and c.get(k, 0) == 0:
            ctx.broken.append("harness ran no case of size class %s" % k)
    ctx.coverage.update({
        "evaluations": c.get("evaluations", 0),
        "distinct_nontrivial": c.get("distinct_nontrivial", 0),
        "rule": "case = service program x request; each case runs in-process, via socket and via file transport (real ego "
                "binary). Services: lib/services samples, a fixed corpus (one echo service per request field, statuses, "
                "binary bodies, header operations, failing services), random generated services (echo of 1-6 request "
                "fields, status, header ops, text/binary/no body, runtime/exit/compile/missing errors). Requests: 5 methods, "
                "route patterns with 0-2 variables, percent-encoded and non-UTF-8 path and query values, repeated and "
                "sensitive headers, headers sent as several lines of one name (Accept with application/json on the first / a "
                "later / no line, q-values, comma lists, other spellings of the name; Content-Type, X-*, Cache-Control, Via, "
                "Range, Accept-Language, Cookie, Authorization; counters accept_lines_* and req_multi_valued_header), binary bodies, anonymous/user/admin/token sessions. "
                "Sizes (counters size_*): response bodies, response header values, request bodies, request header values and query "
                "values of 0 B .. several MiB built by repeating a unit (long line, LF / CRLF lines, JSON text, HTML/LS/PS runes, "
                "control bytes, multi-byte runes, white space, binary, invalid UTF-8), on and around 4 KiB, 64 KiB, 256 KiB, 1 MiB, "
                "3 MiB and at drawn sizes; six of them in every quick run; requests and responses above 160 KiB (quick) / 600 KiB "
                "are compared by the oracle only, not put through the Lean driver (req_lines_skipped_large, resp_lines_skipped_large). non-trivial = distinct (program, "
                "request) with a header, query, body, URL variable or authenticated user",
        "samples": st.get("samples", []),
        "counters": c,
    })
    return ctx.finish()
