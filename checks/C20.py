"""C20 — Routes run only for authorized requests."""

META = {
    "level": "proof",
    "text": "Lean theorems over an executable model of the route builder (router.go), Session.Authenticate (auth.go, "
            "primitive credential verdicts as inputs) and the gate of Router.ServeHTTP (serve.go): for EVERY flag "
            "combination, request, credential form and user database, the handler is invoked only if the caller proved an "
            "identity whenever the route needs one and is administrator or holds every required permission (C20_gate, "
            "C20_serve); for EVERY sequence of builder calls the requirements the gate enforces are exactly the declared "
            "ones, independent of call order (C20_builder, C20_builder_order), hence declared => enforced end to end "
            "(C20_declared_enforced). The tree before fixes/C20.patch violates this (C20_orig_*_counterexample). Tie: every "
            "run builds the REAL route table with setupServerRouter (static routes, lib/services scan, native admin and OAuth "
            "resource-server routes, redirectors), substitutes probe handlers, and drives every real route plus generated "
            "declarations in all orders of their builder calls x ~45 credential forms (none, malformed/wrong/locked-out "
            "Basic, payload credentials, valid/cached/expired/tampered/truncated/revoked native tokens, valid and eight "
            "kinds of invalid JWT) x random user databases through the real ServeHTTP; flags read from the real Route "
            "structs and the by-construction verdicts are fed to the model and invoked/status are compared; a model-free "
            "oracle checks 'handler ran => declared requirements held' and 'requirements held => handler ran'. The "
            "requirements must hold AT THE TIME OF THE REQUEST: request SEQUENCES (fixed nasty histories, then random ones) "
            "interleave requests on Authentication(true), Permissions(...), open and real-table routes with credential-state "
            "changes done through the repository's own functions (token / JWT revoked after use, un-revoked, token cache "
            "aged out, user deleted / re-created, permission removed / granted, password changed) against the REAL token, "
            "JWT and blacklist caches; every request of a history is a serve case with the verdict its credential has at "
            "that moment by construction, checked by the same correspondence and oracle.",
    "note": "trusted: Lean kernel; the harness (probe substitution, credential construction, the by-construction verdict of "
            "each credential form). Modelled, not verified here: the credential primitives themselves (token decryption and "
            "revocation = C21, JWT validation = C22, password hashing, lock-out bookkeeping) enter the model as verdicts; "
            "hypothesis jwtPermsNonEmpty (oauth.ValidateJWT never returns an empty permission list: claims.go grants "
            "ego.logon) is exercised by the jwt-no-scope form. Permission and user names are ASCII (EqualFold/ToLower modelled "
            "on ASCII). Request checks orthogonal to authorization (media types, parameters, body validation) enter as "
            "booleans known by construction (validation: observed through validate.Validate). The OAuth2 authorization-"
            "server routes (need key files) are not registered in the driven table. The model mirrors the tree WITH "
            "fixes/C20.patch; on a tree without it the check reports VIOLATION with the failing declaration.",
    "technique": "Lean 4 proof (case analysis of the gate, induction over builder call lists) + model/implementation correspondence",
    "design_ref": "DESIGN.md §6 C20",
}

REQUIRED = ["C20_gate", "C20_serve", "C20_unauthenticated_refused", "C20_locked_out_refused", "C20_builder", "C20_builder_order",
            "C20_declared_enforced", "C20_orig_gate_counterexample", "C20_orig_builder_counterexample",
            "C20_orig_named_user_counterexample", "C20_orig_gate_partial"]

# every credential form named by the property must have been driven in a run
MUST_FORMS = ["none", "basic-bad-base64", "basic-wrong-password", "basic-locked-out", "basic-valid", "payload-valid",
              "token-valid", "token-valid-cached", "token-valid-uncached", "token-expired", "token-tampered", "token-revoked",
              "jwt-all-scopes", "jwt-missing-one-scope", "jwt-expired", "jwt-bad-signature", "jwt-rogue-key",
              # request sequences (credential state changes between requests)
              "seq-native-reused", "seq-native-revoked-after-use", "seq-native-unrevoked", "seq-jwt-revoked-after-use",
              "seq-jwt-unrevoked", "seq-basic-current-password", "seq-basic-old-password"]

# every kind of credential-state change must have happened between requests of some sequence
MUST_SEQ_OPS = ["revoke", "unrevoke", "token-cache-aged-out", "delete-user", "write-user", "remove-permission",
                "grant-permission", "change-password"]


def run(ctx):
    ctx.trusted += ["correspondence harness internal/router/zz_verif_c20_*.go + internal/commands/zz_verif_c20_test.go, egodriver C20",
                    "credential primitives (tokens.Unwrap, oauth.ValidateJWT, auth.ValidatePassword, CheckRateLimit) enter as verdicts"]
    ctx.assumptions += ["oauth.ValidateJWT returns a non-empty permission list for an accepted JWT (hypothesis jwtPermsNonEmpty)",
                        "permission and user names are ASCII"]
    ctx.lean_audit(required=REQUIRED)
    if not ctx.quick:
        ctx.leanchecker()
    ctx.prepare_tree()
    rc, out = ctx.go_test("./internal/commands/", "TestVerifC20", timeout=3000)
    if rc != 0:
        ctx.log(out[-3000:])
        ctx.broken.append("harness TestVerifC20 failed to run (rc=%d)" % rc)
    cases = ctx.read_jsonl("c20_cases.jsonl")
    if not cases:
        ctx.broken.append("harness produced no correspondence cases")
    ctx.correspond(cases)
    for f in ctx.read_jsonl("c20_failures.jsonl"):
        ctx.fail(f["class"], f["what"], input=f.get("input"), got=f.get("got"), want=f.get("want"))
    st = (ctx.read_jsonl("c20_stats.json") or [{}])[0]
    c = st.get("counters", {})
    forms = sorted(k[5:] for k in c if k.startswith("form:"))
    if c.get("real_routes", 0) < 50 or c.get("real_routes_driven", 0) < 50:
        ctx.broken.append("the real route table was not driven (routes=%s driven=%s)" % (c.get("real_routes"), c.get("real_routes_driven")))
    missing = [f for f in MUST_FORMS if f not in forms]
    if missing:
        ctx.broken.append("credential forms not exercised: %s" % ", ".join(missing))
    missing_ops = [o for o in MUST_SEQ_OPS if c.get("seq_op:" + o, 0) < 1]
    if missing_ops or c.get("sequences", 0) < 3 or c.get("seq_real_routes", 0) < 1 or c.get("seq_revoke_errors", 0) or c.get("seq_unrevoke_errors", 0):
        ctx.broken.append("request sequences not (fully) driven: sequences=%s real routes=%s missing ops=%s revoke errors=%s/%s" % (
            c.get("sequences"), c.get("seq_real_routes"), ",".join(missing_ops), c.get("seq_revoke_errors", 0), c.get("seq_unrevoke_errors", 0)))
    ctx.coverage.update({
        "evaluations": len(cases),
        "distinct_nontrivial": c.get("distinct_nontrivial", 0),
        "rule": "serve lines: (real Route flags, request variant, credential form with its by-construction verdict, user database); "
                "non-trivial = the route declares authentication or permissions (the gate has something to decide); build lines: "
                "distinct builder call sequences. Declarations: fixed corpus of 27 nasty multisets in all orders, random multisets "
                "of 1-4 calls in all orders, random sequences of 1-9 calls; databases vary who holds all / all but one / root / none "
                "of the route's permissions in varying letter case. Sequences: fixed histories of a native token and of a JWT "
                "(used, revoked, presented again, un-revoked, permission removed/granted, user deleted/re-created, password "
                "changed, revoked with an aged-out cache), then random interleavings of 10-19 requests / state changes over "
                "1-2 native tokens, a JWT and Basic credentials on seven routes",
        "samples": st.get("samples", []),
        "credential_forms": forms,
        "counters": {k: v for k, v in c.items() if not k.startswith("us:")},
    })
    return ctx.finish()
