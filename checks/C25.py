"""C25 — Passwords are accepted exactly when they match."""

META = {
    "level": "proof",
    "text": "Lean theorems over an exact model of auth.ValidatePassword (three stored formats, plaintext gate, "
            "lower-cased lookup, logon/root check, legacy->bcrypt upgrade as a store update): for EVERY store, user, "
            "password and plaintext setting, accept <-> user exists under the lower-cased name AND the password matches "
            "the stored credential in its format AND logon or root is held (C25_iff); for a credential provisioned from a "
            "true password t in any format, accept <-> candidate = t byte for byte (C25_exact); after ANY history of "
            "login attempts the accepted (user, password) set is unchanged (C25_migration_invariant, by induction over "
            "histories). Tied to the code by a differential run of the real ValidatePassword against the model on "
            "generated stores/histories over all three user stores (memory, JSON file, SQLite), plus a model-free oracle "
            "(the harness's own record of every user's true password, format and permissions; the stored credential "
            "after an upgrade must be a cost-12 bcrypt hash of the TRUE password and survive reopening the store). "
            "A delimiter corpus runs first: every stored format (bcrypt at costs 4-6 and all three prefixes, SHA-256 hex, "
            "{quoted} plaintext under both settings, junk) x passwords built from the formats' own delimiters at the edges "
            "and inside ({, }, {{x}}, }x{, {}, $2a$-shaped, 64-hex-shaped) x candidates that are the password / the stored "
            "text with delimiters stripped or added - none may be accepted, before or after the upgrade write-back.",
    "note": "Relative to PrimsOK: bcryptMatch (bcryptHash p) q <-> p = q, bcrypt hashes carry a $2a$/$2b$/$2y$ prefix, "
            "SHA-256 hex is injective and is neither bcrypt- nor {quoted}-shaped. The harness probes these on "
            "x/crypto/bcrypt every run: the equality hypothesis FAILS for passwords sharing the effective 72-byte "
            "Blowfish key (bytes after the 72nd ignored; p vs p+NUL+p key cycling) - reported in the evidence as "
            "trusted_base_limits, and such candidates are counted, not judged (C25_migration_needs_exact_bcrypt proves "
            "the hypothesis is necessary: with such a collision the upgrade widens the accept set). "
            "strings.ToLower enters as an uninterpreted function; strings.EqualFold is modelled as ASCII case folding "
            "(exact for the targets ego.root / ego.logon). Lockout (C24) and store equivalence (C31) are other properties.",
    "technique": "Lean 4 proof (case analysis + induction over login histories) + model/implementation correspondence",
    "design_ref": "DESIGN.md §6 C25",
}

REQUIRED = ["C25_iff", "C25_exact", "C25_migration_step", "C25_migration_invariant", "C25_migration_invariant_fixed",
            "C25_migrated_store", "C25_no_write_on_mismatch", "C25_migration_needs_exact_bcrypt", "C25_hypotheses_satisfiable"]


def run(ctx):
    ctx.trusted += ["crypto/sha256, golang.org/x/crypto/bcrypt and strings.ToLower (outputs recorded by the harness "
                    "and handed to the model as primitive results)",
                    "correspondence harness internal/server/auth/zz_verif_c25*_test.go + egodriver C25"]
    ctx.assumptions += ["PrimsOK: bcrypt verifies exactly the hashed password; SHA-256 hex injective (probed, see trusted_base_limits)",
                        "store keys equal record names (checked on every snapshot); users are provisioned under lower-case names (auth.SetUser lower-cases)"]
    ctx.lean_audit(required=REQUIRED)
    if not ctx.quick:
        ctx.leanchecker()
    ctx.prepare_tree()
    rc, out = ctx.go_test("./internal/server/auth/", "TestVerifC25", timeout=3000, extra=["-trimpath"])
    if rc != 0:
        ctx.log(out[-3000:])
        ctx.broken.append("harness TestVerifC25 failed to run (rc=%d)" % rc)
    cases = ctx.read_jsonl("c25_cases.jsonl")
    ctx.correspond(cases)
    for f in ctx.read_jsonl("c25_failures.jsonl"):
        ctx.fail(f["class"], f["what"], input=f.get("input"), got=f.get("got"), want=f.get("want"))
    st = (ctx.read_jsonl("c25_stats.json") or [{}])[0]
    c = st.get("counters", {})
    probes = ctx.read_jsonl("c25_probes.jsonl")
    limits = [p for p in probes if not p.get("hypothesis_holds")]
    if rc == 0 and (not cases or not probes):
        ctx.broken.append("harness produced no cases/probes")
    if rc == 0 and c.get("delim_attempts", 0) < 1000:
        ctx.broken.append("the delimiter corpus did not run (delim_attempts=%d)" % c.get("delim_attempts", 0))
    ctx.coverage.update({
        "evaluations": len(cases),
        "distinct_nontrivial": c.get("distinct_nontrivial", 0),
        "rule": "one evaluation = one ValidatePassword call inside a generated history on a generated store; non-trivial = "
                "distinct (stored credential, candidate, plaintext setting, upgraded?, permission label) where the user "
                "exists and the candidate is non-empty, i.e. the credential comparison is reached",
        "samples": [{"in": x["in"][:300], "impl": x["impl"], "desc": x.get("desc", "")} for x in cases[:3] + cases[-3:]],
        "counters": c,
        "delimiter_corpus_attempts": c.get("delim_attempts", 0),
        "trusted_base_probes": len(probes),
        "trusted_base_limits": limits[:12],
    })
    if limits:
        ctx.log("trusted-base limits (hypothesis bcryptMatch(bcryptHash p) q <-> p = q fails on x/crypto/bcrypt): "
                + ", ".join(sorted({p["probe"] for p in limits}))
                + "; %d such candidates met in histories, %d accepted" % (c.get("tb_limit_candidates", 0), c.get("tb_limit_accepted", 0)))
    return ctx.finish()
