"""C37 — Printed durations can be read back."""

META = {
    "level": "proof",
    "text": "Lean theorems over an executable model of FormatDuration / ParseDuration / parseDurationWithDays "
            "(internal/util/time.go) and of Go's time.ParseDuration: for EVERY int64 duration d with |d| >= 1 s, "
            "parseDuration (formatDuration d) = d truncated to the second; for EVERY spelling of the documented form "
            "(optional sign, terms <digits><unit> with units d h m s ms in that order, any white space between terms, "
            "leading zeros allowed, total within int64) parseDuration returns exactly the sum. The model is tied to the "
            "code by a differential run of the real functions (ParseDuration, parseDurationWithDays, FormatDuration, "
            "time.ParseDuration) against the model on generated durations, spellings and hostile strings, plus "
            "model-free oracles (independent regexp/big.Int reader of the printed form; round trip; exact value of "
            "generated spellings; strings Go accepts keep their value).",
    "note": "trusted: Lean kernel; the correspondence harness; Go's math/big + regexp in the oracle. Modelled, validated by "
            "correspondence only: time.ParseDuration (incl. overflow checks, uint64 wrap of d += v, fractional part via IEEE "
            "double = Lean Float; no theorem goes through the fraction branch), egostrings.Atoi restricted to digit strings "
            "(the only strings for which every prefix parses, which the loop requires), fmt %d, unicode.IsSpace. "
            "d.String() for |d| < 1 s is a parameter of the model (sub-second round trip is checked by the oracle only). "
            "The model mirrors internal/util/time.go WITH fixes/C37.patch (spaced forms without days, leading sign on the "
            "day path, integer instead of float64 field extraction). Known finding (not repaired): Go terms with a "
            "fraction or a us/µs/ns unit are rejected once the string contains 'd' or white space "
            "(C37_fraction_with_days_counterexample).",
    "technique": "Lean 4 proof (induction over term lists, invariants of the scanning loop) + model/implementation correspondence",
    "design_ref": "DESIGN.md §6 C37",
}

REQUIRED = ["C37_roundtrip", "C37_documented_forms", "C37_format_is_spelling",
            "C37_fraction_with_days_counterexample", "C37_unfixed_counterexample"]
MODULES = ["EgoVerif.C37.Lemmas", "EgoVerif.C37.Props"]


def run(ctx):
    ctx.trusted += ["Go math/big, regexp (oracle arithmetic and the independent reader of the printed form)",
                    "translator: none; correspondence harness internal/util/zz_verif_c37_test.go + egodriver C37"]
    ctx.assumptions += ["|d| >= 1 s and d != MinInt64 for the round trip (below 1 s FormatDuration prints Go's compact form; "
                        "MinInt64 prints \"-\")",
                        "documented form = optional sign, <digits><unit> terms in the order d h m s ms, white space between "
                        "terms, total <= MaxInt64 ns",
                        "time.ParseDuration, Atoi, fmt %d enter as models validated by the differential run"]
    ctx.lean_audit(modules=MODULES, required=REQUIRED)
    if not ctx.quick:
        ctx.leanchecker(MODULES)
    ctx.prepare_tree()
    rc, out = ctx.go_test("./internal/util/", "TestVerifC37", timeout=1500)
    if rc != 0:
        ctx.log(out[-3000:])
        ctx.broken.append("harness TestVerifC37 failed to run (rc=%d)" % rc)
    cases = ctx.read_jsonl("c37_cases.jsonl")
    ctx.correspond(cases)
    fl = ctx.read_jsonl("c37_failures.jsonl")
    first = {}
    for f in fl:
        first.setdefault(f["class"], f)
    # one witness of every failing class first, so that the replay file shows them all
    for f in list(first.values()) + [f for f in fl if first[f["class"]] is not f]:
        ctx.fail(f["class"], f["what"], input=f.get("input"), got=f.get("got"), want=f.get("want"))
    st = (ctx.read_jsonl("c37_stats.json") or [{}])[0]
    c = st.get("counters", {})
    ctx.coverage.update({
        "evaluations": len(cases),
        "distinct_nontrivial": c.get("distinct_nontrivial", 0),
        "rule": "rt: durations (boundaries x sub-second offsets, random at second and nanosecond resolution in ±10^6 h, "
                "whole int64 range, thorough: strided sweep of ±10^6 h); doc: generated spellings of the documented form; "
                "non-trivial = the printed / spelled string contains a space, a 'd' or a sign (distinct strings counted); "
                "docfrac: Go fraction / sub-ms terms with days or spaces; hostile: random and mutated strings (not counted)",
        "samples": st.get("samples", []),
        "counters": c,
    })
    return ctx.finish()
