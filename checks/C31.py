"""C31 — User stores agree and persist."""

META = {
    "level": "proof",
    "text": "Lean model of both implementations of userIOService (users_file.go: map + dirty flag + JSON file; "
            "users_sqldb.go: the resources read/insert/update/delete operations on the keyed table plus the AuthCache) and of "
            "the client code over the interface (setPermission/GetPermission/GetPermissions, SetUser/DeleteUser). Proved by "
            "simulation + induction over operation lists: for EVERY history (write/delete/read/list/grant/revoke/has/perms/"
            "flush/reopen/cache eviction/setuser/deluser) the file store refines the UserMap specification and the database "
            "store refines it, each with its own default-user-at-open policy; hence the two stores give identical answers on "
            "every history in which the two policies decide alike at each reopen (C31_agree_partial; the excluded class is a "
            "known finding with a proved counterexample). Tie: three-way differential run of the real file store (temp file), "
            "the real SQLite store (temp file) and the model on random hostile histories; model-free oracle = the two real "
            "stores agree on every answer and each store's content survives Close/New…Service.",
    "note": "Model mirrors the tree WITH fixes/C31.patch (mask string, empty-vs-nil permission list in setPermission, "
            "encrypted user file reload). Trusted/modelled, not verified: JSON and SQLite persistence (hypothesis: parsing "
            "what was written gives the same map = FileCodec.rt; the table is durable), I/O errors never happen, bcrypt and "
            "uuid values are inputs of the history, strings.ToLower/EqualFold are parameters (the driver implements them for "
            "ASCII, Latin-1, Greek, Cyrillic only and the generator stays inside), nil and empty permission lists are "
            "identified (sound once setPermission tests len()==0), Passkeys compared as compacted JSON. Known findings: the "
            "default user is re-created at reopen under different rules; strings that are not valid UTF-8 are not persisted "
            "by the file store. Concurrency and the in-memory ('memory') file store are out of scope.",
    "technique": "Lean 4 proof (forward simulation, induction over histories) + three-way model/implementation correspondence",
    "design_ref": "DESIGN.md §6 C31",
}

REQUIRED = ["C31_file_refines", "C31_db_refines", "C31_agree_partial", "C31_agree_counterexample",
            "C31_db_write_never_fails", "C31_db_keys_unique"]


def run(ctx):
    ctx.trusted += ["encoding/json, modernc.org/sqlite, bcrypt, uuid (Go) — persistence and randomness enter the model as "
                    "hypotheses / history inputs",
                    "translator: none; correspondence harness internal/server/auth/zz_verif_c31_test.go + egodriver C31"]
    ctx.assumptions += ["user names, hashes and permission names are valid UTF-8 (otherwise: known finding invalid-utf8)",
                        "no I/O or SQL error occurs; single-threaded histories",
                        "Passkeys hold valid JSON (they are produced by json.Marshal)"]
    ctx.lean_audit(required=REQUIRED)
    if not ctx.quick:
        ctx.leanchecker()
    ctx.prepare_tree()
    rc, out = ctx.go_test("./internal/server/auth/", "TestVerifC31", timeout=2400)
    if rc != 0:
        ctx.log(out[-3000:])
        ctx.broken.append("harness TestVerifC31 failed to run (rc=%d)" % rc)
    cases = ctx.read_jsonl("c31_cases.jsonl")
    ctx.correspond(cases)
    for f in ctx.read_jsonl("c31_failures.jsonl"):
        ctx.fail(f["class"], f["what"], input=f.get("input"), got=f.get("got"), want=f.get("want"))
    st = (ctx.read_jsonl("c31_stats.json") or [{}])[0]
    c = st.get("counters", {})
    ctx.coverage.update({
        "evaluations": len(cases),
        "distinct_nontrivial": c.get("distinct_nontrivial", 0),
        "rule": "one evaluation = one operation applied to both real stores and both models; histories start from nothing "
                "(fresh temp files) and mix write/delete/read/list/grant/revoke/has/perms/flush/reopen/evict/setuser/deluser "
                "over case variants, empty, quoted, NUL, comment-like, Unicode and very long names; non-trivial history = "
                "an observation made after a reopen that followed at least three mutations (distinct by SHA-256 of the history)",
        "samples": st.get("samples", [])[:3],
        "counters": c,
    })
    return ctx.finish()
