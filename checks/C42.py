"""C42 — concurrent service requests do not see each other."""
import os, re, shutil

META = {
    "level": "proof",
    "text": "PARTIAL (proved: the ownership model of the service cache; searched: real goroutine schedules). "
            "Lean model of ServiceHandler's per-request symbol table, the service cache entry "
            "(getCachedService / addToCache / updateCachedServiceSymbols / FlushServiceCache) and symbols.Merge as an "
            "ownership graph. Proved for EVERY interleaving of the handler regions of any number of requests, flushes and "
            "failing runs: what a request's service code can observe is exactly its own URL parts, its own \"_\"-symbols and "
            "the packages (C42_response_own_request), hence the same as when it is served alone from a cold cache "
            "(C42_same_as_alone); a mutable object referenced from two requests' tables is package-level (C42_disjoint); "
            "the cached table hands out only package references (C42_cache_shares_only_packages). The model mirrors the "
            "code WITH fixes/C42.patch; the code as found leaks the first request's URL-part variables into every later "
            "request through the cached table (C42_unfixed_counterexample). Tie: serial histories through the real "
            "router + ServiceHandler (requests, assignments to URL-part variables, run-time failures, flushes, caching off) "
            "are replayed on the model, comparing what the service read and the state of the real ServiceCache entry. "
            "Search: generated stateless services x batches of 2-32 concurrent requests with distinct markers x "
            "GOMAXPROCS 1/4/16, also under the race detector; each response must equal a reference computed from the "
            "request alone and the response to the same request served alone, and contain no other request's marker. "
            "The generated services also build values from struct / map / array LITERALS ({}, {who: a, opt: {}}, map and array "
            "literals, typed T{}, literals in loops, helpers, copies; 0-3 per service) whose optional members are set only when "
            "the request has a body / a b parameter; dedicated services (one per literal kind) are served from ONE cached "
            "compilation by requests that set every optional member followed - serially, after a failing run, and concurrently - "
            "by requests that set none; at quiescent points the constants embedded in the cached bytecode (every instruction "
            "operand, function bodies included) must equal those of a fresh compilation of the same file.",
    "note": "trusted: Lean kernel; the harness and its Go reference of the generated services; Go's race detector. "
            "Modelled, not verified: the bytecode interpreter (a run reads its own table and may assign its URL-part "
            "variables; locals live in the per-request child table), the locks (not modelled: the theorems cover a superset "
            "of the real interleavings), package-level state (packages are opaque shared objects, excluded by the property), "
            "Ego `go` statements inside a service. Real schedules are sampled, not enumerated; the C08 yield hook is not used. "
            "The compiled code handed out by the cache is one shared object in the model; that a run does not change it is not "
            "proved but checked (literal services + constants probe). Repaired in /repo (e7f3c5e0): `m[k] = {}` / `[]any{ {} }` followed by a "
            "change through the element wrote into the compiled constant; {} now yields a copy on every evaluation.",
    "technique": "Lean 4 proof (invariant over all operation lists) + model/implementation correspondence + concurrent search with -race",
    "design_ref": "DESIGN.md §6 C42",
}

REQUIRED = ["C42_response_own_request", "C42_same_as_alone", "C42_disjoint", "C42_cache_shares_only_packages",
            "C42_unfixed_counterexample", "inv_step", "tget_merge"]


def _collect(ctx, suffix, label):
    for f in ctx.read_jsonl("c42_failures%s.jsonl" % suffix):
        ctx.fail(f["class"], "%s: %s" % (label, f["what"]), input=f.get("input"), got=f.get("got"), want=f.get("want"))
    st = (ctx.read_jsonl("c42_stats%s.json" % suffix) or [{}])[0]
    return st


def run(ctx):
    ctx.trusted += ["correspondence harness internal/server/services/zz_verif_c42*_test.go + egodriver C42",
                    "the Go reference c42Expect of the generated services; Go race detector"]
    ctx.assumptions += ["a service run reads the symbols of its own request table and assigns only its URL-part variables there",
                        "packages are shared by design (the property excludes package-level state)",
                        "model steps are atomic regions; the locks are not modelled (superset of interleavings)",
                        "a run does not modify the cached bytecode (checked each run: constants of the cached compilation "
                        "equal those of a fresh compilation after requests were served)"]
    ctx.lean_audit(required=REQUIRED)
    if not ctx.quick:
        ctx.leanchecker()
    ctx.prepare_tree()

    # 1. plain run: serial histories (correspondence) + concurrent batches (oracles)
    rc, out = ctx.go_test("./internal/server/services/", "TestVerifC42", timeout=3000)
    if rc != 0:
        ctx.log(out[-3000:])
        ctx.broken.append("harness TestVerifC42 failed to run (rc=%d)" % rc)
    cases = ctx.read_jsonl("c42_cases.jsonl")
    ctx.correspond(cases)
    st = _collect(ctx, "", "plain")
    c = dict(st.get("counters", {}))

    # 2. the same search under the race detector (needs cgo + gcc)
    race = "not run (no gcc)"
    if shutil.which("gcc"):
        rc2, out2 = ctx.go_test("./internal/server/services/", "TestVerifC42", timeout=3000, race=True,
                                env={"VERIF_C42_SUFFIX": ".race"})
        races = len(re.findall(r"WARNING: DATA RACE", out2))
        if races:
            i = out2.find("WARNING: DATA RACE")
            ctx.fail("data-race-while-serving-concurrent-requests",
                     "the race detector reported %d data race(s) while generated stateless services were served concurrently" % races,
                     input="go test -race TestVerifC42 (seed %s)" % ctx.seed, got=out2[i:i + 2500])
        elif rc2 != 0:
            ctx.log(out2[-3000:])
            ctx.broken.append("harness TestVerifC42 under -race failed to run (rc=%d)" % rc2)
        st2 = _collect(ctx, ".race", "race build")
        c2 = st2.get("counters", {})
        race = "run: %d concurrent requests, %d data races" % (c2.get("requests.concurrent", 0), races)
        for k, v in c2.items():
            c["race." + k] = v
    ctx.coverage.update({
        "evaluations": len(cases) + c.get("requests.concurrent", 0) + c.get("race.requests.concurrent", 0)
                       + c.get("requests.literal-serial", 0) + c.get("race.requests.literal-serial", 0),
        "distinct_nontrivial": c.get("distinct_nontrivial", 0),
        "rule": "distinct (service pattern, batch size, GOMAXPROCS, method, fail/assign/body flags) of concurrent requests plus distinct "
                "(number of URL parts, caching, fail, assign, cache state) of serial history steps plus distinct (literal blocks, step, "
                "optional inputs present) of the literal sequences; every request carries a unique marker in URL parts, parameters, "
                "user and body, so all are non-trivial",
        "literal_sequences": {"serial_requests": c.get("requests.literal-serial", 0),
                              "compilations_probed": c.get("probe.compilations-compared", 0),
                              "constants_compared": c.get("probe.constants-compared", 0)},
        "race_detector": race,
        "samples": st.get("samples", []),
        "counters": c,
    })
    return ctx.finish()
