"""C04 — strict-mode programs mean the same under relaxed typing."""
import importlib

META = {
    "level": "proof",
    "text": "PARTIAL (proved: for ALL operands, each of the four coercion boundaries — expression [add/sub/mul/div/mod, negate, "
            "fused Increment], assignment [Store of computed values and of constants], function argument [validateStrictParameterTyping "
            "+ fetchArgValue] and return value [coerceByteCode/requireMatch] — is monotone in the type mode on the integer kinds with int "
            "and float64 constants: a strict success is a relaxed success with the same value and type; lifted by induction over "
            "statement lists to C04_strict_implies_relaxed for every program of a straight-line statement language [declare, assign, "
            "op-assign, fused increment, call-with-coercion, print, return]; interface{} parameters/results and nil for nillable result "
            "types are modelled too. Only searched: everything else a program can do — floats as values, strings, structs, arrays, maps, "
            "loops, closures, named types — by a two-mode differential run of generated strict-accepted programs at optimizer levels 0 "
            "and 2, including an aliasing stream: containers of every element kind sent through typed boundaries [function results "
            "from a global / parameter / field / captured variable, typed initializer elements, typed declarations], written through "
            "one name and read through the other; and reference values at the argument / return / store boundaries with a "
            "pointer-identity answer). The model is tied to the code by running the REAL validateFunctionArguments/argByteCode/coerceByteCode/storeByteCode "
            "on real Contexts against the Lean functions, and generated statement-language programs through the REAL compiler against "
            "the Lean `exec`, and the REAL coerceByteCode on arrays, maps, structs and pointers of every element kind against `retRef`; the dispatch sets of math.go are regenerated on every run (C03's translator).",
    "note": "trusted: Lean kernel; tools/extract_c03; the harnesses zz_verif_c04_test.go (bytecode/, compiler/) and C03's helpers. "
            "Builds on C03's model (binop, negate, increment, store). modelled-not-verified: ego.runtime.precision.error=true; float/"
            "string/bool/struct/array VALUES at the boundaries; loops and branches in the program model (straight-line only). The "
            "current tree needs fixes/C04.patch (nil is accepted for map/slice result types in every mode, as strict mode already "
            "did); the pre-fix behaviour is stated as C04_prefix_retNil_counterexample. Known findings left unfixed: (1) an "
            "interface{} parameter receives the bare value in strict mode and a data.Interface wrapper in relaxed mode — "
            "C04_argIface_counterexample, C04_argIface_partial (same payload) — visible as `5` vs `interface{ int 5 }` when printed; "
            "making strict wrap too is a 1-line change but breaks tests/types/interfaces.ego in strict mode, so no patch is "
            "proposed; (2) a value of a named scalar type (type N int8) returned through a declared result type N keeps its name "
            "in strict mode and decays to int8 in relaxed mode (visible with %T) — outside the Lean value model, found by search.",
    "technique": "Lean 4 proof (per-boundary monotonicity + induction over programs) + model/implementation correspondence + two-mode differential oracle",
    "design_ref": "DESIGN.md §6 C04",
}

REQUIRED = ["C04_strict_implies_relaxed", "C04_same_output", "C04_mono_binop", "C04_mono_increment", "C04_mono_store",
            "C04_mono_storeOp", "C04_mono_arg", "C04_mono_ret", "C04_mono_retIface", "C04_mono_retNil", "C04_mono_retRef",
            "C04_retRef_asymmetric_counterexample", "C04_argIface_counterexample",
            "C04_argIface_partial", "C04_prefix_retNil_counterexample"]


def run(ctx):
    c03 = importlib.import_module("checks.C03")
    ctx.overlay_also = ("C03",)          # C04's bytecode harness builds on C03's helpers (c03Operand, c03Context, …)
    ctx.trusted += ["translator tools/extract_c03 (go/ast, fails closed)", "harnesses zz_verif_c04_test.go in bytecode/ and compiler/ (+ C03 helpers)"]
    ctx.assumptions += ["ego.runtime.precision.error = false (default)",
                        "Lean value model: integer kinds, int constants, float64 constants 0..127(.5); everything else is searched only"]
    ctx.lean_audit(required=REQUIRED)
    if not ctx.quick:
        ctx.leanchecker()
    ctx.prepare_tree()
    sets = c03.extract(ctx)
    header = []
    if sets:
        header = [{"in": "D %s %s" % (k, ",".join(v) if v else "-"), "impl": "ok"} for k, v in sorted(sets.items())]
        ctx.coverage["dispatch_sets"] = sets
    rc, out = ctx.go_test("./internal/language/bytecode/", "TestVerifC04", timeout=3000)
    if rc != 0:
        ctx.log(out[-3000:])
        ctx.broken.append("harness TestVerifC04 failed to run (rc=%d)" % rc)
    rc2, out2 = ctx.go_test("./internal/language/compiler/", "TestVerifC04Source", timeout=3000)
    if rc2 != 0:
        ctx.log(out2[-3000:])
        ctx.broken.append("harness TestVerifC04Source failed to run (rc=%d)" % rc2)
    cases = ctx.read_jsonl("c04_cases.jsonl")
    pcases = ctx.read_jsonl("c04s_cases.jsonl")
    ctx.correspond(header + cases, label="boundary correspondence (argument / return / store)")
    ctx.correspond(header + pcases, label="program correspondence (statement language through the real compiler)")
    # the replay file keeps the first failures only: report the first two witnesses of every class before the rest
    allf = [f for name in ("c04_failures.jsonl", "c04s_failures.jsonl") for f in ctx.read_jsonl(name)]
    rank = {}
    head, tail = [], []
    for f in allf:
        rank[f["class"]] = rank.get(f["class"], 0) + 1
        (head if rank[f["class"]] <= 2 else tail).append(f)
    for f in head + tail:
        ctx.fail(f["class"], f["what"], input=f.get("input"), got=f.get("got"), want=f.get("want"))
    st = (ctx.read_jsonl("c04_stats.json") or [{}])[0]
    st2 = (ctx.read_jsonl("c04s_stats.json") or [{}])[0]
    c = dict(st.get("counters", {}))
    c.update({"source." + k: v for k, v in st2.get("counters", {}).items()})
    ctx.coverage.update({
        "evaluations": len(cases) + len(pcases) + c.get("source.runs", 0),
        "distinct_nontrivial": c.get("distinct_nontrivial", 0) + c.get("source.distinct_nontrivial", 0),
        "rule": "boundary cells: (boundary, mode, declared type, operand) on a real Context; non-trivial = operand is a constant or "
                "differs in kind from the declared type, distinct by protocol line; reference cells (retref) always count. programs: distinct generated source texts that "
                "strict mode ran to completion with non-empty output and that contain at least one typed boundary (typed declaration, "
                "call of a typed function, op-assign or cast; every aliasing program has one); each is run in strict and relaxed mode at optimizer levels 0 and 2",
        "samples": st.get("samples", [])[:3] + st2.get("samples", [])[:4],
        "counters": c,
    })
    return ctx.finish()
