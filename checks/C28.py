"""C28 — server caches behave like bounded expiring maps."""
import os

META = {
    "level": "proof",
    "text": "Lean theorems over a state-machine model of internal/caches (one step = one critical section under "
            "cacheLock; ops add/find/delete/purge/purgeLocal/setExpiration/sweep/tick, eviction log): for EVERY op "
            "list the model refines a plain keyed map with deadlines (functions Key -> Option (value, deadline), true "
            "cardinality in the capacity rule); a hit returns the latest stored value with no delete/purge since; "
            "no value after delete/purge; size <= limit with distinct keys; every entry removed by delete/expiry is "
            "reported exactly once and nothing else is reported; a cache's lifetime is the one last configured, "
            "purges notwithstanding; sweeper-goroutine time advance and PurgeAll decompose into those ops. Tied to the "
            "code by a differential run of the real package in a synctest bubble (full package state compared after "
            "every op), a model-free ledger oracle, a go/ast lock-discipline check, concurrent histories checked "
            "for a linearisation against the model (validation) and run under -race, and parallel bursts on one hot key "
            "(writers looping add/del/find/sweep against many Find callers) checked by the ledger per writer operation "
            "and at the quiescent point after every burst (last completed write decides what Find returns; Size; "
            "each stored entry reported at most once).",
    "note": "The model mirrors the code WITH fixes/C28.patch (SetExpiration remembered across Purge; PurgeAll reads "
            "cacheList under the lock); on the unpatched tree the check reports VIOLATION (classes "
            "lifetime-lost-after-purge, unlocked-map-access). Trusted: Lean kernel; testing/synctest virtual clock; "
            "Go's time.ParseDuration (durations enter the model as whole seconds from the generator's table); the "
            "harness. Modelled, not verified: the sweeper schedule (Sys level: wake-ups every scanTime) is validated "
            "by correspondence and the harness oracle only (C28_sweeper_alive_statement is stated, not proved); linearisability of concurrent runs is validation (search over interleavings), "
            "backed by the source-level check that every shared-map access holds cacheLock. Not modelled: Active(), "
            "logging fields (ID, MaxWidth, HasLogged), SetOnEvict changes during a history.",
    "technique": "Lean 4 proof (invariants + refinement, induction over op lists) + model/implementation correspondence",
    "design_ref": "DESIGN.md §6 C28",
}

REQUIRED = ["C28_refines", "C28_refines_run", "C28_bounded", "C28_find_latest", "C28_find_present",
            "C28_no_value_after_removal", "C28_evict_once", "C28_evict_complete", "C28_lifetime_survives_purge",
            "C28_deadline_uses_configured_lifetime", "C28_sys_decomposes"]


def run(ctx):
    ctx.trusted += ["testing/synctest (Go 1.26) virtual clock; time.ParseDuration",
                    "translator: none; correspondence harness internal/caches/zz_verif_c28_test.go + egodriver C28"]
    ctx.assumptions += ["one model step = one critical section: every access to cacheList / expirationThreadRunning / "
                        "configuredExpiration holds cacheLock (checked on the source by the harness with go/ast)",
                        "MaxCacheSize and the eviction listener do not change during a history; caching stays Active",
                        "times and lifetimes are whole seconds"]
    mods = ["EgoVerif.C28." + m for m in ("Lemmas", "Invariant", "Look", "Frame", "Props")]
    ctx.lean_audit(modules=mods, required=REQUIRED)
    if not ctx.quick:
        ctx.leanchecker(mods)
    ctx.prepare_tree()
    ctx.log("tree ready; running the harness")
    rc, out = ctx.go_test("./internal/caches/", "TestVerifC28", timeout=1500, extra=["-trimpath"])
    ctx.log("harness done rc=%d" % rc)
    if rc != 0:
        ctx.log(out[-3000:])
        ctx.broken.append("harness TestVerifC28 failed to run (rc=%d)" % rc)
    cases = ctx.read_jsonl("c28_cases.jsonl")
    seq = [c for c in cases if not c["in"].startswith("lin ")]
    lin = [c for c in cases if c["in"].startswith("lin ")]
    ctx.correspond(seq, label="correspondence(sequential histories)")
    ctx.correspond(lin, label="linearisation(concurrent histories; validation)")
    fails = ctx.read_jsonl("c28_failures.jsonl")

    # the concurrent histories again under the race detector (needs cgo)
    race = "not run"
    race_fail = None
    rrc, rout = ctx.go_test("./internal/caches/", "TestVerifC28", timeout=1500, race=True,
                            env={"VERIF_C28_MODE": "race"}, extra=["-trimpath"])
    ctx.log("race-mode harness done rc=%d" % rrc)
    if "DATA RACE" in rout or "concurrent map" in rout:
        race = "race reported"
        i = rout.find("DATA RACE")
        if i < 0:
            i = rout.find("concurrent map")
        funcs = sorted(set(l.strip().split("(")[0].split("/")[-1] for l in rout.splitlines()
                           if l.strip().startswith("github.com/tucats/ego/internal/caches.") and "c28" not in l))
        race_fail = dict(cls="data-race", what="go test -race reports a data race in the caches package (" + ", ".join(funcs[:6]) + ")",
                         input="TestVerifC28 VERIF_C28_MODE=race seed=%d" % ctx.seed, got=rout[max(0, i - 100):i + 1500])
    elif rrc != 0 and ("-race requires cgo" in rout or "-race is only supported" in rout or "C compiler" in rout
                       or "exec: \"gcc\"" in rout or "cgo" in rout.lower() and "not" in rout.lower() and "ok  " not in rout):
        race = "unavailable: " + rout.strip().splitlines()[-1][:200]
        ctx.notes.append("race build unavailable, concurrent histories ran without the race detector")
        ctx.log("race build unavailable:", rout[-400:])
    elif rrc != 0:
        ctx.log(rout[-3000:])
        ctx.broken.append("harness TestVerifC28 (race mode) failed to run (rc=%d)" % rrc)
        race = "failed"
    else:
        race = "clean"
        rcases = ctx.read_jsonl("c28r_cases.jsonl")
        ctx.correspond(rcases, label="linearisation(concurrent histories under -race; validation)")
        lin += rcases
        fails += ctx.read_jsonl("c28r_failures.jsonl")

    for f in fails:
        ctx.fail(f["class"], f["what"], input=f.get("input"), got=f.get("got"), want=f.get("want"))
    if race_fail:
        ctx.fail(race_fail["cls"], race_fail["what"], input=race_fail["input"], got=race_fail["got"])
    st = (ctx.read_jsonl("c28_stats.json") or [{}])[0]
    c = st.get("counters", {})
    ctx.coverage.update({
        "evaluations": len(seq) + len(lin),
        "sequential_histories": c.get("seq.histories", 0),
        "concurrent_histories": len(lin),
        "hammer_bursts": c.get("hammer.bursts", 0),
        "hammer_writer_ops": c.get("hammer.writer_ops", 0),
        "hammer_reader_finds": c.get("hammer.reader_finds", 0),
        "distinct_nontrivial": c.get("distinct_nontrivial", 0),
        "race_detector": race,
        "rule": "histories of 4-40 ops (add/find/del/purge/purgel/purgeall/setexp/sweep/adv) over 3 classes, 2-6 look-alike keys "
                "(\"1\", 1, int64(1), uint8(1), struct, array), MaxCacheSize 0-4 (global or via the setting), 26 duration texts "
                "(negative, zero, fractional, malformed), 24 advance steps around the 60 s scan/expiry boundaries; a fixed corpus of "
                "19 nasty histories first; non-trivial = the history saw a hit, an eviction and (a purge or a capacity rejection); "
                "concurrent: prefix + 2-4 goroutines x 2-5 ops with invocation/response stamps; hammer: bursts of 1-3 writer "
                "goroutines looping a 2-7 op add/del/find/sweep program on 1-2 hot keys against 2-6 goroutines calling Find on "
                "the same keys (tight / Gosched / busy-spin spacing), lifetimes 1h, default and -5s (sweep = delete), "
                "ledger oracle per writer op (single writer) and quiescent-point oracle after every burst",
        "samples": st.get("samples", []),
        "counters": c,
    })
    return ctx.finish()
