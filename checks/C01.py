"""C01 — Go-compatible programs print what Go prints."""
import os

META = {
    "level": "proof",
    "text": "PARTIAL (the real compiler/VM is corresponded on generated programs, not proved; the refinement theorem "
            "excludes the request classes on which the current tree is known to diverge). Lean: MiniGo, a small-step "
            "reference interpreter run(D, p, fuel) over node-table programs (typed ints of every width, bool, strings, "
            "variables, += -= *= /= ++ --, if, three for forms + range, labelled break/continue, switch, functions with "
            "multiple/named results and recursion, closures over cells, []int, map[int]int comma-ok, structs + methods, "
            "defer/panic/recover, Println/Printf) in which everything Go and Ego can differ on is a request answered by a "
            "Dialect (goDialect = Go spec, egoDialect mode = Ego's rules). Proved for ALL programs, fuels and modes: "
            "run_fuel_mono, run_congr, run_refine, prestep_common (common-subset programs only issue common requests), the "
            "dialect agreement table C01_ego_refines_go (every common request outside the known classes: Go stuck or Ego "
            "answers like Go), hence C01_refines_go_partial / _abort_partial: InCommonSubset p, no known-divergent request "
            "issued, Go finishes/aborts with output out => every Ego mode finishes/aborts identically; counterexamples for "
            "the unrestricted statement. Tie: a typed generator prints each program as identical Go and Ego text plus the "
            "Lean table; real Go (go build, one binary) and the real Ego compiler+VM (3 type modes x optimizer 0/2, "
            "in-process) run it; Lean(goDialect) must equal real Go and Lean(egoDialect mode) must equal real Ego line "
            "by line; direct oracle: Ego's stdout/end == Go's.",
    "note": "trusted: Lean kernel; the Go toolchain as reference; the harness (generator, printers, table serialiser) — "
            "a bug there shows as a Lean-vs-Go disagreement. Modelled, not proved: the Ego compiler/VM (tied by "
            "correspondence only). In the generator/oracle only, not in the Lean model: struct VALUE semantics (a second, "
            "source-only generator: two-level structs stored into []Out / map[int]Out by composite literal, element "
            "assignment, append, map literal / store, and received in range value variables, with every variable and "
            "element printed after every step; class struct-copy:<site>) and KEPT CLOSURES in collections (a third, "
            "source-only generator: loops — 3-clause up/down, range over []int, []string, an integer — whose bodies create "
            "function literals / deferred literals over the loop variables inside nested blocks (if, else, else-if, switch "
            "case, bare block, inner loop, if in if), with and without declarations or closures directly in the body, keep "
            "them in a []func, map[int]func, struct field, struct literal in a slice, variable or defer, and call every one "
            "after the loops: Go 1.22 per-iteration loop variables; class closure-in-nested-block-of-loop-body; the typed "
            "generator carries the modelled part of it: `kf = func…` stored in a nested block of a loop body, called after "
            "the loop, through the Lean table too); outside both: variadics, floats, string "
            "indexing, slice aliasing, named constants, goroutines. The Lean table holds RESOLVED variables: a shadowing "
            "declaration (`x := x + 1` inside a loop body or if block) is a fresh variable id printed with the hidden "
            "variable's name, so name resolution is the generator's (a mistake there shows on the Go leg). A statement in "
            "which an operation that may fault precedes a call is not generated (Go leaves that order open). "
            "fixes/C01-1.patch (return from inside a range loop left the callee's entry on the range stack: the caller's "
            "range loop, when its body shares one scope, then ended early or failed with 'unknown symbol'; class "
            "return-in-range-called-from-range), C01-2.patch (optimizer >= 1: a loop body sharing one scope kept the "
            "previous iteration's `x := …` where the body reads the OUTER x first or in the initializer; class "
            "shadow-decl-in-loop-body), C01-3.patch and C01-4.patch (struct values stored into slice/map elements by "
            "literal, element assignment, map store, append, and range value variables were aliased, not copied; classes "
            "struct-copy:*), C01-5.patch (optimizer >= 1 folded `f := func…` into one instruction that stored the literal "
            "without capturing its scope, so the closure resolved its free variables at the CALL site and saw a variable "
            "that shadows one of them there; class closure-variable-shadowed-at-call-site), C01-6.patch (<, <=, >, >= "
            "between a uint above MaxInt64 and a literal beyond the int32 range compared as int64; class "
            "uint-ordered-against-wide-literal) and C01-7.patch (`return` inside a range loop nested in a range loop left "
            "a loop marker on the stack: 'function did not return the expected number of values'; class "
            "return-inside-nested-range-loops) repair these — without them the check reports VIOLATION with the failing "
            "programs. The egoDialect cells for "
            "operands of DIFFERENT kinds follow C03's model and are not exercised here (Go rejects such programs). "
            "Known-divergent classes are excluded from the theorem by name (Req.known) and reported as KNOWN-FINDING: "
            "mirrored in the model (quirk requests / dialect cells, exercised by 'hot' generated programs): deferred calls "
            "before a return expression, right-to-left return list, element assignment evaluating the right side first, "
            "runtime error skipping deferred calls, constant-expression operand typed int, strict literal argument, "
            "dynamic literal assignment; witnessed by corpus programs only (Ego rejects or mis-runs the program, nothing to "
            "model): for-post `i += k`, label inside a block, int literal beyond int32 typed int64, named results + leaving "
            "a variable-declaring loop, named `return e1, e2` assigning sequentially. fixes/C01.patch repairs two further "
            "defects (typed loop variable `j++` in a for clause became int; break/continue inside a switch `default:` "
            "corrupted the scope stack) — without it the check reports VIOLATION with the failing programs. "
            "recover() is modelled for the canonical deferred-closure pattern only; closures called inside expressions "
            "only read outer variables (Go leaves that order unspecified).",
    "technique": "Lean 4 proof (induction on fuel over a small-step machine; case analysis of the request table) "
                 "+ two-legged model/implementation correspondence (real Go, real Ego) + differential oracle",
    "design_ref": "DESIGN.md §6 C01",
}

REQUIRED = ["run_fuel_mono", "run_congr", "run_refine", "prestep_common", "C01_ego_refines_go",
            "C01_binop_same_kind", "C01_unop_incr_same", "C01_refines_go_general", "C01_refines_go_partial",
            "C01_refines_go_abort_partial", "C01_refines_go_any_fuel", "C01_refines_go_counterexample",
            "C01_refines_go_abort_counterexample"]


def run(ctx):
    ctx.trusted += ["the Go toolchain (go build / run) is the reference implementation of Go",
                    "correspondence harness internal/commands/zz_verif_c01*_test.go + egodriver C01 (no translator)"]
    ctx.assumptions += ["programs are drawn from the typed generator's sub-language (see META.note); termination is by "
                        "construction (bounded loops, guarded recursion), fuel 400000 is never exhausted",
                        "ego is run in-process exactly as commands/run.go does (compile + @entrypoint main, fresh symbol "
                        "table per run, type mode and optimizer level set through the same settings)"]
    ctx.lean_audit(modules=["EgoVerif.C01.Table", "EgoVerif.C01.Props"], required=REQUIRED)
    if not ctx.quick:
        ctx.leanchecker(modules=["EgoVerif.C01.Table", "EgoVerif.C01.Props"])
    ctx.prepare_tree()
    env = {}
    if not os.environ.get("VERIF_CASES"):
        env["VERIF_CASES"] = str(ctx.n(100, 900))
    rc, out = ctx.go_test("./internal/commands/", "TestVerifC01", timeout=6000, env=env)
    if rc != 0:
        ctx.log(out[-3000:])
        ctx.broken.append("harness TestVerifC01 failed to run (rc=%d)" % rc)
    cases = ctx.read_jsonl("c01_cases.jsonl")
    ctx.correspond([c for c in cases if c["in"].startswith("run go ")], label="Lean goDialect vs real Go")
    ctx.correspond([c for c in cases if not c["in"].startswith("run go ")], label="Lean egoDialect vs real Ego")
    for f in ctx.read_jsonl("c01_failures.jsonl"):
        ctx.fail(f["class"], f["what"], input=f.get("input"), got=f.get("got"), want=f.get("want"))
    st = (ctx.read_jsonl("c01_stats.json") or [{}])[0]
    c = st.get("counters", {})
    if c.get("go_invalid", 0):
        ctx.broken.append("generator produced %d programs the Go compiler rejects" % c["go_invalid"])
    if rc == 0 and c.get("programs", 0) == 0:
        ctx.broken.append("no program was run")
    ctx.coverage.update({
        "evaluations": len(cases),
        "programs": c.get("programs", 0),
        "ego_runs": c.get("ego_runs", 0),
        "distinct_nontrivial": c.get("distinct_nontrivial", 0),
        "rule": "programs: fixed corpus (hand-written programs + one witness per known class) then typed random programs "
                "(2-6 functions, closures, defers, loops, switch, slices/maps/structs, every integer width, boundary "
                "literals, shadowing declarations in loop bodies, functions that return from inside a range loop called "
                "from range loops); every 5th program carries ONE construct of a known-divergent class; then struct-value "
                "programs (one copy site each, 7 sites in turn; no Lean table); then closure-capture programs (closures over loop "
            "variables created in nested blocks of loop bodies, kept in slices / maps / struct fields / variables / defers "
            "and called after the loops; no Lean table); typed programs carry the 'kept closure' loop shape (a closure "
            "stored from a nested block of a loop body, called after the loop); non-trivial = distinct "
                "program text whose Go run produces more than 16 bytes of output; each program runs under real Go and "
                "under Ego in 3 type modes x optimizer {0,2}",
        "samples": st.get("samples", [])[:4],
        "counters": {k: v for k, v in c.items() if not k.startswith("feat.op:")},
    })
    return ctx.finish()
