"""C17 — @transaction requests are all-or-nothing and release their transaction/lock on every exit."""
import os
import shutil

META = {
    "level": "proof",
    "text": "Lean theorems over a control-flow model of scripting.Handler + database.Begin/Commit/Rollback/Close "
            "(operations, error conditions and COMMIT abstracted to their outcomes; database reduced to committed / "
            "pending / in-transaction / write-lock / d.Transaction / handle): for EVERY task list and outcome assignment, "
            "every exit leaves no transaction, lock or open handle (C17_released, and C17_released_iff_covered: exactly "
            "when each exit is covered), and the request is atomic — 2xx with every write durable, or non-2xx with "
            "nothing durable (C17_atomic_partial; C17_ok_iff says when success is reported). The per-exit source facts "
            "(Rollback before each return, Commit/Rollback clearing d.Transaction on driver errors, status of the "
            "commit-error exit) are re-extracted from handler.go / transaction.go by a go/ast pass on every run and a "
            "generated Lean obligation instantiates the theorems at the extracted configuration. A differential run "
            "posts generated scripts (8 opcodes x failing operation / true, malformed, un-evaluable condition / failing "
            "COMMIT via a deferred foreign key / pre-check failures / raw transaction control / INSERT-UPDATE-DELETE ... "
            "RETURNING through readrows and sql, also in scripts made of reading opcodes only / a request context that "
            "is cancelled before the request, at the k-th look at it, or from inside the engine while operation k "
            "runs) to the real Handler on "
            "fresh SQLite files and compares (status class, applied, lock, handle) with the model; a model-free oracle "
            "compares the tables with the harness' own SQL run on a shadow copy, probes the write lock from an "
            "independent connection and counts the process' descriptors on the database file.",
    "note": "trusted: Lean kernel; the go/ast extractor and the abstraction of a concrete script to outcomes (done by the "
            "harness from generator intent, validated by the model-free oracle and by real FormCondition/Eval on the "
            "condition menus); SQLite/modernc as the reference engine for the shadow. Modelled, not verified: statement "
            "atomicity inside SQLite, database/sql's Tx bookkeeping (Tx finished after Commit/Rollback whatever the "
            "driver says), modernc's forced ROLLBACK after a failed COMMIT. The Begin-failure exit is modelled but not "
            "exercised. Excluded class (known finding sql-txcontrol): raw COMMIT/ROLLBACK/BEGIN through the `sql` opcode "
            "break atomicity (C17_atomic_counterexample); release still holds for them. A user-chosen 2xx `status` on "
            "an error condition is not generated (the handler reports whatever status the script asks for). "
            "The tree as found leaks the transaction, handle and write lock on the un-evaluable-condition exit and "
            "reports a failed COMMIT as 200 (C17_pinned_counterexample); fixes/C17.patch repairs both.",
    "technique": "Lean 4 proof (induction over task and condition lists, configuration extracted from source) + "
                 "go/ast translator obligation + model/implementation correspondence on SQLite",
    "design_ref": "DESIGN.md §6 C17",
}

KINDS = ["malformed", "evalErr", "condTrue", "opErr"]


def obligation(facts):
    b = lambda ch: "true" if ch == "1" else "false"
    cfg = facts["cfg"]
    lines = ["import EgoVerif.C17.Props", "open EgoVerif.C17", "",
             "/- source facts extracted from handler.go and ../database/transaction.go by the go/ast pass of",
             "   zz_verif_c17_extract_test.go on this run (kind, line, `db.Rollback()` precedes the return, status) -/"]
    for e in facts.get("exits", []):
        lines.append("-- exit %-10s line %4d rollback=%-5s status=%s" % (e["kind"], e["line"], e["rollback"], e["status"]))
    lines += ["",
              "def extracted : Cfg := ⟨%s⟩" % ", ".join(b(c) for c in cfg),
              "",
              "/-- every `return` of Handler that follows db.Begin() releases the transaction -/",
              "theorem every_exit_covered : extracted.allCovered = true := by decide",
              "/-- a failed COMMIT is reported with a failure status -/",
              "theorem commit_error_reports_failure : extracted.commitErrFail = true := by decide",
              "",
              "theorem released_here (pre : Pre) (tasks : List Task) (commitOk : Bool) :",
              "    released (handler extracted pre tasks commitOk cleanDb).db = true :=",
              "  C17_released extracted every_exit_covered pre tasks commitOk cleanDb (by decide)",
              "",
              "theorem atomic_here (pre : Pre) (tasks : List Task) (commitOk : Bool) (hn : noTxControl tasks = true) :",
              "    atomic cleanDb tasks (handler extracted pre tasks commitOk cleanDb) :=",
              "  C17_atomic_partial extracted commit_error_reports_failure pre tasks commitOk cleanDb (by decide) hn",
              ""]
    return "\n".join(lines)


def run(ctx):
    ctx.trusted += ["go/ast extractor zz_verif_c17_extract_test.go (fails closed on unrecognised exits)",
                    "SQLite (modernc.org/sqlite) as the reference engine of the shadow database",
                    "correspondence harness internal/server/tables/scripting/zz_verif_c17_test.go + egodriver C17"]
    ctx.assumptions += ["operations, conditions and COMMIT enter the model as outcomes (ok/err, malformed/evalErr/true/false, ok/err)",
                        "a statement that fails inside SQLite leaves no effect (statement atomicity); DDL is transactional",
                        "database/sql finishes a Tx on Commit/Rollback whatever the driver returns; closing a connection discards its open transaction",
                        "error-condition `status` values chosen by the script are failure statuses (0 or >= 400)"]
    ctx.lean_audit(required=["C17_released", "C17_released_iff_covered", "C17_atomic_partial", "C17_atomic_counterexample",
                             "C17_ok_iff", "C17_pinned_counterexample"])
    if not ctx.quick:
        ctx.leanchecker()
    ctx.prepare_tree()
    shm = "/dev/shm"
    tmp = os.path.join(shm if os.path.isdir(shm) and os.access(shm, os.W_OK) else ctx.scratch, "verif.C17.%d" % os.getpid())
    try:
        rc, out = ctx.go_test("./internal/server/tables/scripting/", "TestVerifC17", timeout=7000, env={"VERIF_C17_TMP": tmp})
    finally:
        shutil.rmtree(tmp, ignore_errors=True)
    if rc != 0:
        ctx.log(out[-3000:])
        ctx.broken.append("harness TestVerifC17 failed to run (rc=%d)" % rc)

    # T1: the extracted facts and the generated obligation
    facts = (ctx.read_jsonl("c17_facts.jsonl") or [{}])[0]
    if len(facts.get("cfg", "")) != 7:
        ctx.broken.append("T1: no source facts extracted")
    else:
        for u in facts.get("unknown", []):
            ctx.broken.append("T1 extractor does not recognise the source: " + u)
        ctx.lean_obligation("C17Extracted", obligation(facts))
        ctx.notes.append("extracted cfg " + facts["cfg"])

    cases = ctx.read_jsonl("c17_cases.jsonl")
    ctx.correspond(cases)
    for f in ctx.read_jsonl("c17_failures.jsonl"):
        ctx.fail(f["class"], f["what"], input=f.get("input"), got=f.get("got"), want=f.get("want"))
    st = (ctx.read_jsonl("c17_stats.json") or [{}])[0]
    c = st.get("counters", {})
    ctx.coverage.update({
        "evaluations": len(cases),
        "distinct_nontrivial": c.get("distinct_nontrivial", 0),
        "rule": "a request = 1..10 operations over insert/update/delete/select/readrows/symbols/drop/sql (symbol substitution, "
                "multi-statement sql, zero-row updates) with 0..n error conditions each; plans: all succeed (possibly with a "
                "deferred-FK COMMIT failure) / first failure at a random position of kind failing-operation (23 kinds), malformed, "
                "un-evaluable or true condition / raw COMMIT-ROLLBACK-BEGIN through sql / decode, opcode, permission, DSN failures; "
                "+ two scenario families with their own streams: request context cancelled at an operation boundary (already "
                "cancelled / from the k-th observation of the context on / by an SQL function called during operation k), "
                "and scripts of select-readrows-symbols opcodes only whose readrows statement writes (... RETURNING); "
                "non-trivial = distinct abstract requests with >= 2 operations and >= 1 write",
        "samples": st.get("samples", []),
        "counters": c,
        "extracted_cfg": facts.get("cfg"),
        "extracted_exits": facts.get("exits"),
    })
    return ctx.finish()
