"""C15 — SQL endpoints authorize every table the statement touches."""
import json
import os
import shutil

from verifpy.lib import VERIF

META = {
    "level": "proof",
    "text": "Regenerated-model proof. A go/ast translator (tools/extract_c15) re-reads, on every run, the node "
            "structs of internal/sqlparse/ast (which fields can hold AST nodes, which fields each Children() "
            "really hands to nodes()), every case of the Tables() type switch (which fields go to read / write / "
            "admin, whether the closures drop empty names), StatementKind, writePermissionForKind (both copies) "
            "and isSchemaAlteringKind, and the shape of ast.Walk itself (the recursing function's parameters, every "
            "return-before-descending, the loop over Children()), and emits them as Lean data. Lean theorems over a generic tree: "
            "C15_walk_complete (if every node-holding field is visited then ast.Walk reaches every descendant, by "
            "induction on trees), C15_tables_cover (every table reference in any expression position at any depth, "
            "and the statement's own target, is reported by Tables() with at least its mode), C15_authz / "
            "C15_deny_justified (allow => every reported usage had its permission check and it held; a denial names "
            "a check that failed), C15_sound (end to end), C15_ddl_needs_admin, and for a multi-statement @sql "
            "request (authorizeBatch = the loop of authorizeAndFormatStatements) C15_batch_allow_iff / "
            "C15_batch_sound / C15_batch_deny_justified: the request is allowed iff every statement alone is, so "
            "every usage of EVERY statement is checked with the permission its own kind needs "
            "(C15_batch_memo_counterexample: remembering an allowed (table, usage) across statements is unsound). "
            "Their decidable hypotheses are "
            "discharged by `decide` over the GENERATED schema; gen_walkUnbounded: the extracted ast.Walk carries no "
            "depth / node budget (no extra parameter, no early return besides nil and the callback's answer, every "
            "child recursed into), which is what the model's `walk` mirrors. The model is tied to the code by running it on a "
            "reflection dump of the real AST of generated statements (Tables(), StatementKind, the two authorize "
            "loops with their recorded permission checks), and by a model-free oracle: an independent reflection "
            "walk + SQLite EXPLAIN give the tables a statement touches; withholding exactly one needed permission "
            "must make the real @sql and @transaction gates answer 403. The @sql leg also sends requests of 2-4 "
            "statements (same and different tables, mixed kinds): each (table, permission) any statement needs is "
            "withheld in turn and the whole request must be refused with nothing returned for execution; a part is "
            "POSTed to the real SQLTransaction handler on a real SQLite database (403 and no table changed). A deep and "
            "wide stream puts one protected table under 50, 150, 200, 250, 400 and 1000 levels of every nesting "
            "construct (left/right operator chains, unary chains, parentheses, function calls, CAST, CASE in every "
            "position, COLLATE, a random mix, scalar/EXISTS/IN subqueries, FROM subqueries, left- and right-nested "
            "joins, compound selects, nested and wide CTEs) and at the end of equally long sibling lists, in every "
            "statement position, through the same oracle, both gates and (a part) end to end.",
    "note": "trusted: Lean kernel; the translator (fails closed; its field classification is cross-checked against "
            "reflect on every run); the correspondence harness; SQLite (modernc) EXPLAIN as evidence of tables "
            "opened. Modelled, not verified: the parser (a statement's AST is taken as what it means; EXPLAIN of "
            "the raw and the formatted text is the only check of that), Authorized()/table_perms lookup and "
            "AuthDSN are parameters of the model (Sess); schema qualifiers are dropped by baseTableName by design "
            "(identifiers containing '.' are not generated); foreign-key REFERENCES targets are documented as not "
            "reported and are not required by the oracle; triggers / views / FK cascades of the target database "
            "are outside the statement's text and out of scope. The theorems are about the FIXED code "
            "(fixes/C15.patch); on the unpatched tree the generated obligations fail and the oracle reports the "
            "witnesses (UPDATE SET subquery, DROP INDEX, empty-name targets, DDL expression positions).",
    "technique": "Lean 4 proof (induction over generic trees, hypotheses discharged by decide over translator output) "
                 "+ model/implementation correspondence + withheld-permission oracle + SQLite EXPLAIN evidence",
    "design_ref": "DESIGN.md §6 C15",
}

REQUIRED = ["C15_walk_complete", "C15_tables_cover", "C15_authz", "C15_deny_justified", "C15_sound",
            "C15_ddl_needs_admin", "C15_batch_allow_iff", "C15_batch_sound", "C15_batch_deny_justified",
            "C15_batch_memo_counterexample"]

OBLIGATIONS = """
open EgoVerif.C15
/-- every node-holding field of every AST struct is returned by its Children() -/
theorem gen_schemaComplete : schemaComplete Gen.schema = true := by decide +kernel
/-- the Tables() switch covers every statement struct, field and target; closures drop nothing -/
theorem gen_casesComplete : casesComplete Gen.schema Gen.cases Gen.cfg = true := by decide +kernel
/-- every schema-altering kind performs an admin(…) -/
theorem gen_ddlAdmin : ddlAdmin Gen.cases Gen.schemaAltering = true := by decide +kernel
theorem gen_unknownNotAltering : "StmtUnknown" ∉ Gen.schemaAltering := by decide +kernel
theorem gen_cfg : Gen.cfg.adminSkipsEmpty = false := by decide +kernel
/-- ast.Walk is the plain recursion the model's `walk` mirrors: no depth / node budget, no early return
besides nil and the callback's answer, every child recursed into -/
theorem gen_walkUnbounded : Gen.walkFacts.unbounded = true := by decide
/-- both copies of writePermissionForKind agree and map the three DML kinds to their own permission -/
theorem gen_writePerm :
    (["StmtInsert", "StmtUpdate", "StmtDelete"].map Gen.writePermSql.get
      = ["TableWritePermission", "TableUpdatePermission", "TableDeletePermission"]) ∧
    (["StmtInsert", "StmtUpdate", "StmtDelete"].map Gen.writePermScripting.get
      = ["TableWritePermission", "TableUpdatePermission", "TableDeletePermission"]) := by decide +kernel
/-- the instantiated end-to-end statement for the code as it is now -/
theorem gen_sound (pm : PermMap) (s : Sess) (n : Node) (hstmt : (Schema.entry Gen.schema n.ty).isStmt = true)
    (hwt : WT Gen.schema n) (hallow : (authorize Gen.schema Gen.cases Gen.cfg pm s n).2 = none) :
    ∀ u ∈ touched n, ∃ v : Usage, v.name = u.name ∧ u.mode.rank ≤ v.mode.rank ∧
      (checkFor pm (kindModel Gen.cases n) v).holds s = true :=
  fun u hu =>
    let ⟨v, h1, h2, h3, _⟩ := C15_sound Gen.schema Gen.cases Gen.cfg pm s gen_schemaComplete gen_casesComplete
      n hstmt hwt hallow u hu
    ⟨v, h1, h2, h3⟩
theorem gen_ddl (pm : PermMap) (s : Sess) (n : Node) (hk : kindModel Gen.cases n ∈ Gen.schemaAltering)
    (hallow : (authorize Gen.schema Gen.cases Gen.cfg pm s n).2 = none) : s.dsnAdmin = true :=
  C15_ddl_needs_admin Gen.schema Gen.cases Gen.cfg pm s Gen.schemaAltering gen_ddlAdmin gen_unknownNotAltering
    gen_cfg n hk hallow
/-- the same for a multi-statement @sql request: every statement, with the permission of its own kind -/
theorem gen_batch_sound (s : Sess) (ns : List Node)
    (hstmt : ∀ n ∈ ns, (Schema.entry Gen.schema n.ty).isStmt = true ∧ WT Gen.schema n)
    (hallow : (authorizeBatch Gen.schema Gen.cases Gen.cfg Gen.writePermSql s ns).2 = none) :
    ∀ n ∈ ns, ∀ u ∈ touched n, ∃ v : Usage, v.name = u.name ∧ u.mode.rank ≤ v.mode.rank ∧
      (checkFor Gen.writePermSql (kindModel Gen.cases n) v).holds s = true :=
  fun n hn u hu =>
    let ⟨v, h1, h2, h3, _⟩ := C15_batch_sound Gen.schema Gen.cases Gen.cfg Gen.writePermSql s gen_schemaComplete
      gen_casesComplete ns hstmt hallow n hn u hu
    ⟨v, h1, h2, h3⟩
#print axioms gen_sound
#print axioms gen_ddl
#print axioms gen_batch_sound
"""

PRINT = """
open EgoVerif.C15 in
#eval IO.println ("SCHEMA " ++ encodeGen
  ⟨Gen.schema, Gen.cases, Gen.cfg, Gen.writePermSql, Gen.writePermScripting, Gen.schemaAltering⟩)
"""


def run(ctx):
    ctx.trusted += ["translator tools/extract_c15 (go/ast, fails closed; cross-checked against reflect every run)",
                    "correspondence harness internal/server/tables/zz_verif_c15_test.go + egodriver C15",
                    "SQLite (modernc.org/sqlite) EXPLAIN as evidence of tables opened / schema writes"]
    ctx.assumptions += [
        "a statement's AST is what the statement means (parser modelled-not-verified; EXPLAIN of raw and formatted "
        "text is the run-time evidence)",
        "Authorized() / table_perms and AuthDSN are parameters (Sess) of the model",
        "schema qualifiers are dropped by baseTableName by design; FOREIGN KEY REFERENCES targets are not reported "
        "by design; triggers, views and FK cascades of the target database are out of scope",
    ]
    ctx.lean_audit(required=REQUIRED)
    if not ctx.quick:
        ctx.leanchecker()
    ctx.prepare_tree()

    # ---- T1: translator on the CURRENT source
    tdir = os.path.join(ctx.scratch, "extract_c15")
    shutil.copytree(os.path.join(VERIF, "tools", "extract_c15"), tdir)
    gdir = os.path.join(ctx.scratch, "gen")
    rc, out = ctx.go(["run", ".", ctx.tree, gdir], cwd=tdir, timeout=600)
    schema_line = None
    gen = None
    if rc != 0:
        ctx.log(out[-3000:])
        ctx.obligations.append(("translator extract_c15", False, "failed closed: " + out.strip()[-300:]))
        ctx.broken.append("translator extract_c15 failed (source shape it does not understand)")
    else:
        ctx.obligations.append(("translator extract_c15", True, "ok"))
        with open(os.path.join(gdir, "C15Gen.lean")) as f:
            gen_lean = f.read()
        with open(os.path.join(gdir, "c15_gen.json")) as f:
            gen = json.load(f)
        # one generated file: the data, a print of it in the driver's wire format (so the driver runs on
        # exactly the term the obligations are about), and the obligations
        ok, out3 = ctx.lean_obligation("C15Obl", "import EgoVerif.C15.Props\nimport EgoVerif.C15.Driver\n"
                                       + gen_lean + PRINT + OBLIGATIONS)
        for line in out3.splitlines():
            if line.startswith("SCHEMA "):
                schema_line = line[len("SCHEMA "):]
        if schema_line is None:
            ctx.broken.append("generated schema does not compile")
        if ok:
            for line in out3.splitlines():
                if "depends on axioms" in line:
                    bad = [a for a in ("sorryAx", "Lean.ofReduceBool", "Lean.trustCompiler") if a in line]
                    if bad:
                        ctx.broken.append("generated obligation depends on %s" % bad)

    # ---- T2 + oracle: the harness on the real code
    rc, out = ctx.go_test("./internal/server/tables/", "TestVerifC15", timeout=2400, extra=["-trimpath"])
    if rc != 0:
        ctx.log(out[-3000:])
        ctx.broken.append("harness TestVerifC15 failed to run (rc=%d)" % rc)
    cases = ctx.read_jsonl("c15_cases.jsonl")
    if schema_line is not None:
        ctx.correspond([{"in": "S " + schema_line, "impl": "ok", "desc": "generated schema"}] + cases)
    for f in ctx.read_jsonl("c15_failures.jsonl"):
        ctx.fail(f["class"], f["what"], input=f.get("input"), got=f.get("got"), want=f.get("want"))

    # ---- the translator's field classification vs reflect on the real structs
    refl = ctx.read_jsonl("c15_reflect_schema.json")
    refl = refl[0] if refl else []
    if gen is not None and refl:
        by_ty = {e["ty"]: e for e in gen["schema"]}
        bad = []
        for e in refl:
            g = by_ty.get(e["ty"])
            if g is None:
                bad.append("%s: unknown to the translator" % e["ty"])
                continue
            if [(f["name"], f["elem"]) for f in g["nodeFields"]] != [(f["name"], f["elem"]) for f in e["nodeFields"]]:
                bad.append("%s: node fields differ" % e["ty"])
            if g["strFields"] != e["strFields"]:
                bad.append("%s: string fields differ" % e["ty"])
        ctx.obligations.append(("translator schema == reflect schema (%d structs)" % len(refl), not bad, "; ".join(bad[:5])))
        if bad:
            ctx.broken.append("translator and reflection disagree on the AST schema: " + "; ".join(bad[:5]))
    elif gen is not None:
        ctx.broken.append("harness wrote no reflection schema")

    st = (ctx.read_jsonl("c15_stats.json") or [{}])[0]
    c = st.get("counters", {})
    ctx.coverage.update({
        "evaluations": len(cases),
        "distinct_nontrivial": c.get("distinct_nontrivial", 0),
        "rule": "statements generated from the sqlparse grammar (SELECT/INSERT/UPDATE/DELETE with CTEs, joins, compound "
                "selects, subqueries in every expression position, ON CONFLICT, RETURNING; CREATE/DROP/ALTER TABLE, "
                "CREATE/DROP INDEX, CREATE/DROP VIEW, transaction control; both dialects; hostile/malformed stream; "
                "fixed nasty corpus first; then the deep/wide stream: one protected table under 50-1000 levels of each "
                "nesting construct or at the end of a 50-1000 element sibling list, counters deep_statements / "
                "deep_parsed / deep_distinct_over_200_levels / max_reference_level, quick tier takes a third of the "
                "1000-level shapes and EXPLAINs only texts up to 2500 bytes there); non-trivial = a table reference outside the statement's own target "
                "(subquery, CTE, join, compound) or a DDL statement; each parsed statement is run through both "
                "gates with full grants, each needed permission withheld in turn, and a random grant set; "
                "multi-statement @sql requests of 2-4 statements (fixed corpus, then generated around one focus table "
                "with mixed INSERT/UPDATE/DELETE/SELECT, other tables, arbitrary generated statements; both dialects) "
                "through the @sql gate with full grants, each (table, permission) of each statement withheld in turn "
                "and two random grant sets (counters batches / batch_authz_runs; batch_distinct_nontrivial = requests "
                "in which one table is needed under two different permissions), and a part of them end to end through "
                "SQLTransaction on a real SQLite file (counters e2e_*)",
        "samples": st.get("samples", []) + ((ctx.read_jsonl("c15_batch_samples.json") or [[]])[0] or []),
        "counters": c,
    })
    return ctx.finish()
