import EgoVerif.C28.Frame
/-
C28 — the property theorems.  Helper layers: Lemmas (association lists), Invariant (`WF`),
Look (what each operation does to the entry under a class/key), Frame (what it leaves alone).
-/
namespace EgoVerif.C28

/-! ### The specification: a keyed map with deadlines -/

/-- the specification state: plain functions, one lifetime per class, one size limit -/
structure Spec where
  now : Time
  limit : Nat
  life : Class → Time
  m : Class → Key → Option Item

/-- `n` is the number of keys bound by `f` -/
def CardIs (f : Key → Option Item) (n : Nat) : Prop :=
  ∃ l : List Key, l.Nodup ∧ (∀ k, k ∈ l ↔ (f k).isSome) ∧ l.length = n

/-- what the model state stands for -/
def abs (s : St) : Spec := { now := s.now, limit := s.maxCacheSize, life := lifeOf s, m := look s }

/-- one step of the specification; `ev` = the reports made to the eviction listener.
`purge` leaves `life` alone: a configured lifetime survives a purge by definition here. -/
def SpecStep (sp : Spec) (o : Op) (res : Out) (ev : List (Class × Key × Val)) (sp' : Spec) : Prop :=
  match o with
  | .add c k v =>
    res = .none ∧ ev = [] ∧
    ((((sp.m c k).isSome ∨ ∃ n, CardIs (sp.m c) n ∧ n < sp.limit) ∧
        sp' = { sp with m := fun c' k' => if c' = c ∧ k' = k then some ⟨v, sp.now + sp.life c⟩ else sp.m c' k' })
     ∨ ((sp.m c k = none ∧ ∃ n, CardIs (sp.m c) n ∧ sp.limit ≤ n) ∧ sp' = sp))
  | .find c k =>
    res = .val ((sp.m c k).map (·.val)) ∧ ev = [] ∧
    sp' = { sp with m := fun c' k' =>
      if c' = c ∧ k' = k then (sp.m c k).map (fun it => { it with expires := sp.now + sp.life c }) else sp.m c' k' }
  | .delete c k =>
    res = .flag (sp.m c k).isSome ∧
    ev = (match sp.m c k with | some it => [(c, k, it.val)] | none => []) ∧
    sp' = { sp with m := fun c' k' => if c' = c ∧ k' = k then none else sp.m c' k' }
  | .purge c =>
    res = .none ∧ ev = [] ∧ sp' = { sp with m := fun c' k' => if c' = c then none else sp.m c' k' }
  | .purgeLocal c =>
    res = .none ∧ ev = [] ∧ sp' = { sp with m := fun c' k' => if c' = c then none else sp.m c' k' }
  | .setExpiration c (some d) =>
    res = .flag true ∧ ev = [] ∧ sp' = { sp with life := fun c' => if c' = c then d else sp.life c' }
  | .setExpiration _ none => res = .flag false ∧ ev = [] ∧ sp' = sp
  | .sweep c =>
    res = .none ∧ ev.Nodup ∧
    (∀ c' k v, (c', k, v) ∈ ev ↔ c' = c ∧ ∃ e, sp.m c k = some ⟨v, e⟩ ∧ e < sp.now) ∧
    sp' = { sp with m := fun c' k' =>
      if c' = c then (sp.m c k').bind (fun it => if it.expires < sp.now then none else some it) else sp.m c' k' }
  | .tick => res = .none ∧ ev = [] ∧ sp' = { sp with now := sp.now + 1 }

theorem Spec.eq_of {a b : Spec} (h1 : a.now = b.now) (h2 : a.limit = b.limit) (h3 : a.life = b.life)
    (h4 : a.m = b.m) : a = b := by
  cases a; cases b; simp_all

/-- under the invariant the record's length is the true cardinality of the class's map -/
theorem cardIs_size {s : St} (h : WF s) (c : Class) : CardIs (look s c) (size s c) := by
  unfold size
  cases hget : get s.caches c with
  | none => exact ⟨[], List.nodup_nil, fun k => by simp [look_of_none hget], rfl⟩
  | some ca =>
    obtain ⟨_, _, h3, _⟩ := h c ca hget
    refine ⟨keys ca.items, h3, fun k => ?_, by simp [keys]⟩
    rw [look_of_get hget, mem_keys_iff]
    cases get ca.items k <;> simp

theorem size_le {s : St} (h : WF s) (c : Class) : size s c ≤ s.maxCacheSize := by
  unfold size
  cases hget : get s.caches c with
  | none => exact Nat.zero_le _
  | some ca => obtain ⟨h1, _, _, h4⟩ := h c ca hget; simp only; omega

theorem findOut_eq (s : St) (c : Class) (k : Key) : findOut s c k = (look s c k).map (·.val) := by
  unfold findOut look; cases get s.caches c <;> rfl

theorem deleteOut_eq (s : St) (c : Class) (k : Key) : deleteOut s c k = (look s c k).isSome := by
  unfold deleteOut look; cases get s.caches c <;> rfl

theorem lifeOf_congr {s s' : St} (h : s'.configured = s.configured) : lifeOf s' = lifeOf s := by
  funext c; simp [lifeOf, h]

/-- **Refinement, one step.**  From any state satisfying the invariant, every operation of the
model is a step of the specification between the abstracted states, with the same result and
the same reports to the eviction listener. -/
theorem C28_refines {s : St} (h : WF s) (o : Op) :
    (step s o).evicted = s.evicted ++ evOf s o ∧
    SpecStep (abs s) o (out s o) (evOf s o) (abs (step s o)) := by
  refine ⟨evicted_step s o, ?_⟩
  cases o with
  | add c k v =>
    obtain ⟨f1, f2, f3, _⟩ := add_frame s c k v
    refine ⟨rfl, rfl, ?_⟩
    by_cases hacc : (look s c k).isSome ∨ size s c < s.maxCacheSize
    · left
      refine ⟨?_, ?_⟩
      · cases hacc with
        | inl hp => exact Or.inl hp
        | inr hlt => exact Or.inr ⟨size s c, cardIs_size h c, hlt⟩
      · refine Spec.eq_of f1 f2 (lifeOf_congr f3) ?_
        funext c' k'
        simp only [abs, step, look_add h, hacc, if_true]
    · right
      have hnone : look s c k = none := by
        cases hl : look s c k with
        | none => rfl
        | some it => exact absurd (Or.inl (by simp [hl])) hacc
      have hge : s.maxCacheSize ≤ size s c := by
        have : ¬ size s c < s.maxCacheSize := fun hh => hacc (Or.inr hh)
        omega
      refine ⟨⟨hnone, size s c, cardIs_size h c, hge⟩, ?_⟩
      refine Spec.eq_of f1 f2 (lifeOf_congr f3) ?_
      funext c' k'
      simp only [abs, step, look_add h, hacc, if_false]
      by_cases hc : c' = c ∧ k' = k
      · obtain ⟨rfl, rfl⟩ := hc; simp [hnone]
      · simp [hc]
  | find c k =>
    obtain ⟨f1, f2, f3, _⟩ := find_frame s c k
    refine ⟨by simp [out, abs, findOut_eq], rfl, ?_⟩
    refine Spec.eq_of f1 f2 (lifeOf_congr f3) ?_
    funext c' k'
    simp only [abs, step, look_find h]
  | delete c k =>
    obtain ⟨f1, f2, f3⟩ := delete_frame s c k
    refine ⟨by simp [out, abs, deleteOut_eq], rfl, ?_⟩
    refine Spec.eq_of f1 f2 (lifeOf_congr f3) ?_
    funext c' k'
    simp only [abs, step, look_delete]
  | purge c =>
    refine ⟨rfl, rfl, Spec.eq_of rfl rfl rfl ?_⟩
    funext c' k'
    simp only [abs, step, look_purge]
  | purgeLocal c =>
    refine ⟨rfl, rfl, Spec.eq_of rfl rfl rfl ?_⟩
    funext c' k'
    simp only [abs, step, look_purge]
  | setExpiration c d =>
    cases d with
    | none => exact ⟨rfl, rfl, rfl⟩
    | some d =>
      obtain ⟨f1, f2, f3, _⟩ := setExpiration_frame s c d
      refine ⟨rfl, rfl, Spec.eq_of f1 f2 ?_ ?_⟩
      · funext c'
        simp only [abs, step, lifeOf, f3]
        by_cases hcc : c' = c
        · subst hcc; simp [get_put_self]
        · simp [get_put_ne _ _ hcc, hcc]
      · funext c' k'
        simp only [abs, step, look_setExpiration]
  | sweep c =>
    obtain ⟨f1, f2, f3⟩ := sweep_frame s c
    refine ⟨rfl, ?_, ?_, ?_⟩
    · simp only [evOf]
      cases hget : get s.caches c with
      | none => exact List.nodup_nil
      | some ca =>
        obtain ⟨_, _, h3, _⟩ := h c ca hget
        exact nodup_map_keys (nodup_filter _ h3) _ (fun p q e => by simp at e; exact e.1)
    · intro c' k v
      simp only [evOf, abs]
      cases hget : get s.caches c with
      | none => simp [look_of_none hget]
      | some ca =>
        obtain ⟨_, _, h3, _⟩ := h c ca hget
        simp only [look_of_get hget, List.mem_map, List.mem_filter]
        constructor
        · rintro ⟨⟨k0, it⟩, ⟨hm, hexp⟩, heq⟩
          simp only [Prod.mk.injEq] at heq
          obtain ⟨rfl, rfl, rfl⟩ := heq
          refine ⟨rfl, it.expires, ?_, by simpa [expired] using hexp⟩
          exact (mem_iff_get h3 _ _).1 hm
        · rintro ⟨rfl, e, hg, hlt⟩
          exact ⟨(k, ⟨v, e⟩), ⟨(mem_iff_get h3 _ _).2 hg, by simpa [expired] using hlt⟩, rfl⟩
    · refine Spec.eq_of f1 f2 (lifeOf_congr f3) ?_
      funext c' k'
      simp only [abs, step, look_sweep h]
      rfl
  | tick => exact ⟨rfl, rfl, rfl⟩

/-! ### Whole histories -/

theorem run_append (s : St) (a b : List Op) : run s (a ++ b) = run (run s a) b := by
  induction a generalizing s with
  | nil => rfl
  | cons o r ih => exact ih (step s o)

/-- results of the operations of a history, in order -/
def outs (s : St) : List Op → List Out
  | [] => []
  | o :: r => out s o :: outs (step s o) r

/-- a run of the specification: results and eviction reports accumulate -/
inductive SpecRun : Spec → List Op → List Out → List (Class × Key × Val) → Spec → Prop
  | nil (sp : Spec) : SpecRun sp [] [] [] sp
  | cons {sp sp' sp'' : Spec} {o : Op} {res : Out} {ev evs : List (Class × Key × Val)} {ops : List Op}
      {ress : List Out} : SpecStep sp o res ev sp' → SpecRun sp' ops ress evs sp'' →
      SpecRun sp (o :: ops) (res :: ress) (ev ++ evs) sp''

theorem refines_run_from {s : St} (h : WF s) (ops : List Op) :
    ∃ evs, SpecRun (abs s) ops (outs s ops) evs (abs (run s ops)) ∧ (run s ops).evicted = s.evicted ++ evs := by
  induction ops generalizing s with
  | nil => exact ⟨[], SpecRun.nil _, by simp [run]⟩
  | cons o r ih =>
    obtain ⟨evs, hr, he⟩ := ih (WF_step h o)
    obtain ⟨h1, h2⟩ := C28_refines h o
    exact ⟨evOf s o ++ evs, SpecRun.cons h2 hr, by simp [run, he, h1, List.append_assoc]⟩

/-- **Refinement, every history.**  For every size limit and every list of operations, the model's
results and its eviction log are those of a run of the keyed-map-with-deadlines specification, and
the final states correspond. -/
theorem C28_refines_run (max : Nat) (ops : List Op) :
    ∃ evs, SpecRun (abs (init max)) ops (outs (init max) ops) evs (abs (run (init max) ops)) ∧
      (run (init max) ops).evicted = evs := by
  obtain ⟨evs, h1, h2⟩ := refines_run_from (WF_init max) ops
  exact ⟨evs, h1, by simpa [init] using h2⟩

theorem step_max (s : St) (o : Op) : (step s o).maxCacheSize = s.maxCacheSize := by
  cases o with
  | add c k v => exact (add_frame s c k v).2.1
  | find c k => exact (find_frame s c k).2.1
  | delete c k => exact (delete_frame s c k).2.1
  | purge c => rfl
  | purgeLocal c => rfl
  | setExpiration c d =>
    cases d with
    | none => rfl
    | some d => exact (setExpiration_frame s c d).2.1
  | sweep c => exact (sweep_frame s c).2.1
  | tick => rfl

theorem run_max (s : St) (ops : List Op) : (run s ops).maxCacheSize = s.maxCacheSize := by
  induction ops generalizing s with
  | nil => rfl
  | cons o r ih => exact (ih (step s o)).trans (step_max s o)

/-- **Bounded.**  After every history every cache holds distinct keys, at most `max` of them
(`max` = MaxCacheSize), and the specification-level cardinality of the class is at most `max`. -/
theorem C28_bounded (max : Nat) (ops : List Op) (c : Class) :
    (∀ ca, get (run (init max) ops).caches c = some ca →
      NodupKeys ca.items ∧ ca.items.length ≤ max ∧ ca.maxSize = max) ∧
    ∃ n, CardIs ((abs (run (init max) ops)).m c) n ∧ n ≤ max := by
  have hwf := WF_run (WF_init max) ops
  have hm : (run (init max) ops).maxCacheSize = max := run_max (init max) ops
  refine ⟨fun ca hget => ?_, size _ c, cardIs_size hwf c, by have := size_le hwf c; omega⟩
  obtain ⟨h1, _, h3, h4⟩ := hwf c ca hget
  exact ⟨h3, by omega, by omega⟩

/-! ### Find returns the latest stored value; nothing after a removal -/

/-- the operations that overwrite or remove the entry (class `c`, key `k`) -/
def touches (c : Class) (k : Key) : Op → Bool
  | .add c' k' _ => c' == c && k' == k
  | .delete c' k' => c' == c && k' == k
  | .purge c' => c' == c
  | .purgeLocal c' => c' == c
  | _ => false

theorem look_step_some {s : St} (h : WF s) (o : Op) (c : Class) (k : Key) (it : Item)
    (hl : look (step s o) c k = some it) :
    o = .add c k it.val ∨ (touches c k o = false ∧ ∃ it0, look s c k = some it0 ∧ it0.val = it.val) := by
  cases o with
  | add c' k' v =>
    simp only [step, look_add h] at hl
    by_cases hc : c = c' ∧ k = k'
    · obtain ⟨rfl, rfl⟩ := hc
      simp only [and_self, if_true] at hl
      split at hl
      · cases hl; exact Or.inl rfl
      · cases hl
    · simp only [hc, if_false] at hl
      right
      refine ⟨?_, it, hl, rfl⟩
      simp only [touches, Bool.and_eq_false_iff, beq_eq_false_iff_ne]
      by_cases h1 : c' = c
      · right; intro h2; exact hc ⟨h1.symm, h2.symm⟩
      · left; exact h1
  | find c' k' =>
    simp only [step, look_find h] at hl
    right
    refine ⟨rfl, ?_⟩
    by_cases hc : c = c' ∧ k = k'
    · obtain ⟨rfl, rfl⟩ := hc
      simp only [and_self, if_true] at hl
      cases hl0 : look s c k with
      | none => simp [hl0] at hl
      | some it0 => simp [hl0] at hl; exact ⟨it0, rfl, by rw [← hl]⟩
    · simp only [hc, if_false] at hl; exact ⟨it, hl, rfl⟩
  | delete c' k' =>
    simp only [step, look_delete] at hl
    by_cases hc : c = c' ∧ k = k'
    · simp [hc] at hl
    · simp only [hc, if_false] at hl
      right
      refine ⟨?_, it, hl, rfl⟩
      simp only [touches, Bool.and_eq_false_iff, beq_eq_false_iff_ne]
      by_cases h1 : c' = c
      · right; intro h2; exact hc ⟨h1.symm, h2.symm⟩
      · left; exact h1
  | purge c' =>
    simp only [step, look_purge] at hl
    by_cases hc : c = c'
    · simp [hc] at hl
    · simp only [hc, if_false] at hl
      exact Or.inr ⟨by simp [touches]; exact fun e => hc e.symm, it, hl, rfl⟩
  | purgeLocal c' =>
    simp only [step, look_purge] at hl
    by_cases hc : c = c'
    · simp [hc] at hl
    · simp only [hc, if_false] at hl
      exact Or.inr ⟨by simp [touches]; exact fun e => hc e.symm, it, hl, rfl⟩
  | setExpiration c' d =>
    cases d with
    | none => exact Or.inr ⟨rfl, it, hl, rfl⟩
    | some d =>
      simp only [step, look_setExpiration] at hl
      exact Or.inr ⟨rfl, it, hl, rfl⟩
  | sweep c' =>
    simp only [step, look_sweep h] at hl
    right
    refine ⟨rfl, ?_⟩
    by_cases hc : c = c'
    · subst hc
      simp only [if_true] at hl
      cases hl0 : look s c k with
      | none => simp [hl0] at hl
      | some it0 =>
        simp only [hl0, Option.bind_some] at hl
        split at hl
        · cases hl
        · cases hl; exact ⟨_, rfl, rfl⟩
    · simp only [hc, if_false] at hl; exact ⟨it, hl, rfl⟩
  | tick => exact Or.inr ⟨rfl, it, hl, rfl⟩

theorem find_latest_aux {s : St} (h : WF s) (ops : List Op) (c : Class) (k : Key) (it : Item)
    (hl : look (run s ops) c k = some it) :
    (∃ it0, look s c k = some it0 ∧ it0.val = it.val ∧ ∀ o ∈ ops, touches c k o = false) ∨
    (∃ pre post, ops = pre ++ Op.add c k it.val :: post ∧ ∀ o ∈ post, touches c k o = false) := by
  induction ops generalizing s with
  | nil => exact Or.inl ⟨it, hl, rfl, by simp⟩
  | cons o r ih =>
    cases ih (WF_step h o) hl with
    | inl hleft =>
      obtain ⟨it1, h1, hv, hr⟩ := hleft
      cases look_step_some h o c k it1 h1 with
      | inl hadd => exact Or.inr ⟨[], r, by simp [hadd, hv], hr⟩
      | inr hkeep =>
        obtain ⟨ht, it0, h0, hv0⟩ := hkeep
        refine Or.inl ⟨it0, h0, hv0.trans hv, ?_⟩
        intro o' ho'
        cases List.mem_cons.1 ho' with
        | inl e => rw [e]; exact ht
        | inr e => exact hr o' e
    | inr hright =>
      obtain ⟨pre, post, he, hp⟩ := hright
      exact Or.inr ⟨o :: pre, post, by simp [he], hp⟩

/-- **Find returns the latest stored value.**  If, after any history, `Find(c, k)` answers `v`, then
the history contains an `Add(c, k, v)` after which that key was not stored again, deleted, or its
class purged. -/
theorem C28_find_latest (max : Nat) (ops : List Op) (c : Class) (k : Key) (v : Val)
    (hf : findOut (run (init max) ops) c k = some v) :
    ∃ pre post, ops = pre ++ Op.add c k v :: post ∧ ∀ o ∈ post, touches c k o = false := by
  rw [findOut_eq] at hf
  cases hl : look (run (init max) ops) c k with
  | none => simp [hl] at hf
  | some it =>
    simp [hl] at hf
    subst hf
    cases find_latest_aux (WF_init max) ops c k it hl with
    | inl hleft =>
      obtain ⟨it0, h0, _⟩ := hleft
      simp [look, init, get] at h0
    | inr hright => exact hright

theorem look_step_none {s : St} (h : WF s) (o : Op) (c : Class) (k : Key) (hl : look s c k = none)
    (hno : ∀ v, o ≠ .add c k v) : look (step s o) c k = none := by
  cases hs : look (step s o) c k with
  | none => rfl
  | some it =>
    cases look_step_some h o c k it hs with
    | inl hadd => exact absurd hadd (hno _)
    | inr hk => obtain ⟨_, it0, h0, _⟩ := hk; rw [hl] at h0; cases h0

theorem none_preserved {s : St} (h : WF s) (post : List Op) (c : Class) (k : Key) (hl : look s c k = none)
    (hno : ∀ o ∈ post, ∀ v, o ≠ .add c k v) : look (run s post) c k = none := by
  induction post generalizing s with
  | nil => exact hl
  | cons o r ih =>
    exact ih (WF_step h o) (look_step_none h o c k hl (hno o (List.mem_cons_self ..)))
      (fun o' ho' => hno o' (List.mem_cons_of_mem _ ho'))

/-- **Never a value after its removal.**  After `Delete(c, k)`, `Purge(c)` or `PurgeLocal(c)`, `Find(c, k)`
misses until the key is stored again — whatever else happens in between. -/
theorem C28_no_value_after_removal (max : Nat) (pre post : List Op) (o : Op) (c : Class) (k : Key)
    (hrem : o = .delete c k ∨ o = .purge c ∨ o = .purgeLocal c)
    (hno : ∀ o' ∈ post, ∀ v, o' ≠ .add c k v) :
    findOut (run (init max) (pre ++ o :: post)) c k = none := by
  rw [findOut_eq, run_append]
  have hwf := WF_run (WF_init max) pre
  have hgone : look (step (run (init max) pre) o) c k = none := by
    rcases hrem with rfl | rfl | rfl
    · simp [step, look_delete]
    · simp [step, look_purge]
    · simp [step, look_purge]
  simp [run, none_preserved (WF_step hwf o) post c k hgone hno]

theorem look_step_keep {s : St} (h : WF s) (o : Op) (c : Class) (k : Key) (it : Item)
    (hl : look s c k = some it) (ht : touches c k o = false) (hs : o ≠ .sweep c) :
    ∃ it', look (step s o) c k = some it' ∧ it'.val = it.val := by
  cases o with
  | add c' k' v =>
    have hc : ¬ (c = c' ∧ k = k') := by
      rintro ⟨rfl, rfl⟩; simp [touches] at ht
    exact ⟨it, by simp only [step, look_add h, hc, if_false]; exact hl, rfl⟩
  | find c' k' =>
    by_cases hc : c = c' ∧ k = k'
    · obtain ⟨rfl, rfl⟩ := hc
      exact ⟨{ it with expires := s.now + lifeOf s c }, by simp [step, look_find h, hl], rfl⟩
    · exact ⟨it, by simp only [step, look_find h, hc, if_false]; exact hl, rfl⟩
  | delete c' k' =>
    have hc : ¬ (c = c' ∧ k = k') := by
      rintro ⟨rfl, rfl⟩; simp [touches] at ht
    exact ⟨it, by simp only [step, look_delete, hc, if_false]; exact hl, rfl⟩
  | purge c' =>
    have hc : ¬ c = c' := by rintro rfl; simp [touches] at ht
    exact ⟨it, by simp only [step, look_purge, hc, if_false]; exact hl, rfl⟩
  | purgeLocal c' =>
    have hc : ¬ c = c' := by rintro rfl; simp [touches] at ht
    exact ⟨it, by simp only [step, look_purge, hc, if_false]; exact hl, rfl⟩
  | setExpiration c' d =>
    cases d with
    | none => exact ⟨it, hl, rfl⟩
    | some d => exact ⟨it, by simp only [step, look_setExpiration]; exact hl, rfl⟩
  | sweep c' =>
    have hc : ¬ c = c' := by rintro rfl; exact hs rfl
    exact ⟨it, by simp only [step, look_sweep h, hc, if_false]; exact hl, rfl⟩
  | tick => exact ⟨it, hl, rfl⟩

theorem kept {s : St} (h : WF s) (post : List Op) (c : Class) (k : Key) (it : Item)
    (hl : look s c k = some it) (hp : ∀ o ∈ post, touches c k o = false ∧ o ≠ .sweep c) :
    ∃ it', look (run s post) c k = some it' ∧ it'.val = it.val := by
  induction post generalizing s it with
  | nil => exact ⟨it, hl, rfl⟩
  | cons o r ih =>
    obtain ⟨h1, h2⟩ := hp o (List.mem_cons_self ..)
    obtain ⟨it1, hl1, hv1⟩ := look_step_keep h o c k it hl h1 h2
    obtain ⟨it2, hl2, hv2⟩ := ih (WF_step h o) it1 hl1 (fun o' ho' => hp o' (List.mem_cons_of_mem _ ho'))
    exact ⟨it2, hl2, hv2.trans hv1⟩

/-- **A stored value is found.**  An `Add(c, k, v)` that finds the key present or the class below its
limit is answered by `Find(c, k) = v` for as long as the key is not stored again, deleted, its class
purged, or its class swept (the only operation that removes by expiry). -/
theorem C28_find_present (max : Nat) (pre post : List Op) (c : Class) (k : Key) (v : Val)
    (hacc : (look (run (init max) pre) c k).isSome ∨ size (run (init max) pre) c < max)
    (hp : ∀ o ∈ post, touches c k o = false ∧ o ≠ .sweep c) :
    findOut (run (init max) (pre ++ Op.add c k v :: post)) c k = some v := by
  rw [findOut_eq, run_append]
  have hwf := WF_run (WF_init max) pre
  have hm : (run (init max) pre).maxCacheSize = max := run_max _ _
  have hl : look (step (run (init max) pre) (.add c k v)) c k =
      some ⟨v, (run (init max) pre).now + lifeOf (run (init max) pre) c⟩ := by
    simp only [step, look_add hwf, and_self, if_true, hm, hacc]
  obtain ⟨it', hl', hv'⟩ := kept (WF_step hwf _) post c k _ hl hp
  simp [run, hl', hv']
/-! ### The eviction listener hears of each removal by delete/expiry exactly once -/

/-- **Reported ⇒ removed, once.**  In any reachable step, the reports are pairwise distinct, at most
one per (class, key); each reported (class, key, value) was stored with that value before the step
and is gone after it, and the step was a `Delete` of that key or a sweep of that class in which the
entry's deadline had passed. -/
theorem C28_evict_once {s : St} (h : WF s) (o : Op) :
    (evOf s o).Nodup ∧
    (∀ c k v v', (c, k, v) ∈ evOf s o → (c, k, v') ∈ evOf s o → v = v') ∧
    ∀ c k v, (c, k, v) ∈ evOf s o →
      (∃ e, look s c k = some ⟨v, e⟩ ∧ (o = .delete c k ∨ (o = .sweep c ∧ e < s.now))) ∧
      look (step s o) c k = none := by
  have key : ∀ c k v, (c, k, v) ∈ evOf s o →
      (∃ e, look s c k = some ⟨v, e⟩ ∧ (o = .delete c k ∨ (o = .sweep c ∧ e < s.now))) ∧
      look (step s o) c k = none := by
    intro c k v hm
    cases o with
    | delete c' k' =>
      simp only [evOf] at hm
      cases hl : look s c' k' with
      | none => simp [hl] at hm
      | some it =>
        simp [hl] at hm
        obtain ⟨rfl, rfl, rfl⟩ := hm
        exact ⟨⟨it.expires, hl, Or.inl rfl⟩, by simp [step, look_delete]⟩
    | sweep c' =>
      obtain ⟨_, _, hiff, _⟩ := (C28_refines h (.sweep c')).2
      obtain ⟨rfl, e, he, hlt⟩ := (hiff c k v).1 hm
      refine ⟨⟨e, he, Or.inr ⟨rfl, hlt⟩⟩, ?_⟩
      have he' : look s c k = some ⟨v, e⟩ := he
      have hlt' : e < s.now := hlt
      simp [step, look_sweep h, he', hlt']
    | add c' k' v' => simp [evOf] at hm
    | find c' k' => simp [evOf] at hm
    | purge c' => simp [evOf] at hm
    | purgeLocal c' => simp [evOf] at hm
    | setExpiration c' d => simp [evOf] at hm
    | tick => simp [evOf] at hm
  refine ⟨?_, ?_, key⟩
  · cases o with
    | delete c k => simp only [evOf]; cases look s c k <;> simp
    | sweep c => exact (C28_refines h (.sweep c)).2.2.1
    | add c k v => simp [evOf]
    | find c k => simp [evOf]
    | purge c => simp [evOf]
    | purgeLocal c => simp [evOf]
    | setExpiration c d => simp [evOf]
    | tick => simp [evOf]
  · intro c k v v' h1 h2
    obtain ⟨⟨e, he, _⟩, _⟩ := key c k v h1
    obtain ⟨⟨e', he', _⟩, _⟩ := key c k v' h2
    rw [he] at he'
    cases he'; rfl

/-- **Removed by delete/expiry ⇒ reported.**  If an entry is stored before a reachable step and gone
after it, then the step purged its class, or the entry (with its value) is among the reports. -/
theorem C28_evict_complete {s : St} (h : WF s) (o : Op) (c : Class) (k : Key) (it : Item)
    (hl : look s c k = some it) (hgone : look (step s o) c k = none) :
    o = .purge c ∨ o = .purgeLocal c ∨ (c, k, it.val) ∈ evOf s o := by
  cases o with
  | add c' k' v =>
    exfalso
    simp only [step, look_add h] at hgone
    by_cases hc : c = c' ∧ k = k'
    · obtain ⟨rfl, rfl⟩ := hc
      simp [hl] at hgone
    · simp [hc, hl] at hgone
  | find c' k' =>
    exfalso
    simp only [step, look_find h] at hgone
    by_cases hc : c = c' ∧ k = k'
    · obtain ⟨rfl, rfl⟩ := hc
      simp [hl] at hgone
    · simp [hc, hl] at hgone
  | delete c' k' =>
    simp only [step, look_delete] at hgone
    by_cases hc : c = c' ∧ k = k'
    · obtain ⟨rfl, rfl⟩ := hc
      right; right
      simp [evOf, hl]
    · simp [hc, hl] at hgone
  | purge c' =>
    simp only [step, look_purge] at hgone
    by_cases hc : c = c'
    · exact Or.inl (by rw [hc])
    · simp [hc, hl] at hgone
  | purgeLocal c' =>
    simp only [step, look_purge] at hgone
    by_cases hc : c = c'
    · exact Or.inr (Or.inl (by rw [hc]))
    · simp [hc, hl] at hgone
  | setExpiration c' d =>
    exfalso
    cases d with
    | none => simp [step, hl] at hgone
    | some d => simp [step, look_setExpiration, hl] at hgone
  | sweep c' =>
    simp only [step, look_sweep h] at hgone
    by_cases hc : c = c'
    · subst hc
      right; right
      obtain ⟨_, _, hiff, _⟩ := (C28_refines h (.sweep c)).2
      refine (hiff c k it.val).2 ⟨rfl, it.expires, hl, ?_⟩
      simp only [if_true, hl, Option.bind_some] at hgone
      split at hgone
      · assumption
      · cases hgone
    · simp [hc, hl] at hgone
  | tick =>
    exfalso
    have e : look (step s .tick) c k = look s c k := rfl
    rw [e, hl] at hgone
    cases hgone

/-! ### A configured lifetime stays in force after a purge -/

/-- the lifetime a history configures: only a successful `SetExpiration` changes it — purges do not -/
def lifeStep (f : Class → Time) : Op → Class → Time
  | .setExpiration c (some d) => fun c' => if c' = c then d else f c'
  | _ => f

def lifeTrace (f : Class → Time) : List Op → Class → Time
  | [] => f
  | o :: r => lifeTrace (lifeStep f o) r

theorem lifeOf_step (s : St) (o : Op) : lifeOf (step s o) = lifeStep (lifeOf s) o := by
  cases o with
  | add c k v => exact lifeOf_congr (add_frame s c k v).2.2.1
  | find c k => exact lifeOf_congr (find_frame s c k).2.2.1
  | delete c k => exact lifeOf_congr (delete_frame s c k).2.2
  | purge c => rfl
  | purgeLocal c => rfl
  | setExpiration c d =>
    cases d with
    | none => rfl
    | some d =>
      funext c'
      simp only [step, lifeOf, (setExpiration_frame s c d).2.2.1, lifeStep]
      by_cases hcc : c' = c
      · subst hcc; simp [get_put_self]
      · simp [get_put_ne _ _ hcc, hcc]
  | sweep c => exact lifeOf_congr (sweep_frame s c).2.2
  | tick => rfl

theorem lifeOf_run (s : St) (ops : List Op) : lifeOf (run s ops) = lifeTrace (lifeOf s) ops := by
  induction ops generalizing s with
  | nil => rfl
  | cons o r ih => simp only [run, lifeTrace]; rw [ih, lifeOf_step]

/-- **Lifetime survives purge.**  After every history, an existing cache's expiration is the duration
of the last successful `SetExpiration` of its class in the history (60 s if there was none) — no
matter how often the class was purged and re-created since. -/
theorem C28_lifetime_survives_purge (max : Nat) (ops : List Op) (c : Class) (ca : Cache)
    (hget : get (run (init max) ops).caches c = some ca) :
    ca.expiration = lifeTrace (fun _ => defaultLife) ops c := by
  have h2 := (WF_run (WF_init max) ops c ca hget).2.1
  rw [h2, lifeOf_run]
  rfl

/-- … and that is the lifetime every `Add` and every `Find` hit stamps on the entry. -/
theorem C28_deadline_uses_configured_lifetime (max : Nat) (ops : List Op) (c : Class) (k : Key) (it : Item) :
    (∀ v, look (step (run (init max) ops) (.add c k v)) c k = some it →
      it.val = v ∧ it.expires = (run (init max) ops).now + lifeTrace (fun _ => defaultLife) ops c) ∧
    (look (step (run (init max) ops) (.find c k)) c k = some it →
      it.expires = (run (init max) ops).now + lifeTrace (fun _ => defaultLife) ops c) := by
  have hwf := WF_run (WF_init max) ops
  have hlife : lifeOf (run (init max) ops) c = lifeTrace (fun _ => defaultLife) ops c := by
    rw [lifeOf_run]; rfl
  constructor
  · intro v hl
    simp only [step, look_add hwf, and_self, if_true] at hl
    split at hl
    · cases hl; exact ⟨rfl, by rw [hlife]⟩
    · cases hl
  · intro hl
    simp only [step, look_find hwf, and_self, if_true] at hl
    cases h0 : look (run (init max) ops) c k with
    | none => simp [h0] at hl
    | some it0 => simp [h0] at hl; rw [← hl, hlife]

/-- the witness of the design round, in the model of the repaired code: 1 h configured, purge, add,
130 s pass (two sweeps of the re-created cache) — the entry is still there -/
example : findOut (Sys.run (Sys.init 2) [.prim (.setExpiration 0 (some 3600)), .prim (.add 0 1 7),
    .prim (.purge 0), .prim (.add 0 1 8), .advance 130]).st 0 1 = some 8 := by decide +kernel

/-- without a configured lifetime the same entry is gone after two scans -/
example : findOut (Sys.run (Sys.init 2) [.prim (.add 0 1 7), .prim (.purge 0), .prim (.add 0 1 8),
    .advance 130]).st 0 1 = none := by decide +kernel

/-! ### Time advance with sweeper goroutines and PurgeAll are sequences of the basic operations -/

def isTimeOp : Op → Bool
  | .tick => true
  | .sweep _ => true
  | _ => false

theorem wakeList_run (l : List (Class × Time)) (s : St) :
    ∃ ops, (wakeList s l).1 = run s ops ∧ ∀ o ∈ ops, isTimeOp o = true := by
  induction l generalizing s with
  | nil => exact ⟨[], rfl, by simp⟩
  | cons p r ih =>
    obtain ⟨c, t⟩ := p
    simp only [wakeList]
    split
    · obtain ⟨ops, h1, h2⟩ := ih (step s (.sweep c))
      refine ⟨.sweep c :: ops, by simpa [run] using h1, ?_⟩
      intro o ho
      cases List.mem_cons.1 ho with
      | inl e => rw [e]; rfl
      | inr e => exact h2 o e
    · obtain ⟨ops, h1, h2⟩ := ih s
      exact ⟨ops, by simpa using h1, h2⟩

theorem advance_run (d : Nat) (y : Sys) :
    ∃ ops, (Sys.advance d y).st = run y.st ops ∧ ∀ o ∈ ops, isTimeOp o = true := by
  induction d generalizing y with
  | zero => exact ⟨[], rfl, by simp⟩
  | succ n ih =>
    obtain ⟨ops2, h3, h4⟩ := ih y.second
    obtain ⟨ops1, h1, h2⟩ := wakeList_run y.sweepers (step y.st .tick)
    refine ⟨.tick :: (ops1 ++ ops2), ?_, ?_⟩
    · simp only [Sys.advance, h3, run, run_append]
      congr 1
    · intro o ho
      cases List.mem_cons.1 ho with
      | inl e => rw [e]; rfl
      | inr e =>
        cases List.mem_append.1 e with
        | inl e1 => exact h2 o e1
        | inr e2 => exact h4 o e2

theorem purgeEach_run (cs : List Class) (y : Sys) : ∃ ops, (Sys.purgeEach y cs).st = run y.st ops := by
  induction cs generalizing y with
  | nil => exact ⟨[], rfl⟩
  | cons c r ih =>
    obtain ⟨ops, h⟩ := ih (y.prim (.purge c))
    exact ⟨.purge c :: ops, by simpa [Sys.purgeEach, run, Sys.prim] using h⟩

/-- **The scheduler adds nothing.**  Whatever the sweeper goroutines do while the clock advances, and
whatever `PurgeAll` does, is a sequence of the basic operations (for a time advance: only `tick`s and
sweeps) — so every theorem above, stated for all operation lists, covers them; every state the system
with sweepers reaches is a state of some plain history. -/
theorem C28_sys_decomposes (max : Nat) (sops : List SOp) :
    (∀ (y : Sys) (d : Nat), ∃ ops, (y.step (.advance d)).st = run y.st ops ∧ ∀ o ∈ ops, isTimeOp o = true) ∧
    ∃ ops, (Sys.run (Sys.init max) sops).st = run (init max) ops := by
  refine ⟨fun y d => advance_run d y, ?_⟩
  have gen : ∀ (sops : List SOp) (y : Sys), ∃ ops, (Sys.run y sops).st = run y.st ops := by
    intro sops
    induction sops with
    | nil => exact fun y => ⟨[], rfl⟩
    | cons o r ih =>
      intro y
      obtain ⟨ops2, h2⟩ := ih (y.step o)
      have h1 : ∃ ops1, (y.step o).st = run y.st ops1 := by
        cases o with
        | prim p => exact ⟨[p], rfl⟩
        | advance d => obtain ⟨ops, h, _⟩ := advance_run d y; exact ⟨ops, h⟩
        | purgeAll => exact purgeEach_run _ y
      obtain ⟨ops1, h1⟩ := h1
      exact ⟨ops1 ++ ops2, by simp only [Sys.run, h2, h1, run_append]⟩
  exact gen sops (Sys.init max)

/-! ### Non-vacuity of the hypotheses used above -/

/-- `C28_find_present`: an accepted `Add` followed by operations that do not touch the key -/
example : findOut (run (init 1) ([Op.add 0 0 5] ++ Op.add 0 0 6 :: [Op.tick, Op.find 0 0, Op.add 0 1 9, Op.sweep 1])) 0 0
    = some 6 :=
  C28_find_present 1 [Op.add 0 0 5] [Op.tick, Op.find 0 0, Op.add 0 1 9, Op.sweep 1] 0 0 6 (by decide) (by decide)

/-- `C28_no_value_after_removal` -/
example : findOut (run (init 2) ([Op.add 0 0 5] ++ Op.purge 0 :: [Op.add 0 1 5, Op.tick])) 0 0 = none :=
  C28_no_value_after_removal 2 [Op.add 0 0 5] [Op.add 0 1 5, Op.tick] (Op.purge 0) 0 0 (by simp)
    (by intro o' ho' v; simp at ho'; rcases ho' with rfl | rfl <;> simp)

/-- `C28_evict_complete` / `C28_evict_once`: a sweep that really evicts -/
example : evOf (run (init 2) [Op.setExpiration 0 (some 0), Op.add 0 0 5, Op.tick]) (Op.sweep 0) = [(0, 0, 5)] := by decide

/-- capacity: the third key is refused, a replacement is not -/
example : (findOut (run (init 2) [Op.add 0 0 1, Op.add 0 1 2, Op.add 0 2 3, Op.add 0 1 9]) 0 2,
           findOut (run (init 2) [Op.add 0 0 1, Op.add 0 1 2, Op.add 0 2 3, Op.add 0 1 9]) 0 1) = (none, some 9) := by decide

/-- NOT PROVED (stated only): while a cache exists some sweeper goroutine of its class is due within
one scan interval, so an untouched entry is gone at most `scan` seconds after its deadline.  The
harness checks this on every generated history (class `expired-entry-outlived-scan`). -/
def C28_sweeper_alive_statement : Prop :=
  ∀ (max : Nat) (sops : List SOp) (c : Class),
    (get (Sys.run (Sys.init max) sops).st.caches c).isSome →
    ∃ t, (c, t) ∈ (Sys.run (Sys.init max) sops).sweepers ∧ t ≤ (Sys.run (Sys.init max) sops).st.now + scan

end EgoVerif.C28
