import EgoVerif.C28.Lemmas
namespace EgoVerif.C28

/-- what the invariant says about one cache record -/
def Good (s : St) (c : Class) (ca : Cache) : Prop :=
  ca.maxSize = s.maxCacheSize ∧ ca.expiration = lifeOf s c ∧ NodupKeys ca.items ∧ ca.items.length ≤ ca.maxSize

/-- the invariant: every record carries the global size limit and the class's configured lifetime,
its keys are distinct and it is not over its limit -/
def WF (s : St) : Prop := ∀ c ca, get s.caches c = some ca → Good s c ca

theorem Good_congr {s s' : St} {c : Class} {ca : Cache} (hm : s'.maxCacheSize = s.maxCacheSize)
    (hc : s'.configured = s.configured) (h : Good s c ca) : Good s' c ca := by
  unfold Good lifeOf at *
  rw [hm, hc]; exact h

theorem WF_of_same {s s' : St} (h : WF s) (hm : s'.maxCacheSize = s.maxCacheSize)
    (hc : s'.configured = s.configured) (hcs : s'.caches = s.caches) : WF s' := by
  intro c ca hget
  rw [hcs] at hget
  exact Good_congr hm hc (h c ca hget)

theorem WF_of_put {s s' : St} (h : WF s) (hm : s'.maxCacheSize = s.maxCacheSize)
    (hc : s'.configured = s.configured) (c : Class) (ca : Cache) (hg : Good s c ca)
    (hcs : s'.caches = put s.caches c ca) : WF s' := by
  intro c' ca' hget
  rw [hcs] at hget
  by_cases hcc : c' = c
  · subst hcc
    rw [get_put_self] at hget
    cases hget
    exact Good_congr hm hc hg
  · rw [get_put_ne _ _ hcc] at hget
    exact Good_congr hm hc (h c' ca' hget)

theorem WF_of_del {s s' : St} (h : WF s) (hm : s'.maxCacheSize = s.maxCacheSize)
    (hc : s'.configured = s.configured) (c : Class) (hcs : s'.caches = del s.caches c) : WF s' := by
  intro c' ca' hget
  rw [hcs] at hget
  by_cases hcc : c' = c
  · subst hcc
    rw [get_del_self] at hget
    cases hget
  · rw [get_del_ne _ hcc] at hget
    exact Good_congr hm hc (h c' ca' hget)

theorem WF_init (m : Nat) : WF (init m) := by
  intro c ca h
  simp [init, get] at h

theorem Good_fresh (s : St) (c : Class) : Good s c (freshCache s c) := by
  refine ⟨rfl, rfl, ?_, Nat.zero_le _⟩
  simp [freshCache, NodupKeys, keys]

theorem newCache_max (s : St) (c : Class) : (newCache s c).maxCacheSize = s.maxCacheSize := by
  unfold newCache; split <;> rfl
theorem newCache_configured (s : St) (c : Class) : (newCache s c).configured = s.configured := by
  unfold newCache; split <;> rfl
theorem newCache_caches (s : St) (c : Class) : (newCache s c).caches = put s.caches c (freshCache s c) := by
  unfold newCache; split <;> rfl
theorem newCache_now (s : St) (c : Class) : (newCache s c).now = s.now := by
  unfold newCache; split <;> rfl
theorem newCache_evicted (s : St) (c : Class) : (newCache s c).evicted = s.evicted := by
  unfold newCache; split <;> rfl

theorem WF_newCache {s : St} (h : WF s) (c : Class) : WF (newCache s c) :=
  WF_of_put h (newCache_max s c) (newCache_configured s c) c _ (Good_fresh s c) (newCache_caches s c)

theorem WF_storeItem {s : St} (h : WF s) (c : Class) (ca : Cache) (hg : Good s c ca) (k : Key) (v : Val) :
    WF (storeItem s c ca k v) := by
  obtain ⟨h1, h2, h3, h4⟩ := hg
  unfold storeItem
  simp only
  split
  · refine WF_of_put h rfl rfl c { ca with items := del ca.items k } ⟨h1, h2, nodup_del k h3, ?_⟩ rfl
    exact Nat.le_trans (length_del_le _ _) h4
  · rename_i hlt
    refine WF_of_put h rfl rfl c { ca with items := (k, ⟨v, s.now + ca.expiration⟩) :: del ca.items k }
      ⟨h1, h2, nodup_cons_del k _ h3, ?_⟩ rfl
    simp only [List.length_cons]
    omega

theorem WF_step {s : St} (h : WF s) (o : Op) : WF (step s o) := by
  cases o with
  | add c k v =>
    simp only [step, add]
    split
    · exact WF_storeItem (WF_newCache h c) c _
        (Good_congr (newCache_max s c) (newCache_configured s c) (Good_fresh s c)) k v
    · rename_i ca hget
      exact WF_storeItem h c ca (h c ca hget) k v
  | find c k =>
    simp only [step, find]
    split
    · exact h
    · rename_i ca hget
      split
      · exact h
      · rename_i it hit
        obtain ⟨h1, h2, h3, h4⟩ := h c ca hget
        refine WF_of_put h rfl rfl c { ca with items := put ca.items k { it with expires := s.now + ca.expiration } }
          ⟨h1, h2, nodup_cons_del k _ h3, ?_⟩ rfl
        have := length_del_lt ca.items hit
        simp only [put, List.length_cons]
        omega
  | delete c k =>
    simp only [step, delete]
    split
    · exact h
    · rename_i ca hget
      split
      · exact h
      · obtain ⟨h1, h2, h3, h4⟩ := h c ca hget
        refine WF_of_put h rfl rfl c { ca with items := del ca.items k } ⟨h1, h2, nodup_del k h3, ?_⟩ rfl
        exact Nat.le_trans (length_del_le _ _) h4
  | purge c => exact WF_of_del h rfl rfl c rfl
  | purgeLocal c => exact WF_of_del h rfl rfl c rfl
  | setExpiration c d =>
    cases d with
    | none => exact h
    | some d =>
      simp only [step, setExpiration]
      have key : ∀ (s0 : St) (ca : Cache), WF s0 → s0.maxCacheSize = s.maxCacheSize → ca.maxSize = s0.maxCacheSize →
          NodupKeys ca.items → ca.items.length ≤ ca.maxSize →
          WF { s0 with caches := put s0.caches c { ca with expiration := d }, configured := put s0.configured c d } := by
        intro s0 ca h0 _ g1 g3 g4 c' ca' hget
        by_cases hcc : c' = c
        · subst hcc
          simp only [get_put_self] at hget
          cases hget
          exact ⟨g1, by simp [lifeOf, get_put_self], g3, g4⟩
        · simp only [get_put_ne _ _ hcc] at hget
          obtain ⟨a1, a2, a3, a4⟩ := h0 c' ca' hget
          exact ⟨a1, by simp [lifeOf, get_put_ne _ _ hcc] at *; exact a2, a3, a4⟩
      split
      · have g := Good_fresh s c
        exact key (newCache s c) (freshCache s c) (WF_newCache h c) (newCache_max s c)
          (by rw [newCache_max]; exact g.1) g.2.2.1 g.2.2.2
      · rename_i ca hget
        obtain ⟨h1, _, h3, h4⟩ := h c ca hget
        exact key s ca h rfl h1 h3 h4
  | sweep c =>
    simp only [step, sweep]
    split
    · exact WF_of_same h rfl rfl rfl
    · rename_i ca hget
      obtain ⟨h1, h2, h3, h4⟩ := h c ca hget
      refine WF_of_put h rfl rfl c { ca with items := ca.items.filter (fun p => !expired s.now p.2) }
        ⟨h1, h2, nodup_filter _ h3, ?_⟩ rfl
      exact Nat.le_trans (List.length_filter_le _ _) h4
  | tick => exact WF_of_same h rfl rfl rfl

theorem WF_run {s : St} (h : WF s) (ops : List Op) : WF (run s ops) := by
  induction ops generalizing s with
  | nil => exact h
  | cons o r ih => exact ih (WF_step h o)

end EgoVerif.C28
