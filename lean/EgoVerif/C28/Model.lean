/-
C28 — model of the server caches (internal/caches/{cache,add,find,delete,purge}.go), core Lean only.

The model mirrors the code WITH the proposed repair fixes/C28.patch applied: `SetExpiration` also
records the lifetime in `configuredExpiration`, and `newCache` starts from that value instead of the
default `expireTime` (on the unrepaired tree `purge` deletes the whole `Cache` record, so the next
`newCache` silently reverts the class to 60 s).

Go maps (`cacheList`, `Cache.Items`, `configuredExpiration`, `expirationThreadRunning`) are
association lists read with `get`; `put` removes every older binding first, so `get`/`length`
behave like a map's lookup/`len`.  Time is in whole seconds since the start of a history; one
`tick` is one second.  Every exported function runs under `cacheLock`, so one `step` is one
critical section.
-/
namespace EgoVerif.C28

abbrev Class := Nat
abbrev Key := Nat
abbrev Val := Nat
abbrev Time := Int

/-- `scanTime = "60s"` (cache.go) -/
def scan : Time := 60
/-- `expireTime = "60s"` (cache.go) -/
def defaultLife : Time := 60

/-- map lookup -/
def get {α : Type} : List (Nat × α) → Nat → Option α
  | [], _ => none
  | (k', v) :: r, k => if k' = k then some v else get r k

/-- Go `delete(m, k)` -/
def del {α : Type} (m : List (Nat × α)) (k : Nat) : List (Nat × α) := m.filter (fun p => p.1 != k)

/-- Go `m[k] = v` -/
def put {α : Type} (m : List (Nat × α)) (k : Nat) (v : α) : List (Nat × α) := (k, v) :: del m k

/-- `type Item struct { Data any; Expires time.Time }` -/
structure Item where
  val : Val
  expires : Time
  deriving Repr, DecidableEq

/-- `type Cache struct` (the fields that matter: ID/MaxWidth/HasLogged only feed the log) -/
structure Cache where
  maxSize : Nat
  expiration : Time
  items : List (Key × Item)
  deriving Repr, DecidableEq

structure St where
  /-- `time.Now()` -/
  now : Time
  /-- `MaxCacheSize` (constant during a history) -/
  maxCacheSize : Nat
  /-- `cacheList` -/
  caches : List (Class × Cache)
  /-- `configuredExpiration` (fixes/C28.patch) -/
  configured : List (Class × Time)
  /-- the ids with `expirationThreadRunning[id] == true` -/
  running : List Class
  /-- ghost: every `go expire(id, …)` with the time it was started -/
  spawned : List (Class × Time)
  /-- ghost: every call of the eviction listener (class, key, value), in order -/
  evicted : List (Class × Key × Val)
  /-- ghost: every `go OnPurge(id)` -/
  hooks : List Class
  deriving Repr, DecidableEq

def init (maxCacheSize : Nat) : St :=
  { now := 0, maxCacheSize := maxCacheSize, caches := [], configured := [], running := [],
    spawned := [], evicted := [], hooks := [] }

inductive Op where
  | add (c : Class) (k : Key) (v : Val)
  | find (c : Class) (k : Key)
  | delete (c : Class) (k : Key)
  | purge (c : Class)
  | purgeLocal (c : Class)
  /-- `d = none`: `time.ParseDuration` rejected the text -/
  | setExpiration (c : Class) (d : Option Time)
  /-- one call of `sweepExpired(c)` (by a sweeper goroutine or by hand) -/
  | sweep (c : Class)
  /-- one second passes -/
  | tick
  deriving Repr, DecidableEq

inductive Out where
  | none
  | val (v : Option Val)
  | flag (b : Bool)
  deriving Repr, DecidableEq

/-- lifetime a new cache of class `c` starts with: `configuredExpiration[id]`, else `expireTime` -/
def lifeOf (s : St) (c : Class) : Time := (get s.configured c).getD defaultLife

/-- the record `newCache` stores -/
def freshCache (s : St) (c : Class) : Cache :=
  { maxSize := s.maxCacheSize, expiration := lifeOf s c, items := [] }

/-- `newCache(id)`: store the record; start a sweeper unless one is flagged as running -/
def newCache (s : St) (c : Class) : St :=
  if s.running.contains c then
    { s with caches := put s.caches c (freshCache s c) }
  else
    { s with caches := put s.caches c (freshCache s c), running := c :: s.running,
             spawned := s.spawned ++ [(c, s.now)] }

/-- the tail of `Add` once `cache` is in hand: `delete(cache.Items, key)`, the capacity test, the store.
`Items` is a Go map shared with the record in `cacheList`, hence the write-back in both branches. -/
def storeItem (s : St) (c : Class) (ca : Cache) (k : Key) (v : Val) : St :=
  let items := del ca.items k
  if ca.maxSize ≤ items.length then
    { s with caches := put s.caches c { ca with items := items } }
  else
    { s with caches := put s.caches c { ca with items := (k, ⟨v, s.now + ca.expiration⟩) :: items } }

/-- `Add` (add.go) -/
def add (s : St) (c : Class) (k : Key) (v : Val) : St :=
  match get s.caches c with
  | none => storeItem (newCache s c) c (freshCache s c) k v
  | some ca => storeItem s c ca k v

/-- `Find` (find.go): a hit also pushes the deadline out; expiry is NOT tested here -/
def find (s : St) (c : Class) (k : Key) : St :=
  match get s.caches c with
  | none => s
  | some ca =>
    match get ca.items k with
    | none => s
    | some it =>
      { s with caches := put s.caches c { ca with items := put ca.items k { it with expires := s.now + ca.expiration } } }

def findOut (s : St) (c : Class) (k : Key) : Option Val :=
  match get s.caches c with
  | none => none
  | some ca => (get ca.items k).map (·.val)

/-- `Delete` (delete.go) -/
def delete (s : St) (c : Class) (k : Key) : St :=
  match get s.caches c with
  | none => s
  | some ca =>
    match get ca.items k with
    | none => s
    | some it =>
      { s with caches := put s.caches c { ca with items := del ca.items k },
               evicted := s.evicted ++ [(c, k, it.val)] }

def deleteOut (s : St) (c : Class) (k : Key) : Bool :=
  match get s.caches c with
  | none => false
  | some ca => (get ca.items k).isSome

/-- `purge(id, notify)` (purge.go): the whole record goes; the hook fires even if there was none -/
def purge (s : St) (c : Class) (notify : Bool) : St :=
  { s with caches := del s.caches c, hooks := if notify then s.hooks ++ [c] else s.hooks }

/-- `SetExpiration` (cache.go) with a duration that parsed -/
def setExpiration (s : St) (c : Class) (d : Time) : St :=
  match get s.caches c with
  | none =>
    let s1 := newCache s c
    { s1 with caches := put s1.caches c { freshCache s c with expiration := d }, configured := put s1.configured c d }
  | some ca =>
    { s with caches := put s.caches c { ca with expiration := d }, configured := put s.configured c d }

/-- `time.Now().After(item.Expires)` -/
def expired (now : Time) (it : Item) : Bool := decide (it.expires < now)

/-- `sweepExpired(id)` (cache.go) -/
def sweep (s : St) (c : Class) : St :=
  match get s.caches c with
  | none => { s with running := s.running.filter (· != c) }
  | some ca =>
    { s with caches := put s.caches c { ca with items := ca.items.filter (fun p => !expired s.now p.2) },
             evicted := s.evicted ++ (ca.items.filter (fun p => expired s.now p.2)).map (fun p => (c, p.1, p.2.val)) }

def step (s : St) : Op → St
  | .add c k v => add s c k v
  | .find c k => find s c k
  | .delete c k => delete s c k
  | .purge c => purge s c true
  | .purgeLocal c => purge s c false
  | .setExpiration c (some d) => setExpiration s c d
  | .setExpiration _ none => s
  | .sweep c => sweep s c
  | .tick => { s with now := s.now + 1 }

def out (s : St) : Op → Out
  | .find c k => .val (findOut s c k)
  | .delete c k => .flag (deleteOut s c k)
  | .setExpiration _ d => .flag d.isSome
  | _ => .none

def run (s : St) : List Op → St
  | [] => s
  | o :: r => run (step s o) r

/-- the item stored under (class, key), if any -/
def look (s : St) (c : Class) (k : Key) : Option Item :=
  match get s.caches c with
  | none => none
  | some ca => get ca.items k

/-! ### The sweeper goroutines (`expire`): the scheduler around the state machine -/

/-- the state plus the live `expire` goroutines, each with the time its `time.Sleep` ends -/
structure Sys where
  st : St
  sweepers : List (Class × Time)
  deriving Repr, DecidableEq

inductive SOp where
  | prim (o : Op)
  /-- the clock moves `d` seconds; sweepers wake when their sleep ends -/
  | advance (d : Nat)
  /-- `PurgeAll`: snapshot of the ids, ascending, one `Purge` each -/
  | purgeAll
  deriving Repr, DecidableEq

def Sys.init (maxCacheSize : Nat) : Sys := { st := EgoVerif.C28.init maxCacheSize, sweepers := [] }

/-- goroutines started by the step are picked up: they first sleep one scan interval -/
def Sys.prim (y : Sys) (o : Op) : Sys :=
  let st' := step y.st o
  { st := st', sweepers := y.sweepers ++ (st'.spawned.drop y.st.spawned.length).map (fun p => (p.1, p.2 + scan)) }

/-- every sweeper whose sleep has ended runs `sweepExpired`; it goes back to sleep if the cache
was there and returns otherwise -/
def wakeList (s : St) : List (Class × Time) → St × List (Class × Time)
  | [] => (s, [])
  | (c, t) :: r =>
    if t ≤ s.now then
      let alive := (get s.caches c).isSome
      let res := wakeList (step s (.sweep c)) r
      (res.1, if alive then (c, t + scan) :: res.2 else res.2)
    else
      let res := wakeList s r
      (res.1, (c, t) :: res.2)

def Sys.second (y : Sys) : Sys :=
  let res := wakeList (step y.st .tick) y.sweepers
  { st := res.1, sweepers := res.2 }

def Sys.advance : Nat → Sys → Sys
  | 0, y => y
  | n + 1, y => Sys.advance n y.second

def insertSorted (x : Nat) : List Nat → List Nat
  | [] => [x]
  | y :: r => if x ≤ y then x :: y :: r else y :: insertSorted x r

def sortNat (l : List Nat) : List Nat := l.foldr insertSorted []

def Sys.purgeEach (y : Sys) : List Class → Sys
  | [] => y
  | c :: r => Sys.purgeEach (y.prim (.purge c)) r

def Sys.step (y : Sys) : SOp → Sys
  | .prim o => y.prim o
  | .advance d => Sys.advance d y
  | .purgeAll => y.purgeEach (sortNat (y.st.caches.map (·.1)))

def Sys.run (y : Sys) : List SOp → Sys
  | [] => y
  | o :: r => Sys.run (y.step o) r

end EgoVerif.C28
