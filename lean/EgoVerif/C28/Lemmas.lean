import EgoVerif.C28.Model
namespace EgoVerif.C28

section assoc
variable {α : Type}

theorem get_cons (k' : Nat) (v : α) (r : List (Nat × α)) (k : Nat) :
    get ((k', v) :: r) k = if k' = k then some v else get r k := rfl

theorem get_del_self (m : List (Nat × α)) (k : Nat) : get (del m k) k = none := by
  induction m with
  | nil => rfl
  | cons p r ih =>
    obtain ⟨k', v⟩ := p
    by_cases h : k' = k
    · simpa [del, h] using ih
    · simpa [del, h, get_cons] using ih

theorem get_del_ne (m : List (Nat × α)) {k k' : Nat} (hne : k' ≠ k) : get (del m k) k' = get m k' := by
  induction m with
  | nil => rfl
  | cons p r ih =>
    obtain ⟨k0, v⟩ := p
    have ih' : get (List.filter (fun p => p.fst != k) r) k' = get r k' := ih
    by_cases h : k0 = k
    · subst h
      have h3 : ¬ k0 = k' := fun h => hne h.symm
      simp [del, get_cons, h3, ih']
    · by_cases h2 : k0 = k'
      · subst h2
        simp [del, get_cons, h]
      · simp [del, h, get_cons, h2, ih']

theorem get_put_self (m : List (Nat × α)) (k : Nat) (v : α) : get (put m k v) k = some v := by
  simp [put, get_cons]

theorem get_put_ne (m : List (Nat × α)) {k k' : Nat} (v : α) (hne : k' ≠ k) : get (put m k v) k' = get m k' := by
  have : k ≠ k' := fun h => hne h.symm
  simp [put, get_cons, this, get_del_ne m hne]

theorem length_del_le (m : List (Nat × α)) (k : Nat) : (del m k).length ≤ m.length := by
  simp [del, List.length_filter_le]

theorem length_del_lt (m : List (Nat × α)) {k : Nat} {v : α} (h : get m k = some v) : (del m k).length < m.length := by
  induction m with
  | nil => simp [get] at h
  | cons p r ih =>
    obtain ⟨k0, v0⟩ := p
    by_cases h0 : k0 = k
    · have := length_del_le r k
      simp [del, h0] at *
      omega
    · simp [get_cons, h0] at h
      have := ih h
      simp [del, h0] at *
      omega

def keys (m : List (Nat × α)) : List Nat := m.map (·.1)

def NodupKeys (m : List (Nat × α)) : Prop := (keys m).Nodup

theorem mem_keys_iff (m : List (Nat × α)) (k : Nat) : k ∈ keys m ↔ ∃ v, get m k = some v := by
  induction m with
  | nil => simp [keys, get]
  | cons p r ih =>
    obtain ⟨k0, v0⟩ := p
    by_cases h0 : k0 = k
    · simp [keys, get_cons, h0]
    · have : k ≠ k0 := fun h => h0 h.symm
      simp [keys, get_cons, h0, this] at *
      exact ih

theorem keys_filter_sub (m : List (Nat × α)) (p : Nat × α → Bool) : ∀ k, k ∈ keys (m.filter p) → k ∈ keys m := by
  intro k hk
  simp [keys] at *
  obtain ⟨v, hv, _⟩ := hk
  exact ⟨v, hv⟩

theorem nodup_filter {m : List (Nat × α)} (p : Nat × α → Bool) (h : NodupKeys m) : NodupKeys (m.filter p) := by
  induction m with
  | nil => simpa using h
  | cons x r ih =>
    have hx : x.1 ∉ keys r := (List.nodup_cons.1 h).1
    have hr : NodupKeys r := (List.nodup_cons.1 h).2
    have ihr := ih hr
    by_cases hp : p x
    · rw [List.filter_cons_of_pos hp]
      exact List.nodup_cons.2 ⟨fun hm => hx (keys_filter_sub r p _ hm), ihr⟩
    · rw [List.filter_cons_of_neg hp]
      exact ihr

theorem nodup_del {m : List (Nat × α)} (k : Nat) (h : NodupKeys m) : NodupKeys (del m k) := nodup_filter _ h

theorem not_mem_keys_del (m : List (Nat × α)) (k : Nat) : k ∉ keys (del m k) := by
  intro h
  obtain ⟨v, hv⟩ := (mem_keys_iff _ _).1 h
  simp [get_del_self] at hv

theorem nodup_cons_del {m : List (Nat × α)} (k : Nat) (v : α) (h : NodupKeys m) : NodupKeys ((k, v) :: del m k) :=
  List.nodup_cons.2 ⟨not_mem_keys_del m k, nodup_del k h⟩

theorem get_filter {m : List (Nat × α)} (h : NodupKeys m) (p : Nat × α → Bool) (k : Nat) :
    get (m.filter p) k = (get m k).bind (fun v => if p (k, v) then some v else none) := by
  induction m with
  | nil => rfl
  | cons x r ih =>
    obtain ⟨k0, v0⟩ := x
    have hx : k0 ∉ keys r := (List.nodup_cons.1 h).1
    have ihr := ih (List.nodup_cons.1 h).2
    by_cases h0 : k0 = k
    · subst h0
      have hnone : get (r.filter p) k0 = none := by
        cases hg : get (r.filter p) k0 with
        | none => rfl
        | some v => exact absurd (keys_filter_sub r p k0 ((mem_keys_iff _ _).2 ⟨v, hg⟩)) hx
      by_cases hp : p (k0, v0)
      · simp [hp, get_cons]
      · simp [hp, get_cons, hnone]
    · by_cases hp : p (k0, v0)
      · simp [hp, get_cons, h0, ihr]
      · simp [hp, get_cons, h0, ihr]

end assoc
end EgoVerif.C28
