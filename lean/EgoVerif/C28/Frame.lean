import EgoVerif.C28.Look
namespace EgoVerif.C28

theorem mem_iff_get {α : Type} {m : List (Nat × α)} (h : NodupKeys m) (k : Nat) (v : α) :
    (k, v) ∈ m ↔ get m k = some v := by
  induction m with
  | nil => simp [get]
  | cons x r ih =>
    obtain ⟨k0, v0⟩ := x
    have hx : k0 ∉ keys r := (List.nodup_cons.1 h).1
    have ihr := ih (List.nodup_cons.1 h).2
    by_cases h0 : k0 = k
    · subst h0
      have hnot : (k0, v) ∉ r := fun hm => hx (List.mem_map.2 ⟨(k0, v), hm, rfl⟩)
      simp [get_cons, hnot]
      constructor <;> intro e <;> exact e.symm
    · have : ¬ k = k0 := fun e => h0 e.symm
      simp [get_cons, h0, this, ihr]

theorem nodup_map_keys {α β : Type} {m : List (Nat × α)} (h : NodupKeys m) (f : Nat × α → β)
    (hf : ∀ p q : Nat × α, f p = f q → p.1 = q.1) : (m.map f).Nodup := by
  induction m with
  | nil => simp
  | cons x r ih =>
    have hx : x.1 ∉ keys r := (List.nodup_cons.1 h).1
    have ihr := ih (List.nodup_cons.1 h).2
    simp only [List.map_cons]
    refine List.nodup_cons.2 ⟨?_, ihr⟩
    intro hm
    obtain ⟨q, hq, hfq⟩ := List.mem_map.1 hm
    exact hx (List.mem_map.2 ⟨q, hq, (hf q x hfq)⟩)

/-! ### frame facts: what an operation leaves alone -/

theorem storeItem_frame (s : St) (c : Class) (ca : Cache) (k : Key) (v : Val) :
    (storeItem s c ca k v).now = s.now ∧ (storeItem s c ca k v).maxCacheSize = s.maxCacheSize ∧
    (storeItem s c ca k v).configured = s.configured ∧ (storeItem s c ca k v).evicted = s.evicted := by
  unfold storeItem; simp only; split <;> exact ⟨rfl, rfl, rfl, rfl⟩

theorem add_frame (s : St) (c : Class) (k : Key) (v : Val) :
    (add s c k v).now = s.now ∧ (add s c k v).maxCacheSize = s.maxCacheSize ∧
    (add s c k v).configured = s.configured ∧ (add s c k v).evicted = s.evicted := by
  unfold add
  split
  · obtain ⟨a, b, c1, d⟩ := storeItem_frame (newCache s c) c (freshCache s c) k v
    exact ⟨a.trans (newCache_now s c), b.trans (newCache_max s c), c1.trans (newCache_configured s c),
      d.trans (newCache_evicted s c)⟩
  · exact storeItem_frame s c _ k v

theorem find_frame (s : St) (c : Class) (k : Key) :
    (find s c k).now = s.now ∧ (find s c k).maxCacheSize = s.maxCacheSize ∧
    (find s c k).configured = s.configured ∧ (find s c k).evicted = s.evicted := by
  unfold find; split
  · exact ⟨rfl, rfl, rfl, rfl⟩
  · split <;> exact ⟨rfl, rfl, rfl, rfl⟩

theorem delete_frame (s : St) (c : Class) (k : Key) :
    (delete s c k).now = s.now ∧ (delete s c k).maxCacheSize = s.maxCacheSize ∧
    (delete s c k).configured = s.configured := by
  unfold delete; split
  · exact ⟨rfl, rfl, rfl⟩
  · split <;> exact ⟨rfl, rfl, rfl⟩

theorem sweep_frame (s : St) (c : Class) :
    (sweep s c).now = s.now ∧ (sweep s c).maxCacheSize = s.maxCacheSize ∧ (sweep s c).configured = s.configured := by
  unfold sweep; split <;> exact ⟨rfl, rfl, rfl⟩

theorem setExpiration_frame (s : St) (c : Class) (d : Time) :
    (setExpiration s c d).now = s.now ∧ (setExpiration s c d).maxCacheSize = s.maxCacheSize ∧
    (setExpiration s c d).configured = put s.configured c d ∧ (setExpiration s c d).evicted = s.evicted := by
  unfold setExpiration; split
  · exact ⟨newCache_now s c, newCache_max s c, by simp [newCache_configured], newCache_evicted s c⟩
  · exact ⟨rfl, rfl, rfl, rfl⟩

/-- the reports an operation makes to the eviction listener -/
def evOf (s : St) : Op → List (Class × Key × Val)
  | .delete c k => match look s c k with
    | some it => [(c, k, it.val)]
    | none => []
  | .sweep c => match get s.caches c with
    | none => []
    | some ca => (ca.items.filter (fun p => expired s.now p.2)).map (fun p => (c, p.1, p.2.val))
  | _ => []

theorem evicted_step (s : St) (o : Op) : (step s o).evicted = s.evicted ++ evOf s o := by
  cases o with
  | add c k v => simp [step, evOf, (add_frame s c k v).2.2.2]
  | find c k => simp [step, evOf, (find_frame s c k).2.2.2]
  | delete c k =>
    simp only [step, evOf, delete, look]
    cases get s.caches c with
    | none => simp
    | some ca =>
      simp only
      cases hit : get ca.items k <;> simp
  | purge c => simp [step, evOf, purge]
  | purgeLocal c => simp [step, evOf, purge]
  | setExpiration c d =>
    cases d with
    | none => simp [step, evOf]
    | some d => simp [step, evOf, (setExpiration_frame s c d).2.2.2]
  | sweep c =>
    simp only [step, evOf, sweep]
    cases get s.caches c <;> simp
  | tick => simp [step, evOf]

end EgoVerif.C28
