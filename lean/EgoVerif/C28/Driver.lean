import EgoVerif.Common.Drv
import EgoVerif.C28.Model
/- line protocol (one history = `reset` followed by operation lines; classes, keys, values are small numbers,
   times are whole seconds since the start of the history):
     consts                      → `<scan> <defaultLife>`
     reset <maxCacheSize>        → `ok`
     add c k v | find c k | del c k | purge c | purgel c | setexp c <secs|bad> | sweep c | adv d | purgeall
                                 → `<result>;ev=<evictions of this step, sorted>;<state dump>`
     lin <max> P <op>* (T <op:result:inv:resp>*)* F <final> → `lin-ok` | `no-linearisation`   (validation)
   state dump:  t=<now>;run=<ids>;hk=<#OnPurge>;C<id>:<maxSize>:<expiration>:<k>=<v>@<expires>,… per cache -/
namespace EgoVerif.C28

def insertBy {α : Type} (lt : α → α → Bool) (x : α) : List α → List α
  | [] => [x]
  | y :: r => if lt y x then y :: insertBy lt x r else x :: y :: r

def sortBy {α : Type} (lt : α → α → Bool) (l : List α) : List α := l.foldr (insertBy lt) []

def join (sep : String) (l : List String) : String := sep.intercalate l

def showItems (l : List (Key × Item)) : String :=
  join "," ((sortBy (fun a b => a.1 < b.1) l).map fun p => s!"{p.1}={p.2.val}@{p.2.expires}")

def showEv (l : List (Class × Key × Val)) : String :=
  let lt (a b : Class × Key × Val) : Bool :=
    a.1 < b.1 || (a.1 == b.1 && (a.2.1 < b.2.1 || (a.2.1 == b.2.1 && a.2.2 < b.2.2)))
  join "," ((sortBy lt l).map fun p => s!"{p.1}.{p.2.1}.{p.2.2}")

def dump (s : St) : String :=
  let cs := (sortBy (fun a b => a.1 < b.1) s.caches).map fun p =>
    s!"C{p.1}:{p.2.maxSize}:{p.2.expiration}:{showItems p.2.items}"
  let run := join "." ((sortNat s.running).map toString)
  join ";" ([s!"t={s.now}", s!"run={run}", s!"hk={s.hooks.length}"] ++ cs)

def showOut : Out → String
  | .none => "-"
  | .val none => "miss"
  | .val (some v) => s!"hit{v}"
  | .flag true => "1"
  | .flag false => "0"

/-- what the caller of an operation sees: `sweepExpired` answers whether the cache was there -/
def sysOut (y : Sys) : SOp → String
  | .prim (.sweep c) => if (get y.st.caches c).isSome then "1" else "0"
  | .prim o => showOut (out y.st o)
  | _ => "-"

def parseOp (fs : List String) : Option SOp :=
  match fs with
  | ["add", c, k, v] => do pure (.prim (.add (← c.toNat?) (← k.toNat?) (← v.toNat?)))
  | ["find", c, k] => do pure (.prim (.find (← c.toNat?) (← k.toNat?)))
  | ["del", c, k] => do pure (.prim (.delete (← c.toNat?) (← k.toNat?)))
  | ["purge", c] => do pure (.prim (.purge (← c.toNat?)))
  | ["purgel", c] => do pure (.prim (.purgeLocal (← c.toNat?)))
  | ["setexp", c, d] => do
      let c ← c.toNat?
      if d == "bad" then pure (.prim (.setExpiration c none)) else pure (.prim (.setExpiration c (some (← d.toInt?))))
  | ["sweep", c] => do pure (.prim (.sweep (← c.toNat?)))
  | ["adv", d] => do pure (.advance (← d.toNat?))
  | ["purgeall"] => some .purgeAll
  | _ => none

def answer (y : Sys) (o : SOp) : Sys × String :=
  let y' := y.step o
  (y', s!"{sysOut y o};ev={showEv (y'.st.evicted.drop y.st.evicted.length)};{dump y'.st}")

/-! linearisation search (validation only): is there an order of the concurrent operations that
respects each goroutine's program order and real time (an operation that returned before another
was invoked comes first), in which the model gives every observed result and the observed final state? -/

structure COp where
  op : SOp
  res : String
  inv : Nat
  resp : Nat

def parseCOp (t : String) : Option COp :=
  match t.splitOn ":" with
  | [o, r, i, e] => do
      let op ← parseOp (o.splitOn ".")
      pure { op := op, res := r, inv := ← i.toNat?, resp := ← e.toNat? }
  | _ => none

/-- all ways of taking the head of one thread: (head, remaining threads) -/
def heads : List (List COp) → List (COp × List (List COp))
  | [] => []
  | [] :: r => (heads r).map fun p => (p.1, [] :: p.2)
  | (o :: t) :: r => (o, t :: r) :: (heads r).map fun p => (p.1, (o :: t) :: p.2)

def minResp (ths : List (List COp)) : Option Nat :=
  ths.foldl (fun acc t => match t with
    | [] => acc
    | o :: _ => match acc with | none => some o.resp | some m => some (min m o.resp)) none

def search (final : String) (evBase : Nat) : Nat → Sys → List (List COp) → Bool
  | 0, _, _ => false
  | fuel + 1, y, ths =>
    if ths.all (·.isEmpty) then
      s!"ev={showEv (y.st.evicted.drop evBase)};{dump y.st}" == final
    else
      let m := minResp ths
      (heads ths).any fun p =>
        let o := p.1
        -- real-time order: nothing still pending may have returned before `o` was invoked
        (match m with | some r => !(r < o.inv) | none => true) &&
        sysOut y o.op == o.res &&
        search final evBase fuel (y.step o.op) p.2

def splitAt (sep : String) : List String → List (List String)
  | [] => [[]]
  | x :: r =>
    match splitAt sep r with
    | [] => [[]]
    | g :: gs => if x == sep then [] :: g :: gs else (x :: g) :: gs

def linearise (fs : List String) : String :=
  match fs with
  | mx :: "P" :: rest =>
    match mx.toNat? with
    | none => "bad-input"
    | some mx =>
      -- rest = prefix ops … then groups introduced by "T", then "F" final
      let pre := rest.takeWhile (fun x => x != "T" && x != "F")
      let rest := rest.dropWhile (fun x => x != "T" && x != "F")
      let final := match rest.dropWhile (· != "F") with | _ :: f :: _ => f | _ => ""
      let body := rest.takeWhile (· != "F")
      let groups := (splitAt "T" body).filter (!·.isEmpty)
      match pre.mapM (fun t => parseOp (t.splitOn ".")), groups.mapM (·.mapM parseCOp) with
      | some pops, some ths =>
        let y := Sys.run (Sys.init mx) pops
        let n := (ths.map List.length).foldl (· + ·) 0
        if search final y.st.evicted.length (n + 1) y ths then "lin-ok" else "no-linearisation"
      | _, _ => "bad-input"
  | _ => "bad-input"

def handle (y : Sys) (line : String) : Sys × String :=
  match fields line with
  | ["consts"] => (y, s!"{scan} {defaultLife}")
  | ["reset", m] => match m.toNat? with
    | some m => (Sys.init m, "ok")
    | none => (y, "bad-input")
  | "lin" :: rest => (y, linearise rest)
  | fs => match parseOp fs with
    | some o => answer y o
    | none => (y, "bad-op")

def drv : Drv := { σ := Sys, init := Sys.init 0, step := handle }

end EgoVerif.C28
