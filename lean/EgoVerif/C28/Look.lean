import EgoVerif.C28.Invariant
namespace EgoVerif.C28

theorem del_eq_self {α : Type} (m : List (Nat × α)) {k : Nat} (h : get m k = none) : del m k = m := by
  induction m with
  | nil => rfl
  | cons p r ih =>
    obtain ⟨k0, v0⟩ := p
    by_cases h0 : k0 = k
    · simp [get_cons, h0] at h
    · simp [get_cons, h0] at h
      have := ih h
      simp only [del] at this ⊢
      simp [h0, this]

/-- number of entries of class `c` (Go: `len(cache.Items)`, 0 without a record) -/
def size (s : St) (c : Class) : Nat :=
  match get s.caches c with
  | none => 0
  | some ca => ca.items.length

theorem look_of_get {s : St} {c : Class} {ca : Cache} (h : get s.caches c = some ca) (k : Key) :
    look s c k = get ca.items k := by simp [look, h]

theorem look_of_none {s : St} {c : Class} (h : get s.caches c = none) (k : Key) : look s c k = none := by
  simp [look, h]

theorem look_put (s s' : St) (c : Class) (ca : Cache) (hcs : s'.caches = put s.caches c ca) (c' : Class) (k' : Key) :
    look s' c' k' = if c' = c then get ca.items k' else look s c' k' := by
  by_cases hcc : c' = c
  · subst hcc; simp [look, hcs, get_put_self]
  · simp [look, hcs, get_put_ne _ _ hcc, hcc]

theorem look_storeItem (s : St) (c : Class) (ca : Cache) (k : Key) (v : Val) (c' : Class) (k' : Key) :
    look (storeItem s c ca k v) c' k' =
      if c' = c then
        (if k' = k then (if ca.maxSize ≤ (del ca.items k).length then none else some ⟨v, s.now + ca.expiration⟩)
         else get ca.items k')
      else look s c' k' := by
  unfold storeItem
  simp only
  split
  · rw [look_put s _ c { ca with items := del ca.items k } rfl]
    by_cases hcc : c' = c
    · by_cases hk : k' = k
      · subst hk; simp [hcc, get_del_self]
      · simp [hcc, hk, get_del_ne _ hk]
    · simp [hcc]
  · rw [look_put s _ c { ca with items := (k, ⟨v, s.now + ca.expiration⟩) :: del ca.items k } rfl]
    by_cases hcc : c' = c
    · by_cases hk : k' = k
      · subst hk; simp [hcc, get_cons]
      · have : ¬ k = k' := fun h => hk h.symm
        simp [hcc, hk, get_cons, this, get_del_ne _ hk]
    · simp [hcc]

theorem look_add {s : St} (h : WF s) (c : Class) (k : Key) (v : Val) (c' : Class) (k' : Key) :
    look (add s c k v) c' k' =
      if c' = c ∧ k' = k then
        (if (look s c k).isSome ∨ size s c < s.maxCacheSize then some ⟨v, s.now + lifeOf s c⟩ else none)
      else look s c' k' := by
  unfold add
  cases hget : get s.caches c with
  | none =>
    simp only
    rw [look_storeItem]
    by_cases hcc : c' = c
    · subst hcc
      by_cases hk : k' = k
      · subst hk
        simp [freshCache, del, newCache_now, look_of_none hget, size, hget]
        by_cases hz : s.maxCacheSize = 0
        · simp [hz]
        · have : 0 < s.maxCacheSize := Nat.pos_of_ne_zero hz
          simp [hz, this]
      · simp [hk, freshCache, get, look_of_none hget]
    · simp [hcc, look, newCache_caches, get_put_ne _ _ hcc]
  | some ca =>
    simp only
    rw [look_storeItem]
    obtain ⟨h1, h2, h3, h4⟩ := h c ca hget
    by_cases hcc : c' = c
    · subst hcc
      by_cases hk : k' = k
      · subst hk
        simp only [look_of_get hget, size, hget, and_self, if_true, h2]
        cases hit : get ca.items k' with
        | some it =>
          have := length_del_lt ca.items hit
          have hn : ¬ ca.maxSize ≤ (del ca.items k').length := by omega
          simp [hn]
        | none =>
          rw [del_eq_self _ hit, h1]
          by_cases hle : s.maxCacheSize ≤ ca.items.length
          · have : ¬ ca.items.length < s.maxCacheSize := by omega
            simp [hle, this]
          · have : ca.items.length < s.maxCacheSize := by omega
            simp [hle, this]
      · simp [hk, look_of_get hget]
    · simp [hcc]

theorem look_find {s : St} (h : WF s) (c : Class) (k : Key) (c' : Class) (k' : Key) :
    look (find s c k) c' k' =
      if c' = c ∧ k' = k then (look s c k).map (fun it => { it with expires := s.now + lifeOf s c })
      else look s c' k' := by
  unfold find
  cases hget : get s.caches c with
  | none =>
    simp only
    by_cases hc : c' = c ∧ k' = k
    · obtain ⟨rfl, rfl⟩ := hc
      simp [look_of_none hget]
    · simp [hc]
  | some ca =>
    simp only
    obtain ⟨_, h2, _, _⟩ := h c ca hget
    cases hit : get ca.items k with
    | none =>
      simp only
      by_cases hc : c' = c ∧ k' = k
      · obtain ⟨rfl, rfl⟩ := hc
        simp [look_of_get hget, hit]
      · simp [hc]
    | some it =>
      simp only
      rw [look_put s _ c { ca with items := put ca.items k { it with expires := s.now + ca.expiration } } rfl]
      by_cases hcc : c' = c
      · subst hcc
        by_cases hk : k' = k
        · subst hk; simp [get_put_self, look_of_get hget, hit, h2]
        · simp [hk, get_put_ne _ _ hk, look_of_get hget]
      · simp [hcc]

theorem look_delete (s : St) (c : Class) (k : Key) (c' : Class) (k' : Key) :
    look (delete s c k) c' k' = if c' = c ∧ k' = k then none else look s c' k' := by
  unfold delete
  cases hget : get s.caches c with
  | none =>
    simp only
    by_cases hc : c' = c ∧ k' = k
    · obtain ⟨rfl, rfl⟩ := hc
      simp [look_of_none hget]
    · simp [hc]
  | some ca =>
    simp only
    cases hit : get ca.items k with
    | none =>
      simp only
      by_cases hc : c' = c ∧ k' = k
      · obtain ⟨rfl, rfl⟩ := hc
        simp [look_of_get hget, hit]
      · simp [hc]
    | some it =>
      simp only
      rw [look_put s _ c { ca with items := del ca.items k } rfl]
      by_cases hcc : c' = c
      · subst hcc
        by_cases hk : k' = k
        · subst hk; simp [get_del_self]
        · simp [hk, get_del_ne _ hk, look_of_get hget]
      · simp [hcc]

theorem look_purge (s : St) (c : Class) (b : Bool) (c' : Class) (k' : Key) :
    look (purge s c b) c' k' = if c' = c then none else look s c' k' := by
  by_cases hcc : c' = c
  · subst hcc; simp [look, purge, get_del_self]
  · simp [look, purge, get_del_ne _ hcc, hcc]

theorem look_setExpiration (s : St) (c : Class) (d : Time) (c' : Class) (k' : Key) :
    look (setExpiration s c d) c' k' = look s c' k' := by
  unfold setExpiration
  cases hget : get s.caches c with
  | none =>
    simp only
    rw [look_put (newCache s c) _ c { freshCache s c with expiration := d } rfl]
    by_cases hcc : c' = c
    · subst hcc; simp [freshCache, get, look_of_none hget]
    · simp [hcc, look, newCache_caches, get_put_ne _ _ hcc]
  | some ca =>
    simp only
    rw [look_put s _ c { ca with expiration := d } rfl]
    by_cases hcc : c' = c
    · subst hcc; simp [look_of_get hget]
    · simp [hcc]

theorem look_sweep {s : St} (h : WF s) (c : Class) (c' : Class) (k' : Key) :
    look (sweep s c) c' k' =
      if c' = c then (look s c k').bind (fun it => if it.expires < s.now then none else some it)
      else look s c' k' := by
  unfold sweep
  cases hget : get s.caches c with
  | none =>
    simp only
    by_cases hcc : c' = c
    · subst hcc; simp [look, hget]
    · simp [hcc, look]
  | some ca =>
    simp only
    obtain ⟨_, _, h3, _⟩ := h c ca hget
    rw [look_put s _ c { ca with items := ca.items.filter (fun p => !expired s.now p.2) } rfl]
    by_cases hcc : c' = c
    · subst hcc
      simp only [if_true, look_of_get hget, get_filter h3]
      cases get ca.items k' with
      | none => rfl
      | some it =>
        by_cases hlt : it.expires < s.now
        · have : ¬ s.now ≤ it.expires := Int.not_le.2 hlt
          simp [expired, hlt, this]
        · have : s.now ≤ it.expires := Int.not_lt.1 hlt
          simp [expired, hlt, this]
    · simp [hcc]

end EgoVerif.C28
