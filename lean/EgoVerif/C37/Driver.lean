import EgoVerif.Common.Drv
import EgoVerif.C37.Model
/- line protocol (strings are hex of UTF-8, "-" = empty):
   `parse <hex>`        → `ok <ns>` | `err int|dur|go`      util.ParseDuration
   `gopd <hex>`         → `ok <ns>` | `err go`               time.ParseDuration (stdlib, modelled)
   `pwd <hex>`          → `ok <days> <hours> <mins> <secs> <ms>` | `err int|dur`   parseDurationWithDays
   `fmt <ns> <hex std>` → `<hex>`                            util.FormatDuration(d, true); std = d.String() -/
namespace EgoVerif.C37

def errName : Err → String
  | .int => "err int"
  | .dur => "err dur"
  | .go => "err go"

def showRes : Except Err Int → String
  | .ok d => s!"ok {d}"
  | .error e => errName e

def handle (line : String) : String :=
  match fields line with
  | ["parse", h] =>
    match stringOfHex h with
    | some s => showRes (parseDuration s.toList)
    | none => "bad-input"
  | ["gopd", h] =>
    match stringOfHex h with
    | some s => showRes (goParseDuration s.toList)
    | none => "bad-input"
  | ["pwd", h] =>
    match stringOfHex h with
    | some s =>
      match parseDurationWithDays s.toList with
      | .ok f => s!"ok {f.days} {f.hours} {f.mins} {f.secs} {f.ms}"
      | .error e => errName e
    | none => "bad-input"
  | ["fmt", d, h] =>
    match d.toInt?, stringOfHex h with
    | some d, some std => hexOfString (String.ofList (formatDuration std.toList d))
    | _, _ => "bad-input"
  | _ => "bad-op"

def drv : Drv := Drv.pure handle

end EgoVerif.C37
