import EgoVerif.C37.Model
/-
C37 — helper lemmas: decimal digits, Go's time.ParseDuration on tightly written terms,
the scanning loop of parseDurationWithDays on spelled terms.
-/
namespace EgoVerif.C37

/-! ## digits -/

theorem digitChar_spec (k : Nat) (h : k < 10) : isDigit (digitChar k) = true ∧ digitVal (digitChar k) = k := by
  have : k = 0 ∨ k = 1 ∨ k = 2 ∨ k = 3 ∨ k = 4 ∨ k = 5 ∨ k = 6 ∨ k = 7 ∨ k = 8 ∨ k = 9 := by omega
  rcases this with h | h | h | h | h | h | h | h | h | h <;> subst h <;> decide

theorem digitsVal_append_single (xs : List Char) (c : Char) :
    digitsVal (xs ++ [c]) = digitsVal xs * 10 + digitVal c := by
  simp [digitsVal, List.foldl_append]

theorem showNatAux_spec : ∀ (fuel n : Nat), n < fuel →
    (showNatAux fuel n).all isDigit = true ∧ showNatAux fuel n ≠ [] ∧ digitsVal (showNatAux fuel n) = n := by
  intro fuel
  induction fuel with
  | zero => intro n h; omega
  | succ fuel ih =>
    intro n h
    unfold showNatAux
    by_cases h10 : n < 10
    · have := digitChar_spec n h10
      simp [h10, this.1, digitsVal, this.2]
    · have hd : n / 10 < fuel := by omega
      have ih' := ih (n / 10) hd
      have dc := digitChar_spec (n % 10) (by omega)
      simp only [h10, if_false]
      refine ⟨?_, ?_, ?_⟩
      · simp [List.all_append, ih'.1, dc.1]
      · simp
      · rw [digitsVal_append_single, ih'.2.2, dc.2]; omega

theorem showNat_digits (n : Nat) : (showNat n).all isDigit = true := (showNatAux_spec (n + 1) n (by omega)).1
theorem showNat_ne_nil (n : Nat) : showNat n ≠ [] := (showNatAux_spec (n + 1) n (by omega)).2.1
theorem showNat_val (n : Nat) : digitsVal (showNat n) = n := (showNatAux_spec (n + 1) n (by omega)).2.2


inductive U where
  | d | h | m | s | ms
  deriving DecidableEq, Repr

def U.chars : U → List Char
  | .d => ['d'] | .h => ['h'] | .m => ['m'] | .s => ['s'] | .ms => ['m', 's']

/-- nanoseconds per unit -/
def U.ns : U → Nat
  | .d => 86400000000000 | .h => 3600000000000 | .m => 60000000000 | .s => 1000000000 | .ms => 1000000

structure Term where
  digits : List Char
  unit : U

def Term.ok (t : Term) : Prop := t.digits ≠ [] ∧ t.digits.all isDigit = true
def Term.val (t : Term) : Nat := digitsVal t.digits
/-- (literal factor on the left: the kernel must never unfold `x * 86400000000000` in unary) -/
def Term.ns (t : Term) : Nat := t.unit.ns * t.val
def Term.chars (t : Term) : List Char := t.digits ++ t.unit.chars

def sumNs : List Term → Nat
  | [] => 0
  | t :: ts => t.ns + sumNs ts

/-- terms written one after the other without separators -/
def tight : List Term → List Char
  | [] => []
  | t :: ts => t.chars ++ tight ts

/-- "nothing follows, or a digit follows" -/
def DigitNext (r : List Char) : Prop := r = [] ∨ ∃ c cs, r = c :: cs ∧ isDigit c = true

theorem foldl_ge (ds : List Char) (x : Nat) : x ≤ ds.foldl (fun a c => a * 10 + digitVal c) x := by
  induction ds generalizing x with
  | nil => simp
  | cons c cs ih => simp only [List.foldl_cons]; have := ih (x * 10 + digitVal c); omega

theorem leadingInt_digits (ds : List Char) : ∀ (x : Nat) (r : List Char),
    ds.all isDigit = true → (r = [] ∨ ∃ c cs, r = c :: cs ∧ isDigit c = false) →
    ds.foldl (fun a c => a * 10 + digitVal c) x ≤ two63 →
    leadingInt x (ds ++ r) = some (ds.foldl (fun a c => a * 10 + digitVal c) x, r) := by
  induction ds with
  | nil =>
    intro x r _ hr _
    rcases hr with rfl | ⟨c, cs, rfl, hc⟩
    · simp [leadingInt]
    · simp [leadingInt, hc]
  | cons c cs ih =>
    intro x r hd hr hb
    simp only [List.all_cons, Bool.and_eq_true] at hd
    simp only [List.foldl_cons] at hb
    have hge := foldl_ge cs (x * 10 + digitVal c)
    simp only [List.cons_append, leadingInt, hd.1, if_true, List.foldl_cons]
    have h1 : ¬ x > two63 / 10 := by unfold two63 at *; omega
    have h2 : ¬ x * 10 + digitVal c > two63 := by omega
    simp only [h1, h2, if_false]
    exact ih _ r hd.2 hr hb

theorem unit_head_notdigit (u : U) : ∃ c cs, u.chars = c :: cs ∧ isDigit c = false ∧ c ≠ '.' := by
  cases u <;> simp [U.chars] <;> decide

theorem takeWhile_unit (u : U) (r : List Char) (hr : DigitNext r) :
    (u.chars ++ r).takeWhile (fun x => !unitStop x) = u.chars ∧
    (u.chars ++ r).dropWhile (fun x => !unitStop x) = r := by
  have hr' : r.takeWhile (fun x => !unitStop x) = [] ∧ r.dropWhile (fun x => !unitStop x) = r := by
    rcases hr with rfl | ⟨c, cs, rfl, hc⟩
    · simp
    · simp [unitStop, hc]
  have e1 : unitStop 'd' = false := by decide
  have e2 : unitStop 'h' = false := by decide
  have e3 : unitStop 'm' = false := by decide
  have e4 : unitStop 's' = false := by decide
  cases u <;> simp [U.chars, List.takeWhile, List.dropWhile, e1, e2, e3, e4, hr'.1, hr'.2]

theorem unitOf_chars (u : U) (h : u ≠ .d) : unitOf u.chars = some u.ns := by
  cases u <;> first | contradiction | decide

/-- one Go term `<digits><unit>` followed by nothing or a digit -/
theorem goTerm_term (t : Term) (r : List Char) (hok : t.ok) (hu : t.unit ≠ .d) (hr : DigitNext r)
    (hb : t.ns ≤ two63) : goTerm (t.chars ++ r) = some (t.ns, r) := by
  have hcomm : t.ns = t.val * t.unit.ns := Nat.mul_comm _ _
  rw [hcomm] at hb ⊢
  obtain ⟨hne, hall⟩ := hok
  obtain ⟨uc, ucs, huc, hucd, hucdot⟩ := unit_head_notdigit t.unit
  have hval : t.val ≤ two63 := by
    have : 0 < t.unit.ns := by cases t.unit <;> simp [U.ns]
    have : t.val ≤ t.val * t.unit.ns := Nat.le_mul_of_pos_right _ this
    omega
  have hli : leadingInt 0 (t.digits ++ (t.unit.chars ++ r)) = some (t.val, t.unit.chars ++ r) := by
    apply leadingInt_digits t.digits 0 (t.unit.chars ++ r) hall
    · right; exact ⟨uc, ucs ++ r, by simp [huc], hucd⟩
    · exact hval
  cases hds : t.digits with
  | nil => exact absurd hds hne
  | cons c cs =>
    have hc : isDigit c = true := by rw [hds] at hall; simp at hall; exact hall.1
    have htw := takeWhile_unit t.unit r hr
    have hun := unitOf_chars t.unit hu
    have hune : t.unit.chars ≠ [] := by rw [huc]; simp
    have hdiv : ¬ t.val > two63 / t.unit.ns := by
      have hpos : 0 < t.unit.ns := by cases t.unit <;> simp [U.ns]
      have : t.val ≤ two63 / t.unit.ns := (Nat.le_div_iff_mul_le hpos).2 hb
      omega
    have hv2 : ¬ t.val * t.unit.ns > two63 := by omega
    have hli' : leadingInt 0 (c :: (cs ++ (t.unit.chars ++ r))) = some (t.val, t.unit.chars ++ r) := by
      rw [hds] at hli; simpa using hli
    have hfr : goFrac (t.unit.chars ++ r) = (0, 0, t.unit.chars ++ r, false) := by
      rw [huc]; simp only [List.cons_append]; unfold goFrac
      split
      · rename_i t' heq
        simp at heq
        exact absurd heq.1 hucdot
      · rfl
    simp only [Term.chars, hds, List.cons_append, List.append_assoc, goTerm, hc, Bool.or_true, Bool.not_true,
      Bool.false_eq_true, if_false, hli', hfr, htw.1, htw.2]
    simp [hune, hun, hdiv, hv2]
    omega

theorem tight_digitNext (ts : List Term) (h : ∀ t ∈ ts, t.ok) : DigitNext (tight ts) := by
  cases ts with
  | nil => left; rfl
  | cons t ts =>
    right
    obtain ⟨hne, hall⟩ := h t (by simp)
    cases hds : t.digits with
    | nil => exact absurd hds hne
    | cons c cs =>
      rw [hds] at hall; simp at hall
      exact ⟨c, cs ++ t.unit.chars ++ tight ts, by simp [tight, Term.chars, hds], hall.1⟩

/-- Go's loop over tightly written terms with units h m s ms adds up the terms -/
theorem goLoop_tight : ∀ (ts : List Term) (fuel acc : Nat),
    (∀ t ∈ ts, t.ok ∧ t.unit ≠ .d) → acc + sumNs ts ≤ two63 → (tight ts).length ≤ fuel →
    goLoop fuel acc (tight ts) = .ok (acc + sumNs ts) := by
  intro ts
  induction ts with
  | nil => intro fuel acc _ _ _; simp [tight, goLoop, sumNs]
  | cons t ts ih =>
    intro fuel acc hts hb hf
    have htok := (hts t (by simp)).1
    have hrest : ∀ t' ∈ ts, t'.ok := fun t' h' => (hts t' (by simp [h'])).1
    have hdn := tight_digitNext ts hrest
    simp only [sumNs] at hb
    have hgt := goTerm_term t (tight ts) htok (hts t (by simp)).2 hdn (by omega)
    obtain ⟨hne, _⟩ := htok
    cases hds : t.digits with
    | nil => exact absurd hds hne
    | cons c cs =>
      have hlen : (tight (t :: ts)).length = cs.length + 1 + t.unit.chars.length + (tight ts).length := by
        simp [tight, Term.chars, hds]; omega
      have hshape : tight (t :: ts) = c :: (cs ++ t.unit.chars ++ tight ts) := by simp [tight, Term.chars, hds]
      cases fuel with
      | zero => omega
      | succ fuel =>
        have hgt' : goTerm (c :: (cs ++ t.unit.chars ++ tight ts)) = some (t.ns, tight ts) := by
          rw [← hshape]; simpa [tight] using hgt
        rw [hshape]
        simp only [goLoop, hgt']
        have hmod : (acc + t.ns) % two64 = acc + t.ns := by
          apply Nat.mod_eq_of_lt; unfold two63 at hb; unfold two64; omega
        have hle : ¬ acc + t.ns > two63 := by omega
        simp only [hmod, hle, if_false]
        rw [ih fuel (acc + t.ns) (fun t' h' => hts t' (by simp [h'])) (by omega) (by omega)]
        simp [sumNs]; omega


inductive Sign where
  | none | plus | minus
  deriving DecidableEq, Repr

def Sign.chars : Sign → List Char
  | .none => [] | .plus => ['+'] | .minus => ['-']

def Sign.apply : Sign → Nat → Int
  | .minus, n => -(n : Int)
  | _, n => (n : Int)

theorem digit_not_sign (c : Char) (h : isDigit c = true) : c ≠ '-' ∧ c ≠ '+' := by
  constructor <;> (intro e; subst e; revert h; decide)

theorem splitSign_digit (c : Char) (cs : List Char) (h : isDigit c = true) :
    splitSign (c :: cs) = (false, c :: cs) := by
  have := digit_not_sign c h
  unfold splitSign
  split
  · rename_i heq; simp at heq; exact absurd heq.1 this.1
  · rename_i heq; simp at heq; exact absurd heq.1 this.2
  · rfl

theorem splitSign_sign (sg : Sign) (r : List Char) (hr : ∃ c cs, r = c :: cs ∧ isDigit c = true) :
    splitSign (sg.chars ++ r) = (decide (sg = .minus), r) := by
  obtain ⟨c, cs, rfl, hc⟩ := hr
  cases sg
  · simpa [Sign.chars] using splitSign_digit c cs hc
  · simp [Sign.chars, splitSign]
  · simp [Sign.chars, splitSign]

theorem term_chars_length (t : Term) (h : t.ok) : 2 ≤ t.chars.length := by
  obtain ⟨hne, _⟩ := h
  have : 1 ≤ t.digits.length := by
    cases hd : t.digits with
    | nil => exact absurd hd hne
    | cons _ _ => simp
  have : 1 ≤ t.unit.chars.length := by cases t.unit <;> simp [U.chars]
  simp [Term.chars]; omega

/-- Go's time.ParseDuration on `[sign]` + tightly written h/m/s/ms terms -/
theorem goParse_tight (sg : Sign) (ts : List Term) (hne : ts ≠ [])
    (hts : ∀ t ∈ ts, t.ok ∧ t.unit ≠ .d) (hb : sumNs ts ≤ two63 - 1) :
    goParseDuration (sg.chars ++ tight ts) = .ok (sg.apply (sumNs ts)) := by
  have hok : ∀ t ∈ ts, t.ok := fun t h => (hts t h).1
  have hdn : ∃ c cs, tight ts = c :: cs ∧ isDigit c = true := by
    rcases tight_digitNext ts hok with h | h
    · cases ts with
      | nil => exact absurd rfl hne
      | cons t ts =>
        have := term_chars_length t (hok t (by simp))
        simp [tight] at h
        simp [h.1] at this
    · exact h
  have hlen : 2 ≤ (tight ts).length := by
    cases ts with
    | nil => exact absurd rfl hne
    | cons t ts =>
      have := term_chars_length t (hok t (by simp))
      simp [tight]; omega
  have h0 : tight ts ≠ ['0'] := by intro e; rw [e] at hlen; simp at hlen
  have hnil : tight ts ≠ [] := by intro e; rw [e] at hlen; simp at hlen
  have hloop := goLoop_tight ts (tight ts).length 0 hts (by unfold two63 at *; omega) (Nat.le_refl _)
  unfold goParseDuration
  simp only [splitSign_sign sg (tight ts) hdn, h0, hnil, if_false, hloop]
  cases sg
  · simp [Sign.apply]; exact hb
  · simp [Sign.apply]; exact hb
  · simp [Sign.apply]

/-! ## parseDurationWithDays on spelled terms -/

def Fields.zero : Fields := ⟨0, 0, 0, 0, 0⟩

def Fields.set (f : Fields) : U → Nat → Fields
  | .d, v => { f with days := v }
  | .h, v => { f with hours := v }
  | .m, v => { f with mins := v }
  | .s, v => { f with secs := v }
  | .ms, v => { f with ms := v }

def Fields.get (f : Fields) : U → Nat
  | .d => f.days | .h => f.hours | .m => f.mins | .s => f.secs | .ms => f.ms

/-- the loop keeps the LAST value written for a unit -/
def applyTerms : Fields → List Term → Fields
  | f, [] => f
  | f, t :: ts => applyTerms (f.set t.unit t.val) ts

/-- a clean loop state (no pending digits, no pending `m`) holding fields `f` -/
def stOf (f : Fields) (chars : List Char) (mSeen : Bool) : St :=
  ⟨f.days, f.hours, f.mins, f.secs, f.ms, chars, mSeen⟩

def clean (f : Fields) : St := stOf f [] false

/-- items: (white space before the term, the term) -/
def renderItems : List (List Char × Term) → List Char
  | [] => []
  | (sep, t) :: r => sep ++ t.chars ++ renderItems r

def runF (st : St) (cs : List Char) : Except Err Fields :=
  match run st cs with
  | .error e => .error e
  | .ok st' => finish st'

theorem run_append (a b : List Char) (st : St) :
    run st (a ++ b) = (match run st a with | .error e => .error e | .ok st' => run st' b) := by
  induction a generalizing st with
  | nil => simp [run]
  | cons c cs ih =>
    simp only [List.cons_append, run]
    cases step st c with
    | error e => simp
    | ok st' => simp [ih]

theorem runF_append_ok (a b : List Char) (st st' : St) (h : run st a = .ok st') :
    runF st (a ++ b) = runF st' b := by
  simp [runF, run_append, h]

theorem space_not_unit (c : Char) (h : isSpace c = true) : c ≠ 'd' ∧ c ≠ 'h' ∧ c ≠ 'm' ∧ c ≠ 's' := by
  refine ⟨?_, ?_, ?_, ?_⟩ <;> (intro e; subst e; revert h; decide)

theorem digit_not_unit (c : Char) (h : isDigit c = true) :
    c ≠ 'd' ∧ c ≠ 'h' ∧ c ≠ 'm' ∧ c ≠ 's' ∧ isSpace c = false := by
  refine ⟨?_, ?_, ?_, ?_, ?_⟩
  · intro e; subst e; revert h; decide
  · intro e; subst e; revert h; decide
  · intro e; subst e; revert h; decide
  · intro e; subst e; revert h; decide
  · simp only [isDigit, Bool.and_eq_true, decide_eq_true_eq] at h
    simp only [isSpace]
    have h1 := h.1; have h2 := h.2
    simp; omega

theorem run_spaces (sp : List Char) (f : Fields) (h : sp.all isSpace = true) :
    run (clean f) sp = .ok (clean f) := by
  induction sp with
  | nil => rfl
  | cons c cs ih =>
    simp only [List.all_cons, Bool.and_eq_true] at h
    obtain ⟨h1, h2, h3, h4⟩ := space_not_unit c h.1
    simp only [run]
    have : step (clean f) c = .ok (clean f) := by
      simp [step, topValue, clean, stOf, h1, h2, h3, h4, h.1]
    rw [this]; exact ih h.2

theorem atoi_digits (ds : List Char) (hne : ds ≠ []) (hall : ds.all isDigit = true)
    (hb : digitsVal ds ≤ two63 - 1) : atoi ds = some (digitsVal ds) := by
  simp [atoi, hne, hall, hb]

theorem digitsVal_prefix_le (a b : List Char) : digitsVal a ≤ digitsVal (a ++ b) := by
  simp only [digitsVal, List.foldl_append]
  exact foldl_ge b _

/-- feeding digits to a state without a pending `m` just accumulates them -/
theorem run_digits (ds : List Char) : ∀ (pre : List Char) (f : Fields),
    pre.all isDigit = true → ds.all isDigit = true → digitsVal (pre ++ ds) ≤ two63 - 1 →
    run (stOf f pre false) ds = .ok (stOf f (pre ++ ds) false) := by
  induction ds with
  | nil => intro pre f _ _ _; simp [run]
  | cons c cs ih =>
    intro pre f hpre hds hb
    simp only [List.all_cons, Bool.and_eq_true] at hds
    obtain ⟨h1, h2, h3, h4, h5⟩ := digit_not_unit c hds.1
    have htop : ∃ v, topValue (stOf f pre false) = some v := by
      by_cases hp : pre = []
      · exact ⟨0, by simp [topValue, stOf, hp]⟩
      · refine ⟨digitsVal pre, ?_⟩
        simp only [topValue, stOf, hp, if_false]
        apply atoi_digits pre hp hpre
        have := digitsVal_prefix_le pre (c :: cs); omega
    obtain ⟨v, hv⟩ := htop
    have hstep : step (stOf f pre false) c = .ok (stOf f (pre ++ [c]) false) := by
      simp only [step, hv]
      simp [stOf, h1, h2, h3, h4, h5]
    simp only [run, hstep]
    have := ih (pre ++ [c]) f (by simp [List.all_append, hpre, hds.1]) hds.2 (by simpa using hb)
    simpa using this

def SpaceOrDigitNext (r : List Char) : Prop :=
  r = [] ∨ ∃ c cs, r = c :: cs ∧ (isSpace c = true ∨ isDigit c = true)

theorem step_unit_d (f : Fields) (ds : List Char) (v : Nat) (hne : ds ≠ []) (ha : atoi ds = some v) :
    step (stOf f ds false) 'd' = .ok (clean (f.set .d v)) := by
  simp [step, topValue, stOf, hne, ha, clean, Fields.set]

theorem step_unit_h (f : Fields) (ds : List Char) (v : Nat) (hne : ds ≠ []) (ha : atoi ds = some v) :
    step (stOf f ds false) 'h' = .ok (clean (f.set .h v)) := by
  simp [step, topValue, stOf, hne, ha, clean, Fields.set]

theorem step_unit_s (f : Fields) (ds : List Char) (v : Nat) (hne : ds ≠ []) (ha : atoi ds = some v) :
    step (stOf f ds false) 's' = .ok (clean (f.set .s v)) := by
  simp [step, topValue, stOf, hne, ha, clean, Fields.set]

theorem step_unit_m (f : Fields) (ds : List Char) (v : Nat) (hne : ds ≠ []) (ha : atoi ds = some v) :
    step (stOf f ds false) 'm' = .ok (stOf f ds true) := by
  simp [step, topValue, stOf, hne, ha]

theorem step_pending_s (f : Fields) (ds : List Char) (v : Nat) (hne : ds ≠ []) (ha : atoi ds = some v) :
    step (stOf f ds true) 's' = .ok (clean (f.set .ms v)) := by
  simp [step, topValue, stOf, hne, ha, clean, Fields.set]

/-- a pending minute count is flushed by a following space, digit, or the end of the string -/
theorem runF_pending (f : Fields) (ds : List Char) (v : Nat) (hne : ds ≠ []) (ha : atoi ds = some v)
    (cs : List Char) (hcs : SpaceOrDigitNext cs) :
    runF (stOf f ds true) cs = runF (clean (f.set .m v)) cs := by
  rcases hcs with rfl | ⟨c, cs', rfl, hc⟩
  · simp [runF, run, finish, stOf, hne, ha, clean, Fields.set, trimSpace]
  · have hstep : step (stOf f ds true) c = step (clean (f.set .m v)) c := by
      rcases hc with hc | hc
      · obtain ⟨h1, h2, h3, h4⟩ := space_not_unit c hc
        simp [step, topValue, stOf, hne, ha, clean, Fields.set, h1, h2, h3, h4, hc]
      · obtain ⟨h1, h2, h3, h4, h5⟩ := digit_not_unit c hc
        simp [step, topValue, stOf, hne, ha, clean, Fields.set, h1, h2, h3, h4, h5]
    simp [runF, run, hstep]

def ItemOk (it : List Char × Term) : Prop :=
  it.1.all isSpace = true ∧ it.2.ok ∧ it.2.val ≤ two63 - 1

theorem renderItems_next (items : List (List Char × Term)) (h : ∀ it ∈ items, ItemOk it) :
    SpaceOrDigitNext (renderItems items) := by
  cases items with
  | nil => left; rfl
  | cons it r =>
    right
    obtain ⟨sep, t⟩ := it
    obtain ⟨hsp, ⟨hne, hall⟩, _⟩ := h (sep, t) (by simp)
    cases sep with
    | nil =>
      cases hds : t.digits with
      | nil => exact absurd hds hne
      | cons c cs =>
        rw [hds] at hall; simp at hall
        exact ⟨c, cs ++ t.unit.chars ++ renderItems r, by simp [renderItems, Term.chars, hds], Or.inr hall.1⟩
    | cons c cs =>
      simp at hsp
      exact ⟨c, cs ++ t.chars ++ renderItems r, by simp [renderItems], Or.inl hsp.1⟩

/-- the scanning loop on `sep term sep term …` records every term in its field -/
theorem runF_items : ∀ (items : List (List Char × Term)) (f : Fields), (∀ it ∈ items, ItemOk it) →
    runF (clean f) (renderItems items) = .ok (applyTerms f (items.map (·.2))) := by
  intro items
  induction items with
  | nil =>
    intro f _
    simp [renderItems, runF, run, finish, clean, stOf, trimSpace, applyTerms]
  | cons it r ih =>
    intro f h
    obtain ⟨sep, t⟩ := it
    have hr : ∀ it ∈ r, ItemOk it := fun it hi => h it (by simp [hi])
    obtain ⟨hsp, ⟨hne, hall⟩, hv⟩ := h (sep, t) (by simp)
    have hnext := renderItems_next r hr
    have ha : atoi t.digits = some t.val := atoi_digits t.digits hne hall hv
    have h1 : run (clean f) sep = .ok (clean f) := run_spaces sep f hsp
    have h2 : run (clean f) t.digits = .ok (stOf f t.digits false) := by
      have := run_digits t.digits [] f (by simp) hall (by simpa [Term.val] using hv)
      simpa [clean] using this
    have hshape : renderItems ((sep, t) :: r) = sep ++ (t.digits ++ (t.unit.chars ++ renderItems r)) := by
      simp [renderItems, Term.chars]
    rw [hshape, runF_append_ok _ _ _ _ h1, runF_append_ok _ _ _ _ h2]
    simp only [List.map_cons, applyTerms]
    cases hu : t.unit with
    | d =>
      have : run (stOf f t.digits false) ['d'] = .ok (clean (f.set .d t.val)) := by
        simp [run, step_unit_d f t.digits t.val hne ha]
      rw [show U.d.chars = ['d'] from rfl, runF_append_ok _ _ _ _ this]; exact ih _ hr
    | h =>
      have : run (stOf f t.digits false) ['h'] = .ok (clean (f.set .h t.val)) := by
        simp [run, step_unit_h f t.digits t.val hne ha]
      rw [show U.h.chars = ['h'] from rfl, runF_append_ok _ _ _ _ this]; exact ih _ hr
    | s =>
      have : run (stOf f t.digits false) ['s'] = .ok (clean (f.set .s t.val)) := by
        simp [run, step_unit_s f t.digits t.val hne ha]
      rw [show U.s.chars = ['s'] from rfl, runF_append_ok _ _ _ _ this]; exact ih _ hr
    | m =>
      have : run (stOf f t.digits false) ['m'] = .ok (stOf f t.digits true) := by
        simp [run, step_unit_m f t.digits t.val hne ha]
      rw [show U.m.chars = ['m'] from rfl, runF_append_ok _ _ _ _ this,
        runF_pending f t.digits t.val hne ha _ hnext]
      exact ih _ hr
    | ms =>
      have : run (stOf f t.digits false) ['m', 's'] = .ok (clean (f.set .ms t.val)) := by
        simp [run, step_unit_m f t.digits t.val hne ha, step_pending_s f t.digits t.val hne ha]
      rw [show U.ms.chars = ['m', 's'] from rfl, runF_append_ok _ _ _ _ this]; exact ih _ hr

/-! ## the value of the recorded fields -/

def Fields.total (f : Fields) : Nat :=
  86400000000000 * f.days + 3600000000000 * f.hours + 60000000000 * f.mins + 1000000000 * f.secs + 1000000 * f.ms

theorem get_set_ne (f : Fields) (u u' : U) (v : Nat) (h : u' ≠ u) : (f.set u v).get u' = f.get u' := by
  cases u <;> cases u' <;> first | contradiction | rfl

theorem total_set (f : Fields) (u : U) (v : Nat) (h : f.get u = 0) : (f.set u v).total = f.total + u.ns * v := by
  cases u <;> simp only [Fields.get] at h <;> simp only [Fields.set, Fields.total, U.ns, h] <;> omega

theorem total_applyTerms : ∀ (ts : List Term) (f : Fields), (ts.map (·.unit)).Nodup →
    (∀ t ∈ ts, f.get t.unit = 0) → (applyTerms f ts).total = f.total + sumNs ts := by
  intro ts
  induction ts with
  | nil => intro f _ _; exact (Nat.add_zero _).symm
  | cons t ts ih =>
    intro f hnd hz
    simp only [List.map_cons, List.nodup_cons] at hnd
    simp only [applyTerms, sumNs]
    rw [ih (f.set t.unit t.val) hnd.2]
    · rw [total_set f t.unit t.val (hz t (by simp))]; simp only [Term.ns, Nat.add_assoc]
    · intro t' ht'
      have hne : t'.unit ≠ t.unit := by
        intro e; apply hnd.1; rw [← e]; exact List.mem_map_of_mem ht'
      rw [get_set_ne f t.unit t'.unit t.val hne]
      exact hz t' (by simp [ht'])

theorem term_val_le_ns (t : Term) : t.val ≤ t.ns := by
  have : 0 < t.unit.ns := by cases t.unit <;> simp [U.ns]
  exact Nat.le_mul_of_pos_left _ this

theorem term_ns_le_sum (ts : List Term) (t : Term) (h : t ∈ ts) : t.ns ≤ sumNs ts := by
  induction ts with
  | nil => simp at h
  | cons a ts ih =>
    simp only [List.mem_cons] at h
    simp only [sumNs]
    rcases h with rfl | h
    · omega
    · have := ih h; omega

/-! ## spelled forms -/

/-- a spelling of the documented form: optional sign, a first term, then (white space, term)* -/
structure Spelling where
  sign : Sign
  first : Term
  rest : List (List Char × Term)

def Spelling.items (p : Spelling) : List (List Char × Term) := ([], p.first) :: p.rest
def Spelling.terms (p : Spelling) : List Term := p.first :: p.rest.map (·.2)
def Spelling.chars (p : Spelling) : List Char := p.sign.chars ++ renderItems p.items
def Spelling.ns (p : Spelling) : Nat := sumNs p.terms

/-- well-formed: separators are white space, counts are non-empty digit strings, no unit twice -/
def Spelling.wf (p : Spelling) : Prop :=
  (∀ it ∈ p.items, it.1.all isSpace = true ∧ it.2.ok) ∧ (p.terms.map (·.unit)).Nodup

theorem items_terms (p : Spelling) : p.items.map (·.2) = p.terms := by
  simp [Spelling.items, Spelling.terms]

theorem renderItems_last (items : List (List Char × Term)) (hne : items ≠ []) :
    ∃ init z, renderItems items = init ++ [z] ∧ isSpace z = false := by
  induction items with
  | nil => exact absurd rfl hne
  | cons it r ih =>
    obtain ⟨sep, t⟩ := it
    by_cases hr : r = []
    · subst hr
      have : ∃ i z, t.unit.chars = i ++ [z] ∧ isSpace z = false := by
        cases t.unit
        · exact ⟨[], 'd', rfl, by decide⟩
        · exact ⟨[], 'h', rfl, by decide⟩
        · exact ⟨[], 'm', rfl, by decide⟩
        · exact ⟨[], 's', rfl, by decide⟩
        · exact ⟨['m'], 's', rfl, by decide⟩
      obtain ⟨i, z, hi, hz⟩ := this
      exact ⟨sep ++ t.digits ++ i, z, by simp [renderItems, Term.chars, hi], hz⟩
    · obtain ⟨init, z, hi, hz⟩ := ih hr
      exact ⟨sep ++ t.chars ++ init, z, by simp [renderItems, hi], hz⟩

theorem trimSpace_id (a : Char) (rest init : List Char) (z : Char) (h : a :: rest = init ++ [z])
    (ha : isSpace a = false) (hz : isSpace z = false) : trimSpace (a :: rest) = a :: rest := by
  unfold trimSpace
  have h1 : (a :: rest).dropWhile isSpace = a :: rest := by simp [List.dropWhile, ha]
  rw [h1, h]
  simp [hz]

theorem spelling_head (p : Spelling) (hwf : p.wf) :
    ∃ c cs, renderItems p.items = c :: cs ∧ isDigit c = true := by
  obtain ⟨hne, hall⟩ := (hwf.1 ([], p.first) (by simp [Spelling.items])).2
  cases hds : p.first.digits with
  | nil => exact absurd hds hne
  | cons c cs =>
    rw [hds] at hall; simp at hall
    exact ⟨c, cs ++ p.first.unit.chars ++ renderItems p.rest,
      by simp [Spelling.items, renderItems, Term.chars, hds], hall.1⟩

theorem sign_head_notspace (sg : Sign) (r : List Char) (hr : ∃ c cs, r = c :: cs ∧ isDigit c = true) :
    ∃ a rest, sg.chars ++ r = a :: rest ∧ isSpace a = false := by
  obtain ⟨c, cs, rfl, hc⟩ := hr
  cases sg
  · exact ⟨c, cs, rfl, (digit_not_unit c hc).2.2.2.2⟩
  · exact ⟨'+', c :: cs, rfl, by decide⟩
  · exact ⟨'-', c :: cs, rfl, by decide⟩

theorem showInt_natCast (n : Nat) : showInt (n : Int) = showNat n := by
  have : ¬ ((n : Int) < 0) := by omega
  simp [showInt, this]

theorem wrap64_small (x : Int) (h1 : -9223372036854775808 ≤ x) (h2 : x < 9223372036854775808) : wrap64 x = x := by
  unfold wrap64; omega


end EgoVerif.C37
