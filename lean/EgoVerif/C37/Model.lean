/-
C37 — model of `FormatDuration`, `ParseDuration`, `parseDurationWithDays`
(internal/util/time.go, with fixes/C37.patch applied) and of the Go standard library's
`time.ParseDuration` (src/time/format.go, go1.26), core Lean only.

Durations are `Int` nanoseconds (Go: `time.Duration` = int64).  Strings are `List Char`
(Go ranges over runes in `parseDurationWithDays`; `time.ParseDuration` works on bytes, which
is the same thing on valid UTF-8 because it only ever tests for ASCII bytes).

Modelled, validated by correspondence (not verified against Go's source by a translator):
  * `goParseDuration` — `time.ParseDuration` including its overflow checks, the `uint64`
    wrap of `d += v`, and the fractional part (`fracNs`, which uses Lean's `Float` = IEEE
    double exactly as Go does; no theorem goes through that branch),
  * `atoi` — `egostrings.Atoi` restricted to what is reachable from `parseDurationWithDays`:
    that loop re-evaluates `Atoi(chars)` after every appended character, so only strings
    all of whose prefixes parse — ASCII digit strings — ever succeed,
  * `showNat`/`showInt` — `fmt.Sprintf("%d", …)`,
  * `d.String()` for |d| < 1 s enters `formatDuration` as the parameter `std`.
-/
namespace EgoVerif.C37

/-- Go's `unicode.IsSpace`. -/
def isSpace (c : Char) : Bool :=
  let n := c.toNat
  n == 0x20 || (0x09 ≤ n && n ≤ 0x0d) || n == 0x85 || n == 0xa0 || n == 0x1680 ||
  (0x2000 ≤ n && n ≤ 0x200a) || n == 0x2028 || n == 0x2029 || n == 0x202f || n == 0x205f || n == 0x3000

def isDigit (c : Char) : Bool := 48 ≤ c.toNat && c.toNat ≤ 57
def digitVal (c : Char) : Nat := c.toNat - 48

def digitChar : Nat → Char
  | 0 => '0' | 1 => '1' | 2 => '2' | 3 => '3' | 4 => '4'
  | 5 => '5' | 6 => '6' | 7 => '7' | 8 => '8' | _ => '9'

def two63 : Nat := 9223372036854775808
def two64 : Nat := 18446744073709551616

/-- two's-complement wrap of an integer into int64 -/
def wrap64 (x : Int) : Int := (x + 9223372036854775808) % 18446744073709551616 - 9223372036854775808

inductive Err where
  | int   -- errors.ErrInvalidInteger
  | dur   -- errors.ErrInvalidDuration
  | go    -- any error of time.ParseDuration
  deriving DecidableEq, Repr

/-! ### fmt.Sprintf("%d") -/

def showNatAux : Nat → Nat → List Char
  | 0, _ => []
  | fuel + 1, n => if n < 10 then [digitChar n] else showNatAux fuel (n / 10) ++ [digitChar (n % 10)]

def showNat (n : Nat) : List Char := showNatAux (n + 1) n

def showInt (i : Int) : List Char :=
  if i < 0 then '-' :: showNat i.natAbs else showNat i.toNat

/-- value of a digit string (most significant first) -/
def digitsVal (cs : List Char) : Nat := cs.foldl (fun a c => a * 10 + digitVal c) 0

/-! ### Go: time.ParseDuration -/

/-- `leadingInt`: none = errLeadingInt (overflow) -/
def leadingInt : Nat → List Char → Option (Nat × List Char)
  | x, [] => some (x, [])
  | x, c :: cs =>
    if isDigit c then
      if x > two63 / 10 then none
      else if x * 10 + digitVal c > two63 then none
      else leadingInt (x * 10 + digitVal c) cs
    else some (x, c :: cs)

/-- `leadingFraction`: (x, number of digits that went into `scale`, rest) -/
def leadingFraction : Nat → Nat → Bool → List Char → Nat × Nat × List Char
  | x, k, _, [] => (x, k, [])
  | x, k, ov, c :: cs =>
    if isDigit c then
      if ov then leadingFraction x k true cs
      else if x > (two63 - 1) / 10 then leadingFraction x k true cs
      else if x * 10 + digitVal c > two63 then leadingFraction x k true cs
      else leadingFraction (x * 10 + digitVal c) (k + 1) false cs
    else (x, k, c :: cs)

/-- `unitMap` -/
def unitOf (u : List Char) : Option Nat :=
  if u = ['n', 's'] then some 1
  else if u = ['u', 's'] then some 1000
  else if u = ['µ', 's'] then some 1000
  else if u = ['μ', 's'] then some 1000
  else if u = ['m', 's'] then some 1000000
  else if u = ['s'] then some 1000000000
  else if u = ['m'] then some 60000000000
  else if u = ['h'] then some 3600000000000
  else none

/-- `uint64(float64(f) * (float64(unit) / scale))` with scale = 10^k (exact in float64 for k ≤ 22) -/
def fracNs (f unit k : Nat) : Nat :=
  ((UInt64.ofNat f).toFloat * ((UInt64.ofNat unit).toFloat / (UInt64.ofNat (10 ^ k)).toFloat)).toUInt64.toNat

def unitStop (c : Char) : Bool := c == '.' || isDigit c

/-- "Consume (\.[0-9]*)?": (f, digits in scale, rest, post) -/
def goFrac (s1 : List Char) : Nat × Nat × List Char × Bool :=
  match s1 with
  | '.' :: t =>
    let r := leadingFraction 0 0 false t
    (r.1, r.2.1, r.2.2, r.2.2.length != t.length)
  | _ => (0, 0, s1, false)

/-- one iteration of the `for s != ""` loop up to `v *= unit; v += frac`: the value of one
`[0-9]*(\.[0-9]*)?unit` term in ns and the rest of the string; `none` = any of its errors -/
def goTerm (s : List Char) : Option (Nat × List Char) :=
  match s with
  | [] => none
  | c :: cs =>
    if !(c == '.' || isDigit c) then none
    else
      match leadingInt 0 (c :: cs) with
      | none => none
      | some (v, s1) =>
        let pre := s1.length != (c :: cs).length
        let fr := goFrac s1
        let f := fr.1
        let k := fr.2.1
        let s2 := fr.2.2.1
        let post := fr.2.2.2
        if !pre && !post then none
        else
          let u := s2.takeWhile (fun x => !unitStop x)
          let s3 := s2.dropWhile (fun x => !unitStop x)
          if u = [] then none
          else
            match unitOf u with
            | none => none
            | some unit =>
              if v > two63 / unit then none
              else
                let v2 := if f > 0 then v * unit + fracNs f unit k else v * unit
                if v2 > two63 then none else some (v2, s3)

/-- the `for s != ""` loop; `fuel` ≥ length of `s` (every iteration consumes a character) -/
def goLoop : Nat → Nat → List Char → Except Err Nat
  | _, d, [] => .ok d
  | 0, _, _ :: _ => .error .go
  | fuel + 1, d, c :: cs =>
    match goTerm (c :: cs) with
    | none => .error .go
    | some (v2, s3) =>
      let d' := (d + v2) % two64     -- `d += v` on uint64
      if d' > two63 then .error .go else goLoop fuel d' s3

def splitSign (s : List Char) : Bool × List Char :=
  match s with
  | '-' :: r => (true, r)
  | '+' :: r => (false, r)
  | _ => (false, s)

def goParseDuration (s : List Char) : Except Err Int :=
  let neg := (splitSign s).1
  let s1 := (splitSign s).2
  if s1 = ['0'] then .ok 0
  else if s1 = [] then .error .go
  else
    match goLoop s1.length 0 s1 with
    | .error e => .error e
    | .ok d =>
      if neg then .ok (-(d : Int))
      else if d > two63 - 1 then .error .go
      else .ok (d : Int)

/-! ### ego: parseDurationWithDays -/

/-- `egostrings.Atoi` on the strings reachable here (see header) -/
def atoi (cs : List Char) : Option Nat :=
  if cs ≠ [] ∧ cs.all isDigit = true then
    (if digitsVal cs ≤ two63 - 1 then some (digitsVal cs) else none)
  else none

structure St where
  days : Nat
  hours : Nat
  mins : Nat
  secs : Nat
  ms : Nat
  chars : List Char
  mSeen : Bool
  deriving Repr, DecidableEq

def St.init : St := ⟨0, 0, 0, 0, 0, [], false⟩

/-- the value computed at the top of every iteration -/
def topValue (st : St) : Option Nat := if st.chars = [] then some 0 else atoi st.chars

/-- one iteration of `for _, ch := range durationString` -/
def step (st : St) (ch : Char) : Except Err St :=
  match topValue st with
  | none => .error .int
  | some value =>
    if ch = 'd' then
      if st.mSeen ∧ st.chars ≠ [] then .ok { st with mins := value, days := 0, mSeen := false, chars := [] }
      else .ok { st with days := value, mSeen := false, chars := [] }
    else if ch = 'h' then
      if st.mSeen ∧ st.chars ≠ [] then .ok { st with mins := value, hours := 0, mSeen := false, chars := [] }
      else .ok { st with hours := value, mSeen := false, chars := [] }
    else if ch = 'm' then .ok { st with mSeen := true }
    else if ch = 's' then
      if st.mSeen then .ok { st with ms := value, chars := [], mSeen := false }
      else if st.chars ≠ [] then .ok { st with secs := value, chars := [], mSeen := false }
      else .ok { st with mSeen := false }
    else
      let st1 : St :=
        if st.mSeen then
          (if st.chars ≠ [] then { st with mins := value, chars := [], mSeen := false }
           else { st with mSeen := false })
        else st
      .ok (if isSpace ch then st1 else { st1 with chars := st1.chars ++ [ch] })

def run : St → List Char → Except Err St
  | st, [] => .ok st
  | st, c :: cs =>
    match step st c with
    | .error e => .error e
    | .ok st' => run st' cs

/-- `strings.TrimSpace` -/
def trimSpace (s : List Char) : List Char :=
  ((s.dropWhile isSpace).reverse.dropWhile isSpace).reverse

structure Fields where
  days : Nat
  hours : Nat
  mins : Nat
  secs : Nat
  ms : Nat
  deriving Repr, DecidableEq

/-- the code after the loop -/
def finish (st : St) : Except Err Fields :=
  if st.mSeen then
    if st.chars ≠ [] then
      match atoi st.chars with
      | none => .error .int
      | some v => .ok ⟨st.days, st.hours, v, st.secs, st.ms⟩
    else .ok ⟨st.days, st.hours, st.mins, st.secs, st.ms⟩
  else if trimSpace st.chars ≠ [] then .error .dur
  else .ok ⟨st.days, st.hours, st.mins, st.secs, st.ms⟩

def parseDurationWithDays (s : List Char) : Except Err Fields :=
  match run St.init s with
  | .error e => .error e
  | .ok st => finish st

/-! ### ego: ParseDuration (fixed) -/

/-- `fmt.Sprintf("%dh%dm%ds%dms", hours, mins, secs, ms)` -/
def rebuild (hours : Int) (mins secs ms : Nat) : List Char :=
  showInt hours ++ ['h'] ++ showNat mins ++ ['m'] ++ showNat secs ++ ['s'] ++ showNat ms ++ ['m', 's']

/-- `if negative { duration = -duration }` on the result of the final time.ParseDuration -/
def applySign (neg : Bool) : Except Err Int → Except Err Int
  | .error e => .error e
  | .ok d => .ok (if neg then wrap64 (-d) else d)

/-- the tail of ParseDuration: merge days into hours, rebuild a Go duration string, parse it,
apply the sign -/
def dayResult (neg : Bool) (f : Fields) : Except Err Int :=
  applySign neg
    (goParseDuration (rebuild (wrap64 ((f.hours : Int) + (f.days : Int) * 24)) f.mins f.secs f.ms))

def thenDayResult (neg : Bool) : Except Err Fields → Except Err Int
  | .error e => .error e
  | .ok f => dayResult neg f

/-- the day-aware path: trim, leading sign, scan, `dayResult` -/
def parseDayPath (s : List Char) : Except Err Int :=
  if (splitSign (trimSpace s)).2 = [] then .error .dur
  else thenDayResult (splitSign (trimSpace s)).1 (parseDurationWithDays (splitSign (trimSpace s)).2)

def parseDuration (s : List Char) : Except Err Int :=
  if !(s.contains 'd') && !(s.any isSpace) then goParseDuration s else parseDayPath s

/-! ### ego: FormatDuration(d, true) (fixed: integer division instead of float64 Hours()) -/

/-- `if result.Len() > 1 { result.WriteRune(' ') }` -/
def sp (r : List Char) : List Char := if r.length > 1 then r ++ [' '] else r

def formatDuration (std : List Char) (d : Int) : List Char :=
  if d = 0 then ['0', 's']
  else if d.natAbs < 1000000000 then std
  else
    let r0 : List Char := if d < 0 then ['-'] else []
    let a : Int := if d < 0 then wrap64 (-d) else d
    let hours := Int.tdiv a 3600000000000
    let r1 : List Char :=
      if hours > 0 then
        let r := if hours > 23 then r0 ++ showInt (Int.tdiv hours 24) ++ ['d'] else r0
        let h := if hours > 23 then Int.tmod hours 24 else hours
        if h > 0 then sp r ++ showInt h ++ ['h'] else r
      else r0
    let minutes := Int.tmod (Int.tdiv a 60000000000) 60
    let r2 := if minutes ≥ 1 then sp r1 ++ showInt minutes ++ ['m'] else r1
    let seconds := Int.tmod (Int.tdiv a 1000000000) 60
    if seconds ≥ 1 then sp r2 ++ showInt seconds ++ ['s'] else r2

end EgoVerif.C37
