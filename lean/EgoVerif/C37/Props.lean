import EgoVerif.C37.Lemmas
/-
C37 — property theorems (see the statements at `C37_documented_forms` and `C37_roundtrip`).
-/
namespace EgoVerif.C37
/-- rebuilding "%dh%dm%ds%dms" and re-parsing it with Go's parser gives the recorded total -/
theorem dayResult_ok (F : Fields) (n : Nat) (htot : F.total = n) (hb : n ≤ two63 - 1) (neg : Bool) :
    dayResult neg F = .ok (if neg then -(n : Int) else (n : Int)) := by
  have hcast : ((F.hours : Int) + (F.days : Int) * 24) = ((F.hours + F.days * 24 : Nat) : Int) := by
    simp
  have hHb : F.hours + F.days * 24 < 9223372036854775808 := by
    unfold Fields.total at htot; unfold two63 at hb; omega
  have hH : wrap64 ((F.hours : Int) + (F.days : Int) * 24) = ((F.hours + F.days * 24 : Nat) : Int) := by
    rw [hcast]; exact wrap64_small _ (by omega) (by omega)
  have hsumF : 3600000000000 * (F.hours + F.days * 24) + (60000000000 * F.mins + (1000000000 * F.secs +
      (1000000 * F.ms + 0))) = n := by
    unfold Fields.total at htot; omega
  generalize F.hours + F.days * 24 = Hn at hH hsumF
  have hreb : rebuild (Hn : Int) F.mins F.secs F.ms =
      Sign.none.chars ++ tight [⟨showNat Hn, .h⟩, ⟨showNat F.mins, .m⟩,
        ⟨showNat F.secs, .s⟩, ⟨showNat F.ms, .ms⟩] := by
    simp only [rebuild, showInt_natCast, tight, Term.chars, U.chars, Sign.chars, List.append_assoc,
      List.nil_append, List.append_nil, List.cons_append]
  have hsum : sumNs [⟨showNat Hn, .h⟩, ⟨showNat F.mins, .m⟩, ⟨showNat F.secs, .s⟩,
      ⟨showNat F.ms, .ms⟩] = n := by
    simp only [sumNs, Term.ns, Term.val, showNat_val, U.ns]
    exact hsumF
  have hgo := goParse_tight Sign.none
    [⟨showNat Hn, .h⟩, ⟨showNat F.mins, .m⟩, ⟨showNat F.secs, .s⟩, ⟨showNat F.ms, .ms⟩]
    (by simp)
    (by
      intro t ht
      simp only [List.mem_cons, List.mem_nil_iff, or_false] at ht
      rcases ht with rfl | rfl | rfl | rfl <;>
        exact ⟨⟨showNat_ne_nil _, showNat_digits _⟩, by simp⟩)
    (by rw [hsum]; exact hb)
  rw [hsum] at hgo
  show applySign neg (goParseDuration (rebuild (wrap64 ((F.hours : Int) + (F.days : Int) * 24))
    F.mins F.secs F.ms)) = _
  rw [hH, hreb, hgo]
  cases neg
  · simp only [applySign, Sign.apply, Bool.false_eq_true, if_false]
  · simp only [applySign, Sign.apply, if_true]
    rw [wrap64_small _ (by unfold two63 at hb; omega) (by omega)]

/-- the day-aware path of ParseDuration reads every well-formed spelling exactly -/
theorem parse_daypath (p : Spelling) (hwf : p.wf) (hb : p.ns ≤ two63 - 1)
    (hc : (!(p.chars.contains 'd') && !(p.chars.any isSpace)) = false) :
    parseDuration p.chars = .ok (p.sign.apply p.ns) := by
  have hhead := spelling_head p hwf
  have hitems : ∀ it ∈ p.items, ItemOk it := by
    intro it hit
    obtain ⟨h1, h2⟩ := hwf.1 it hit
    refine ⟨h1, h2, ?_⟩
    have hmem : it.2 ∈ p.terms := by rw [← items_terms]; exact List.mem_map_of_mem hit
    have := term_ns_le_sum p.terms it.2 hmem
    have := term_val_le_ns it.2
    unfold Spelling.ns at hb; omega
  -- trimSpace is the identity on the spelling
  obtain ⟨init, z, hlast, hz⟩ := renderItems_last p.items (by simp [Spelling.items])
  obtain ⟨a, rest, hsa, ha⟩ := sign_head_notspace p.sign _ hhead
  have htrim : trimSpace p.chars = p.chars := by
    unfold Spelling.chars
    rw [hsa]
    apply trimSpace_id a rest (p.sign.chars ++ init) z _ ha hz
    rw [← hsa, hlast]; simp
  have hsplit := splitSign_sign p.sign (renderItems p.items) hhead
  have htext : renderItems p.items ≠ [] := by
    obtain ⟨c, cs, h, _⟩ := hhead; rw [h]; simp
  -- the scanning loop
  have hrun := runF_items p.items Fields.zero hitems
  rw [items_terms] at hrun
  have hpwd : parseDurationWithDays (renderItems p.items) = .ok (applyTerms Fields.zero p.terms) := by
    unfold parseDurationWithDays
    have : St.init = clean Fields.zero := rfl
    rw [this]
    unfold runF at hrun
    exact hrun
  have htot : (applyTerms Fields.zero p.terms).total = p.ns := by
    rw [total_applyTerms p.terms Fields.zero hwf.2 (by intro t _; cases t.unit <;> rfl)]
    simp [Fields.total, Fields.zero, Spelling.ns]
  generalize applyTerms Fields.zero p.terms = F at hpwd htot
  have hcond : (!(p.chars.contains 'd') && !(p.chars.any isSpace)) = false := hc
  unfold parseDuration
  rw [hcond]
  simp only [Bool.false_eq_true, if_false]
  unfold parseDayPath
  rw [htrim]
  unfold Spelling.chars
  rw [hsplit, hpwd]
  simp only [htext, if_false, thenDayResult]
  rw [dayResult_ok F p.ns htot hb]
  cases p.sign <;> simp [Sign.apply]

theorem mem_renderItems (items : List (List Char × Term)) (it : List Char × Term) (hit : it ∈ items)
    (c : Char) (hc : c ∈ it.1 ++ it.2.chars) : c ∈ renderItems items := by
  induction items with
  | nil => simp at hit
  | cons x r ih =>
    obtain ⟨sep, t⟩ := x
    simp only [List.mem_cons] at hit
    simp only [renderItems, List.mem_append]
    rcases hit with rfl | hit
    · left; simpa [List.mem_append] using hc
    · right; exact ih hit

theorem renderItems_tight (items : List (List Char × Term)) (h : ∀ it ∈ items, it.1 = []) :
    renderItems items = tight (items.map (·.2)) := by
  induction items with
  | nil => rfl
  | cons x r ih =>
    obtain ⟨sep, t⟩ := x
    have hs : sep = [] := h (sep, t) (by simp)
    subst hs
    simp [renderItems, tight, ih (fun it hi => h it (by simp [hi]))]

theorem unit_d_mem (t : Term) (h : t.unit = .d) : 'd' ∈ t.chars := by
  simp [Term.chars, h, U.chars]

/-- without a 'd' and without white space the string goes to Go's parser, which reads it exactly -/
theorem parse_rawpath (p : Spelling) (hwf : p.wf) (hb : p.ns ≤ two63 - 1)
    (hc : (!(p.chars.contains 'd') && !(p.chars.any isSpace)) = true) :
    parseDuration p.chars = .ok (p.sign.apply p.ns) := by
  simp only [Bool.and_eq_true, Bool.not_eq_true', List.any_eq_false] at hc
  obtain ⟨hcd, hcs⟩ := hc
  have hnd : 'd' ∉ p.chars := by
    intro hm
    have : p.chars.contains 'd' = true := List.contains_iff_mem.mpr hm
    rw [hcd] at this; exact absurd this (by simp)
  have hsep : ∀ it ∈ p.items, it.1 = [] := by
    intro it hit
    cases hs : it.1 with
    | nil => rfl
    | cons c cs =>
      exfalso
      have hsp := (hwf.1 it hit).1
      rw [hs] at hsp; simp at hsp
      have hm : c ∈ p.chars := by
        unfold Spelling.chars
        apply List.mem_append_right
        exact mem_renderItems p.items it hit c (by simp [hs])
      exact hcs c hm hsp.1
  have hts : ∀ t ∈ p.terms, t.ok ∧ t.unit ≠ .d := by
    intro t ht
    rw [← items_terms] at ht
    obtain ⟨it, hit, rfl⟩ := List.mem_map.mp ht
    refine ⟨(hwf.1 it hit).2, ?_⟩
    intro hu
    apply hnd
    unfold Spelling.chars
    apply List.mem_append_right
    exact mem_renderItems p.items it hit 'd' (List.mem_append_right _ (unit_d_mem it.2 hu))
  have hshape : p.chars = p.sign.chars ++ tight p.terms := by
    unfold Spelling.chars; rw [renderItems_tight p.items hsep, items_terms]
  have hcond : (!(p.chars.contains 'd') && !(p.chars.any isSpace)) = true := by
    simp only [Bool.and_eq_true, Bool.not_eq_true', List.any_eq_false]
    exact ⟨hcd, hcs⟩
  unfold parseDuration
  simp only [hcond, if_true]
  rw [hshape]
  exact goParse_tight p.sign p.terms (by simp [Spelling.terms]) hts hb

/-- **Documented forms.**  Every spelling `[sign] term (space* term)*` whose terms are non-empty
digit strings followed by one of the units d h m s ms (no unit twice, any order, any white
space between terms, leading zeros allowed) and whose total fits in int64 is accepted by
ParseDuration with exactly that total. -/
theorem C37_documented_forms (p : Spelling) (hwf : p.wf) (hb : p.ns ≤ two63 - 1) :
    parseDuration p.chars = .ok (p.sign.apply p.ns) := by
  cases hc : (!(p.chars.contains 'd') && !(p.chars.any isSpace))
  · exact parse_daypath p hwf hb hc
  · exact parse_rawpath p hwf hb hc

/-! ## FormatDuration writes a spelling -/

/-- the terms FormatDuration writes for a magnitude of `a` nanoseconds -/
def fmtTerms (a : Nat) : List Term :=
  (if a / 3600000000000 > 23 then [⟨showNat (a / 3600000000000 / 24), .d⟩] else []) ++
  ((if a / 3600000000000 % 24 > 0 then [⟨showNat (a / 3600000000000 % 24), .h⟩] else []) ++
  ((if a / 60000000000 % 60 ≥ 1 then [⟨showNat (a / 60000000000 % 60), .m⟩] else []) ++
  (if a / 1000000000 % 60 ≥ 1 then [⟨showNat (a / 1000000000 % 60), .s⟩] else [])))

/-- `if result.Len() > 1 { ' ' }` then the term -/
def addTerm (r : List Char) (t : Term) : List Char := sp r ++ t.chars

def spaced (ts : List Term) : List (List Char × Term) := ts.map (fun t => ([' '], t))

/-- sign, first term, then the other terms each preceded by one space -/
def spellOf (sg : Sign) : List Term → List Char
  | [] => sg.chars
  | t :: r => sg.chars ++ renderItems (([], t) :: spaced r)

theorem renderItems_append (xs ys : List (List Char × Term)) :
    renderItems (xs ++ ys) = renderItems xs ++ renderItems ys := by
  induction xs with
  | nil => rfl
  | cons x r ih => obtain ⟨s, t⟩ := x; simp [renderItems, ih]

theorem sign_len (sg : Sign) : sg.chars.length ≤ 1 := by cases sg <;> simp [Sign.chars]

theorem spellOf_snoc (sg : Sign) (ts : List Term) (t : Term) (hts : ts ≠ []) :
    spellOf sg (ts ++ [t]) = spellOf sg ts ++ [' '] ++ t.chars := by
  cases ts with
  | nil => exact absurd rfl hts
  | cons a r =>
    simp [spellOf, spaced, List.map_append, renderItems, renderItems_append]

/-- invariant of the string builder -/
theorem addTerm_built (sg : Sign) (ts : List Term) (t : Term) (r : List Char) (_ht : t.ok)
    (hr : r = spellOf sg ts) (hall : ∀ x ∈ ts, x.ok) :
    addTerm r t = spellOf sg (ts ++ [t]) := by
  subst hr
  cases ts with
  | nil =>
    have : sp sg.chars = sg.chars := by cases sg <;> simp [sp, Sign.chars]
    simp [addTerm, spellOf, this, renderItems, spaced]
  | cons a r =>
    have hlen : 1 < (spellOf sg (a :: r)).length := by
      have := term_chars_length a (hall a (by simp))
      simp [spellOf, renderItems]; omega
    rw [spellOf_snoc sg (a :: r) t (by simp)]
    simp [addTerm, sp, hlen]

theorem foldl_addTerm (sg : Sign) (new : List Term) : ∀ (ts : List Term) (r : List Char),
    r = spellOf sg ts → (∀ x ∈ ts, x.ok) → (∀ x ∈ new, x.ok) →
    new.foldl addTerm r = spellOf sg (ts ++ new) := by
  induction new with
  | nil => intro ts r hr _ _; simpa using hr
  | cons t rest ih =>
    intro ts r hr hts hnew
    simp only [List.foldl_cons]
    have h1 := addTerm_built sg ts t r (hnew t (by simp)) hr hts
    have := ih (ts ++ [t]) (addTerm r t) h1
      (by intro x hx; simp at hx; rcases hx with hx | rfl; exact hts x hx; exact hnew x (by simp))
      (fun x hx => hnew x (by simp [hx]))
    simpa using this

theorem fmtTerms_ok (a : Nat) : ∀ t ∈ fmtTerms a, t.ok := by
  intro t ht
  unfold fmtTerms at ht
  simp only [List.mem_append] at ht
  rcases ht with ht | ht | ht | ht <;>
  · split at ht
    · simp at ht; subst ht; exact ⟨showNat_ne_nil _, showNat_digits _⟩
    · simp at ht

/-- the Nat-level body of FormatDuration after the sign -/
def formatNat (sg : Sign) (a : Nat) : List Char := (fmtTerms a).foldl addTerm sg.chars

theorem formatNat_spell (sg : Sign) (a : Nat) : formatNat sg a = spellOf sg (fmtTerms a) := by
  have := foldl_addTerm sg (fmtTerms a) [] sg.chars rfl (by simp) (fmtTerms_ok a)
  simpa [formatNat] using this

/-- the model of FormatDuration on a magnitude `a ≥ 1 s`, sign `neg` -/
theorem formatDuration_nat (std : List Char) (a : Nat) (neg : Bool) (h1 : 1000000000 ≤ a)
    (h2 : a ≤ two63 - 1) :
    formatDuration std (if neg then -(a : Int) else (a : Int)) =
      formatNat (if neg then .minus else .none) a := by
  have hH : Int.tdiv (a : Int) 3600000000000 = ((a / 3600000000000 : Nat) : Int) := by
    rw [Int.natCast_tdiv_eq_ediv]; omega
  have hM : Int.tdiv (a : Int) 60000000000 = ((a / 60000000000 : Nat) : Int) := by
    rw [Int.natCast_tdiv_eq_ediv]; omega
  have hS : Int.tdiv (a : Int) 1000000000 = ((a / 1000000000 : Nat) : Int) := by
    rw [Int.natCast_tdiv_eq_ediv]; omega
  generalize hHd : a / 3600000000000 = H at hH
  generalize hMd : a / 60000000000 = M at hM
  generalize hSd : a / 1000000000 = S at hS
  have hD : Int.tdiv (H : Int) 24 = ((H / 24 : Nat) : Int) := by
    rw [Int.natCast_tdiv_eq_ediv]; omega
  have hh : Int.tmod (H : Int) 24 = ((H % 24 : Nat) : Int) := by
    rw [Int.tmod_eq_emod_of_nonneg (by omega)]; omega
  have hm : Int.tmod (M : Int) 60 = ((M % 60 : Nat) : Int) := by
    rw [Int.tmod_eq_emod_of_nonneg (by omega)]; omega
  have hs : Int.tmod (S : Int) 60 = ((S % 60 : Nat) : Int) := by
    rw [Int.tmod_eq_emod_of_nonneg (by omega)]; omega
  have g0 : ((H : Int) > 0) = (H > 0) := by apply propext; constructor <;> intro h <;> omega
  have g1 : ((H : Int) > 23) = (H > 23) := by apply propext; constructor <;> intro h <;> omega
  have g2 : (((H % 24 : Nat) : Int) > 0) = (H % 24 > 0) := by
    apply propext; constructor <;> intro h <;> omega
  have g3 : (((M % 60 : Nat) : Int) ≥ 1) = (M % 60 ≥ 1) := by
    apply propext; constructor <;> intro h <;> omega
  have g4 : (((S % 60 : Nat) : Int) ≥ 1) = (S % 60 ≥ 1) := by
    apply propext; constructor <;> intro h <;> omega
  have g5 : (if H > 23 then ((H % 24 : Nat) : Int) else (H : Int)) = ((H % 24 : Nat) : Int) := by
    split
    · rfl
    · rw [Nat.mod_eq_of_lt (by omega)]
  have hspn : sp ([] : List Char) = [] := by simp [sp]
  have hspm : sp ['-'] = ['-'] := by simp [sp]
  have hwrap : wrap64 (- -(a : Int)) = (a : Int) := by
    rw [Int.neg_neg]; exact wrap64_small _ (by omega) (by unfold two63 at h2; omega)
  cases neg
  · have e0 : ¬ ((a : Int) = 0) := by omega
    have e1 : ¬ ((a : Int).natAbs < 1000000000) := by omega
    have e2 : ¬ ((a : Int) < 0) := by omega
    simp only [Bool.false_eq_true, if_false, formatDuration, e0, e1, e2, hH, hM, hS, hD, hh, hm, hs,
      showInt_natCast, formatNat, fmtTerms, Sign.chars, g0, g1, g2, g3, g4, g5, hHd, hMd, hSd]
    by_cases c1 : H > 23 <;> by_cases c2 : H % 24 > 0 <;> by_cases c3 : M % 60 ≥ 1 <;>
      by_cases c4 : S % 60 ≥ 1 <;> by_cases c0 : H > 0 <;>
      first
        | (exfalso; omega)
        | simp [c0, c1, c2, c3, c4, addTerm, hspn, Term.chars, U.chars, List.foldl]
  · have e0 : ¬ (-(a : Int) = 0) := by omega
    have e1 : ¬ ((-(a : Int)).natAbs < 1000000000) := by omega
    have e2 : (-(a : Int) < 0) := by omega
    simp only [if_true, formatDuration, e0, e1, e2, if_false, hwrap, hH, hM, hS, hD, hh, hm, hs,
      showInt_natCast, formatNat, fmtTerms, Sign.chars, g0, g1, g2, g3, g4, g5, hHd, hMd, hSd]
    by_cases c1 : H > 23 <;> by_cases c2 : H % 24 > 0 <;> by_cases c3 : M % 60 ≥ 1 <;>
      by_cases c4 : S % 60 ≥ 1 <;> by_cases c0 : H > 0 <;>
      first
        | (exfalso; omega)
        | simp [c0, c1, c2, c3, c4, addTerm, hspm, Term.chars, U.chars, List.foldl]

theorem fmtTerms_sum (a : Nat) : sumNs (fmtTerms a) = a / 1000000000 * 1000000000 := by
  unfold fmtTerms
  by_cases c1 : a / 3600000000000 > 23 <;> by_cases c2 : a / 3600000000000 % 24 > 0 <;>
    by_cases c3 : a / 60000000000 % 60 ≥ 1 <;> by_cases c4 : a / 1000000000 % 60 ≥ 1 <;>
    simp only [c1, c2, c3, c4, if_true, if_false, List.append_nil, List.nil_append, List.cons_append,
      sumNs, Term.ns, Term.val, showNat_val, U.ns] <;> omega

theorem fmtTerms_nodup (a : Nat) : ((fmtTerms a).map (·.unit)).Nodup := by
  unfold fmtTerms
  by_cases c1 : a / 3600000000000 > 23 <;> by_cases c2 : a / 3600000000000 % 24 > 0 <;>
    by_cases c3 : a / 60000000000 % 60 ≥ 1 <;> by_cases c4 : a / 1000000000 % 60 ≥ 1 <;>
    simp [c1, c2, c3, c4]

theorem fmtTerms_ne_nil (a : Nat) (h : 1000000000 ≤ a) : fmtTerms a ≠ [] := by
  intro e
  have hs := fmtTerms_sum a
  rw [e] at hs
  simp only [sumNs] at hs
  omega

/-- what FormatDuration prints is a well-formed spelling of `a` truncated to the second -/
theorem C37_format_is_spelling (std : List Char) (a : Nat) (neg : Bool) (h1 : 1000000000 ≤ a)
    (h2 : a ≤ two63 - 1) :
    ∃ p : Spelling, p.wf ∧ p.chars = formatDuration std (if neg then -(a : Int) else (a : Int)) ∧
      p.sign = (if neg then .minus else .none) ∧ p.ns = a / 1000000000 * 1000000000 := by
  rw [formatDuration_nat std a neg h1 h2, formatNat_spell]
  have hne := fmtTerms_ne_nil a h1
  have hok := fmtTerms_ok a
  have hnd := fmtTerms_nodup a
  have hsum := fmtTerms_sum a
  cases hts : fmtTerms a with
  | nil => exact absurd hts hne
  | cons t r =>
    rw [hts] at hok hnd hsum
    refine ⟨⟨if neg then .minus else .none, t, spaced r⟩, ⟨?_, ?_⟩, rfl, rfl, ?_⟩
    · intro it hit
      simp only [Spelling.items, List.mem_cons] at hit
      rcases hit with rfl | hit
      · exact ⟨rfl, hok t (by simp)⟩
      · simp only [spaced, List.mem_map] at hit
        obtain ⟨x, hx, rfl⟩ := hit
        exact ⟨by simp only [List.all_cons, List.all_nil, Bool.and_true]; decide, hok x (by simp [hx])⟩
    · have : (Spelling.mk (if neg then Sign.minus else Sign.none) t (spaced r)).terms = t :: r := by
        simp [Spelling.terms, spaced, Function.comp_def]
      rw [this]; exact hnd
    · have : (Spelling.mk (if neg then Sign.minus else Sign.none) t (spaced r)).terms = t :: r := by
        simp [Spelling.terms, spaced, Function.comp_def]
      simp only [Spelling.ns, this]; exact hsum

/-- **Round trip.**  For every int64 duration `d` (nanoseconds) of at least one second in
magnitude (`d ≠ MinInt64`), and whatever Go's `d.String()` is, ParseDuration accepts what
FormatDuration(d, true) prints and returns `d` truncated (toward zero) to the second. -/
theorem C37_roundtrip (std : List Char) (d : Int) (h1 : 1000000000 ≤ d.natAbs)
    (h2 : d.natAbs ≤ two63 - 1) :
    parseDuration (formatDuration std d) = .ok (Int.tdiv d 1000000000 * 1000000000) := by
  rcases Int.natAbs_eq d with hd | hd
  · obtain ⟨p, hwf, hch, hsg, hns⟩ := C37_format_is_spelling std d.natAbs false h1 h2
    simp only [Bool.false_eq_true, if_false] at hch hsg
    rw [← hd] at hch
    rw [← hch, C37_documented_forms p hwf (by rw [hns]; omega), hsg, hns]
    have : Int.tdiv d 1000000000 = ((d.natAbs / 1000000000 : Nat) : Int) := by
      rw [Int.tdiv_eq_ediv_of_nonneg (by omega)]; omega
    rw [this]; simp [Sign.apply]
  · obtain ⟨p, hwf, hch, hsg, hns⟩ := C37_format_is_spelling std d.natAbs true h1 h2
    simp only [if_true] at hch hsg
    rw [← hd] at hch
    rw [← hch, C37_documented_forms p hwf (by rw [hns]; omega), hsg, hns]
    have : Int.tdiv d 1000000000 = -((d.natAbs / 1000000000 : Nat) : Int) := by
      rw [hd, Int.neg_tdiv, Int.natCast_tdiv_eq_ediv]
      simp only [Int.natAbs_neg, Int.natAbs_natCast]
      omega
    rw [this]; simp only [Sign.apply, Int.natCast_mul, Int.natCast_ediv]
    rw [Int.neg_mul]; rfl

/-! ## non-vacuity, and what is NOT true -/

instance instDecEqRes : DecidableEq (Except Err Int)
  | .ok a, .ok b => if h : a = b then isTrue (by rw [h]) else isFalse (by intro e; cases e; exact h rfl)
  | .error a, .error b => if h : a = b then isTrue (by rw [h]) else isFalse (by intro e; cases e; exact h rfl)
  | .ok _, .error _ => isFalse (by intro e; cases e)
  | .error _, .ok _ => isFalse (by intro e; cases e)


/-- the printed form of −(2 d 3 h) is the spelling `-2d 3h`: hypotheses of `C37_roundtrip` and of
`C37_documented_forms` are met by non-trivial instances -/
example : formatDuration [] (-183600000000000) = "-2d 3h".toList := by decide

example : (1000000000 : Nat) ≤ (-183600000000000 : Int).natAbs ∧ (-183600000000000 : Int).natAbs ≤ two63 - 1 := by
  decide

def exSpelling : Spelling :=
  ⟨.minus, ⟨"2".toList, .d⟩, [(" ".toList, ⟨"3".toList, .h⟩), ("\t ".toList, ⟨"07".toList, .ms⟩)]⟩

example : exSpelling.chars = "-2d 3h\t 07ms".toList := by decide
example : exSpelling.wf := by
  refine ⟨?_, by decide⟩
  intro it hit
  simp only [Spelling.items, exSpelling, List.mem_cons, List.mem_nil_iff, or_false] at hit
  rcases hit with rfl | rfl | rfl <;> exact ⟨by decide, by decide, by decide⟩
example : exSpelling.ns = 183600007000000 := by decide

/-- Known finding (not repaired): a Go term with a fraction is rejected as soon as the string
also contains a day term — `1d1.5h` is an "invalid integer" although the documentation promises
Go's syntax plus the `d` suffix. -/
theorem C37_fraction_with_days_counterexample :
    parseDuration "1d1.5h".toList = .error .int ∧ parseDuration "1.5h 30m".toList = .error .int ∧
    parseDuration "1d 500us".toList = .error .int := by decide

/-- `ParseDuration` as it was BEFORE fixes/C37.patch: only a 'd' selects the day-aware parser,
and no sign is stripped. -/
def parseDurationUnfixed (s : List Char) : Except Err Int :=
  if !(s.contains 'd') then goParseDuration s
  else thenDayResult false (parseDurationWithDays s)

/-- the defects the patch repairs: FormatDuration's own output `1h 5m` (65 min) and `-2d 3h`
(−51 h) were rejected by the unpatched parser -/
theorem C37_unfixed_counterexample :
    parseDurationUnfixed (formatDuration [] 3900000000000) = .error .go ∧
    parseDurationUnfixed (formatDuration [] (-183600000000000)) = .error .int := by decide

end EgoVerif.C37
