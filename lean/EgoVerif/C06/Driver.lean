import EgoVerif.Common.Drv
import EgoVerif.C06.Model
import EgoVerif.C06.Float
/- line protocol (texts are hex of UTF-8, "-" = empty):
   `lit <hex>`              → `int n` | `float <bits>` | `imag <bits>` | `str <hex>` | `rune n` | `runes a,b,…` | `err` | `none`
   `tok <hex>`              → `<class>:<hex spelling>` | `none`          (scanner + classify + i-merge)
   `pint <base> <bits> <hex>` → `n` | `err`                              (strconv.ParseInt)
   `pf <hex>`               → `<Float64bits>` | `err`                    (strconv.ParseFloat reference)
   `uqc <hex>`              → `<value> <multibyte 0|1> <tail length>` | `err`   (strconv.UnquoteChar(·, '\''))
   `itoa n`                 → decimal text                               (strconv.FormatInt) -/
namespace EgoVerif.C06

def hexB (b : List UInt8) : String := if b.isEmpty then "-" else hexOfBytes b

def showVal : LitVal → String
  | .int n => s!"int {n}"
  | .float a => match pfBits a with | some b => s!"float {b}" | none => "float ?"
  | .imag a => match pfBits a with | some b => s!"imag {b}" | none => "imag ?"
  | .str b => "str " ++ hexB b
  | .rune n => s!"rune {n}"
  | .runes ns => "runes " ++ ",".intercalate (ns.map toString)
  | .err => "err"

def showTok : Tok → String
  | .str b => "String:" ++ hexB b
  | .int t => "Integer:" ++ hexB (utf8Str t)
  | .float t => "Float:" ++ hexB (utf8Str t)
  | .complex t => "Complex:" ++ hexB (utf8Str t)
  | .value t => "Value:" ++ hexB (utf8Str t)

def handle (line : String) : String :=
  match fields line with
  | ["lit", h] =>
    match stringOfHex h with
    | some s => match egoLit concretePrims s.toList with | some v => showVal v | none => "none"
    | none => "bad-input"
  | ["tok", h] =>
    match stringOfHex h with
    | some s =>
      match scanFirst s.toList with
      | some (text, rest) =>
        match mergeI (classify concretePrims text) rest with | some t => showTok t | none => "none"
      | none => "none"
    | none => "bad-input"
  | ["pint", b, bits, h] =>
    match b.toNat?, bits.toNat?, stringOfHex h with
    | some b, some bits, some s => match parseInt s.toList b bits with | some n => toString n | none => "err"
    | _, _, _ => "bad-input"
  | ["pf", h] =>
    match stringOfHex h with
    | some s => match pfBits s.toList with | some n => toString n | none => "err"
    | none => "bad-input"
  | ["uqc", h] =>
    match stringOfHex h with
    | some s =>
      match unquoteChar '\'' s.toList with
      | some (v, mb, t) => s!"{v} {if mb then 1 else 0} {(utf8Str t).length}"
      | none => "err"
    | none => "bad-input"
  | ["itoa", n] =>
    match n.toNat? with
    | some n => String.ofList (itoa n)
    | none => "bad-input"
  | _ => "bad-op"

def drv : Drv := Drv.pure handle

end EgoVerif.C06
