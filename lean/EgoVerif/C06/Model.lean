/-
C06 — literal values: executable model of what Ego does with ONE literal spelling, core Lean only.

Pipeline mirrored (file : function):
  * text/scanner (Go stdlib, as configured by internal/language/tokenizer/lexer.go `lexer`):
    `scanNumber`/`digits`, `scanString`/`scanEscape`, `scanRawString`, `scanChar`   → `scanFirst`
  * internal/language/tokenizer/lexer.go `classifyTokenBySpelling`                 → `classify`
  * lexer.go, the imaginary-suffix merge at the end of the scan loop               → `mergeI`
  * internal/language/tokenizer/tokenizer.go `unQuote` (strconv.Unquote)           → `unQuote`
  * internal/language/compiler/expr_atom.go `convertRadixToDecimal` (FIXED code)   → `convertRadix`
  * expr_atom.go `pushIntConstant`, the Float/Complex branches of `expressionAtom`,
    `compileRuneExpression` (FIXED code), the `t.IsValue()` push                   → `compileAtom`
  * strconv.ParseInt / ParseUint / underscoreOK / UnquoteChar / Unquote (Go stdlib) are modelled
    (`parseInt`, `underscoreOK`, `unquoteChar`, `unquote`); strconv.ParseFloat is a PARAMETER (`Prims.pf`).

Source text is a list of Unicode code points (valid UTF-8 source); string values are byte lists.
-/
namespace EgoVerif.C06

/-! ## characters and digits -/

def isDec (c : Char) : Bool := 48 ≤ c.toNat && c.toNat ≤ 57
def isOct (c : Char) : Bool := 48 ≤ c.toNat && c.toNat ≤ 55
def isBin (c : Char) : Bool := c.toNat == 48 || c.toNat == 49
def isHexLetter (c : Char) : Bool := (97 ≤ c.toNat && c.toNat ≤ 102) || (65 ≤ c.toNat && c.toNat ≤ 70)
def isHexDig (c : Char) : Bool := isDec c || isHexLetter c
/-- Go's `lower(c) == 'x'` etc. (`lower(c) = c | 0x20`) -/
def isX (c : Char) : Bool := c == 'x' || c == 'X'
def isO (c : Char) : Bool := c == 'o' || c == 'O'
def isB (c : Char) : Bool := c == 'b' || c == 'B'
def isE (c : Char) : Bool := c == 'e' || c == 'E'
def isP (c : Char) : Bool := c == 'p' || c == 'P'

/-- digit value as strconv.ParseUint computes it: 0-9, then letters a-z / A-Z as 10..35 -/
def digitVal? (c : Char) : Option Nat :=
  if 48 ≤ c.toNat ∧ c.toNat ≤ 57 then some (c.toNat - 48)
  else if 97 ≤ c.toNat ∧ c.toNat ≤ 122 then some (c.toNat - 87)
  else if 65 ≤ c.toNat ∧ c.toNat ≤ 90 then some (c.toNat - 55)
  else none

/-! ## strconv.ParseInt -/

/-- main loop of strconv.ParseUint.  The running value is exact; Go's incremental overflow test
is equivalent to the final range test in `parseInt` because the value only grows. -/
def puLoop (base : Nat) (base0 : Bool) : Nat → List Char → Option Nat
  | acc, [] => some acc
  | acc, c :: r =>
    if c == '_' && base0 then puLoop base base0 acc r
    else match digitVal? c with
      | none => none
      | some d => if d ≥ base then none else puLoop base base0 (acc * base + d) r

inductive Saw | beg | dig | us | oth
  deriving DecidableEq, Repr

/-- loop of strconv.underscoreOK -/
def uokLoop (hex : Bool) : Saw → List Char → Bool
  | saw, [] => saw != .us
  | saw, c :: r =>
    if isDec c || (hex && isHexLetter c) then uokLoop hex .dig r
    else if c == '_' then (if saw == .dig then uokLoop hex .us r else false)
    else if saw == .us then false
    else uokLoop hex .oth r

/-- strconv.underscoreOK (the optional sign is never present: tokens start with a digit or '.') -/
def underscoreOK (s : List Char) : Bool :=
  match s with
  | c0 :: c :: r =>
    if c0 == '0' && (isB c || isO c || isX c) then uokLoop (isX c) .dig r else uokLoop false .beg s
  | _ => uokLoop false .beg s

/-- base-0 prefix handling of strconv.ParseUint: `0b`/`0o`/`0x` need at least one more character -/
def puBase0 : List Char → Option Nat
  | [] => none
  | c0 :: t =>
    if c0 == '0' then
      match t with
      | c :: d :: r =>
        if isB c then puLoop 2 true 0 (d :: r)
        else if isO c then puLoop 8 true 0 (d :: r)
        else if isX c then puLoop 16 true 0 (d :: r)
        else puLoop 8 true 0 t
      | _ => puLoop 8 true 0 t
    else puLoop 10 true 0 (c0 :: t)

/-- strconv.ParseUint(s, base, ·) without the range test; base ∈ {0, 10} are the ones Ego uses -/
def parseUint (s : List Char) (base : Nat) : Option Nat :=
  if base == 0 then
    if s.contains '_' && !underscoreOK s then none else puBase0 s
  else
    match s with
    | [] => none
    | _ => puLoop base false 0 s

/-- strconv.ParseInt(s, base, bits) for a spelling without a sign: ok iff value < 2^(bits-1) -/
def parseInt (s : List Char) (base bits : Nat) : Option Nat :=
  match parseUint s base with
  | some n => if n < 2 ^ (bits - 1) then some n else none
  | none => none

/-! ## strconv.FormatInt(v, 10) for v ≥ 0 -/

def digitChar (d : Nat) : Char := Char.ofNat (48 + d)

def itoaF : Nat → Nat → List Char
  | 0, _ => []
  | f + 1, n => if n < 10 then [digitChar n] else itoaF f (n / 10) ++ [digitChar (n % 10)]

def itoa (n : Nat) : List Char := itoaF (n + 1) n

/-! ## UTF-8 -/

def utf8Enc (n : Nat) : List UInt8 :=
  if n < 0x80 then [UInt8.ofNat n]
  else if n < 0x800 then [UInt8.ofNat (0xC0 + n / 64), UInt8.ofNat (0x80 + n % 64)]
  else if n < 0x10000 then
    [UInt8.ofNat (0xE0 + n / 4096), UInt8.ofNat (0x80 + n / 64 % 64), UInt8.ofNat (0x80 + n % 64)]
  else
    [UInt8.ofNat (0xF0 + n / 262144), UInt8.ofNat (0x80 + n / 4096 % 64),
     UInt8.ofNat (0x80 + n / 64 % 64), UInt8.ofNat (0x80 + n % 64)]

def utf8Str (s : List Char) : List UInt8 := s.flatMap fun c => utf8Enc c.toNat

/-- utf8.ValidRune -/
def validRune (v : Nat) : Bool := v < 0xD800 || (0xE000 ≤ v && v ≤ 0x10FFFF)

/-! ## strconv.UnquoteChar / strconv.Unquote -/

/-- the single-letter escapes \a \b \f \n \r \t \v (value) -/
def simpleEsc (c : Char) : Option Nat :=
  if c == 'a' then some 7 else if c == 'b' then some 8 else if c == 'f' then some 12
  else if c == 'n' then some 10 else if c == 'r' then some 13 else if c == 't' then some 9
  else if c == 'v' then some 11 else none

/-- `unhex` of strconv -/
def hexVal? (c : Char) : Option Nat :=
  if isDec c then some (c.toNat - 48)
  else if 97 ≤ c.toNat ∧ c.toNat ≤ 102 then some (c.toNat - 87)
  else if 65 ≤ c.toNat ∧ c.toNat ≤ 70 then some (c.toNat - 55)
  else none

def octVal? (c : Char) : Option Nat := if isOct c then some (c.toNat - 48) else none

/-- value of exactly `n` leading hex digits, and the tail -/
def hexN : Nat → Nat → List Char → Option (Nat × List Char)
  | 0, acc, s => some (acc, s)
  | _ + 1, _, [] => none
  | n + 1, acc, c :: r =>
    match hexVal? c with
    | some x => hexN n (acc * 16 + x) r
    | none => none

/-- strconv.UnquoteChar(s, quote): (value, multibyte, tail).  A character ≥ utf8.RuneSelf is
decoded as one rune with multibyte = true; at code-point level that is the character itself. -/
def unquoteChar (quote : Char) : List Char → Option (Nat × Bool × List Char)
  | [] => none
  | c :: r =>
    if c == quote && (quote == '\'' || quote == '"') then none
    else if c.toNat ≥ 128 then some (c.toNat, true, r)
    else if c != '\\' then some (c.toNat, false, r)
    else match r with
      | [] => none
      | e :: t =>
        match simpleEsc e with
        | some v => some (v, false, t)
        | none =>
          if e == 'x' then (hexN 2 0 t).map fun (v, t') => (v, false, t')
          else if e == 'u' then
            (hexN 4 0 t).bind fun (v, t') => if validRune v then some (v, true, t') else none
          else if e == 'U' then
            (hexN 8 0 t).bind fun (v, t') => if validRune v then some (v, true, t') else none
          else if isOct e then
            match t with
            | a :: b :: t' =>
              match octVal? a, octVal? b with
              | some x, some y =>
                let v := ((e.toNat - 48) * 8 + x) * 8 + y
                if v > 255 then none else some (v, false, t')
              | _, _ => none
            | _ => none
          else if e == '\\' then some (92, false, t)
          else if e == '\'' || e == '"' then (if e != quote then none else some (e.toNat, false, t))
          else none

/-- bytes appended by strconv.Unquote for one decoded character -/
def charBytes (v : Nat) (multibyte : Bool) : List UInt8 :=
  if v < 128 || !multibyte then [UInt8.ofNat v] else utf8Enc v

/-- body loop of strconv.Unquote for a `"`-quoted string (slow path; the no-escape fast path
returns the same bytes for valid UTF-8).  Input: text after the opening quote.  The closing
quote must be the last character (Unquote requires an empty remainder). -/
def unquoteBody : Nat → List Char → Option (List UInt8)
  | 0, _ => none
  | _ + 1, [] => none
  | fuel + 1, c :: r =>
    if c == '"' then (if r.isEmpty then some [] else none)
    else if c == '\n' then none
    else match unquoteChar '"' (c :: r) with
      | none => none
      | some (v, mb, t) => (unquoteBody fuel t).map fun bs => charBytes v mb ++ bs

/-- tokenizer.go `unQuote`: strconv.Unquote, and the input unchanged when that fails -/
def unQuote (text : List Char) : List UInt8 :=
  match text with
  | '"' :: body =>
    match unquoteBody (body.length + 1) body with
    | some bs => bs
    | none => utf8Str text
  | _ => utf8Str text

/-! ## text/scanner: extent of the first token -/

/-- `Scanner.digits`: decimal digits (base ≤ 10) or hex digits (base 16), and '_' -/
def scDigits (hex : Bool) : List Char → List Char × List Char
  | [] => ([], [])
  | c :: r =>
    if (if hex then isHexDig c else isDec c) || c == '_' then
      let p := scDigits hex r
      (c :: p.1, p.2)
    else ([], c :: r)

/-- exponent part of `scanNumber`: `e`/`p` (either, whatever the base; a mismatch is only
reported through the error callback), optional sign, decimal digits -/
def scExp : List Char → List Char × List Char
  | [] => ([], [])
  | c :: r =>
    if isE c || isP c then
      match r with
      | d :: r' =>
        if d == '+' || d == '-' then
          let p := scDigits false r'
          (c :: d :: p.1, p.2)
        else
          let p := scDigits false r
          (c :: p.1, p.2)
      | [] => ([c], [])
    else ([], c :: r)

/-- fraction + exponent (after a '.') -/
def scFrac (hex : Bool) (s : List Char) : List Char × List Char :=
  let f := scDigits hex s
  let e := scExp f.2
  (f.1 ++ e.1, e.2)

/-- digits, then either '.' fraction exponent, or exponent -/
def scMant (hex : Bool) (s : List Char) : List Char × List Char :=
  let d := scDigits hex s
  match d.2 with
  | '.' :: r2 =>
    let q := scFrac hex r2
    (d.1 ++ '.' :: q.1, q.2)
  | _ =>
    let e := scExp d.2
    (d.1 ++ e.1, e.2)

/-- `Scanner.scanNumber`, called with the first character being a decimal digit
(`seenDot = false`) or being '.' followed by a decimal digit (`seenDot = true`).
Returns (token text, rest). -/
def scanNumber : List Char → List Char × List Char
  | [] => ([], [])
  | c0 :: t =>
    if c0 == '.' then
      let q := scFrac false t
      (c0 :: q.1, q.2)
    else if c0 == '0' then
      match t with
      | c :: r =>
        if isX c then
          let q := scMant true r
          (c0 :: c :: q.1, q.2)
        else if isO c || isB c then
          let q := scMant false r
          (c0 :: c :: q.1, q.2)
        else
          let q := scMant false t
          (c0 :: q.1, q.2)
      | [] => ([c0], [])
    else scMant false (c0 :: t)

/-- the single-character escapes after which `scanEscape` consumes the next character -/
def scSimple (q e : Char) : Bool := (simpleEsc e).isSome || e == '\\' || e == q

/-- `Scanner.scanString(quote)` after the opening quote: (text up to and including the closing
quote, rest); none = "literal not terminated".  After a backslash `scanEscape` consumes one
simple-escape character (state `esc` = the previous character was such a backslash); octal/hex digits it consumes are never the quote, a backslash or a
newline, so leaving them to the main loop gives the same extent; an invalid escape character
is not consumed by `scanEscape` either. -/
def scQuoted (q : Char) : Bool → List Char → Option (List Char × List Char)
  | _, [] => none
  | esc, c :: r =>
    if esc && scSimple q c then (scQuoted q false r).map fun p => (c :: p.1, p.2)
    else if c == q then some ([c], r)
    else if c == '\n' then none
    else (scQuoted q (c == '\\') r).map fun p => (c :: p.1, p.2)

/-- `Scanner.scanRawString` after the opening back quote -/
def scRaw : List Char → Option (List Char × List Char)
  | [] => none
  | c :: r => if c == '`' then some ([c], r) else (scRaw r).map fun p => (c :: p.1, p.2)

/-- first token of a text that starts a literal: digit, '.'+digit, or one of the three quotes -/
def scanFirst (s : List Char) : Option (List Char × List Char) :=
  match s with
  | [] => none
  | c :: r =>
    if isDec c then some (scanNumber s)
    else if c == '.' then
      match r with
      | d :: _ => if isDec d then some (scanNumber s) else none
      | [] => none
    else if c == '"' then (scQuoted '"' false r).map fun p => (c :: p.1, p.2)
    else if c == '\'' then (scQuoted '\'' false r).map fun p => (c :: p.1, p.2)
    else if c == '`' then (scRaw r).map fun p => (c :: p.1, p.2)
    else none

/-! ## tokens, classification, compilation -/

/-- external primitive: strconv.ParseFloat(text, 64) succeeded, with an abstract result.
`pf_quote`: ParseFloat rejects a text that starts with a single quote. -/
structure Prims where
  F : Type
  pf : List Char → Option F
  pf_quote : ∀ r, pf ('\'' :: r) = none

/-- a token of the classes a literal can get (tokenizer/token.go) -/
inductive Tok
  | str (b : List UInt8)        -- StringTokenClass; the spelling is the unquoted value
  | int (t : List Char)         -- IntegerTokenClass
  | float (t : List Char)       -- FloatTokenClass
  | complex (t : List Char)     -- ComplexTokenClass
  | value (t : List Char)       -- ValueTokenClass
  deriving Repr, DecidableEq

/-- what ends up in the variable -/
inductive LitVal
  | int (n : Nat)               -- int or int64 constant with this value
  | float (arg : List Char)     -- float64: strconv.ParseFloat(arg, 64)
  | imag (arg : List Char)      -- complex128: complex(0, strconv.ParseFloat(arg, 64))
  | str (b : List UInt8)        -- string with these bytes
  | rune (n : Nat)              -- int32 constant
  | runes (ns : List Nat)       -- []int32 (Ego extension for multi-character quotes)
  | err                         -- compile error
  deriving Repr, DecidableEq

/-- lexer.go `classifyTokenBySpelling` for a text produced by `scanFirst`.  The first five
branches (type name, true/false, reserved word, identifier, special token) cannot match a text
that starts with a digit, '.'+digit or a quote; the harness checks the tables for that. -/
def classify (P : Prims) (text : List Char) : Tok :=
  if text.head? == some '"' && text.getLast? == some '"' then .str (unQuote text)
  else if text.head? == some '`' && text.getLast? == some '`' then
    .str (utf8Str ((text.drop 1).dropLast.filter (· != '\r')))     -- FIXED: '\r' discarded
  else if (parseInt text 10 64).isSome then .int text
  else if (P.pf text).isSome then .float text
  else .value text

/-- lexer.go: Integer/Float token immediately followed by the identifier `i` → Complex token.
`rest` is the text after the first token; none = the text is not one token. -/
def mergeI (t : Tok) (rest : List Char) : Option Tok :=
  if rest.isEmpty then some t
  else if rest == ['i'] then
    match t with
    | .int s => some (.complex (s ++ ['i']))
    | .float s => some (.complex (s ++ ['i']))
    | _ => none
  else none

/-- spelling of a non-string token -/
def Tok.text? : Tok → Option (List Char)
  | .str _ => none
  | .int t | .float t | .complex t | .value t => some t

/-- expr_atom.go `convertRadixToDecimal` (FIXED): a non-string token whose spelling starts with a
digit and is a Go integer literal (strconv.ParseInt(text, 0, 64)) becomes a decimal Integer token -/
def convertRadix (t : Tok) : Tok :=
  match t.text? with
  | none => t
  | some text =>
    match text with
    | c :: _ =>
      if isDec c then
        match parseInt text 0 64 with
        | some n => .int (itoa n)
        | none => t
      else t
    | [] => t

/-- expr_atom.go `pushIntConstant` -/
def pushInt (text : List Char) : LitVal :=
  match parseInt text 10 32 with
  | some n => .int n
  | none =>
    match parseInt text 10 64 with
    | some n => .int n
    | none => .err

/-- strings.TrimSuffix(text, "i") -/
def trimI (text : List Char) : List Char :=
  if text.getLast? == some 'i' then text.dropLast else text

/-- expr_atom.go `compileRuneExpression` (FIXED) on a non-string spelling; none = not a rune -/
def compileRune (s : List Char) : Option LitVal :=
  if s.length > 1 && s.head? == some '\'' && s.getLast? == some '\'' then
    let body := (s.drop 1).dropLast
    match unquoteChar '\'' body with
    | some (v, _, []) => some (.rune v)
    | _ =>
      match body with
      | [c] => some (.rune c.toNat)
      | _ => some (.runes (body.map Char.toNat))       -- extensions are on in RunString
  else none

/-- the literal branches of expr_atom.go `expressionAtom`, after `convertRadixToDecimal` -/
def compileAtom (P : Prims) (t0 : Tok) : LitVal :=
  match convertRadix t0 with
  | .int text => pushInt text
  | .float text => if (P.pf text).isSome then .float text else .str (utf8Str text)
  | .complex text => if (P.pf (trimI text)).isSome then .imag (trimI text) else .err
  | .value text =>
    match compileRune text with
    | some v => v
    | none => .str (utf8Str text)                       -- `t.IsValue()`: the spelling is pushed
  | .str b => .str b

/-- the whole pipeline on a text that is meant to be one literal; none = not a single token -/
def egoLit (P : Prims) (s : List Char) : Option LitVal :=
  match scanFirst s with
  | none => none
  | some (text, rest) => (mergeI (classify P text) rest).map (compileAtom P)

end EgoVerif.C06
