import EgoVerif.C06.Spec
/- C06 — lemmas for the integer theorem: scanner extent, strconv.ParseInt(·, 0, 64) on the
integer grammar, FormatInt/ParseInt round trip. -/
namespace EgoVerif.C06

/-! ### character facts -/

theorem isDec_ne {c : Char} (h : isDec c = true) :
    c ≠ '"' ∧ c ≠ '`' ∧ c ≠ '\'' ∧ c ≠ '.' ∧ c ≠ '_' := by
  refine ⟨?_, ?_, ?_, ?_, ?_⟩ <;> (rintro rfl; revert h; decide)

theorem isHexDig_ne_us {c : Char} (h : isHexDig c = true) : c ≠ '_' := by
  rintro rfl; revert h; decide

theorem isOct_isDec {c : Char} (h : isOct c = true) : isDec c = true := by
  simp [isOct, isDec] at *; omega

theorem isBin_isDec {c : Char} (h : isBin c = true) : isDec c = true := by
  simp [isBin, isDec] at *; omega

theorem isX_excl {c : Char} (h : isX c = true) : isB c = false ∧ isO c = false := by
  simp [isX] at h; rcases h with rfl | rfl <;> decide

theorem isO_excl {c : Char} (h : isO c = true) : isB c = false ∧ isX c = false := by
  simp [isO] at h; rcases h with rfl | rfl <;> decide

theorem isB_excl {c : Char} (h : isB c = true) : isO c = false ∧ isX c = false := by
  simp [isB] at h; rcases h with rfl | rfl <;> decide

theorem digitVal_dec {c : Char} (h : isDec c = true) : digitVal? c = some (c.toNat - 48) ∧ c.toNat - 48 < 10 := by
  simp [isDec] at h; simp [digitVal?, h]; omega

theorem digitVal_oct {c : Char} (h : isOct c = true) : digitVal? c = some (c.toNat - 48) ∧ c.toNat - 48 < 8 := by
  simp [isOct] at h; simp [digitVal?, h]; omega

theorem digitVal_bin {c : Char} (h : isBin c = true) : digitVal? c = some (c.toNat - 48) ∧ c.toNat - 48 < 2 := by
  simp [isBin] at h; rcases h with h | h <;> simp [digitVal?, h]

theorem digitVal_hex {c : Char} (h : isHexDig c = true) : ∃ d, digitVal? c = some d ∧ d < 16 := by
  simp [isHexDig, isDec, isHexLetter] at h
  rcases h with h | h | h
  · exact ⟨c.toNat - 48, by simp [digitVal?, h], by omega⟩
  · refine ⟨c.toNat - 87, ?_, by omega⟩
    have h1 : ¬ (48 ≤ c.toNat ∧ c.toNat ≤ 57) := by omega
    have h2 : 97 ≤ c.toNat ∧ c.toNat ≤ 122 := by omega
    simp [digitVal?, h1, h2]
  · refine ⟨c.toNat - 55, ?_, by omega⟩
    have h1 : ¬ (48 ≤ c.toNat ∧ c.toNat ≤ 57) := by omega
    have h2 : ¬ (97 ≤ c.toNat ∧ c.toNat ≤ 122) := by omega
    have h3 : 65 ≤ c.toNat ∧ c.toNat ≤ 90 := by omega
    simp [digitVal?, h1, h2, h3]

/-! ### digit strings -/

theorem sepTail_mem {p : Char → Bool} : ∀ {r : List Char}, sepTail p r = true → ∀ c ∈ r, p c = true ∨ c = '_' := by
  intro r
  induction r using sepTail.induct with
  | case1 => intro _ c hc; simp at hc
  | case2 c hc d r' ih =>
    intro h x hx
    simp [sepTail, hc] at h
    simp at hx
    rcases hx with rfl | rfl | hx
    · right; simpa using hc
    · left; exact h.1
    · exact ih h.2 x hx
  | case3 c hc => intro h; simp [sepTail, hc] at h
  | case4 c r hc ih =>
    intro h x hx
    rw [sepTail.eq_def] at h; simp [hc] at h
    simp at hx
    rcases hx with rfl | hx
    · left; exact h.1
    · exact ih h.2 x hx

theorem scDigits_all {hex : Bool} : ∀ {r : List Char},
    (∀ c ∈ r, (if hex then isHexDig c else isDec c) = true ∨ c = '_') → scDigits hex r = (r, []) := by
  intro r
  induction r with
  | nil => intro _; rfl
  | cons c r ih =>
    intro h
    have hc := h c (by simp)
    have ih' := ih (fun x hx => h x (by simp [hx]))
    have : ((if hex then isHexDig c else isDec c) || c == '_') = true := by
      rcases hc with hc | hc <;> simp [hc]
    simp [scDigits, this, ih']

theorem puLoop_all {base : Nat} : ∀ {r : List Char} (acc : Nat),
    (∀ c ∈ r, c = '_' ∨ ∃ d, digitVal? c = some d ∧ d < base) →
    puLoop base true acc r = some (goVal base acc r) := by
  intro r
  induction r with
  | nil => intro acc _; rfl
  | cons c r ih =>
    intro acc h
    have ih' := fun a => ih a (fun x hx => h x (by simp [hx]))
    by_cases hu : c = '_'
    · subst hu; simp [puLoop, goVal, ih']
    · rcases h c (by simp) with h1 | ⟨d, hd, hlt⟩
      · exact absurd h1 hu
      · have : ¬ d ≥ base := by omega
        simp [puLoop, goVal, hu, hd, this, ih']

theorem uok_sepTail {p : Char → Bool} {hex : Bool}
    (hp : ∀ c, p c = true → (isDec c || (hex && isHexLetter c)) = true) :
    ∀ {r : List Char}, sepTail p r = true → uokLoop hex .dig r = true := by
  have hus : (isDec '_' || (hex && isHexLetter '_')) = false := by
    have : isDec '_' = false := by decide
    have : isHexLetter '_' = false := by decide
    simp [*]
  intro r
  induction r using sepTail.induct with
  | case1 => intro _; simp [uokLoop]
  | case2 c hc d r' ih =>
    intro h
    simp [sepTail, hc] at h
    have hc' : c = '_' := by simpa using hc
    subst hc'
    have hd := hp d h.1
    rw [uokLoop, if_neg (by simp [hus])]
    simp only [beq_self_eq_true, if_true]
    rw [uokLoop, if_pos hd]
    exact ih h.2
  | case3 c hc => intro h; simp [sepTail, hc] at h
  | case4 c r hc ih =>
    intro h
    rw [sepTail.eq_def] at h; simp [hc] at h
    rw [uokLoop, if_pos (hp c h.1)]
    exact ih h.2

/-! ### strconv.FormatInt then strconv.ParseInt(·, 10, ·) -/

theorem puLoop_append {base : Nat} {b0 : Bool} : ∀ (l r : List Char) (acc : Nat),
    puLoop base b0 acc (l ++ r) = (puLoop base b0 acc l).bind fun v => puLoop base b0 v r := by
  intro l
  induction l with
  | nil => intro r acc; simp [puLoop]
  | cons c l ih =>
    intro r acc
    simp only [List.cons_append, puLoop]
    split
    · exact ih r acc
    · split
      · simp
      · split
        · simp
        · exact ih r _

theorem digitChar_val : ∀ d, d < 10 → digitVal? (digitChar d) = some d := by decide

theorem digitChar_ne_us : ∀ d, d < 10 → (digitChar d == '_') = false := by decide

theorem puLoop_digit (acc d : Nat) (h : d < 10) : puLoop 10 false acc [digitChar d] = some (acc * 10 + d) := by
  simp [puLoop, digitChar_val d h]; omega

theorem puLoop_itoaF : ∀ (f n : Nat), n < f → puLoop 10 false 0 (itoaF f n) = some n := by
  intro f
  induction f with
  | zero => intro n h; omega
  | succ f ih =>
    intro n h
    unfold itoaF
    by_cases hn : n < 10
    · simp only [hn, if_true]
      rw [puLoop_digit 0 n hn]; simp
    · simp only [hn, if_false]
      rw [puLoop_append, ih (n / 10) (by omega)]
      simp only [Option.bind]
      rw [puLoop_digit _ _ (by omega)]
      congr 1; omega

theorem itoaF_ne_nil : ∀ (f n : Nat), itoaF (f + 1) n ≠ [] := by
  intro f n; unfold itoaF; split <;> simp

theorem parseUint_itoa (n : Nat) : parseUint (itoa n) 10 = some n := by
  unfold parseUint itoa
  have h := puLoop_itoaF (n + 1) n (by omega)
  have hne := itoaF_ne_nil n n
  simp only [show ((10 : Nat) == 0) = false by decide]
  split
  · contradiction
  · simpa using h

/-- expr_atom.go `pushIntConstant` on the decimal spelling written by `convertRadixToDecimal` -/
theorem pushInt_itoa (n : Nat) (h : n < 2 ^ 63) : pushInt (itoa n) = .int n := by
  unfold pushInt parseInt
  rw [parseUint_itoa]
  by_cases h31 : n < 2 ^ (32 - 1)
  · simp [h31]
  · have h63 : n < 2 ^ (64 - 1) := h
    simp [h31, h63]

/-! ### strconv.ParseInt(·, 0, 64) on the Go integer grammar -/

theorem parseUint0_of {s : List Char} {v : Nat} (hu : underscoreOK s = true) (hp : puBase0 s = some v) :
    parseUint s 0 = some v := by
  simp [parseUint, hu, hp]

/-- a prefixed literal `0x…`, `0o…`, `0b…` -/
theorem parseUint0_prefixed {c : Char} {r : List Char} {p : Char → Bool} {base : Nat}
    (hsel : ∀ d r', puBase0 ('0' :: c :: d :: r') = puLoop base true 0 (d :: r'))
    (hpre : (isB c || isO c || isX c) = true)
    (hp : ∀ y, p y = true → (isDec y || (isX c && isHexLetter y)) = true)
    (hd : ∀ c, p c = true → ∃ d, digitVal? c = some d ∧ d < base)
    (h : optSep p r = true) : parseUint ('0' :: c :: r) 0 = some (goVal base 0 r) := by
  simp [optSep] at h
  obtain ⟨hne, hs⟩ := h
  apply parseUint0_of
  · simp only [underscoreOK, beq_self_eq_true, Bool.true_and, hpre, if_true]
    exact uok_sepTail (hex := isX c) (p := p) (by intro x hx; exact hp x hx) hs
  · cases r with
    | nil => simp at hne
    | cons d r' =>
      rw [hsel]
      apply puLoop_all
      intro x hx
      rcases sepTail_mem hs x hx with h1 | h1
      · right; exact hd x h1
      · left; exact h1

theorem underscoreOK_dec0 {c0 : Char} {t : List Char} (h0 : isDec c0 = true)
    (hpre : ∀ c r, t = c :: r → (c0 == '0' && (isB c || isO c || isX c)) = false) :
    underscoreOK (c0 :: t) = uokLoop false .dig t := by
  have : uokLoop false .beg (c0 :: t) = uokLoop false .dig t := by
    rw [uokLoop]; simp [h0]
  cases t with
  | nil => simpa [underscoreOK] using this
  | cons c r => simp only [underscoreOK, hpre c r rfl]; simpa using this

theorem goInt_first {s : List Char} {n : Nat} (h : goInt s = some n) : ∃ c t, s = c :: t ∧ isDec c = true := by
  cases s with
  | nil => simp [goInt] at h
  | cons c0 t =>
    refine ⟨c0, t, rfl, ?_⟩
    by_cases h0 : c0 = '0'
    · subst h0; decide
    · simp [goInt, h0] at h; exact h.1.1

theorem parseUint0_goInt {s : List Char} {n : Nat} (h : goInt s = some n) : parseUint s 0 = some n := by
  cases s with
  | nil => simp [goInt] at h
  | cons c0 t =>
    by_cases h0 : c0 = '0'
    · subst h0
      cases t with
      | nil => simp [goInt] at h; subst h; decide
      | cons c r =>
        by_cases hx : isX c = true
        · simp [goInt, hx] at h
          obtain ⟨hs, rfl⟩ := h
          have he := isX_excl hx
          exact parseUint0_prefixed (p := isHexDig) (base := 16)
            (by intro d r'; simp [puBase0, he.1, he.2, hx]) (by simp [hx])
            (by intro x hx'; simpa [isHexDig, hx] using hx') (fun x hx' => digitVal_hex hx') hs
        · by_cases ho : isO c = true
          · simp [goInt, hx, ho] at h
            obtain ⟨hs, rfl⟩ := h
            have he := isO_excl ho
            exact parseUint0_prefixed (p := isOct) (base := 8)
              (by intro d r'; simp [puBase0, he.1, ho]) (by simp [ho])
              (by intro x hx'; simp [isOct_isDec hx']) (fun x hx' => ⟨_, digitVal_oct hx'⟩) hs
          · by_cases hb : isB c = true
            · simp [goInt, hx, ho, hb] at h
              obtain ⟨hs, rfl⟩ := h
              exact parseUint0_prefixed (p := isBin) (base := 2)
                (by intro d r'; simp [puBase0, hb]) (by simp [hb])
                (by intro x hx'; simp [isBin_isDec hx']) (fun x hx' => ⟨_, digitVal_bin hx'⟩) hs
            · -- legacy octal: "0" [ "_" ] octal_digits
              simp [goInt, hx, ho, hb, optSep] at h
              obtain ⟨hs, rfl⟩ := h
              apply parseUint0_of
              · rw [underscoreOK_dec0 (by decide) (by intro c' r' e; cases e; simp [hx, ho, hb])]
                exact uok_sepTail (hex := false) (p := isOct) (by intro x hx'; simp [isOct_isDec hx']) hs
              · have : puBase0 ('0' :: c :: r) = puLoop 8 true 0 (c :: r) := by
                  cases r <;> simp [puBase0, hx, ho, hb]
                rw [this]
                apply puLoop_all
                intro x hx'
                rcases sepTail_mem hs x hx' with h1 | h1
                · right; exact ⟨_, digitVal_oct h1⟩
                · left; exact h1
    · -- decimal_lit = ( "1" … "9" ) [ [ "_" ] decimal_digits ]
      simp [goInt, h0] at h
      obtain ⟨hs, rfl⟩ := h
      apply parseUint0_of
      · rw [underscoreOK_dec0 hs.1 (by intro c' r' _; simp [h0])]
        exact uok_sepTail (hex := false) (p := isDec) (by intro x hx'; simp [hx']) hs.2
      · have : puBase0 (c0 :: t) = puLoop 10 true 0 (c0 :: t) := by simp [puBase0, h0]
        rw [this]
        apply puLoop_all
        intro x hx'
        simp at hx'
        rcases hx' with rfl | hx'
        · right; exact ⟨_, digitVal_dec hs.1⟩
        · rcases sepTail_mem hs.2 x hx' with h1 | h1
          · right; exact ⟨_, digitVal_dec h1⟩
          · left; exact h1

end EgoVerif.C06
