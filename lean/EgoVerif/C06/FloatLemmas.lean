import EgoVerif.C06.IntLemmas
/- C06 — lemmas for the float theorem: the scanner takes a float literal as one token, and
strconv.ParseInt rejects it in base 10 and base 0. -/
namespace EgoVerif.C06

theorem spanDig_append (p : Char → Bool) : ∀ s, (spanDig p s).1 ++ (spanDig p s).2 = s := by
  intro s
  induction s with
  | nil => rfl
  | cons c r ih =>
    unfold spanDig
    split
    · simp [ih]
    · rfl

theorem spanDig_mem (p : Char → Bool) : ∀ s, ∀ c ∈ (spanDig p s).1, p c = true ∨ c = '_' := by
  intro s
  induction s with
  | nil => intro c hc; simp [spanDig] at hc
  | cons x r ih =>
    intro c hc
    unfold spanDig at hc
    split at hc
    · rename_i hx
      simp at hc
      rcases hc with rfl | hc
      · simpa using hx
      · exact ih c hc
    · simp at hc

theorem scDigits_hex : ∀ s, scDigits true s = spanDig isHexDig s := by
  intro s
  induction s with
  | nil => rfl
  | cons c r ih => simp [scDigits, spanDig, ih]

theorem scDigits_dec : ∀ s, scDigits false s = spanDig isDec s := by
  intro s
  induction s with
  | nil => rfl
  | cons c r ih => simp [scDigits, spanDig, ih]

theorem sepDigits_mem {p : Char → Bool} {l : List Char} (h : sepDigits p l = true) :
    ∀ c ∈ l, p c = true ∨ c = '_' := by
  cases l with
  | nil => simp [sepDigits] at h
  | cons x r =>
    simp [sepDigits] at h
    intro c hc
    simp at hc
    rcases hc with rfl | hc
    · exact Or.inl h.1
    · exact sepTail_mem h.2 c hc

/-- the scanner's exponent part takes a whole Go exponent -/
theorem scExp_goExp {L : Char → Bool} (hL : ∀ c, L c = true → (isE c || isP c) = true) {rest : List Char}
    (h : goExp L rest = true) : scExp rest = (rest, []) := by
  cases rest with
  | nil => simp [goExp] at h
  | cons c t =>
    cases t with
    | nil => simp [goExp] at h
    | cons d r =>
      simp only [goExp, Bool.and_eq_true] at h
      have hc := hL c h.1
      by_cases hs : (d == '+' || d == '-') = true
      · have h2 : sepDigits isDec r = true := by simpa [hs] using h.2
        have hd := scDigits_all (hex := false) (r := r) (by
          intro x hx; have := sepDigits_mem h2 x hx; simpa using this)
        simp [scExp, hc, hs, hd]
      · have h2 : sepDigits isDec (d :: r) = true := by simpa [hs] using h.2
        have hd := scDigits_all (hex := false) (r := d :: r) (by
          intro x hx; have := sepDigits_mem h2 x hx; simpa using this)
        simp only [scExp, hc, if_true, hs, Bool.false_eq_true, if_false, hd]

/-- text/scanner's digits-fraction-exponent scan takes a whole Go mantissa+exponent -/
theorem scMant_goMantExp {hex : Bool} {p L : Char → Bool} {ip : List Char → Bool} {eo : Bool} {s : List Char}
    (hsc : ∀ t, scDigits hex t = spanDig p t) (hL : ∀ c, L c = true → (isE c || isP c) = true)
    (h : goMantExp p L ip eo s = true) : scMant hex s = (s, []) := by
  have happ := spanDig_append p s
  by_cases hd : ∃ r2, (spanDig p s).2 = '.' :: r2
  · obtain ⟨r2, hr2⟩ := hd
    have happ2 := spanDig_append p r2
    have h' : ((eo && (spanDig p r2).2.isEmpty) || goExp L (spanDig p r2).2) = true := by
      simp only [goMantExp, hr2, Bool.and_eq_true] at h
      exact h.2
    have he : scExp (spanDig p r2).2 = ((spanDig p r2).2, []) := by
      simp only [Bool.or_eq_true, Bool.and_eq_true] at h'
      rcases h' with h2 | h2
      · have : (spanDig p r2).2 = [] := by simpa using h2.2
        rw [this]; rfl
      · exact scExp_goExp hL h2
    simp only [scMant, hsc, hr2, scFrac, he]
    rw [happ2, ← hr2, happ]
  · have hno : ∀ r, (spanDig p s).2 ≠ '.' :: r := fun r hr => hd ⟨r, hr⟩
    have h' : goExp L (spanDig p s).2 = true := by
      unfold goMantExp at h
      simp only [Bool.and_eq_true] at h
      exact h.2
    have he := scExp_goExp hL h'
    unfold scMant
    simp only [hsc]
    rw [he]
    simp only []
    rw [happ]

/-! ### the scanner on a float literal -/

theorem scMant_cons_digit {d : Char} (hd : isDec d = true) (t : List Char) :
    scMant false (d :: t) = (d :: (scMant false t).1, (scMant false t).2) := by
  have h1 : scDigits false (d :: t) = (d :: (scDigits false t).1, (scDigits false t).2) := by
    simp [scDigits, hd]
  unfold scMant
  rw [h1]
  simp only []
  split <;> simp

theorem scMant_dot (t : List Char) : scMant false ('.' :: t) = ('.' :: (scFrac false t).1, (scFrac false t).2) := by
  have h1 : scDigits false ('.' :: t) = ([], '.' :: t) := by
    have : isDec '.' = false := by decide
    simp [scDigits, this]
  unfold scMant
  rw [h1]
  simp

theorem goExp_notE {L : Char → Bool} {c : Char} (h : L c = false) (r : List Char) : goExp L (c :: r) = false := by
  cases r with
  | nil => rfl
  | cons d r' => simp [goExp, h]

theorem ob_facts {c : Char} (h : (isO c || isB c) = true) :
    isDec c = false ∧ (c == '_') = false ∧ c ≠ '.' ∧ isE c = false := by
  simp [isO, isB] at h
  rcases h with (rfl | rfl) | (rfl | rfl) <;> exact ⟨by decide, by decide, by decide, by decide⟩

/-- `0o…` / `0b…` are never decimal floats -/
theorem goMantExp_ob {c : Char} (h : (isO c || isB c) = true) (ip : List Char → Bool) (r : List Char) :
    goMantExp isDec isE ip true ('0' :: c :: r) = false := by
  obtain ⟨h1, h2, h3, h4⟩ := ob_facts h
  have hz : isDec '0' = true := by decide
  have hs : spanDig isDec ('0' :: c :: r) = (['0'], c :: r) := by
    simp [spanDig, hz, h1, h2]
  unfold goMantExp
  rw [hs]
  simp only []
  split
  · rename_i heq; simp at heq; exact absurd heq.1 h3
  · simp [goExp_notE h4]

theorem scanNumber_goFloat {s : List Char} (h : goFloat s = true) : scanNumber s = (s, []) := by
  have hLe : ∀ c, isE c = true → (isE c || isP c) = true := by intro c hc; simp [hc]
  have hLp : ∀ c, isP c = true → (isE c || isP c) = true := by intro c hc; simp [hc]
  match s, h with
  | c0 :: c :: r, h =>
    simp only [goFloat] at h
    by_cases hx : (c0 == '0' && isX c) = true
    · simp only [hx, if_true] at h
      simp only [Bool.and_eq_true] at hx
      have h0 : c0 = '0' := by simpa using hx.1
      subst h0
      have := scMant_goMantExp (hex := true) scDigits_hex hLp h
      simp [scanNumber, hx.2, this]
    · simp only [hx, Bool.false_eq_true, if_false] at h
      have hm := scMant_goMantExp (hex := false) scDigits_dec hLe h
      by_cases hdot : c0 = '.'
      · subst hdot
        rw [scMant_dot] at hm
        simp only [scanNumber, beq_self_eq_true, if_true]
        exact hm
      · have hdot' : (c0 == '.') = false := by simpa using hdot
        by_cases h0 : c0 = '0'
        · subst h0
          have hxc : isX c = false := by simpa using hx
          by_cases hob : (isO c || isB c) = true
          · rw [goMantExp_ob hob] at h; simp at h
          · rw [scMant_cons_digit (by decide)] at hm
            simp only [scanNumber, hdot', Bool.false_eq_true, if_false, beq_self_eq_true, if_true, hxc, hob]
            exact hm
        · have h0' : (c0 == '0') = false := by simpa using h0
          simp only [scanNumber, hdot', h0', Bool.false_eq_true, if_false]
          exact hm

/-! ### strconv.ParseInt rejects a float literal -/

/-- a character that stops ParseUint in the given base -/
def badFor (base : Nat) (c : Char) : Prop := c ≠ '_' ∧ ∀ d, digitVal? c = some d → base ≤ d

theorem puLoop_bad {base : Nat} {b0 : Bool} : ∀ (s : List Char) (acc : Nat),
    (∃ c ∈ s, badFor base c) → puLoop base b0 acc s = none := by
  intro s
  induction s with
  | nil => intro acc h; obtain ⟨c, hc, _⟩ := h; simp at hc
  | cons x r ih =>
    intro acc h
    obtain ⟨c, hc, hbad⟩ := h
    simp at hc
    unfold puLoop
    by_cases hu : (x == '_' && b0) = true
    · simp only [hu, if_true]
      have hx : x = '_' := by simp at hu; exact hu.1
      rcases hc with rfl | hc
      · exact absurd hx hbad.1
      · exact ih acc ⟨c, hc, hbad⟩
    · simp only [hu, Bool.false_eq_true, if_false]
      cases hd : digitVal? x with
      | none => rfl
      | some d =>
        simp only []
        by_cases hge : d ≥ base
        · simp [hge]
        · simp only [hge, if_false]
          rcases hc with rfl | hc
          · exact absurd (hbad.2 d hd) (by omega)
          · exact ih _ ⟨c, hc, hbad⟩

theorem bad_dot (base : Nat) : badFor base '.' := ⟨by decide, by intro d h; simp [digitVal?] at h⟩

theorem bad_E {c : Char} (h : isE c = true) : badFor 8 c ∧ badFor 10 c := by
  simp [isE] at h
  rcases h with rfl | rfl <;>
    exact ⟨⟨by decide, by intro d h; simp [digitVal?] at h; omega⟩, ⟨by decide, by intro d h; simp [digitVal?] at h; omega⟩⟩

theorem bad_P {c : Char} (h : isP c = true) : badFor 16 c := by
  simp [isP] at h
  rcases h with rfl | rfl <;> exact ⟨by decide, by intro d h; simp [digitVal?] at h; omega⟩

theorem bad_X {c : Char} (h : isX c = true) : badFor 10 c := by
  simp [isX] at h
  rcases h with rfl | rfl <;> exact ⟨by decide, by intro d h; simp [digitVal?] at h; omega⟩

/-- a mantissa+exponent text contains a '.' or an exponent letter -/
theorem goMantExp_has {p L : Char → Bool} {ip : List Char → Bool} {eo : Bool} {s : List Char}
    (h : goMantExp p L ip eo s = true) : ∃ c ∈ s, c = '.' ∨ L c = true := by
  have happ := spanDig_append p s
  by_cases hd : ∃ r2, (spanDig p s).2 = '.' :: r2
  · obtain ⟨r2, hr2⟩ := hd
    exact ⟨'.', by rw [← happ, hr2]; simp, Or.inl rfl⟩
  · have hno : ∀ r, (spanDig p s).2 ≠ '.' :: r := fun r hr => hd ⟨r, hr⟩
    have h' : goExp L (spanDig p s).2 = true := by
      unfold goMantExp at h
      simp only [Bool.and_eq_true] at h
      exact h.2
    cases h2 : (spanDig p s).2 with
    | nil => rw [h2] at h'; simp [goExp] at h'
    | cons c t =>
      rw [h2] at h'
      have hL : L c = true := by
        cases hl : L c with
        | true => rfl
        | false => rw [goExp_notE hl] at h'; simp at h'
      exact ⟨c, by rw [← happ, h2]; simp, Or.inr hL⟩

theorem parseInt_none_of_puBase0 {s : List Char} (h10 : puLoop 10 false 0 s = none) (h0 : puBase0 s = none) :
    parseInt s 10 64 = none ∧ parseInt s 0 64 = none := by
  constructor
  · unfold parseInt parseUint
    cases s with
    | nil => simp
    | cons c r => simp [h10]
  · unfold parseInt parseUint
    simp only [beq_self_eq_true, if_true, h0]
    have : (if (s.contains '_' && !underscoreOK s) = true then (none : Option Nat) else none) = none := by
      split <;> rfl
    rw [this]

/-- strconv.ParseInt(·, 10, 64) and (·, 0, 64) both reject every Go float literal -/
theorem parseInt_goFloat {s : List Char} (h : goFloat s = true) :
    parseInt s 10 64 = none ∧ parseInt s 0 64 = none := by
  match s, h with
  | c0 :: c :: r, h =>
    simp only [goFloat] at h
    by_cases hx : (c0 == '0' && isX c) = true
    · simp only [hx, if_true] at h
      simp only [Bool.and_eq_true] at hx
      have h0 : c0 = '0' := by simpa using hx.1
      subst h0
      obtain ⟨b, hb, hbb⟩ := goMantExp_has h
      have hbad : badFor 16 b := by
        rcases hbb with rfl | hp
        · exact bad_dot 16
        · exact bad_P hp
      apply parseInt_none_of_puBase0
      · exact puLoop_bad _ _ ⟨c, by simp, bad_X hx.2⟩
      · have he := isX_excl hx.2
        cases r with
        | nil => simp at hb
        | cons d r' =>
          simp only [puBase0, beq_self_eq_true, if_true, he.1, he.2, hx.2, Bool.false_eq_true, if_false]
          exact puLoop_bad _ _ ⟨b, hb, hbad⟩
    · simp only [hx, Bool.false_eq_true, if_false] at h
      obtain ⟨b, hb, hbb⟩ := goMantExp_has h
      have hbad : badFor 8 b ∧ badFor 10 b := by
        rcases hbb with rfl | he
        · exact ⟨bad_dot 8, bad_dot 10⟩
        · exact bad_E he
      apply parseInt_none_of_puBase0
      · exact puLoop_bad _ _ ⟨b, hb, hbad.2⟩
      · by_cases h0 : c0 = '0'
        · subst h0
          have hxc : isX c = false := by simpa using hx
          have hb' : b ∈ c :: r := by
            simp at hb
            rcases hb with rfl | hb
            · exact absurd hbad.1.2 (by intro hh; have := hh 0 (by decide); omega)
            · simpa using hb
          by_cases hob : (isO c || isB c) = true
          · rw [goMantExp_ob hob] at h; simp at h
          · have hoc : isO c = false ∧ isB c = false := by simpa using hob
            have : puBase0 ('0' :: c :: r) = puLoop 8 true 0 (c :: r) := by
              cases r <;> simp [puBase0, hxc, hoc.1, hoc.2]
            rw [this]
            exact puLoop_bad _ _ ⟨b, hb', hbad.1⟩
        · have : puBase0 (c0 :: c :: r) = puLoop 10 true 0 (c0 :: c :: r) := by simp [puBase0, h0]
          rw [this]
          exact puLoop_bad _ _ ⟨b, hb, hbad.2⟩

/-! ### how a float literal starts -/

theorem sepDigits_head {p : Char → Bool} {l : List Char} (h : sepDigits p l = true) :
    ∃ d t, l = d :: t ∧ p d = true := by
  cases l with
  | nil => simp [sepDigits] at h
  | cons d t => simp [sepDigits] at h; exact ⟨d, t, rfl, h.1⟩

/-- a decimal mantissa starts with a digit, or with '.' followed by a digit -/
theorem goMantExp_first {L : Char → Bool} {s : List Char}
    (h : goMantExp isDec L (sepDigits isDec) true s = true) :
    (∃ d t, s = d :: t ∧ isDec d = true) ∨ (∃ d t, s = '.' :: d :: t ∧ isDec d = true) := by
  have happ := spanDig_append isDec s
  by_cases hd : ∃ r2, (spanDig isDec s).2 = '.' :: r2
  · obtain ⟨r2, hr2⟩ := hd
    have happ2 := spanDig_append isDec r2
    simp only [goMantExp, hr2, Bool.and_eq_true] at h
    by_cases he : (spanDig isDec s).1.isEmpty = true
    · simp only [he, if_true] at h
      obtain ⟨d, t, hdt, hdd⟩ := sepDigits_head h.1
      right
      refine ⟨d, t ++ (spanDig isDec r2).2, ?_, hdd⟩
      have h1 : (spanDig isDec s).1 = [] := by simpa using he
      have e2 : r2 = d :: (t ++ (spanDig isDec r2).2) := happ2.symm.trans (by rw [hdt]; rfl)
      exact happ.symm.trans (by rw [h1, hr2]; simp only [List.nil_append]; rw [← e2])
    · simp only [he, Bool.false_eq_true, if_false, Bool.and_eq_true] at h
      obtain ⟨d, t, hdt, hdd⟩ := sepDigits_head h.1.1
      left
      exact ⟨d, t ++ (spanDig isDec s).2, happ.symm.trans (by rw [hdt]; rfl), hdd⟩
  · have hno : ∀ r, (spanDig isDec s).2 ≠ '.' :: r := fun r hr => hd ⟨r, hr⟩
    unfold goMantExp at h
    simp only [Bool.and_eq_true] at h
    obtain ⟨d, t, hdt, hdd⟩ := sepDigits_head h.1
    left
    exact ⟨d, t ++ (spanDig isDec s).2, happ.symm.trans (by rw [hdt]; rfl), hdd⟩

/-- text/scanner starts a number token on every float literal and takes all of it -/
theorem scanFirst_goFloat {s : List Char} (h : goFloat s = true) :
    scanFirst s = some (s, []) ∧ ∃ c r, s = c :: r ∧ (isDec c = true ∨ c = '.') := by
  have hsn := scanNumber_goFloat h
  match s, h, hsn with
  | c0 :: c :: r, h, hsn =>
    simp only [goFloat] at h
    by_cases hx : (c0 == '0' && isX c) = true
    · simp only [Bool.and_eq_true] at hx
      have h0 : c0 = '0' := by simpa using hx.1
      subst h0
      exact ⟨by simp [scanFirst, isDec, hsn], _, _, rfl, Or.inl (by decide)⟩
    · simp only [hx, Bool.false_eq_true, if_false] at h
      rcases goMantExp_first h with ⟨d, t, hdt, hdd⟩ | ⟨d, t, hdt, hdd⟩
      · simp only [List.cons.injEq] at hdt
        obtain ⟨rfl, -⟩ := hdt
        exact ⟨by simp [scanFirst, hdd, hsn], _, _, rfl, Or.inl hdd⟩
      · simp only [List.cons.injEq] at hdt
        obtain ⟨rfl, rfl, rfl⟩ := hdt
        have hnd : isDec '.' = false := by decide
        exact ⟨by simp [scanFirst, hnd, hdd, hsn], _, _, rfl, Or.inr rfl⟩

end EgoVerif.C06
