import EgoVerif.C06.Model
/-
C06 — the Go side: the literal grammar of the Go specification ("Lexical elements") and the value
each literal denotes.  Written from the spec's productions, independently of the scanner model.
Shared vocabulary with the model: character classes, `digitVal?`, `utf8Enc`, `validRune`.
-/
namespace EgoVerif.C06

/-- `{ [ "_" ] digit }` for a digit class `p` -/
def sepTail (p : Char → Bool) : List Char → Bool
  | [] => true
  | c :: r =>
    if c == '_' then
      match r with
      | d :: r' => p d && sepTail p r'
      | [] => false
    else p c && sepTail p r

/-- `[ "_" ] digits` where `digits = digit { [ "_" ] digit }` -/
def optSep (p : Char → Bool) (r : List Char) : Bool := !r.isEmpty && sepTail p r

/-- `digits = digit { [ "_" ] digit }` -/
def sepDigits (p : Char → Bool) : List Char → Bool
  | [] => false
  | c :: r => p c && sepTail p r

/-- positional value of a digit string, '_' ignored -/
def goVal (base : Nat) : Nat → List Char → Nat
  | acc, [] => acc
  | acc, c :: r =>
    if c == '_' then goVal base acc r else goVal base (acc * base + (digitVal? c).getD 0) r

/-- int_lit = decimal_lit | binary_lit | octal_lit | hex_lit, with its value
  decimal_lit = "0" | ( "1" … "9" ) [ [ "_" ] decimal_digits ]
  binary_lit  = "0" ( "b" | "B" ) [ "_" ] binary_digits
  octal_lit   = "0" [ "o" | "O" ] [ "_" ] octal_digits
  hex_lit     = "0" ( "x" | "X" ) [ "_" ] hex_digits -/
def goInt : List Char → Option Nat
  | [] => none
  | c0 :: t =>
    if c0 == '0' then
      match t with
      | [] => some 0
      | c :: r =>
        if isX c then (if optSep isHexDig r then some (goVal 16 0 r) else none)
        else if isO c then (if optSep isOct r then some (goVal 8 0 r) else none)
        else if isB c then (if optSep isBin r then some (goVal 2 0 r) else none)
        else (if optSep isOct t then some (goVal 8 0 t) else none)
    else if isDec c0 && sepTail isDec t then some (goVal 10 0 (c0 :: t)) else none

/-- one `unicode_value | byte_value` inside a literal quoted by `q`: source text, value, and
whether it is a byte value (`\ooo`, `\xhh`: one byte in a string) or a code point (UTF-8 in a string).
  escaped_char = `\` ( "a" | "b" | "f" | "n" | "r" | "t" | "v" | `\` | "'" | `"` ), the quote
  escapes being legal only for the quote of the literal. -/
inductive Elem (q : Char) : List Char → Nat → Bool → Prop
  | plain (c : Char) : c ≠ q → c ≠ '\\' → c ≠ '\n' → Elem q [c] c.toNat false
  | simple (e : Char) (v : Nat) : simpleEsc e = some v → Elem q ['\\', e] v false
  | backslash : Elem q ['\\', '\\'] 92 false
  | quote : (q = '\'' ∨ q = '"') → Elem q ['\\', q] q.toNat false
  | oct (a b c : Char) (x y z : Nat) : octVal? a = some x → octVal? b = some y → octVal? c = some z →
      x * 64 + y * 8 + z ≤ 255 → Elem q ['\\', a, b, c] (x * 64 + y * 8 + z) true
  | hex (a b : Char) (x y : Nat) : hexVal? a = some x → hexVal? b = some y →
      Elem q ['\\', 'x', a, b] (x * 16 + y) true
  | u4 (a b c d : Char) (w x y z : Nat) : hexVal? a = some w → hexVal? b = some x → hexVal? c = some y →
      hexVal? d = some z → validRune (((w * 16 + x) * 16 + y) * 16 + z) = true →
      Elem q ['\\', 'u', a, b, c, d] (((w * 16 + x) * 16 + y) * 16 + z) false
  | u8 (a b c d e f g h : Char) (s t u v w x y z : Nat) :
      hexVal? a = some s → hexVal? b = some t → hexVal? c = some u → hexVal? d = some v →
      hexVal? e = some w → hexVal? f = some x → hexVal? g = some y → hexVal? h = some z →
      validRune (((((((s * 16 + t) * 16 + u) * 16 + v) * 16 + w) * 16 + x) * 16 + y) * 16 + z) = true →
      Elem q ['\\', 'U', a, b, c, d, e, f, g, h]
        (((((((s * 16 + t) * 16 + u) * 16 + v) * 16 + w) * 16 + x) * 16 + y) * 16 + z) false

/-- bytes one element contributes to a string value -/
def elemBytes (v : Nat) (isByte : Bool) : List UInt8 := if isByte then [UInt8.ofNat v] else utf8Enc v

/-- body of an interpreted string literal and the bytes it denotes -/
inductive StrBody : List Char → List UInt8 → Prop
  | nil : StrBody [] []
  | cons {src rest : List Char} {v : Nat} {isb : Bool} {bs : List UInt8} :
      Elem '"' src v isb → StrBody rest bs → StrBody (src ++ rest) (elemBytes v isb ++ bs)

/-- body of a raw string literal: any characters except the back quote; '\r' is discarded -/
def rawValue (body : List Char) : List UInt8 := utf8Str (body.filter (· != '\r'))

end EgoVerif.C06

namespace EgoVerif.C06

/-- leading run of digits (class `p`) and underscores -/
def spanDig (p : Char → Bool) : List Char → List Char × List Char
  | [] => ([], [])
  | c :: r => if p c || c == '_' then ((spanDig p r).1.cons c, (spanDig p r).2) else ([], c :: r)

/-- exponent = ( letter ) [ "+" | "-" ] decimal_digits, the whole remaining text -/
def goExp (isLetter : Char → Bool) : List Char → Bool
  | c :: d :: r => isLetter c && (if d == '+' || d == '-' then sepDigits isDec r else sepDigits isDec (d :: r))
  | _ => false

/-- mantissa and exponent of a float literal over the digit class `p`:
  int "." [ frac ] [ exp ]  |  int exp  |  "." frac [ exp ]
where `intPart` recognises the integer part, `isExpL` the exponent letter, and the exponent after a
'.' form is optional iff `expOptional` (decimal: yes; hexadecimal: the `p` exponent is mandatory). -/
def goMantExp (p isExpL : Char → Bool) (intPart : List Char → Bool) (expOptional : Bool) (s : List Char) : Bool :=
  let a := spanDig p s
  match a.2 with
  | '.' :: r2 =>
    let b := spanDig p r2
    (if a.1.isEmpty then sepDigits p b.1 else intPart a.1 && (b.1.isEmpty || sepDigits p b.1)) &&
      ((expOptional && b.2.isEmpty) || goExp isExpL b.2)
  | rest => intPart a.1 && goExp isExpL rest

/-- float_lit = decimal_float_lit | hex_float_lit
  decimal_float_lit = decimal_digits "." [ decimal_digits ] [ decimal_exponent ] | decimal_digits decimal_exponent
                    | "." decimal_digits [ decimal_exponent ]
  hex_float_lit     = "0" ( "x" | "X" ) hex_mantissa hex_exponent
  hex_mantissa      = [ "_" ] hex_digits "." [ hex_digits ] | [ "_" ] hex_digits | "." hex_digits -/
def goFloat : List Char → Bool
  | [] => false
  | c0 :: t =>
    match t with
    | c :: r =>
      if c0 == '0' && isX c then goMantExp isHexDig isP (optSep isHexDig) false r
      else goMantExp isDec isE (sepDigits isDec) true (c0 :: t)
    | [] => false

end EgoVerif.C06
