import EgoVerif.C06.Spec
/- C06 — lemmas for runes and strings: scanner extent of one element, strconv.UnquoteChar on one element. -/
namespace EgoVerif.C06

/-- a character the quoted-text scanner passes over in its normal state -/
def plainFor (q x : Char) : Prop := x ≠ q ∧ x ≠ '\n' ∧ x ≠ '\\'

theorem hexVal_plain {x : Char} {v : Nat} (h : hexVal? x = some v) :
    x ≠ '\'' ∧ x ≠ '"' ∧ x ≠ '\n' ∧ x ≠ '\\' := by
  refine ⟨?_, ?_, ?_, ?_⟩ <;> (rintro rfl; revert h; simp [hexVal?, isDec])

theorem octVal_plain {x : Char} {v : Nat} (h : octVal? x = some v) :
    x ≠ '\'' ∧ x ≠ '"' ∧ x ≠ '\n' ∧ x ≠ '\\' ∧ simpleEsc x = none ∧ x ≠ 'x' ∧ x ≠ 'u' ∧ x ≠ 'U' := by
  have hno : simpleEsc x = none := by
    simp [octVal?, isOct] at h
    have h1 := h.1
    simp only [simpleEsc]
    repeat (first | rw [if_neg (by intro e; simp at e; subst e; revert h1; decide)] | rfl)
  refine ⟨?_, ?_, ?_, ?_, hno, ?_, ?_, ?_⟩ <;> (rintro rfl; revert h; simp [octVal?, isOct])

theorem hexVal_lt {x : Char} {v : Nat} (h : hexVal? x = some v) : v < 16 := by
  unfold hexVal? at h
  split at h
  · rename_i hd; simp [isDec] at hd; simp at h; omega
  · split at h
    · simp at h; omega
    · split at h
      · simp at h; omega
      · simp at h

theorem octVal_eq {x : Char} {v : Nat} (h : octVal? x = some v) : isOct x = true ∧ v = x.toNat - 48 ∧ v < 8 := by
  unfold octVal? at h
  split at h
  · rename_i hd; simp at h; simp [isOct] at hd; exact ⟨by simp [isOct, hd], h.symm, by omega⟩
  · simp at h

theorem simpleEsc_lt {e : Char} {v : Nat} (h : simpleEsc e = some v) : v < 128 := by
  unfold simpleEsc at h
  repeat (split at h; (simp at h; omega))
  simp at h

theorem simpleEsc_ne {e : Char} {v : Nat} (h : simpleEsc e = some v) : e ≠ '\'' ∧ e ≠ '"' ∧ e ≠ '\\' := by
  refine ⟨?_, ?_, ?_⟩ <;> (rintro rfl; simp [simpleEsc] at h)

/-! ### scanner -/

theorem scQuoted_plain {q x : Char} (h : plainFor q x) (rest : List Char) :
    scQuoted q false (x :: rest) = (scQuoted q false rest).map fun p => (x :: p.1, p.2) := by
  obtain ⟨h1, h2, h3⟩ := h
  have h3' : (x == '\\') = false := by simpa using h3
  rw [scQuoted]
  simp [h1, h2, h3']

theorem scQuoted_plains {q : Char} : ∀ (l : List Char), (∀ x ∈ l, plainFor q x) → ∀ rest,
    scQuoted q false (l ++ rest) = (scQuoted q false rest).map fun p => (l ++ p.1, p.2) := by
  intro l
  induction l with
  | nil => intro _ rest; simp
  | cons x l ih =>
    intro h rest
    rw [List.cons_append, scQuoted_plain (h x (by simp)), ih (fun y hy => h y (by simp [hy]))]
    cases scQuoted q false rest <;> simp

/-- backslash + a character after which scanEscape consumes one character -/
theorem scQuoted_esc_simple {q e : Char} (hq : q = '\'' ∨ q = '"') (he : scSimple q e = true) (rest : List Char) :
    scQuoted q false ('\\' :: e :: rest) = (scQuoted q false rest).map fun p => ('\\' :: e :: p.1, p.2) := by
  have hb : ('\\' == q) = false := by rcases hq with rfl | rfl <;> decide
  rw [scQuoted]
  simp only [Bool.false_and, Bool.false_eq_true, if_false, hb]
  rw [if_neg (by decide)]
  simp only [beq_self_eq_true]
  rw [scQuoted]
  simp only [Bool.true_and, he, if_true]
  cases scQuoted q false rest <;> simp

/-- backslash + a character that is not consumed by scanEscape but is harmless in the main loop -/
theorem scQuoted_esc_other {q e : Char} (hq : q = '\'' ∨ q = '"') (he : scSimple q e = false)
    (hp : plainFor q e) (rest : List Char) :
    scQuoted q false ('\\' :: e :: rest) = (scQuoted q false rest).map fun p => ('\\' :: e :: p.1, p.2) := by
  have hb : ('\\' == q) = false := by rcases hq with rfl | rfl <;> decide
  obtain ⟨h1, h2, h3⟩ := hp
  rw [scQuoted]
  simp only [Bool.false_and, Bool.false_eq_true, if_false, hb]
  rw [if_neg (by decide)]
  simp only [beq_self_eq_true]
  rw [scQuoted]
  have h3' : (e == '\\') = false := by simpa using h3
  simp only [Bool.true_and, he, Bool.false_eq_true, if_false]
  simp [h1, h2, h3']
  cases scQuoted q false rest <;> simp

theorem scSimple_of_digitlike {q e : Char} (hq : q = '\'' ∨ q = '"') (hs : simpleEsc e = none)
    (h1 : e ≠ '\\') (h2 : e ≠ '\'') (h3 : e ≠ '"') : scSimple q e = false := by
  rcases hq with rfl | rfl <;> simp [scSimple, hs, h1, h2, h3]

/-- the scanner passes over one element of the Go grammar and goes on with the rest -/
theorem scQuoted_elem {q : Char} (hq : q = '\'' ∨ q = '"') {src : List Char} {v : Nat} {isb : Bool}
    (h : Elem q src v isb) (rest : List Char) :
    scQuoted q false (src ++ rest) = (scQuoted q false rest).map fun p => (src ++ p.1, p.2) := by
  have plainHex : ∀ {x : Char} {n : Nat}, hexVal? x = some n → plainFor q x := by
    intro x n hx
    have := hexVal_plain hx
    rcases hq with rfl | rfl
    · exact ⟨this.1, this.2.2.1, this.2.2.2⟩
    · exact ⟨this.2.1, this.2.2.1, this.2.2.2⟩
  have plainOct : ∀ {x : Char} {n : Nat}, octVal? x = some n → plainFor q x := by
    intro x n hx
    have := octVal_plain hx
    rcases hq with rfl | rfl
    · exact ⟨this.1, this.2.2.1, this.2.2.2.1⟩
    · exact ⟨this.2.1, this.2.2.1, this.2.2.2.1⟩
  have letter : ∀ e : Char, (e = 'x' ∨ e = 'u' ∨ e = 'U') → scSimple q e = false ∧ plainFor q e := by
    intro e he
    rcases hq with rfl | rfl <;> rcases he with rfl | rfl | rfl <;> exact ⟨by decide, by decide, by decide, by decide⟩
  cases h with
  | plain c h1 h2 h3 => exact scQuoted_plain ⟨h1, h3, h2⟩ rest
  | simple e v he =>
    exact scQuoted_esc_simple hq (by simp [scSimple, he]) rest
  | backslash => exact scQuoted_esc_simple hq (by simp [scSimple]) rest
  | quote _ => exact scQuoted_esc_simple hq (by simp [scSimple]) rest
  | oct a b c x y z ha hb hc _ =>
    have pa := octVal_plain ha
    have := scQuoted_esc_other hq (scSimple_of_digitlike hq pa.2.2.2.2.1 pa.2.2.2.1 pa.1 pa.2.1) (plainOct ha) ([b, c] ++ rest)
    simp only [List.cons_append, List.nil_append] at this ⊢
    have h2 := scQuoted_plains (q := q) [b, c] (by intro t ht; simp at ht; rcases ht with rfl | rfl; exact plainOct hb; exact plainOct hc) rest
    simp only [List.cons_append, List.nil_append] at h2
    rw [this, h2]
    cases scQuoted q false rest <;> simp
  | hex a b x y ha hb =>
    have hl := letter 'x' (Or.inl rfl)
    have := scQuoted_esc_other hq hl.1 hl.2 ([a, b] ++ rest)
    simp only [List.cons_append, List.nil_append] at this ⊢
    have h2 := scQuoted_plains (q := q) [a, b] (by intro t ht; simp at ht; rcases ht with rfl | rfl; exact plainHex ha; exact plainHex hb) rest
    simp only [List.cons_append, List.nil_append] at h2
    rw [this, h2]
    cases scQuoted q false rest <;> simp
  | u4 a b c d w x y z ha hb hc hd _ =>
    have hl := letter 'u' (Or.inr (Or.inl rfl))
    have := scQuoted_esc_other hq hl.1 hl.2 ([a, b, c, d] ++ rest)
    simp only [List.cons_append, List.nil_append] at this ⊢
    have h2 := scQuoted_plains (q := q) [a, b, c, d] (by
      intro t ht; simp at ht
      rcases ht with rfl | rfl | rfl | rfl
      exact plainHex ha; exact plainHex hb; exact plainHex hc; exact plainHex hd) rest
    simp only [List.cons_append, List.nil_append] at h2
    rw [this, h2]
    cases scQuoted q false rest <;> simp
  | u8 a b c d e f g h s t u v w x y z ha hb hc hd he hf hg hh _ =>
    have hl := letter 'U' (Or.inr (Or.inr rfl))
    have := scQuoted_esc_other hq hl.1 hl.2 ([a, b, c, d, e, f, g, h] ++ rest)
    simp only [List.cons_append, List.nil_append] at this ⊢
    have h2 := scQuoted_plains (q := q) [a, b, c, d, e, f, g, h] (by
      intro t ht; simp at ht
      rcases ht with rfl | rfl | rfl | rfl | rfl | rfl | rfl | rfl
      exact plainHex ha; exact plainHex hb; exact plainHex hc; exact plainHex hd
      exact plainHex he; exact plainHex hf; exact plainHex hg; exact plainHex hh) rest
    simp only [List.cons_append, List.nil_append] at h2
    rw [this, h2]
    cases scQuoted q false rest <;> simp

/-! ### strconv.UnquoteChar -/

theorem utf8Enc_small {v : Nat} (h : v < 128) : utf8Enc v = [UInt8.ofNat v] := by simp [utf8Enc, h]

theorem charBytes_cp (v : Nat) (mb : Bool) (h : mb = true ∨ v < 128) : charBytes v mb = elemBytes v false := by
  unfold charBytes elemBytes
  by_cases hv : v < 128
  · simp [hv, utf8Enc_small hv]
  · rcases h with rfl | h
    · simp [hv]
    · exact absurd h hv

theorem charBytes_byte (v : Nat) : charBytes v false = elemBytes v true := by simp [charBytes, elemBytes]

theorem hexN_two {a b : Char} {x y : Nat} (ha : hexVal? a = some x) (hb : hexVal? b = some y) (rest : List Char) :
    hexN 2 0 (a :: b :: rest) = some (x * 16 + y, rest) := by simp [hexN, ha, hb]

/-- strconv.UnquoteChar decodes one element of the Go grammar to its value and stops after it -/
theorem unquoteChar_elem {q : Char} (hq : q = '\'' ∨ q = '"') {src : List Char} {v : Nat} {isb : Bool}
    (h : Elem q src v isb) (rest : List Char) :
    ∃ mb, unquoteChar q (src ++ rest) = some (v, mb, rest) ∧ charBytes v mb = elemBytes v isb := by
  have hbq : ('\\' == q) = false := by rcases hq with rfl | rfl <;> decide
  cases h with
  | plain c h1 h2 h3 =>
    by_cases hc : c.toNat ≥ 128
    · refine ⟨true, ?_, charBytes_cp _ _ (Or.inl rfl)⟩
      simp [unquoteChar, h1, hc]
    · refine ⟨false, ?_, charBytes_cp _ _ (Or.inr (by omega))⟩
      simp [unquoteChar, h1, hc, h2]
  | simple e v he =>
    refine ⟨false, ?_, charBytes_cp _ _ (Or.inr (simpleEsc_lt he))⟩
    simp [unquoteChar, hbq, he]
  | backslash =>
    refine ⟨false, ?_, charBytes_cp _ _ (Or.inr (by decide))⟩
    simp [unquoteChar, hbq, simpleEsc, isOct]
  | quote _ =>
    refine ⟨false, ?_, charBytes_cp _ _ (Or.inr (by rcases hq with rfl | rfl <;> decide))⟩
    rcases hq with rfl | rfl <;> simp [unquoteChar, simpleEsc, isOct]
  | oct a b c x y z ha hb hc hle =>
    refine ⟨false, ?_, charBytes_byte _⟩
    have pa := octVal_plain ha
    have ea := octVal_eq ha
    have hv : ((a.toNat - 48) * 8 + y) * 8 + z = x * 64 + y * 8 + z := by rw [← ea.2.1]; omega
    have hx1 : (a == 'x') = false := by simpa using pa.2.2.2.2.2.1
    have hx2 : (a == 'u') = false := by simpa using pa.2.2.2.2.2.2.1
    have hx3 : (a == 'U') = false := by simpa using pa.2.2.2.2.2.2.2
    have hle' : ¬ (255 < x * 64 + y * 8 + z) := by omega
    simp [unquoteChar, hbq, pa.2.2.2.2.1, hx1, hx2, hx3, ea.1, hb, hc, hv, hle']
  | hex a b x y ha hb =>
    refine ⟨false, ?_, charBytes_byte _⟩
    simp [unquoteChar, hbq, simpleEsc, hexN_two ha hb]
  | u4 a b c d w x y z ha hb hc hd hv =>
    refine ⟨true, ?_, charBytes_cp _ _ (Or.inl rfl)⟩
    simp [unquoteChar, hbq, simpleEsc, hexN, ha, hb, hc, hd, hv]
  | u8 a b c d e f g h s t u v w x y z ha hb hc hd he hf hg hh hv =>
    refine ⟨true, ?_, charBytes_cp _ _ (Or.inl rfl)⟩
    simp [unquoteChar, hbq, simpleEsc, hexN, ha, hb, hc, hd, he, hf, hg, hh, hv]

/-- an element starts with a character that is neither the quote nor a newline -/
theorem elem_head {q : Char} (hq : q = '\'' ∨ q = '"') {src : List Char} {v : Nat} {isb : Bool} (h : Elem q src v isb) :
    ∃ c t, src = c :: t ∧ c ≠ q ∧ c ≠ '\n' := by
  have hb : '\\' ≠ q ∧ ('\\' : Char) ≠ '\n' := by rcases hq with rfl | rfl <;> exact ⟨by decide, by decide⟩
  cases h with
  | plain c h1 h2 h3 => exact ⟨c, [], rfl, h1, h3⟩
  | simple e v he => exact ⟨_, _, rfl, hb⟩
  | backslash => exact ⟨_, _, rfl, hb⟩
  | quote _ => exact ⟨_, _, rfl, hb⟩
  | oct a b c x y z ha hb' hc hle => exact ⟨_, _, rfl, hb⟩
  | hex a b x y ha hb' => exact ⟨_, _, rfl, hb⟩
  | u4 a b c d w x y z ha hb' hc hd hv => exact ⟨_, _, rfl, hb⟩
  | u8 a b c d e f g h s t u v w x y z ha hb' hc hd he hf hg hh hv => exact ⟨_, _, rfl, hb⟩

end EgoVerif.C06
