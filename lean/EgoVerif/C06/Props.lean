import EgoVerif.C06.IntLemmas
import EgoVerif.C06.StrLemmas
import EgoVerif.C06.FloatLemmas
import EgoVerif.C06.Float
/-
C06 — literal values agree with Go: theorems.  `goInt`, `Elem`, `StrBody`, `rawValue` (Spec.lean) are
the Go specification's grammar and values; `egoLit` (Model.lean) is what Ego does, with the proposed
fix (fixes/C06.patch) applied.  strconv.ParseFloat is the parameter `P.pf`.
-/
namespace EgoVerif.C06

/-! ## integers -/

theorem scMant_all {hex : Bool} {r : List Char}
    (h : ∀ c ∈ r, (if hex then isHexDig c else isDec c) = true ∨ c = '_') : scMant hex r = (r, []) := by
  simp [scMant, scDigits_all h, scExp]

theorem scMant_sep {hex : Bool} {p : Char → Bool} {r : List Char}
    (hp : ∀ c, p c = true → (if hex then isHexDig c else isDec c) = true) (h : sepTail p r = true) :
    scMant hex r = (r, []) :=
  scMant_all fun c hc => (sepTail_mem h c hc).imp (hp c) id

/-- text/scanner takes the whole integer literal as one token -/
theorem scanNumber_goInt {s : List Char} {n : Nat} (h : goInt s = some n) : scanNumber s = (s, []) := by
  cases s with
  | nil => simp [goInt] at h
  | cons c0 t =>
    by_cases h0 : c0 = '0'
    · subst h0
      cases t with
      | nil => simp [scanNumber]
      | cons c r =>
        have hdot : ('0' == '.') = false := by decide
        by_cases hx : isX c = true
        · simp [goInt, hx, optSep] at h
          simp [scanNumber, hdot, hx, scMant_sep (hex := true) (p := isHexDig) (by intro x hx'; simpa using hx') h.1.2]
        · by_cases ho : isO c = true
          · simp [goInt, hx, ho, optSep] at h
            simp [scanNumber, hdot, hx, ho,
              scMant_sep (hex := false) (p := isOct) (by intro x hx'; simpa using isOct_isDec hx') h.1.2]
          · by_cases hb : isB c = true
            · simp [goInt, hx, ho, hb, optSep] at h
              simp [scanNumber, hdot, hx, ho, hb,
                scMant_sep (hex := false) (p := isBin) (by intro x hx'; simpa using isBin_isDec hx') h.1.2]
            · simp [goInt, hx, ho, hb, optSep] at h
              simp [scanNumber, hdot, hx, ho, hb,
                scMant_sep (hex := false) (p := isOct) (by intro x hx'; simpa using isOct_isDec hx') h.1]
    · simp [goInt, h0] at h
      have hdot : (c0 == '.') = false := by simpa using (isDec_ne h.1.1).2.2.2.1
      have hall : ∀ c ∈ c0 :: t, (if false then isHexDig c else isDec c) = true ∨ c = '_' := by
        intro x hx'
        simp at hx'
        rcases hx' with rfl | hx'
        · left; simpa using h.1.1
        · exact (sepTail_mem h.1.2 x hx').imp (by intro h1; simpa using h1) id
      simp [scanNumber, hdot, h0, scMant_all hall]

/-- a text that starts with a decimal digit is classified Integer, Float or Value with that spelling -/
theorem classify_digit (P : Prims) {c : Char} {r : List Char} (hc : isDec c = true) :
    (classify P (c :: r)).text? = some (c :: r) := by
  have hn := isDec_ne hc
  have h1 : ((c :: r).head? == some '"' && (c :: r).getLast? == some '"') = false := by simp [hn.1]
  have h2 : ((c :: r).head? == some '`' && (c :: r).getLast? == some '`') = false := by simp [hn.2.1]
  unfold classify
  rw [h1, h2]
  simp only [Bool.false_eq_true, if_false]
  split
  · rfl
  · split <;> rfl

/-- `convertRadixToDecimal` + `pushIntConstant` on any non-string token spelled as a Go integer literal -/
theorem compileAtom_int (P : Prims) {t : Tok} {c : Char} {r : List Char} {n : Nat}
    (ht : t.text? = some (c :: r)) (hc : isDec c = true) (hp : parseUint (c :: r) 0 = some n) (hr : n < 2 ^ 63) :
    compileAtom P t = .int n := by
  have h64 : n < 2 ^ (64 - 1) := hr
  have hcr : convertRadix t = .int (itoa n) := by
    simp [convertRadix, ht, hc, parseInt, hp, h64]
  simp [compileAtom, hcr, pushInt_itoa n hr]

/-- **C06_int.** Every Go integer literal (decimal, binary, octal with or without `o`, hexadecimal,
with `_` separators also directly after the prefix) whose value fits the Go type `int` denotes the
same integer in Ego. -/
theorem C06_int (P : Prims) (s : List Char) (n : Nat) (h : goInt s = some n) (hr : n < 2 ^ 63) :
    egoLit P s = some (.int n) := by
  obtain ⟨c, t, rfl, hc⟩ := goInt_first h
  have hs : scanFirst (c :: t) = some (c :: t, []) := by
    simp [scanFirst, hc, scanNumber_goInt h]
  simp [egoLit, hs, mergeI, compileAtom_int P (classify_digit P hc) hc (parseUint0_goInt h) hr]

/-! ## rune literals -/

theorem quoted_facts (q : Char) (b : List Char) :
    (q :: (b ++ [q])).getLast? = some q ∧ ((q :: (b ++ [q])).drop 1).dropLast = b ∧
    (q :: (b ++ [q])).head? = some q ∧ (q :: (b ++ [q])).length > 1 := by
  refine ⟨?_, ?_, rfl, by simp⟩
  · rw [← List.cons_append, List.getLast?_concat]
  · simp

theorem parseInt_quote (q : Char) (hq : digitVal? q = none) (hu : (q == '_') = false) (r : List Char) (b : Nat) :
    parseInt (q :: r) 10 b = none := by
  simp [parseInt, parseUint, puLoop, hq, hu]

/-- a quoted text that is not a string is a Value token with its spelling -/
theorem classify_rune (P : Prims) (r : List Char) : classify P ('\'' :: r) = .value ('\'' :: r) := by
  have h1 : (('\'' :: r).head? == some '"' && ('\'' :: r).getLast? == some '"') = false := by simp
  have h2 : (('\'' :: r).head? == some '`' && ('\'' :: r).getLast? == some '`') = false := by simp
  have h3 := parseInt_quote '\'' (by decide) (by decide) r 64
  unfold classify
  rw [h1, h2, h3, P.pf_quote]
  simp

/-- **C06_rune.** Every Go rune literal — a single character, or any escape form
`\a \b \f \n \r \t \v \\ \' \ooo \xhh \uhhhh \Uhhhhhhhh` — denotes its code point (byte value) in Ego. -/
theorem C06_rune (P : Prims) (src : List Char) (v : Nat) (isb : Bool) (h : Elem '\'' src v isb) :
    egoLit P ('\'' :: (src ++ ['\''])) = some (.rune v) := by
  have hq : ('\'' : Char) = '\'' ∨ ('\'' : Char) = '"' := Or.inl rfl
  have hscan : scanFirst ('\'' :: (src ++ ['\''])) = some ('\'' :: (src ++ ['\'']), []) := by
    have := scQuoted_elem hq h ['\'']
    simp [scanFirst, isDec, this, scQuoted]
  obtain ⟨mb, hu, -⟩ := unquoteChar_elem hq h []
  simp only [List.append_nil] at hu
  obtain ⟨hl, -, -, -⟩ := quoted_facts '\'' src
  have hrune : compileRune ('\'' :: (src ++ ['\''])) = some (.rune v) := by
    simp [compileRune, hu, hl]
  have hconv : convertRadix (.value ('\'' :: (src ++ ['\'']))) = .value ('\'' :: (src ++ ['\''])) := by
    simp [convertRadix, Tok.text?, isDec]
  simp only [egoLit, hscan, classify_rune, mergeI, List.isEmpty_nil, if_true, Option.map_some, compileAtom]
  rw [hconv]
  simp [hrune]

/-! ## interpreted and raw strings -/

theorem scQuoted_body {body : List Char} {bs : List UInt8} (h : StrBody body bs) :
    scQuoted '"' false (body ++ ['"']) = some (body ++ ['"'], []) := by
  induction h with
  | nil => simp [scQuoted]
  | cons he _ ih =>
    rw [List.append_assoc, scQuoted_elem (Or.inr rfl) he, ih]
    simp

theorem unquoteBody_body {body : List Char} {bs : List UInt8} (h : StrBody body bs) :
    ∀ fuel, body.length < fuel → unquoteBody fuel (body ++ ['"']) = some bs := by
  induction h with
  | nil =>
    intro fuel hf
    cases fuel with
    | zero => omega
    | succ f => simp [unquoteBody]
  | @cons src rest v isb bs' he _ ih =>
    intro fuel hf
    obtain ⟨c, t, rfl, hc1, hc2⟩ := elem_head (Or.inr rfl) he
    obtain ⟨mb, hu, hb⟩ := unquoteChar_elem (Or.inr rfl) he (rest ++ ['"'])
    cases fuel with
    | zero => omega
    | succ f =>
      have hlen : rest.length < f := by simp at hf; omega
      have hc1' : (c == '"') = false := by simpa using hc1
      have hc2' : (c == '\n') = false := by simpa using hc2
      rw [List.append_assoc]
      rw [List.cons_append] at hu ⊢
      rw [unquoteBody]
      simp only [hc1', hc2', Bool.false_eq_true, if_false]
      rw [hu]
      simp [ih f hlen, hb]

/-- **C06_string.** Every Go interpreted string literal denotes in Ego the bytes the Go specification
assigns to it: UTF-8 of plain characters and of `\u`/`\U` escapes, single bytes for `\ooo`/`\xhh`,
the control characters for `\a \b \f \n \r \t \v`, and `\\`, `\"`. -/
theorem C06_string (P : Prims) (body : List Char) (bs : List UInt8) (h : StrBody body bs) :
    egoLit P ('"' :: (body ++ ['"'])) = some (.str bs) := by
  have hscan : scanFirst ('"' :: (body ++ ['"'])) = some ('"' :: (body ++ ['"']), []) := by
    simp [scanFirst, isDec, scQuoted_body h]
  have hcls : classify P ('"' :: (body ++ ['"'])) = .str bs := by
    unfold classify
    obtain ⟨hl, -, hh, -⟩ := quoted_facts '"' body
    rw [hl, hh]
    have hu := unquoteBody_body h (body.length + 1 + 1) (by omega)
    simp [unQuote, hu]
  simp [egoLit, hscan, hcls, mergeI, compileAtom, convertRadix, Tok.text?]

theorem scRaw_body : ∀ (body : List Char), '`' ∉ body → scRaw (body ++ ['`']) = some (body ++ ['`'], []) := by
  intro body
  induction body with
  | nil => intro _; simp [scRaw]
  | cons c r ih =>
    intro h
    simp at h
    have hc : (c == '`') = false := by simpa using (Ne.symm h.1)
    simp [scRaw, hc, ih h.2]

/-- **C06_raw.** A raw string literal denotes its characters, uninterpreted, with carriage returns discarded. -/
theorem C06_raw (P : Prims) (body : List Char) (h : '`' ∉ body) :
    egoLit P ('`' :: (body ++ ['`'])) = some (.str (rawValue body)) := by
  have hscan : scanFirst ('`' :: (body ++ ['`'])) = some ('`' :: (body ++ ['`']), []) := by
    simp [scanFirst, isDec, scRaw_body body h]
  have hcls : classify P ('`' :: (body ++ ['`'])) = .str (rawValue body) := by
    unfold classify
    obtain ⟨hl, hb, hh, -⟩ := quoted_facts '`' body
    rw [hb, hl, hh]
    simp [rawValue]
  simp [egoLit, hscan, hcls, mergeI, compileAtom, convertRadix, Tok.text?]

/-! ## floats and imaginary literals: ParseFloat is a parameter, both sides hand it the same text -/

/-- **C06_float_pipeline.** Whenever text/scanner returns the spelling `s` as one token and strconv.ParseInt
rejects it (base 10 and base 0), Ego's value is `ParseFloat(s)` for exactly the spelling `s`: nothing
rewrites the digits between the source and strconv.ParseFloat.  (Go's value is the correctly rounded
value of the same spelling.) -/
theorem C06_float_pipeline (P : Prims) (c : Char) (r : List Char) (hc : isDec c = true ∨ c = '.')
    (hscan : scanFirst (c :: r) = some (c :: r, [])) (h10 : parseInt (c :: r) 10 64 = none)
    (h0 : parseInt (c :: r) 0 64 = none) (hpf : (P.pf (c :: r)).isSome = true) :
    egoLit P (c :: r) = some (.float (c :: r)) := by
  have hn : c ≠ '"' ∧ c ≠ '`' := by
    rcases hc with hc | rfl
    · exact ⟨(isDec_ne hc).1, (isDec_ne hc).2.1⟩
    · exact ⟨by decide, by decide⟩
  have h1 : ((c :: r).head? == some '"' && (c :: r).getLast? == some '"') = false := by simp [hn.1]
  have h2 : ((c :: r).head? == some '`' && (c :: r).getLast? == some '`') = false := by simp [hn.2]
  have hcls : classify P (c :: r) = .float (c :: r) := by
    unfold classify
    rw [h1, h2, h10]
    simp [hpf]
  have hconv : convertRadix (.float (c :: r)) = .float (c :: r) := by
    simp only [convertRadix, Tok.text?, h0]
    split <;> rfl
  simp only [egoLit, hscan, hcls, mergeI, List.isEmpty_nil, if_true, Option.map_some, compileAtom]
  rw [hconv]
  simp [hpf]

/-- **C06_imag_pipeline** (the partial form of the imaginary claim: the excluded class — a numeric part that is
not classified Integer/Float, i.e. a prefixed integer such as `0x1F` — is the explicit hypothesis `hcls`).
A number token (Integer or Float class) immediately followed by `i` becomes
`complex(0, ParseFloat(s))` for exactly the spelling `s` of the number. -/
theorem C06_imag_pipeline (P : Prims) (s : List Char)
    (hscan : scanFirst (s ++ ['i']) = some (s, ['i']))
    (hcls : classify P s = .int s ∨ classify P s = .float s)
    (h0 : parseInt (s ++ ['i']) 0 64 = none) (hpf : (P.pf s).isSome = true) :
    egoLit P (s ++ ['i']) = some (.imag s) := by
  have htrim : trimI (s ++ ['i']) = s := by simp [trimI]
  have hconv : convertRadix (.complex (s ++ ['i'])) = .complex (s ++ ['i']) := by
    simp only [convertRadix, Tok.text?, h0]
    split
    · split <;> rfl
    · rfl
  have hm : mergeI (classify P s) ['i'] = some (.complex (s ++ ['i'])) := by
    rcases hcls with h | h <;> simp [h, mergeI]
  simp only [egoLit, hscan, hm, Option.map_some, compileAtom]
  rw [hconv]
  simp [htrim, hpf]

/-- **C06_float.** Every Go floating-point literal (decimal with optional fraction/exponent, hexadecimal with
mandatory `p` exponent, `_` separators) on which strconv.ParseFloat succeeds denotes in Ego
`ParseFloat(s)` for exactly its own spelling `s` — the text/scanner takes it as one token, ParseInt
rejects it in base 10 and base 0, and nothing rewrites the digits. -/
theorem C06_float (P : Prims) (s : List Char) (h : goFloat s = true) (hpf : (P.pf s).isSome = true) :
    egoLit P s = some (.float s) := by
  obtain ⟨hscan, c, r, rfl, hc⟩ := scanFirst_goFloat h
  obtain ⟨h10, h0⟩ := parseInt_goFloat h
  exact C06_float_pipeline P c r hc hscan h10 h0 hpf

/-- not proved (stated for the record): imaginary literals whose numeric part is a decimal integer or a
float; `C06_imag_pipeline` is what is proved, the correspondence harness covers the scanner hypotheses -/
def C06_imag_grammar_statement : Prop :=
  ∀ (P : Prims) (s : List Char), (goFloat s = true ∨ sepDigits isDec s = true) → (P.pf s).isSome = true →
    egoLit P (s ++ ['i']) = some (.imag s)

/-! ## non-vacuity: each theorem's hypotheses are met by non-trivial literals -/

/-- a stand-in for ParseFloat that accepts everything except a quoted text (the theorems hold for any `Prims`) -/
def toyPrims : Prims where
  F := Unit
  pf := fun s => match s with | '\'' :: _ => none | _ => some ()
  pf_quote := by intro r; rfl

example : goInt ['0','x','_','F','F'] = some 255 := by decide
example : goInt ['1','_','0','0','0'] = some 1000 := by decide
example : goInt ['0','1','_','7'] = some 15 := by decide
example : goInt ['0','b','1','_','0'] = some 2 := by decide
example : goInt ['0','O','_','7','7'] = some 63 := by decide
example : goInt ['0','x','8','0','0','0','0','0','0','0'] = some 2147483648 := by decide
example : goInt ['0','8'] = none := by decide
example : goInt ['0','x'] = none := by decide
example : goInt ['1','_','_','0'] = none := by decide
example : goInt ['1','_'] = none := by decide
example : egoLit toyPrims ['0','x','_','F','F'] = some (.int 255) := C06_int toyPrims _ _ (by decide) (by decide)

example : egoLit toyPrims ['\'','\\','n','\''] = some (.rune 10) :=
  C06_rune toyPrims _ _ _ (.simple 'n' 10 (by decide))
example : egoLit toyPrims ['\'','\\','\'','\''] = some (.rune 39) :=
  C06_rune toyPrims _ _ _ (.quote (Or.inl rfl))
example : egoLit toyPrims ['\'','\\','3','7','7','\''] = some (.rune 255) :=
  C06_rune toyPrims _ _ _ (.oct '3' '7' '7' 3 7 7 (by decide) (by decide) (by decide) (by decide))
example : egoLit toyPrims ['\'','\\','x','f','F','\''] = some (.rune 255) :=
  C06_rune toyPrims _ _ _ (.hex 'f' 'F' 15 15 (by decide) (by decide))
example : egoLit toyPrims ['\'','\\','u','0','0','e','9','\''] = some (.rune 233) :=
  C06_rune toyPrims _ _ _ (.u4 '0' '0' 'e' '9' 0 0 14 9 (by decide) (by decide) (by decide) (by decide) (by decide))
example : egoLit toyPrims ['\'','"','\''] = some (.rune 34) :=
  C06_rune toyPrims _ _ _ (.plain '"' (by decide) (by decide) (by decide))
/-- a surrogate half is not a rune literal: the `validRune` side condition is not vacuous -/
example : validRune 0xD800 = false := by decide

/-- "a\n\xff\u00e9" denotes the bytes 61 0a ff c3 a9 -/
example : egoLit toyPrims ('"' :: ((['a'] ++ (['\\','n'] ++ (['\\','x','f','f'] ++ (['\\','u','0','0','e','9'] ++ [])))) ++ ['"']))
    = some (.str [0x61, 0x0a, 0xff, 0xc3, 0xa9]) :=
  C06_string toyPrims _ _
    (.cons (.plain 'a' (by decide) (by decide) (by decide))
      (.cons (.simple 'n' 10 (by decide))
        (.cons (.hex 'f' 'f' 15 15 (by decide) (by decide))
          (.cons (.u4 '0' '0' 'e' '9' 0 0 14 9 (by decide) (by decide) (by decide) (by decide) (by decide)) .nil))))

example : egoLit toyPrims ('`' :: (['a','\\','n','\r','\n','b'] ++ ['`'])) = some (.str [0x61, 0x5c, 0x6e, 0x0a, 0x62]) :=
  C06_raw toyPrims _ (by decide)

example : egoLit toyPrims ['1','.','5','e','3'] = some (.float ['1','.','5','e','3']) :=
  C06_float_pipeline toyPrims '1' ['.','5','e','3'] (by decide) (by decide) (by decide) (by decide) (by decide)
example : egoLit toyPrims (['0','1','2','3'] ++ ['i']) = some (.imag ['0','1','2','3']) :=
  C06_imag_pipeline toyPrims _ (by decide) (by decide) (by decide) (by decide)
example : egoLit toyPrims ['0','x','_','1','.','8','p','-','2'] = some (.float ['0','x','_','1','.','8','p','-','2']) :=
  C06_float toyPrims _ (by decide) (by decide)
example : goFloat ['1','.','5'] = true ∧ goFloat ['.','5','e','+','3'] = true ∧ goFloat ['0','x','_','1','.','8','p','-','2'] = true ∧
    goFloat ['0','8','.','5'] = true ∧ goFloat ['1','e','5'] = true := by decide
example : goFloat ['1'] = false ∧ goFloat ['0','x','1'] = false ∧ goFloat ['1','.','e'] = false ∧ goFloat ['1','_','.','5'] = false := by decide

/-! ## known findings on the fixed tree (classes `imag-radix-int`, `min-int64`) -/

/-- `0x1Fi` is a valid Go imaginary literal (31i); Ego's lexer only merges the `i` suffix onto an Integer or
Float token, and `0x1F` is a Value token, so the text is two tokens (a compile error follows). -/
theorem C06_imag_radix_counterexample : egoLit concretePrims ['0','x','1','F','i'] = none := by decide

/-- `-9223372036854775808` is a valid Go int; its operand `9223372036854775808` does not fit int64, so Ego
classifies it as a Float token and the negation is a float64. -/
theorem C06_minint_counterexample :
    egoLit concretePrims ['9','2','2','3','3','7','2','0','3','6','8','5','4','7','7','5','8','0','8'] =
      some (.float ['9','2','2','3','3','7','2','0','3','6','8','5','4','7','7','5','8','0','8']) := by decide

end EgoVerif.C06
