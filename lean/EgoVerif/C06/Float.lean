import EgoVerif.C06.Model
/-
C06 — an executable reference for strconv.ParseFloat(text, 64) on unsigned texts, used ONLY by the
driver to instantiate the parameter `Prims.pf` (the theorems never look inside it).  It is checked
against the real strconv.ParseFloat on every run (driver op `pf`).

Syntax follows strconv/atof.go `readFloat` + `underscoreOK`; the value is the exact rational
m·10^e (or m·2^e for hex), rounded to nearest-even binary64; overflow is an error (ErrRange).
`readFloat` caps the exponent at 10000 digits-wise; the harness keeps exponents below that.
-/
namespace EgoVerif.C06

/-- mantissa loop of readFloat: (mantissa, digits after the dot, sawdot, sawdigits, rest) -/
def rfMant (hex : Bool) : Nat → Nat → Bool → Bool → List Char → Nat × Nat × Bool × Bool × List Char
  | m, fd, dot, dig, [] => (m, fd, dot, dig, [])
  | m, fd, dot, dig, c :: r =>
    if c == '_' then rfMant hex m fd dot dig r
    else if c == '.' then (if dot then (m, fd, dot, dig, c :: r) else rfMant hex m fd true dig r)
    else if isDec c then rfMant hex (m * (if hex then 16 else 10) + (c.toNat - 48)) (if dot then fd + 1 else fd) dot true r
    else if hex && isHexLetter c then
      rfMant hex (m * 16 + ((hexVal? c).getD 0)) (if dot then fd + 1 else fd) dot true r
    else (m, fd, dot, dig, c :: r)

/-- exponent digits loop: digits and '_' -/
def rfExpDigits : Nat → List Char → Nat × List Char
  | e, [] => (e, [])
  | e, c :: r =>
    if c == '_' then rfExpDigits e r
    else if isDec c then rfExpDigits (e * 10 + (c.toNat - 48)) r
    else (e, c :: r)

/-- exact value as a fraction num/den, or none for a syntax error -/
def pfRat (s : List Char) : Option (Nat × Nat) :=
  let hexPre : Bool := match s with
    | '0' :: c :: _ :: _ => isX c
    | _ => false
  let body := if hexPre then s.drop 2 else s
  let (m, fd, _, dig, rest) := rfMant hexPre 0 0 false false body
  if !dig then none else
  let expo : Option (Int × List Char) :=
    match rest with
    | c :: r =>
      if (if hexPre then isP c else isE c) then
        match r with
        | [] => none
        | d :: r' =>
          let (neg, r1) := if d == '+' then (false, r') else if d == '-' then (true, r') else (false, r)
          match r1 with
          | d1 :: _ =>
            if isDec d1 then
              let (e, r2) := rfExpDigits 0 r1
              some ((if neg then -(e : Int) else (e : Int)), r2)
            else none
          | [] => none
      else if hexPre then none else some (0, rest)
    | [] => if hexPre then none else some (0, [])
  match expo with
  | none => none
  | some (e, r2) =>
    if !r2.isEmpty then none
    else if s.contains '_' && !underscoreOK s then none
    else
      let base := if hexPre then 2 else 10
      let e' : Int := e - (if hexPre then 4 * fd else fd : Nat)
      if e' ≥ 0 then some (m * base ^ e'.toNat, 1) else some (m, base ^ (-e').toNat)

/-- round num/den to the nearest-even binary64; none on overflow; result = IEEE bit pattern -/
def roundRat (num den : Nat) : Option Nat :=
  if num == 0 then some 0 else
  let e0 : Int := (Nat.log2 num : Int) - (Nat.log2 den : Int) - 52
  let qOf (e : Int) : Nat := if e ≥ 0 then num / (den * 2 ^ e.toNat) else (num * 2 ^ (-e).toNat) / den
  let e1 : Int := if qOf e0 ≥ 2 ^ 53 then e0 + 1 else if qOf e0 < 2 ^ 52 then e0 - 1 else e0
  let e : Int := if e1 < -1074 then -1074 else e1
  let n' := if e ≥ 0 then num else num * 2 ^ (-e).toNat
  let d' := if e ≥ 0 then den * 2 ^ e.toNat else den
  let q := n' / d'
  let r := n' % d'
  let q := if 2 * r > d' || (2 * r == d' && q % 2 == 1) then q + 1 else q
  let bits := (e + 1075).toNat * 2 ^ 52 + q - 2 ^ 52
  if bits ≥ 0x7FF0000000000000 then none else some bits

/-- strconv.ParseFloat(text, 64) → Float64bits, for texts that start with a digit or '.' -/
def pfBits (s : List Char) : Option Nat :=
  match s with
  | c :: _ =>
    if isDec c || c == '.' then
      match pfRat s with
      | some (n, d) => roundRat n d
      | none => none
    else none
  | [] => none

def concretePrims : Prims where
  F := Nat
  pf := pfBits
  pf_quote := by intro r; simp [pfBits, isDec]

end EgoVerif.C06
