import EgoVerif.Common.Drv
import EgoVerif.C44.Model
/- line protocol (stateful: the rule lists extracted from the source are loaded first)
     `R <s|a> <e|c|l> <hex literal>`   add an eqFold / contains / containsLower rule to the single / all list → `ok`
     `Q <s|a> <hex name>`              → `1` if the endpoint elides the value of that setting, else `0` -/
namespace EgoVerif.C44

structure DrvState where
  single : List Rule := []
  all : List Rule := []

def mkRule (k : String) (t : String) : Option Rule :=
  if k == "e" then some (.eqFold t)
  else if k == "c" then some (.contains t)
  else if k == "l" then some (.containsLower t)
  else none

def stepDrv (s : DrvState) (line : String) : DrvState × String :=
  match fields line with
  | ["R", which, k, h] =>
    match stringOfHex h, which with
    | some t, "s" =>
      match mkRule k t with
      | some r => ({ s with single := s.single ++ [r] }, "ok")
      | none => (s, "bad-rule")
    | some t, "a" =>
      match mkRule k t with
      | some r => ({ s with all := s.all ++ [r] }, "ok")
      | none => (s, "bad-rule")
    | _, _ => (s, "bad-input")
  | ["Q", which, h] =>
    match stringOfHex h with
    | some n =>
      let rules := if which == "s" then s.single else s.all
      (s, if elide rules n.toList then "1" else "0")
    | none => (s, "bad-input")
  | _ => (s, "bad-op")

def drv : Drv := { σ := DrvState, init := {}, step := stepDrv }

end EgoVerif.C44
