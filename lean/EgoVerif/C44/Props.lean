import EgoVerif.C44.Model
/-
C44 — property theorems.

Settings.  `covers rules sp` is a decidable check on a rule LIST; `covers_sound` proves, for every rule list that passes
it, that EVERY name (any string, any length, ASCII case variants included) which the specification calls secret-bearing is
elided.  `C44_settings` instantiates it for the two endpoint lists; the lists regenerated from the source on every run are
discharged in the generated obligation by `decide` on `covers` + this theorem.  `C44_settings_noninterference` is the
semantic reading: two settings stores that differ only in secret-bearing settings produce the same response.

Records.  `C44_structs`: a response site all of whose secret-typed leaves are elided / omitted / sanitized renders the
same bytes for any two stored records that agree on the non-secret fields.
-/
namespace EgoVerif.C44

/-! ### characters -/

theorem foldCanon_of_asciiLower (c d : Char) (h : asciiLower c = d) (hd : d.toNat < 128) : foldCanon c = d := by
  unfold asciiLower at h
  unfold foldCanon
  by_cases hu : isUpper c = true
  · simp only [hu, if_true] at h ⊢
    exact h
  · simp only [hu] at h ⊢
    simp only [Bool.false_eq_true, if_false] at h ⊢
    subst h
    have h1 : ¬ c.toNat = 0x212A := by omega
    have h2 : ¬ c.toNat = 0x17F := by omega
    simp [h1, h2]

theorem goLower_of_asciiLower (c d : Char) (h : asciiLower c = d) (hd : d.toNat < 128) : goLower c = d := by
  unfold asciiLower at h
  unfold goLower
  by_cases hu : isUpper c = true
  · simp only [hu, if_true] at h ⊢
    exact h
  · simp only [hu] at h ⊢
    simp only [Bool.false_eq_true, if_false] at h ⊢
    subst h
    have h1 : ¬ c.toNat = 0x212A := by omega
    have h2 : ¬ c.toNat = 0x130 := by omega
    simp [h1, h2]

/-! ### lists -/

theorem allAscii_cons (c : Char) (cs : List Char) :
    allAscii (c :: cs) = true ↔ c.toNat < 128 ∧ allAscii cs = true := by
  simp [allAscii]

theorem map_foldCanon (n s : List Char) (h : n.map asciiLower = s) (hs : allAscii s = true) :
    n.map foldCanon = s := by
  induction n generalizing s with
  | nil => simpa using h
  | cons c cs ih =>
    cases s with
    | nil => simp at h
    | cons d ds =>
      simp only [List.map_cons, List.cons.injEq] at h
      rw [allAscii_cons] at hs
      simp only [List.map_cons, List.cons.injEq]
      exact ⟨foldCanon_of_asciiLower c d h.1 hs.1, ih ds h.2 hs.2⟩

theorem isPrefix_nil (l : List Char) : isPrefix [] l = true := by
  cases l <;> rfl

theorem prefix_lower (p : List Char) (hp : allAscii p = true) :
    ∀ l : List Char, isPrefix p (l.map asciiLower) = true → isPrefix p (l.map goLower) = true := by
  induction p with
  | nil => intro l _; exact isPrefix_nil _
  | cons a as ih =>
    intro l h
    rw [allAscii_cons] at hp
    cases l with
    | nil => simp [isPrefix] at h
    | cons c cs =>
      simp only [List.map_cons, isPrefix, Bool.and_eq_true, beq_iff_eq] at h ⊢
      have hc : goLower c = a := goLower_of_asciiLower c a h.1.symm hp.1
      exact ⟨hc.symm, ih hp.2 cs h.2⟩

theorem infix_lower (p : List Char) (hp : allAscii p = true) :
    ∀ l : List Char, isInfix p (l.map asciiLower) = true → isInfix p (l.map goLower) = true := by
  intro l
  induction l with
  | nil => intro h; simpa [isInfix] using h
  | cons c cs ih =>
    intro h
    simp only [List.map_cons, isInfix, Bool.or_eq_true] at h ⊢
    cases h with
    | inl h => exact Or.inl (by simpa using prefix_lower p hp (c :: cs) (by simpa using h))
    | inr h => exact Or.inr (ih h)

/-! ### the unbounded part: a covering rule list elides every secret-bearing name -/

theorem covers_sound (rules : List Rule) (sp : Spec) (h : covers rules sp = true)
    (n : List Char) (hn : isSecret sp n = true) : elide rules n = true := by
  simp only [covers, Bool.and_eq_true, List.all_eq_true] at h
  simp only [isSecret, Bool.or_eq_true, List.any_eq_true] at hn
  simp only [elide, List.any_eq_true]
  rcases hn with ⟨s, hs, he⟩ | ⟨s, hs, he⟩
  · have hcov := h.1 s hs
    simp only [Bool.and_eq_true, List.any_eq_true] at hcov
    obtain ⟨ha, r, hr, hc⟩ := hcov
    refine ⟨r, hr, ?_⟩
    have he' : n.map asciiLower = s.toList := by
      have := beq_iff_eq.mp he
      exact this.symm
    cases r with
    | eqFold t =>
      simp only [Rule.coversName, beq_iff_eq] at hc
      simp only [Rule.hit, beq_iff_eq]
      rw [hc]
      exact map_foldCanon n s.toList he' ha
    | contains t => simp [Rule.coversName] at hc
    | containsLower t =>
      simp only [Rule.coversName, Bool.and_eq_true] at hc
      simp only [Rule.hit]
      apply infix_lower t.toList hc.1
      rw [he']
      exact hc.2
  · have hcov := h.2 s hs
    simp only [Bool.and_eq_true, List.any_eq_true] at hcov
    obtain ⟨ha, r, hr, hc⟩ := hcov
    refine ⟨r, hr, ?_⟩
    cases r with
    | eqFold t => simp [Rule.coversSub] at hc
    | contains t => simp [Rule.coversSub] at hc
    | containsLower t =>
      simp only [Rule.coversSub, beq_iff_eq] at hc
      simp only [Rule.hit]
      rw [hc]
      exact infix_lower s.toList ha n he

/-! ### C44 — settings -/

/-- For ANY two rule lists that cover the specification (the decidable check `covers`), every secret-bearing setting
    name — every string, every ASCII case variant — is elided by both configuration endpoints. -/
theorem C44_settings_param (single all : List Rule)
    (hs : covers single spec = true) (ha : covers all spec = true) :
    ∀ name : String, isSecretSetting name = true →
      elide single name.toList = true ∧ elide all name.toList = true :=
  fun name h => ⟨covers_sound single spec hs name.toList h, covers_sound all spec ha name.toList h⟩

theorem fixedRules_cover : covers fixedRules spec = true := by decide

/-- The repaired code (one predicate, `secretSetting`, used by both endpoints). -/
theorem C44_settings : ∀ name : String, isSecretSetting name = true →
    elideSingle name = true ∧ elideAll name = true :=
  C44_settings_param fixedRules fixedRules fixedRules_cover fixedRules_cover

/-- Semantic reading: the response of a configuration endpoint does not depend on the value of any secret-bearing
    setting — two stores that agree on every non-secret name give the same response for every list of keys. -/
theorem C44_settings_noninterference (rules : List Rule) (hc : covers rules spec = true)
    (keys : List String) (σ σ' : String → String)
    (hag : ∀ k, isSecretSetting k = false → σ k = σ' k) :
    respond rules keys σ = respond rules keys σ' := by
  unfold respond
  apply List.map_congr_left
  intro k _
  cases he : elide rules k.toList with
  | true => simp
  | false =>
    have hns : isSecretSetting k = false := by
      cases hsec : isSecretSetting k with
      | false => rfl
      | true =>
        have := covers_sound rules spec hc k.toList hsec
        rw [he] at this
        exact absurd this (by decide)
    simp [hag k hns]

/-- The unrepaired single-setting endpoint returns the refresh token (and does not have a substring rule at all). -/
theorem C44_settings_counterexample_single :
    isSecretSetting "ego.logon.refresh.token" = true ∧ elide origSingle "ego.logon.refresh.token".toList = false ∧
    isSecretSetting "ego.database.password" = true ∧ elide origSingle "ego.database.password".toList = false := by
  decide

/-- The unrepaired all-settings endpoint returns the OAuth client secret, the user-database key, the default
    credential, and any `…PASSWORD` spelled in upper case. -/
theorem C44_settings_counterexample_all :
    isSecretSetting "ego.server.oauth.client.secret" = true ∧ elide origAll "ego.server.oauth.client.secret".toList = false ∧
    isSecretSetting "ego.server.userdata.key" = true ∧ elide origAll "ego.server.userdata.key".toList = false ∧
    isSecretSetting "ego.server.default.credential" = true ∧ elide origAll "ego.server.default.credential".toList = false ∧
    isSecretSetting "x.PASSWORD" = true ∧ elide origAll "x.PASSWORD".toList = false := by
  decide

/-- What the unrepaired lists do guarantee: the three token settings common to both lists, in any ASCII case. -/
def origSpec : Spec := { names := ["ego.server.token.key", "ego.server.token", "ego.logon.token"], subs := [] }

theorem C44_settings_orig_partial : ∀ name : String, isSecret origSpec name.toList = true →
    elide origSingle name.toList = true ∧ elide origAll name.toList = true :=
  fun name h => ⟨covers_sound origSingle origSpec (by decide) name.toList h,
                 covers_sound origAll origSpec (by decide) name.toList h⟩

/-! non-vacuity: the hypotheses are met by non-trivial instances -/
example : isSecretSetting "EGO.Server.Token.KEY" = true := by decide
example : isSecretSetting "my.db.PassWord.file" = true := by decide
example : isSecretSetting "ego.server.token.expiration" = false := by decide
example : elideSingle "Ego.Logon.Refresh.Token" = true := by decide
example : elideAll "ego.compiler.optimize" = false := by decide
example : elide fixedRules "ego.server.toKen.key".toList = true := by decide   -- EqualFold folds KELVIN SIGN to k
example : covers origSingle spec = false := by decide
example : covers origAll spec = false := by decide

/-! ### C44 — records -/

theorem filterMap_congr' {α β : Type} (f g : α → Option β) (l : List α) (h : ∀ x ∈ l, f x = g x) :
    l.filterMap f = l.filterMap g := by
  induction l with
  | nil => rfl
  | cons a as ih =>
    have ha : f a = g a := h a (by simp)
    have hr : ∀ x ∈ as, f x = g x := fun x hx => h x (by simp [hx])
    simp only [List.filterMap_cons, ha, ih hr]

/-- A site that passes `Site.ok` sends the same response for any two stored records that agree on the
    non-secret fields: no secret-typed field of the store influences the response. -/
theorem C44_structs (s : Site) (hok : s.ok = true) (σ σ' : String → String)
    (hag : ∀ l ∈ s.leaves, l.secret = false → σ l.path = σ' l.path) :
    s.render σ = s.render σ' := by
  unfold Site.render
  apply filterMap_congr'
  intro l hl
  have hlok : l.ok = true := by
    simp only [Site.ok, List.all_eq_true] at hok
    exact hok l hl
  unfold Leaf.render
  cases hd : l.disp with
  | elided => rfl
  | sanitized => rfl
  | omitted => rfl
  | copied =>
    cases hsec : l.secret with
    | false => simp [hag l hl hsec]
    | true => simp [Leaf.ok, hsec, hd] at hlok
  | raw =>
    cases hsec : l.secret with
    | false => simp [hag l hl hsec]
    | true => simp [Leaf.ok, hsec, hd] at hlok

/-- a raw secret leaf is observable: the two renders differ as soon as the stored secrets differ -/
theorem C44_structs_raw_leaks (p : String) (σ σ' : String → String) (h : σ p ≠ σ' p) :
    (Site.mk "leaky" [⟨p, true, .raw⟩]).render σ ≠ (Site.mk "leaky" [⟨p, true, .raw⟩]).render σ' := by
  simp [Site.render, Leaf.render, h]

example : (Site.mk "GetDSNHandler" [⟨"$.Name", false, .copied⟩, ⟨"$.Password", true, .elided⟩]).ok = true := by decide
example : (Site.mk "leaky" [⟨"$.Password", true, .raw⟩]).ok = false := by decide

end EgoVerif.C44
