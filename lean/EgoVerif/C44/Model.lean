/-
C44 — stored secrets never appear in responses: executable model (core Lean only).

Part 1 (settings).  internal/server/admin/config.go decides, per setting name, whether the value is replaced by
`defs.ElidedPassword` ("********") before it is sent:
    GetConfigHandler    (POST /admin/config, names chosen by the caller)   — "single"
    GetAllConfigHandler (GET  /admin/config, every key of the store)       — "all"
The decision is a disjunction of three kinds of tests, which the translator (tools/extract_c44) reads off the source:
    util.InList(item, "a", "b", …)                 strings.EqualFold against each literal      → Rule.eqFold
    strings.Contains(item, "p")                    case-sensitive substring                    → Rule.contains
    strings.Contains(strings.ToLower(item), "p")   substring after Unicode lower-casing        → Rule.containsLower
`elide rules name` is the model of that decision; the rule lists are DATA (regenerated on every run).

Part 2 (records).  A JSON response site of the user / DSN / OAuth handlers is a list of leaf fields, each filled in one
of five ways (Disp); `render` is what reaches the client given the stored record σ.
-/
namespace EgoVerif.C44

/-! ### characters: the three case mappings involved -/

def isUpper (c : Char) : Bool := 65 ≤ c.toNat && c.toNat ≤ 90

/-- the SPEC's notion of a case variant: ASCII lower-casing only -/
def asciiLower (c : Char) : Char := if isUpper c then Char.ofNat (c.toNat + 32) else c

/-- Go `strings.EqualFold` compares rune by rune under Unicode simple case folding.  Against an ASCII rune the
    only runes that fold to it are its ASCII case partner, U+212A KELVIN SIGN (k) and U+017F LONG S (s);
    `foldCanon` picks the representative of each such orbit (checked against Go for every rune by the harness author,
    and on every run by the correspondence on names that contain these runes). -/
def foldCanon (c : Char) : Char :=
  if isUpper c then Char.ofNat (c.toNat + 32)
  else if c.toNat = 0x212A then 'k'
  else if c.toNat = 0x17F then 's'
  else c

/-- Go `strings.ToLower`, exact on every rune whose image is ASCII (A–Z, U+212A → k, U+0130 → i); every other
    rune has a non-ASCII image, which is all that matters when the pattern searched for is ASCII. -/
def goLower (c : Char) : Char :=
  if isUpper c then Char.ofNat (c.toNat + 32)
  else if c.toNat = 0x212A then 'k'
  else if c.toNat = 0x130 then 'i'
  else c

/-! ### substring test (strings.Contains on valid UTF-8 = sublist of runes) -/

def isPrefix : List Char → List Char → Bool
  | [], _ => true
  | _ :: _, [] => false
  | p :: ps, c :: cs => p == c && isPrefix ps cs

def isInfix (p : List Char) : List Char → Bool
  | [] => isPrefix p []
  | c :: cs => isPrefix p (c :: cs) || isInfix p cs

/-! ### elision rules -/

inductive Rule where
  | eqFold (t : String)
  | contains (t : String)
  | containsLower (t : String)
  deriving Repr

def Rule.hit : Rule → List Char → Bool
  | .eqFold t, n => n.map foldCanon == t.toList.map foldCanon
  | .contains t, n => isInfix t.toList n
  | .containsLower t, n => isInfix t.toList (n.map goLower)

/-- the `if … { value = defs.ElidedPassword } else { value = settings.Get(item) }` decision -/
def elide (rules : List Rule) (name : List Char) : Bool := rules.any (·.hit name)

/-- the response of a configuration endpoint for the requested keys over the settings store σ -/
def respond (rules : List Rule) (keys : List String) (σ : String → String) : List (String × String) :=
  keys.map fun k => (k, if elide rules k.toList then "********" else σ k)

/-! ### which settings are secret-bearing (the specification) -/

structure Spec where
  names : List String      -- exact names, lower case
  subs : List String       -- substrings, lower case

def isSecret (sp : Spec) (n : List Char) : Bool :=
  let l := n.map asciiLower
  sp.names.any (fun s => s.toList == l) || sp.subs.any (fun s => isInfix s.toList l)

/-- The secret-bearing settings named by the property (ASCII case variants included):
    the server token key (and its legacy spelling kept by both handlers), the logon token, the refresh token, the OAuth
    client secret ("treat this as a password"), the key that encrypts the user database, the default root credential
    ("user:password"), and — as documented on GetAllConfigHandler — any name containing `password`, `credentials`
    (plus `secret`, for client secrets). -/
def spec : Spec :=
  { names := ["ego.server.token.key", "ego.server.token", "ego.logon.token", "ego.logon.refresh.token",
              "ego.server.oauth.client.secret", "ego.server.userdata.key", "ego.server.default.credential"],
    subs := ["password", "credentials", "secret"] }

def isSecretSetting (name : String) : Bool := isSecret spec name.toList

/-! ### a decidable sufficient condition: the rule list covers the specification -/

def allAscii (l : List Char) : Bool := l.all (fun c => decide (c.toNat < 128))

def Rule.coversName (r : Rule) (s : List Char) : Bool :=
  match r with
  | .eqFold t => t.toList.map foldCanon == s
  | .contains _ => false
  | .containsLower t => allAscii t.toList && isInfix t.toList s

def Rule.coversSub (r : Rule) (s : List Char) : Bool :=
  match r with
  | .containsLower t => t.toList == s
  | _ => false

def covers (rules : List Rule) (sp : Spec) : Bool :=
  sp.names.all (fun s => allAscii s.toList && rules.any (·.coversName s.toList)) &&
  sp.subs.all (fun s => allAscii s.toList && rules.any (·.coversSub s.toList))

/-! ### the rule lists of the code (mirror of internal/server/admin/config.go)

`fixedRules` is `secretSetting` of the repaired code (fixes/C44.patch): one predicate shared by both endpoints.
`origSingle` / `origAll` are the lists of the unrepaired code, kept for the counterexamples. -/

def fixedRules : List Rule :=
  [.eqFold "ego.server.token", .eqFold "ego.server.token.key", .eqFold "ego.logon.token",
   .eqFold "ego.logon.refresh.token", .eqFold "ego.server.oauth.client.secret", .eqFold "ego.server.userdata.key",
   .eqFold "ego.server.default.credential",
   .containsLower "password", .containsLower "credentials", .containsLower "secret"]

def origSingle : List Rule :=
  [.eqFold "ego.server.token", .eqFold "ego.server.token.key", .eqFold "ego.logon.token"]

def origAll : List Rule :=
  [.eqFold "ego.server.token", .eqFold "ego.server.token.key", .eqFold "ego.logon.token",
   .eqFold "ego.logon.refresh.token", .contains "password", .contains "credentials"]

def elideSingle (name : String) : Bool := elide fixedRules name.toList
def elideAll (name : String) : Bool := elide fixedRules name.toList

/-! ### response records -/

inductive Disp where
  | elided      -- the handler stores a constant (defs.ElidedPassword or a literal)
  | omitted     -- the handler builds the value and never sets the field (zero value)
  | copied      -- filled from the stored record / computed; allowed for non-secret fields only
  | sanitized   -- comes from a service method every implementation of which overwrites the field with a constant
  | raw         -- secret-typed field filled from the stored record
  deriving Repr, DecidableEq

structure Leaf where
  path : String
  secret : Bool
  disp : Disp
  deriving Repr

structure Site where
  name : String
  leaves : List Leaf
  deriving Repr

def Leaf.ok (l : Leaf) : Bool := !l.secret || (l.disp != .raw && l.disp != .copied)

def Site.ok (s : Site) : Bool := s.leaves.all Leaf.ok

/-- what the client sees of one leaf when the stored record is σ (path ↦ stored value) -/
def Leaf.render (σ : String → String) (l : Leaf) : Option (String × String) :=
  match l.disp with
  | .elided => some (l.path, "********")
  | .sanitized => some (l.path, "********")
  | .omitted => none
  | .copied => some (l.path, σ l.path)
  | .raw => some (l.path, σ l.path)

def Site.render (s : Site) (σ : String → String) : List (String × String) := s.leaves.filterMap (Leaf.render σ)

end EgoVerif.C44
