import EgoVerif.C24.Model
/-
C24 — property theorems for the login rate limiter (model of the code WITH fixes/C24.patch).

A history is a list of operations `attempt u kind | advance d | prune` run from the empty
limiter; time never decreases.  What a client can observe is the list of events
(time, user, outcome ok/denied/locked, was ValidatePassword called).

`obsOf cfg u evs` reads off the OBSERVED trace, for one user, the two quantities the
property speaks about (no look at the limiter's state):
  * `streak` — consecutive denied attempts since the user's last successful login
              (refused attempts are not counted: the password was not looked at),
  * `lockT`  — the time of the most recent denied attempt at which the streak was at or above
              the limit (`none` if there is none since the last success, or the limit is 0).

Theorems (all quantify over every configuration, every history, every user):
  C24_lock_window            once a consulted failure brings the limiter's count to the limit at t₀,
                             the user is refused, password not consulted, at every instant < t₀ + lockout,
                             whatever happens in between (other users, right passwords, prunes)
  C24_locked_partial         the same with the trigger read off the observed trace (`lockT`), for
                             histories in which the pruner has not forgotten failures of this user
  C24_locked_counterexample  … and that hypothesis is needed: the pruner deletes entries whose last
                             failure is older than 2·lockout, so "consecutive failures" spread thinly
                             never lock (known finding `prune-forgets-failures`)
  C24_no_spurious            refused ⇒ limit > 0 and the observed streak reached the limit at some
                             t₀ ≤ now < t₀ + lockout with no success since          (all histories)
  C24_success_clears         a success deletes the record; afterwards it takes `limit` new failures
                             of that user before it is refused again                 (all histories)
  C24_independent            the answers given to u are the same in the history with every other
                             user's attempts erased                                  (all histories)
  C24_limit_zero_never_locks limit 0 ⇒ no attempt is ever refused, from ANY limiter state
  C24_prune_never_unlocks    pruning never changes CheckRateLimit's answer
  C24_old_guard_counterexample  with the unpatched guard `time.Now().After(lockedUntil)` the lock
                             window theorem is false (failure exactly at the unlock instant)
-/
namespace EgoVerif.C24

set_option linter.unusedSectionVars false

variable {U : Type} [DecidableEq U]

/-! ### the observed trace -/

structure Obs where
  streak : Nat
  lockT : Option Nat
  deriving Repr, DecidableEq

def obsStep (cfg : Cfg) (o : Obs) (t : Nat) : Outcome → Obs
  | .ok => ⟨0, none⟩
  | .denied => ⟨o.streak + 1, if 0 < cfg.limit ∧ cfg.limit ≤ o.streak + 1 then some t else o.lockT⟩
  | .locked _ => o

/-- events newest first -/
def obsOf (cfg : Cfg) (u : U) : List (Event U) → Obs
  | [] => ⟨0, none⟩
  | e :: rest => if e.u = u then obsStep cfg (obsOf cfg u rest) e.t e.out else obsOf cfg u rest

/-! ### instrumented run: state, events (newest first), and "the pruner forgot failures of u" -/

/-- `forgot u` becomes true when `pruneLoginAttempts` deletes u's record and false again at
u's next successful login (from then on limiter and observed streak agree again). -/
def forgotStep (cfg : Cfg) (u : U) (s : St U) (f : Bool) : Op U → Bool
  | .prune => f || (match s.recs u with | some r => stale cfg s.now r | none => false)
  | .attempt v k => if v = u ∧ (attempt cfg s v k).2.1 = .ok then false else f
  | .advance _ => f

structure G (U : Type) where
  st : St U
  evs : List (Event U)
  forgot : U → Bool

def gstep (cfg : Cfg) (g : G U) (op : Op U) : G U :=
  { st := (stepOp cfg g.st op).1
    evs := match (stepOp cfg g.st op).2 with | some e => e :: g.evs | none => g.evs
    forgot := fun u => forgotStep cfg u g.st (g.forgot u) op }

def grun (cfg : Cfg) (g : G U) (ops : List (Op U)) : G U := ops.foldl (gstep cfg) g

def ginit : G U := ⟨init, [], fun _ => false⟩

/-- the instrumented run of a history from the empty limiter -/
def hist (cfg : Cfg) (ops : List (Op U)) : G U := grun cfg ginit ops

theorem grun_st (cfg : Cfg) (g : G U) (ops : List (Op U)) : (grun cfg g ops).st = srun cfg g.st ops := by
  induction ops generalizing g with
  | nil => rfl
  | cons op ops ih => simp only [grun, srun, List.foldl_cons] at ih ⊢; exact ih (gstep cfg g op)

/-! ### basic facts about one operation -/

theorem check_zero_limit (cfg : Cfg) (s : St U) (u : U) (h : cfg.limit = 0) : check cfg s u = 0 := by
  simp [check, h]

theorem check_pos_iff (cfg : Cfg) (s : St U) (u : U) :
    0 < check cfg s u ↔ cfg.limit ≠ 0 ∧ ∃ r, s.recs u = some r ∧ s.now < r.lockedUntil := by
  unfold check
  by_cases hl : cfg.limit = 0
  · simp [hl]
  · cases hr : s.recs u with
    | none => simp [hl]
    | some r =>
      by_cases hlt : s.now < r.lockedUntil <;> simp [hl, hlt]

theorem attempt_locked (cfg : Cfg) (s : St U) (u : U) (k : Kind) (h : 0 < check cfg s u) :
    attempt cfg s u k = (s, .locked (check cfg s u), false) := by
  simp [attempt, h]

theorem attempt_good (cfg : Cfg) (s : St U) (u : U) (h : ¬ 0 < check cfg s u) :
    attempt cfg s u .good = (recordSuccess s u, .ok, true) := by
  simp [attempt, h]

theorem attempt_fail (cfg : Cfg) (s : St U) (u : U) (k : Kind) (hk : k ≠ .good) (h : ¬ 0 < check cfg s u) :
    attempt cfg s u k = (recordFailure cfg s u, .denied, true) := by
  cases k <;> simp_all [attempt]

theorem attempt_now (cfg : Cfg) (s : St U) (u : U) (k : Kind) : (attempt cfg s u k).1.now = s.now := by
  by_cases h : 0 < check cfg s u
  · rw [attempt_locked cfg s u k h]
  · cases k <;> simp [attempt, h, recordSuccess, recordFailure] <;> split <;> rfl

theorem attempt_other (cfg : Cfg) (s : St U) (u v : U) (k : Kind) (hv : u ≠ v) :
    (attempt cfg s v k).1.recs u = s.recs u := by
  by_cases h : 0 < check cfg s v
  · rw [attempt_locked cfg s v k h]
  · cases k <;> simp [attempt, h, recordSuccess, recordFailure, upd, hv] <;> split <;> simp [upd, hv]

theorem stepOp_now_le (cfg : Cfg) (s : St U) (op : Op U) : s.now ≤ (stepOp cfg s op).1.now := by
  cases op with
  | attempt u k => simp [stepOp, attempt_now]
  | advance d => simp [stepOp]
  | prune => simp [stepOp, prune]

theorem srun_now_le (cfg : Cfg) (s : St U) (ops : List (Op U)) : s.now ≤ (srun cfg s ops).now := by
  induction ops generalizing s with
  | nil => exact Nat.le_refl _
  | cons op ops ih =>
    simp only [srun, List.foldl_cons] at ih ⊢
    exact Nat.le_trans (stepOp_now_le cfg s op) (ih _)

/-! ### a locked record survives everything until its `lockedUntil` -/

theorem stepOp_keeps_locked (cfg : Cfg) (s : St U) (u : U) (r : Rec) (op : Op U) (hl : cfg.limit ≠ 0)
    (hr : s.recs u = some r) (hn : (stepOp cfg s op).1.now < r.lockedUntil) :
    (stepOp cfg s op).1.recs u = some r := by
  cases op with
  | attempt v k =>
    simp only [stepOp] at hn ⊢
    rw [attempt_now] at hn
    by_cases hv : u = v
    · subst hv
      have hc : 0 < check cfg s u := (check_pos_iff cfg s u).2 ⟨hl, r, hr, hn⟩
      rw [attempt_locked cfg s u k hc]; exact hr
    · rw [attempt_other cfg s u v k hv]; exact hr
  | advance d => simpa [stepOp] using hr
  | prune =>
    simp only [stepOp, prune] at hn ⊢
    have : stale cfg s.now r = false := by
      simp only [stale, Bool.and_eq_false_iff, decide_eq_false_iff_not]; left; omega
    simp [hr, this]

theorem srun_keeps_locked (cfg : Cfg) (s : St U) (u : U) (r : Rec) (ops : List (Op U)) (hl : cfg.limit ≠ 0)
    (hr : s.recs u = some r) (hn : (srun cfg s ops).now < r.lockedUntil) :
    (srun cfg s ops).recs u = some r := by
  induction ops generalizing s with
  | nil => exact hr
  | cons op ops ih =>
    simp only [srun, List.foldl_cons] at ih hn ⊢
    have h1 : (stepOp cfg s op).1.now < r.lockedUntil :=
      Nat.lt_of_le_of_lt (srun_now_le cfg _ ops) hn
    exact ih _ (stepOp_keeps_locked cfg s u r op hl hr h1) hn

/-- **C24_lock_window.**  From ANY limiter state: if an attempt of `u` at time t₀ is consulted and
denied and leaves the limiter's failure count of `u` at or above the (non-zero) limit, then after
ANY further operations (attempts of anyone with any password, prunes, time steps), as long as the
clock is before t₀ + lockout, an attempt of `u` is refused with a positive Retry-After, the
limiter state is untouched and ValidatePassword is not called. -/
theorem C24_lock_window (cfg : Cfg) (s : St U) (u : U) (k : Kind) (r : Rec) (hpos : 0 < cfg.limit)
    (hout : (attempt cfg s u k).2.1 = .denied)
    (hrec : (attempt cfg s u k).1.recs u = some r) (hlim : cfg.limit ≤ r.failures)
    (ops : List (Op U)) (k' : Kind) :
    (srun cfg (attempt cfg s u k).1 ops).now < s.now + cfg.lockout →
    0 < check cfg (srun cfg (attempt cfg s u k).1 ops) u ∧
    attempt cfg (srun cfg (attempt cfg s u k).1 ops) u k' =
      (srun cfg (attempt cfg s u k).1 ops, .locked (check cfg (srun cfg (attempt cfg s u k).1 ops) u), false) := by
  intro hnow
  have hl : cfg.limit ≠ 0 := by omega
  have hc : ¬ 0 < check cfg s u := by
    intro hc; rw [attempt_locked cfg s u k hc] at hout; simp at hout
  have hk : k ≠ .good := by
    intro hk; subst hk; rw [attempt_good cfg s u hc] at hout; simp at hout
  rw [attempt_fail cfg s u k hk hc] at hrec hnow ⊢
  dsimp only at hrec hnow ⊢
  simp only [recordFailure, hl, if_false, upd, if_true] at hrec
  have hlu : r.lockedUntil = s.now + cfg.lockout := by
    have hnl : ∀ r0, s.recs u = some r0 → ¬ s.now < r0.lockedUntil := by
      intro r0 h0 hlt; exact hc ((check_pos_iff cfg s u).2 ⟨hl, r0, h0, hlt⟩)
    cases h0 : s.recs u with
    | none =>
      simp [h0, failRec] at hrec
      split at hrec <;> (cases hrec; simp_all)
    | some r0 =>
      have := hnl r0 h0
      simp [h0, failRec] at hrec
      split at hrec <;> (cases hrec; simp_all)
  have hkeep := srun_keeps_locked cfg (recordFailure cfg s u) u r ops hl
    (by simp [recordFailure, hl, upd, hrec]) (by omega)
  have hpos' : 0 < check cfg (srun cfg (recordFailure cfg s u) ops) u :=
    (check_pos_iff cfg _ u).2 ⟨hl, r, hkeep, by omega⟩
  exact ⟨hpos', attempt_locked cfg _ u k' hpos'⟩

/-! ### how one operation changes what concerns one user -/

/-- the five ways an operation can touch (clock, record of u, observed trace of u, forgot u) -/
inductive View (cfg : Cfg) (g g' : G U) (u : U) : Prop where
  | same (hrec : g'.st.recs u = g.st.recs u) (hobs : obsOf cfg u g'.evs = obsOf cfg u g.evs)
      (hf : g'.forgot u = g.forgot u) (hnow : g.st.now ≤ g'.st.now)
  | ok (hrec : g'.st.recs u = none) (hobs : obsOf cfg u g'.evs = ⟨0, none⟩)
      (hf : g'.forgot u = false) (hnow : g'.st.now = g.st.now)
  | denied (hc : ¬ 0 < check cfg g.st u)
      (hrec : g'.st.recs u = if cfg.limit = 0 then g.st.recs u else some (failRec cfg g.st.now (g.st.recs u)))
      (hobs : obsOf cfg u g'.evs = obsStep cfg (obsOf cfg u g.evs) g.st.now .denied)
      (hf : g'.forgot u = g.forgot u) (hnow : g'.st.now = g.st.now)
  | pruned (r : Rec) (hold : g.st.recs u = some r) (hst : stale cfg g.st.now r = true)
      (hrec : g'.st.recs u = none) (hobs : obsOf cfg u g'.evs = obsOf cfg u g.evs)
      (hf : g'.forgot u = true) (hnow : g'.st.now = g.st.now)

theorem gstep_view (cfg : Cfg) (g : G U) (u : U) (op : Op U) : View cfg g (gstep cfg g op) u := by
  cases op with
  | attempt v k =>
    by_cases hv : v = u
    · subst hv
      by_cases hc : 0 < check cfg g.st v
      · refine .same ?_ ?_ ?_ ?_ <;>
          simp [gstep, stepOp, forgotStep, obsOf, obsStep, attempt_locked cfg g.st v k hc]
      · by_cases hk : k = .good
        · subst hk
          refine .ok ?_ ?_ ?_ ?_ <;>
            simp [gstep, stepOp, forgotStep, obsOf, obsStep, attempt_good cfg g.st v hc, recordSuccess, upd]
        · refine .denied hc ?_ ?_ ?_ ?_ <;>
            simp [gstep, stepOp, forgotStep, obsOf, obsStep, attempt_fail cfg g.st v k hk hc, recordFailure]
          · split <;> simp [upd]
          · split <;> rfl
    · have hv' : u ≠ v := fun h => hv h.symm
      refine .same ?_ ?_ ?_ ?_
      · simp [gstep, stepOp, attempt_other cfg g.st u v k hv']
      · simp [gstep, stepOp, obsOf, hv]
      · simp [gstep, forgotStep, hv]
      · simp [gstep, stepOp, attempt_now]
  | advance d =>
    refine .same ?_ ?_ ?_ ?_ <;> simp [gstep, stepOp, forgotStep]
  | prune =>
    cases hr : g.st.recs u with
    | none =>
      refine .same ?_ ?_ ?_ ?_ <;> simp [gstep, stepOp, forgotStep, prune, hr]
    | some r =>
      by_cases hst : stale cfg g.st.now r = true
      · refine .pruned r hr hst ?_ ?_ ?_ ?_ <;> simp [gstep, stepOp, forgotStep, prune, hr, hst]
      · refine .same ?_ ?_ ?_ ?_ <;> simp [gstep, stepOp, forgotStep, prune, hr, hst]

theorem failRec_failures (cfg : Cfg) (now : Nat) (old : Option Rec) :
    (failRec cfg now old).failures = (old.getD ⟨0, 0, 0⟩).failures + 1 := by
  simp only [failRec]; split <;> rfl

theorem failRec_last (cfg : Cfg) (now : Nat) (old : Option Rec) :
    (failRec cfg now old).lastFailure = now := by
  simp only [failRec]; split <;> rfl

theorem failRec_lu (cfg : Cfg) (now : Nat) (old : Option Rec) :
    (cfg.limit ≤ (old.getD ⟨0, 0, 0⟩).failures + 1 ∧ ¬ now < (old.getD ⟨0, 0, 0⟩).lockedUntil →
      (failRec cfg now old).lockedUntil = now + cfg.lockout) ∧
    (¬ (cfg.limit ≤ (old.getD ⟨0, 0, 0⟩).failures + 1 ∧ ¬ now < (old.getD ⟨0, 0, 0⟩).lockedUntil) →
      (failRec cfg now old).lockedUntil = (old.getD ⟨0, 0, 0⟩).lockedUntil) := by
  constructor <;> intro h <;> simp only [failRec, h] <;> simp

theorem obsDenied_streak (cfg : Cfg) (o : Obs) (t : Nat) :
    (obsStep cfg o t .denied).streak = o.streak + 1 := rfl

theorem obsDenied_lockT (cfg : Cfg) (o : Obs) (t : Nat) :
    (0 < cfg.limit ∧ cfg.limit ≤ o.streak + 1 → (obsStep cfg o t .denied).lockT = some t) ∧
    (¬ (0 < cfg.limit ∧ cfg.limit ≤ o.streak + 1) → (obsStep cfg o t .denied).lockT = o.lockT) := by
  constructor <;> intro h <;> simp only [obsStep, h] <;> simp


/-! ### the invariant tying the limiter's record of u to the observed trace of u -/

structure InvU (cfg : Cfg) (g : G U) (u : U) : Prop where
  lockT_ok : ∀ t, (obsOf cfg u g.evs).lockT = some t →
    t ≤ g.st.now ∧ 0 < cfg.limit ∧ cfg.limit ≤ (obsOf cfg u g.evs).streak
  none_streak : g.st.recs u = none → cfg.limit ≠ 0 → g.forgot u = false → (obsOf cfg u g.evs).streak = 0
  basic : ∀ r, g.st.recs u = some r →
    cfg.limit ≠ 0 ∧ 1 ≤ r.failures ∧ r.failures ≤ (obsOf cfg u g.evs).streak ∧
    r.lastFailure ≤ g.st.now ∧ r.lockedUntil ≤ r.lastFailure + cfg.lockout
  locked : ∀ r, g.st.recs u = some r → g.st.now < r.lockedUntil →
    ∃ t1, (obsOf cfg u g.evs).lockT = some t1 ∧ r.lockedUntil ≤ t1 + cfg.lockout
  exact : ∀ r, g.st.recs u = some r → g.forgot u = false →
    r.failures = (obsOf cfg u g.evs).streak ∧
    ∀ t0, (obsOf cfg u g.evs).lockT = some t0 → r.lockedUntil = t0 + cfg.lockout

theorem inv_init (cfg : Cfg) (u : U) : InvU cfg (ginit : G U) u := by
  constructor <;> simp [ginit, init, obsOf]

theorem inv_step (cfg : Cfg) (g : G U) (u : U) (op : Op U) (h : InvU cfg g u) :
    InvU cfg (gstep cfg g op) u := by
  obtain ⟨h1, h2, h3, h4, h5⟩ := h
  cases gstep_view cfg g u op with
  | same hrec hobs hf hnow =>
    constructor
    · intro t ht; rw [hobs] at ht ⊢; have := h1 t ht; omega
    · intro a b c; rw [hobs]; rw [hrec] at a; rw [hf] at c; exact h2 a b c
    · intro r hr; rw [hobs]; rw [hrec] at hr; have := h3 r hr; omega
    · intro r hr hlt; rw [hobs]; rw [hrec] at hr; exact h4 r hr (by omega)
    · intro r hr hfg; rw [hobs]; rw [hrec] at hr; rw [hf] at hfg; exact h5 r hr hfg
  | ok hrec hobs hf hnow =>
    constructor
    · intro t ht; rw [hobs] at ht; simp at ht
    · intro _ _ _; rw [hobs]
    · intro r hr; rw [hrec] at hr; simp at hr
    · intro r hr; rw [hrec] at hr; simp at hr
    · intro r hr; rw [hrec] at hr; simp at hr
  | pruned r hold hst hrec hobs hf hnow =>
    constructor
    · intro t ht; rw [hobs] at ht ⊢; have := h1 t ht; omega
    · intro _ _ c; rw [hf] at c; simp at c
    · intro r hr; rw [hrec] at hr; simp at hr
    · intro r hr; rw [hrec] at hr; simp at hr
    · intro r hr; rw [hrec] at hr; simp at hr
  | denied hc hrec hobs hf hnow =>
    by_cases hl : cfg.limit = 0
    · -- lockout disabled: the limiter keeps no record at all
      have hnone : g.st.recs u = none := by
        cases hr : g.st.recs u with
        | none => rfl
        | some r => exact absurd hl (h3 r hr).1
      simp only [hl, if_true] at hrec
      have hlk : (obsOf cfg u g.evs).lockT = none := by
        cases hk : (obsOf cfg u g.evs).lockT with
        | none => rfl
        | some t => have := h1 t hk; omega
      constructor
      · intro t ht; rw [hobs] at ht; simp [obsStep, hl, hlk] at ht
      · intro _ b _; exact absurd hl b
      · intro r hr; rw [hrec, hnone] at hr; simp at hr
      · intro r hr; rw [hrec, hnone] at hr; simp at hr
      · intro r hr; rw [hrec, hnone] at hr; simp at hr
    · simp only [hl, if_false] at hrec
      have hpos : 0 < cfg.limit := by omega
      -- facts about the old record (or the fresh zero record)
      have hA : ((g.st.recs u).getD ⟨0, 0, 0⟩).failures ≤ (obsOf cfg u g.evs).streak ∧
          ((g.st.recs u).getD ⟨0, 0, 0⟩).lockedUntil ≤ g.st.now ∧
          (g.forgot u = false → ((g.st.recs u).getD ⟨0, 0, 0⟩).failures = (obsOf cfg u g.evs).streak) := by
        cases hold : g.st.recs u with
        | none =>
          refine ⟨by simp, by simp, ?_⟩
          intro hfg; have := h2 hold hl hfg; simp [this]
        | some r0 =>
          have hb := h3 r0 hold
          have hnl : ¬ g.st.now < r0.lockedUntil := by
            intro hlt; exact hc ((check_pos_iff cfg g.st u).2 ⟨hl, r0, hold, hlt⟩)
          refine ⟨by simp; omega, by simp; omega, ?_⟩
          intro hfg; have := h5 r0 hold hfg; simp [this.1]
      obtain ⟨hA1, hA2, hA3⟩ := hA
      have hF := failRec_failures cfg g.st.now (g.st.recs u)
      have hT := failRec_last cfg g.st.now (g.st.recs u)
      have hL := failRec_lu cfg g.st.now (g.st.recs u)
      have hS := obsDenied_streak cfg (obsOf cfg u g.evs) g.st.now
      have hK := obsDenied_lockT cfg (obsOf cfg u g.evs) g.st.now
      rw [← hobs] at hS hK
      generalize failRec cfg g.st.now (g.st.recs u) = r' at hrec hF hT hL
      generalize (g.st.recs u).getD ⟨0, 0, 0⟩ = r0 at hA1 hA2 hA3 hF hL
      constructor
      · intro t ht
        by_cases hg : 0 < cfg.limit ∧ cfg.limit ≤ (obsOf cfg u g.evs).streak + 1
        · rw [hK.1 hg] at ht; cases ht; omega
        · rw [hK.2 hg] at ht; have := h1 t ht; omega
      · intro a; rw [hrec] at a; simp at a
      · intro r hr; rw [hrec] at hr; cases hr
        by_cases hg : cfg.limit ≤ r0.failures + 1 ∧ ¬ g.st.now < r0.lockedUntil
        · have := hL.1 hg; omega
        · have := hL.2 hg; omega
      · intro r hr hlt; rw [hrec] at hr; cases hr
        by_cases hg : cfg.limit ≤ r0.failures + 1 ∧ ¬ g.st.now < r0.lockedUntil
        · have := hL.1 hg
          refine ⟨g.st.now, hK.1 ⟨hpos, by omega⟩, by omega⟩
        · have := hL.2 hg; omega
      · intro r hr hfg; rw [hrec] at hr; cases hr
        rw [hf] at hfg
        have := hA3 hfg
        refine ⟨by omega, ?_⟩
        intro t0 ht0
        by_cases hg : 0 < cfg.limit ∧ cfg.limit ≤ (obsOf cfg u g.evs).streak + 1
        · rw [hK.1 hg] at ht0; cases ht0
          have := hL.1 ⟨by omega, by omega⟩; omega
        · rw [hK.2 hg] at ht0; have := h1 t0 ht0; omega

theorem inv_grun (cfg : Cfg) (g : G U) (u : U) (ops : List (Op U)) (h : InvU cfg g u) :
    InvU cfg (grun cfg g ops) u := by
  induction ops generalizing g with
  | nil => exact h
  | cons op ops ih => simp only [grun, List.foldl_cons] at ih ⊢; exact ih _ (inv_step cfg g u op h)

theorem inv_hist (cfg : Cfg) (ops : List (Op U)) (u : U) : InvU cfg (hist cfg ops) u :=
  inv_grun cfg ginit u ops (inv_init cfg u)

/-! ### the property theorems over all histories -/

theorem hist_append (cfg : Cfg) (ops ops' : List (Op U)) :
    hist cfg (ops ++ ops') = grun cfg (hist cfg ops) ops' := by
  simp [hist, grun, List.foldl_append]

theorem isLocked_iff (cfg : Cfg) (s : St U) (u : U) (k : Kind) :
    (attempt cfg s u k).2.1.isLocked = true ↔ 0 < check cfg s u := by
  by_cases h : 0 < check cfg s u
  · simp [attempt_locked cfg s u k h, Outcome.isLocked, h]
  · by_cases hk : k = .good
    · subst hk; simp [attempt_good cfg s u h, Outcome.isLocked, h]
    · simp [attempt_fail cfg s u k hk h, Outcome.isLocked, h]

/-- **C24_locked_partial.**  For every history in which the pruner has not deleted a record of
`u` since u's last success: if the observed trace says that u's consecutive denied attempts
reached the limit at t₀ (no success since) and the clock is before t₀ + lockout, then an
attempt of `u` — whatever the password — is refused with a positive Retry-After, without calling
ValidatePassword and without touching the limiter. -/
theorem C24_locked_partial (cfg : Cfg) (ops : List (Op U)) (u : U) (k : Kind) (t0 : Nat)
    (hforgot : (hist cfg ops).forgot u = false)
    (hlock : (obsOf cfg u (hist cfg ops).evs).lockT = some t0)
    (hwin : (hist cfg ops).st.now < t0 + cfg.lockout) :
    0 < check cfg (hist cfg ops).st u ∧
    attempt cfg (hist cfg ops).st u k =
      ((hist cfg ops).st, .locked (check cfg (hist cfg ops).st u), false) := by
  have inv := inv_hist cfg ops u
  have h1 := inv.lockT_ok t0 hlock
  have hl : cfg.limit ≠ 0 := by omega
  cases hr : (hist cfg ops).st.recs u with
  | none => have := inv.none_streak hr hl hforgot; omega
  | some r =>
    have h5 := (inv.exact r hr hforgot).2 t0 hlock
    have hc : 0 < check cfg (hist cfg ops).st u :=
      (check_pos_iff cfg _ u).2 ⟨hl, r, hr, by omega⟩
    exact ⟨hc, attempt_locked cfg _ u k hc⟩

/-- **C24_no_spurious.**  For EVERY history (prunes included): an attempt of `u` is refused only
if the limit is non-zero and the observed trace shows a denied attempt of `u` at some
t₀ ≤ now < t₀ + lockout at which u's consecutive denied attempts (no success since) had reached
the limit. -/
theorem C24_no_spurious (cfg : Cfg) (ops : List (Op U)) (u : U) (k : Kind)
    (h : (attempt cfg (hist cfg ops).st u k).2.1.isLocked = true) :
    0 < cfg.limit ∧ ∃ t0, (obsOf cfg u (hist cfg ops).evs).lockT = some t0 ∧
      t0 ≤ (hist cfg ops).st.now ∧ (hist cfg ops).st.now < t0 + cfg.lockout ∧
      cfg.limit ≤ (obsOf cfg u (hist cfg ops).evs).streak := by
  have inv := inv_hist cfg ops u
  obtain ⟨hl, r, hr, hlt⟩ := (check_pos_iff cfg _ u).1 ((isLocked_iff cfg _ u k).1 h)
  obtain ⟨t1, ht1, hle⟩ := inv.locked r hr hlt
  have := inv.lockT_ok t1 ht1
  exact ⟨by omega, t1, ht1, by omega, by omega, by omega⟩

/-- number of attempts of `u` with a credential that cannot succeed -/
def failCount (u : U) : List (Op U) → Nat
  | [] => 0
  | .attempt v k :: ops => (if v = u ∧ k ≠ .good then 1 else 0) + failCount u ops
  | _ :: ops => failCount u ops

theorem streak_gstep_le (cfg : Cfg) (g : G U) (u : U) (op : Op U) :
    (obsOf cfg u (gstep cfg g op).evs).streak ≤ (obsOf cfg u g.evs).streak + failCount u [op] := by
  cases op with
  | attempt v k =>
    by_cases hv : v = u
    · subst hv
      by_cases hc : 0 < check cfg g.st v
      · simp [gstep, stepOp, obsOf, obsStep, attempt_locked cfg g.st v k hc]
      · by_cases hk : k = .good
        · subst hk; simp [gstep, stepOp, obsOf, obsStep, attempt_good cfg g.st v hc]
        · simp [gstep, stepOp, obsOf, obsStep, attempt_fail cfg g.st v k hk hc, failCount, hk]
    · simp [gstep, stepOp, obsOf, hv]
  | advance d => simp [gstep, stepOp]
  | prune => simp [gstep, stepOp]

theorem failCount_cons (u : U) (op : Op U) (ops : List (Op U)) :
    failCount u (op :: ops) = failCount u [op] + failCount u ops := by
  cases op <;> simp [failCount]

theorem streak_grun_le (cfg : Cfg) (g : G U) (u : U) (ops : List (Op U)) :
    (obsOf cfg u (grun cfg g ops).evs).streak ≤ (obsOf cfg u g.evs).streak + failCount u ops := by
  induction ops generalizing g with
  | nil => simp [grun, failCount]
  | cons op ops ih =>
    have h1 := streak_gstep_le cfg g u op
    have h2 := ih (gstep cfg g op)
    rw [failCount_cons]
    simp only [grun, List.foldl_cons] at h2 ⊢
    omega

/-- **C24_success_clears.**  For EVERY history: a successful login of `u` deletes u's failure
record, and from then on `u` is not refused before at least `limit` further attempts of `u` with
a bad credential have been made — whatever else happens (other users, prunes, time). -/
theorem C24_success_clears (cfg : Cfg) (ops : List (Op U)) (u : U)
    (hok : (attempt cfg (hist cfg ops).st u .good).2.1 = .ok) (ops' : List (Op U)) (k : Kind) :
    (hist cfg (ops ++ [.attempt u .good])).st.recs u = none ∧
    ((attempt cfg (hist cfg (ops ++ [.attempt u .good] ++ ops')).st u k).2.1.isLocked = true →
      cfg.limit ≤ failCount u ops') := by
  have hc : ¬ 0 < check cfg (hist cfg ops).st u := by
    intro hc; rw [attempt_locked cfg _ u .good hc] at hok; simp at hok
  have hg1 : hist cfg (ops ++ [.attempt u .good]) = gstep cfg (hist cfg ops) (.attempt u .good) := by
    rw [hist_append]; rfl
  constructor
  · rw [hg1]; simp [gstep, stepOp, attempt_good cfg _ u hc, recordSuccess, upd]
  · intro hlk
    obtain ⟨_, t0, _, _, _, hlim⟩ := C24_no_spurious cfg _ u k hlk
    rw [hist_append, hg1] at hlim
    have h0 : (obsOf cfg u (gstep cfg (hist cfg ops) (.attempt u .good)).evs).streak = 0 := by
      simp [gstep, stepOp, obsOf, obsStep, attempt_good cfg _ u hc]
    have := streak_grun_le cfg (gstep cfg (hist cfg ops) (.attempt u .good)) u ops'
    omega

/-- **C24_limit_zero_never_locks.**  With the limit set to 0, from ANY limiter state (leftover
records included) no attempt is refused and the password is always consulted. -/
theorem C24_limit_zero_never_locks (cfg : Cfg) (h0 : cfg.limit = 0) (s : St U) (u : U) (k : Kind) :
    (attempt cfg s u k).2.1.isLocked = false ∧ (attempt cfg s u k).2.2 = true := by
  have hc : ¬ 0 < check cfg s u := by simp [check_zero_limit cfg s u h0]
  by_cases hk : k = .good
  · subst hk; simp [attempt_good cfg s u hc, Outcome.isLocked]
  · simp [attempt_fail cfg s u k hk hc, Outcome.isLocked]

theorem grun_evs_all (cfg : Cfg) (P : Event U → Prop)
    (hstep : ∀ (s : St U) op e, (stepOp cfg s op).2 = some e → P e)
    (g : G U) (ops : List (Op U)) (hg : ∀ e ∈ g.evs, P e) : ∀ e ∈ (grun cfg g ops).evs, P e := by
  induction ops generalizing g with
  | nil => exact hg
  | cons op ops ih =>
    simp only [grun, List.foldl_cons] at ih ⊢
    apply ih
    intro e he
    simp only [gstep] at he
    cases hs : (stepOp cfg g.st op).2 with
    | none => rw [hs] at he; exact hg e he
    | some e' =>
      rw [hs] at he
      cases he with
      | head => exact hstep _ _ _ hs
      | tail _ h => exact hg e h

/-- … hence no event of any history is a refusal when the limit is 0. -/
theorem C24_limit_zero_history (cfg : Cfg) (h0 : cfg.limit = 0) (ops : List (Op U)) :
    ∀ e ∈ (hist cfg ops).evs, e.out.isLocked = false ∧ e.called = true := by
  apply grun_evs_all cfg (fun e => e.out.isLocked = false ∧ e.called = true)
  · intro s op e he
    cases op with
    | attempt u k => simp [stepOp] at he; subst he; exact C24_limit_zero_never_locks cfg h0 s u k
    | advance d => simp [stepOp] at he
    | prune => simp [stepOp] at he
  · intro e he; simp [ginit] at he

/-- **C24_limit_zero_after_reconfig.**  The settings may change in the middle of a history: whatever
history ran under whatever earlier configuration `cfg` (from any state, so lockout records may exist
and be running), once the limit is set to 0 (`cfg'`) no attempt is refused and the password is
consulted — and this stays so after any further history under `cfg'`. -/
theorem C24_limit_zero_after_reconfig (cfg cfg' : Cfg) (h0 : cfg'.limit = 0) (s : St U)
    (ops ops' : List (Op U)) (u : U) (k : Kind) :
    (attempt cfg' (srun cfg' (srun cfg s ops) ops') u k).2.1.isLocked = false ∧
    (attempt cfg' (srun cfg' (srun cfg s ops) ops') u k).2.2 = true :=
  C24_limit_zero_never_locks cfg' h0 _ u k

/-- non-vacuity: user 0 is locked out under limit 2 (an attempt is refused), the limit is then set to 0
while that lockout is running, and the next attempt is answered on the password -/
example : (attempt ⟨2, 10⟩ (srun ⟨2, 10⟩ (init : St Nat) [.attempt 0 .bad, .attempt 0 .bad]) 0 .good).2.1.isLocked = true ∧
    (attempt ⟨0, 10⟩ (srun ⟨0, 10⟩ (srun ⟨2, 10⟩ (init : St Nat) [.attempt 0 .bad, .attempt 0 .bad]) [.advance 1]) 0 .good).2.1
      = .ok := by decide

/-- **C24_prune_never_unlocks.**  `pruneLoginAttempts` never changes the answer of
`CheckRateLimit` for any user, in any state. -/
theorem C24_prune_never_unlocks (cfg : Cfg) (s : St U) (u : U) :
    check cfg (prune cfg s) u = check cfg s u := by
  unfold check
  by_cases hl : cfg.limit = 0
  · simp [hl]
  · simp only [hl, if_false, prune]
    cases hr : s.recs u with
    | none => simp
    | some r =>
      by_cases hst : stale cfg s.now r = true
      · have : ¬ s.now < r.lockedUntil := by
          simp only [stale, Bool.and_eq_true, decide_eq_true_eq] at hst; omega
        simp [hst, this]
      · have hst' : stale cfg s.now r = false := by simpa using hst
        simp only [hst']; rfl

/-- what the pruner forgets is stale: a record it deletes had its last failure more than
2·lockout ago and is not locked -/
theorem C24_prune_forgets_only_stale (cfg : Cfg) (s : St U) (u : U) (h : (prune cfg s).recs u ≠ s.recs u) :
    ∃ r, s.recs u = some r ∧ r.lastFailure + 2 * cfg.lockout < s.now ∧ r.lockedUntil < s.now := by
  simp only [prune] at h
  cases hr : s.recs u with
  | none => simp [hr] at h
  | some r =>
    by_cases hst : stale cfg s.now r = true
    · simp only [stale, Bool.and_eq_true, decide_eq_true_eq] at hst
      exact ⟨r, rfl, hst.2, hst.1⟩
    · simp [hr, hst] at h

/-! ### users are independent -/

/-- keep time steps, prunes and the attempts of `u`; erase every other user's attempts -/
def mine (u : U) : Op U → Bool
  | .attempt v _ => decide (v = u)
  | _ => true

def erase (u : U) (ops : List (Op U)) : List (Op U) := ops.filter (mine u)

/-- the events of `u` (oldest first) when `ops` runs from `s` -/
def answers (cfg : Cfg) (u : U) : St U → List (Op U) → List (Event U)
  | _, [] => []
  | s, op :: ops =>
    (match (stepOp cfg s op).2 with
      | some e => if e.u = u then [e] else []
      | none => []) ++ answers cfg u (stepOp cfg s op).1 ops

theorem check_congr (cfg : Cfg) (s s' : St U) (u : U) (hn : s.now = s'.now) (hr : s.recs u = s'.recs u) :
    check cfg s u = check cfg s' u := by
  simp [check, hn, hr]

theorem attempt_congr (cfg : Cfg) (s s' : St U) (u : U) (k : Kind)
    (hn : s.now = s'.now) (hr : s.recs u = s'.recs u) :
    (attempt cfg s u k).2 = (attempt cfg s' u k).2 ∧
    (attempt cfg s u k).1.now = (attempt cfg s' u k).1.now ∧
    (attempt cfg s u k).1.recs u = (attempt cfg s' u k).1.recs u := by
  have hcc := check_congr cfg s s' u hn hr
  by_cases hc : 0 < check cfg s u
  · have hc' : 0 < check cfg s' u := hcc ▸ hc
    rw [attempt_locked cfg s u k hc, attempt_locked cfg s' u k hc']
    simp [hcc, hn, hr]
  · have hc' : ¬ 0 < check cfg s' u := hcc ▸ hc
    by_cases hk : k = .good
    · subst hk
      rw [attempt_good cfg s u hc, attempt_good cfg s' u hc']
      simp [recordSuccess, upd, hn]
    · rw [attempt_fail cfg s u k hk hc, attempt_fail cfg s' u k hk hc']
      simp only [recordFailure]
      split <;> simp [upd, hn, hr]

theorem answers_erase (cfg : Cfg) (u : U) (s s' : St U) (ops : List (Op U))
    (hn : s.now = s'.now) (hr : s.recs u = s'.recs u) :
    answers cfg u s ops = answers cfg u s' (erase u ops) := by
  induction ops generalizing s s' with
  | nil => rfl
  | cons op ops ih =>
    cases op with
    | attempt v k =>
      by_cases hv : v = u
      · subst hv
        obtain ⟨h2, h3, h4⟩ := attempt_congr cfg s s' v k hn hr
        have he : erase v (Op.attempt v k :: ops) = Op.attempt v k :: erase v ops := by
          simp [erase, mine]
        rw [he]
        simp only [answers, stepOp, if_true]
        rw [ih _ _ h3 h4, h2, hn]
      · have he : erase u (Op.attempt v k :: ops) = erase u ops := by
          simp [erase, mine, hv]
        rw [he]
        simp only [answers, stepOp, hv, if_false, List.nil_append]
        apply ih
        · rw [attempt_now]; exact hn
        · rw [attempt_other cfg s u v k (fun h => hv h.symm)]; exact hr
    | advance d =>
      have he : erase u (Op.advance d :: ops) = Op.advance d :: erase u ops := by
        simp [erase, List.filter_cons, show mine u (Op.advance d) = true from rfl]
      rw [he]
      simp only [answers, stepOp, List.nil_append]
      apply ih <;> simp [hn, hr]
    | prune =>
      have he : erase u (Op.prune :: ops) = Op.prune :: erase u ops := by
        simp [erase, List.filter_cons, show mine u (Op.prune : Op U) = true from rfl]
      rw [he]
      simp only [answers, stepOp, List.nil_append]
      apply ih <;> simp [prune, hn, hr]

/-- one step: an attempt of another user leaves u's record and the clock alone -/
theorem C24_independent_step (cfg : Cfg) (s : St U) (u v : U) (k : Kind) (h : u ≠ v) :
    (attempt cfg s v k).1.recs u = s.recs u ∧ (attempt cfg s v k).1.now = s.now ∧
    check cfg (attempt cfg s v k).1 u = check cfg s u :=
  ⟨attempt_other cfg s u v k h, attempt_now cfg s v k,
   check_congr cfg _ _ u (attempt_now cfg s v k) (attempt_other cfg s u v k h)⟩

/-- **C24_independent.**  For EVERY history: the events of `u` (times, outcomes, whether the
password was consulted) are exactly those of the history in which every attempt of every other
user has been erased (time steps and prunes kept). -/
theorem C24_independent (cfg : Cfg) (u : U) (ops : List (Op U)) :
    answers cfg u init ops = answers cfg u init (erase u ops) :=
  answers_erase cfg u init init ops rfl rfl

/-! ### the literal statement is false on the current code: the pruner forgets -/

/-- `C24_locked_partial` without its "the pruner has not forgotten" hypothesis -/
def C24_locked_statement : Prop :=
  ∀ (cfg : Cfg) (ops : List (Op Nat)) (u : Nat) (k : Kind) (t0 : Nat),
    (obsOf cfg u (hist cfg ops).evs).lockT = some t0 →
    (hist cfg ops).st.now < t0 + cfg.lockout →
    (attempt cfg (hist cfg ops).st u k).2.1.isLocked = true

/-- limit 2, lockout 10: a failure at t=0, the pruner runs at t=21 (> 0 + 2·10) and deletes the
record, a second consecutive failure at t=21 — two consecutive failures, limit 2, and the third
attempt at t=21 is not refused. -/
def forgetWitness : List (Op Nat) := [.attempt 0 .bad, .advance 21, .prune, .attempt 0 .bad]

theorem C24_locked_counterexample : ¬ C24_locked_statement := by
  intro h
  have := h ⟨2, 10⟩ forgetWitness 0 .bad 21 (by decide) (by decide)
  revert this; decide

/-- the witness is exactly the excluded class: the pruner forgot a failure of user 0 -/
example : (hist ⟨2, 10⟩ forgetWitness).forgot 0 = true := by decide

/-! ### why fixes/C24.patch: the unpatched guard `time.Now().After(rec.lockedUntil)` -/

/-- `RecordFailure` as it is WITHOUT the patch -/
def failRecOld (cfg : Cfg) (now : Nat) (old : Option Rec) : Rec :=
  let r0 : Rec := old.getD ⟨0, 0, 0⟩
  let f := r0.failures + 1
  if cfg.limit ≤ f ∧ r0.lockedUntil < now then ⟨f, now, now + cfg.lockout⟩ else ⟨f, now, r0.lockedUntil⟩

def recordFailureOld (cfg : Cfg) (s : St U) (u : U) : St U :=
  if cfg.limit = 0 then s
  else { s with recs := upd s.recs u (some (failRecOld cfg s.now (s.recs u))) }

/-- limit 1, lockout 10; user 0 failed at t=5 and was locked until t=15.  At t=15 exactly the check
lets the attempt through (15 is not before 15); the failure is recorded (count 2 ≥ 1) but 15 is
not after 15, so no new lockout starts: the user is not locked although its consecutive failures
just reached the limit.  (With the patched guard `C24_lock_window` excludes this.) -/
theorem C24_old_guard_counterexample :
    ∃ (cfg : Cfg) (s : St Nat) (u : Nat) (r : Rec),
      0 < cfg.limit ∧ 0 < cfg.lockout ∧ check cfg s u = 0 ∧
      (recordFailureOld cfg s u).recs u = some r ∧ cfg.limit ≤ r.failures ∧
      check cfg (recordFailureOld cfg s u) u = 0 :=
  ⟨⟨1, 10⟩, ⟨15, fun x => if x = 0 then some ⟨1, 5, 15⟩ else none⟩, 0, ⟨2, 15, 15⟩, by decide⟩

/-- … and that state is the one the limiter is in after `advance 5; fail; advance 10` -/
example : (srun ⟨1, 10⟩ (init : St Nat) [.advance 5, .attempt 0 .bad, .advance 10]).recs 0 = some ⟨1, 5, 15⟩ ∧
    (srun ⟨1, 10⟩ (init : St Nat) [.advance 5, .attempt 0 .bad, .advance 10]).now = 15 := by decide

/-! ### non-vacuity: each theorem's hypotheses are met by a non-trivial instance -/

-- C24_lock_window: limit 2, second consecutive failure of user 7 at t=3
example : let s := srun ⟨2, 10⟩ (init : St Nat) [.advance 3, .attempt 7 .bad]
    (attempt ⟨2, 10⟩ s 7 .empty).2.1 = .denied ∧
    (attempt ⟨2, 10⟩ s 7 .empty).1.recs 7 = some ⟨2, 3, 13⟩ := by decide

-- … and the conclusion is tight: at t₀ + lockout the user is consulted again
example : let s := srun ⟨2, 10⟩ (init : St Nat) [.advance 3, .attempt 7 .bad, .attempt 7 .bad, .advance 10]
    (attempt ⟨2, 10⟩ s 7 .good).2.1 = .ok := by decide

-- C24_locked_partial / C24_no_spurious: two failures, a right password by the owner, other users, a prune
def lockedWitness : List (Op Nat) :=
  [.attempt 1 .bad, .attempt 2 .bad, .attempt 1 .bad, .advance 9, .prune, .attempt 2 .good, .attempt 1 .good]

example : (hist ⟨2, 10⟩ lockedWitness).forgot 1 = false ∧
    (obsOf ⟨2, 10⟩ 1 (hist ⟨2, 10⟩ lockedWitness).evs).lockT = some 0 ∧
    (hist ⟨2, 10⟩ lockedWitness).st.now < 0 + 10 ∧
    (attempt ⟨2, 10⟩ (hist ⟨2, 10⟩ lockedWitness).st 1 .good).2.1.isLocked = true := by decide

-- C24_success_clears: a success after a failure; and a later refusal needs `limit` new failures
example : (attempt ⟨2, 10⟩ (hist ⟨2, 10⟩ [Op.attempt 1 .bad]).st 1 .good).2.1 = .ok := by decide

example : (attempt ⟨2, 10⟩ (hist ⟨2, 10⟩ ([Op.attempt 1 .bad] ++ [.attempt 1 .good] ++
    [.attempt 1 .bad, .attempt 1 .empty])).st 1 .good).2.1.isLocked = true ∧
    failCount 1 [Op.attempt 1 .bad, .attempt 1 .empty] = 2 := by decide

-- C24_independent: the erased history really is shorter, and user 1's answers include a refusal
example : erase 1 lockedWitness = [.attempt 1 .bad, .attempt 1 .bad, .advance 9, .prune, .attempt 1 .good] := rfl

-- C24_limit_zero_never_locks: seven failures, limit 0
example : (attempt ⟨0, 10⟩ (srun ⟨0, 10⟩ (init : St Nat) (List.replicate 7 (.attempt 1 .bad))) 1 .bad).2.1 = .denied := by
  decide

-- C24_prune_forgets_only_stale: the pruner does delete something
example : (prune ⟨2, 10⟩ (srun ⟨2, 10⟩ (init : St Nat) [.attempt 0 .bad, .advance 21])).recs 0 = none ∧
    (srun ⟨2, 10⟩ (init : St Nat) [.attempt 0 .bad, .advance 21]).recs 0 = some ⟨1, 0, 0⟩ := by decide

end EgoVerif.C24
