/-
C24 — model of the login rate limiter, core Lean only.

Go code mirrored (with fixes/C24.patch applied to RecordFailure — see `recordFailure`):
  internal/router/ratelimit.go   CheckRateLimit, RecordFailure, RecordSuccess, pruneLoginAttempts
  internal/router/auth.go        Session.Authenticate, Basic-credentials branch (the call site)
  internal/server/auth/validate.go  ValidatePassword (only: empty user/password returns false
                                 before the user store is read)

Time is a natural number of nanoseconds (the harness runs inside a `testing/synctest`
bubble, so every `time.Now()` of one operation returns the same instant); `0` also stands
for Go's zero `time.Time` in a fresh `loginRecord` (it is before or at every instant).
The map `loginAttempts` is a function `U → Option Rec`, `U` the (lower-cased) user name.
-/
namespace EgoVerif.C24

/-- effective configuration: `getMaxAttempts()` and `getLockoutDuration()` (ns, always > 0) -/
structure Cfg where
  limit : Nat
  lockout : Nat
  deriving Repr, DecidableEq

/-- `loginRecord` -/
structure Rec where
  failures : Nat
  lastFailure : Nat
  lockedUntil : Nat
  deriving Repr, DecidableEq

/-- the limiter's state: the clock and `loginAttempts` -/
structure St (U : Type) where
  now : Nat
  recs : U → Option Rec

variable {U : Type} [DecidableEq U]

def upd (m : U → Option Rec) (u : U) (v : Option Rec) : U → Option Rec :=
  fun x => if x = u then v else m x

/-- `CheckRateLimit(username)`: seconds to wait (> 0 means locked out) -/
def check (cfg : Cfg) (s : St U) (u : U) : Nat :=
  if cfg.limit = 0 then 0            -- "A max of 0 means lockout is disabled."
  else match s.recs u with
    | none => 0
    | some r =>
      if s.now < r.lockedUntil then   -- time.Now().Before(rec.lockedUntil)
        (r.lockedUntil - s.now) / 1000000000 + 1   -- int(time.Until(..).Seconds()) + 1
      else 0

/-- the record `RecordFailure` leaves for a user whose current record is `old` -/
def failRec (cfg : Cfg) (now : Nat) (old : Option Rec) : Rec :=
  let r0 : Rec := old.getD ⟨0, 0, 0⟩                       -- `rec = &loginRecord{}` when not found
  let f := r0.failures + 1                                  -- rec.failures++
  -- FIXED code: `rec.failures >= maxAttempts && !time.Now().Before(rec.lockedUntil)`
  -- (the unpatched code says `time.Now().After(rec.lockedUntil)`, i.e. `r0.lockedUntil < now`)
  if cfg.limit ≤ f ∧ ¬ (now < r0.lockedUntil) then
    ⟨f, now, now + cfg.lockout⟩                             -- lockedUntil = now + lockout
  else
    ⟨f, now, r0.lockedUntil⟩

/-- `RecordFailure(session, username)` -/
def recordFailure (cfg : Cfg) (s : St U) (u : U) : St U :=
  if cfg.limit = 0 then s
  else { s with recs := upd s.recs u (some (failRec cfg s.now (s.recs u))) }

/-- `RecordSuccess(username)`: `delete(loginAttempts, username)` (no look at the limit) -/
def recordSuccess (s : St U) (u : U) : St U :=
  { s with recs := upd s.recs u none }

/-- does `pruneLoginAttempts` delete this record at time `now`? -/
def stale (cfg : Cfg) (now : Nat) (r : Rec) : Bool :=
  -- time.Now().After(rec.lockedUntil) && rec.lastFailure.Before(now - 2*lockout)
  decide (r.lockedUntil < now) && decide (r.lastFailure + 2 * cfg.lockout < now)

/-- `pruneLoginAttempts()` -/
def prune (cfg : Cfg) (s : St U) : St U :=
  { s with recs := fun x => match s.recs x with
      | none => none
      | some r => if stale cfg s.now r then none else some r }

/-- what the client presents -/
inductive Kind where
  | good    -- existing user, right password, has the logon permission
  | bad     -- wrong password / unknown user / no logon permission: ValidatePassword reads the store, says false
  | empty   -- empty password: ValidatePassword says false before reading the store
  deriving Repr, DecidableEq

inductive Outcome where
  | ok                      -- s.Authenticated = true
  | denied                  -- s.Authenticated = false, s.LockedOut = false
  | locked (retry : Nat)    -- s.LockedOut = true, s.RetryAfter = retry
  deriving Repr, DecidableEq

def Outcome.isLocked : Outcome → Bool
  | .locked _ => true
  | _ => false

/-- `Session.Authenticate`, Basic branch: (new state, outcome, ValidatePassword was called) -/
def attempt (cfg : Cfg) (s : St U) (u : U) (k : Kind) : St U × Outcome × Bool :=
  let retry := check cfg s u
  if 0 < retry then (s, .locked retry, false)      -- `return s` before ValidatePassword
  else match k with
    | .good => (recordSuccess s u, .ok, true)
    | _ => (recordFailure cfg s u, .denied, true)

/-- did the attempt read the user store? (ValidatePassword's early return on an empty password) -/
def readsStore (k : Kind) (called : Bool) : Bool :=
  called && (k != .empty)

/-- operations of a history; time never runs backwards (`advance` takes a `Nat`) -/
inductive Op (U : Type) where
  | attempt (u : U) (k : Kind)
  | advance (d : Nat)
  | prune
  deriving Repr

/-- one observable event: an authentication attempt and its answer -/
structure Event (U : Type) where
  t : Nat
  u : U
  out : Outcome
  called : Bool

def init : St U := ⟨0, fun _ => none⟩

/-- run one operation; an attempt produces an event -/
def stepOp (cfg : Cfg) (s : St U) : Op U → St U × Option (Event U)
  | .attempt u k =>
    let r := attempt cfg s u k
    (r.1, some ⟨s.now, u, r.2.1, r.2.2⟩)
  | .advance d => ({ s with now := s.now + d }, none)
  | .prune => (prune cfg s, none)

/-- run a history (state only) -/
def srun (cfg : Cfg) (s : St U) (ops : List (Op U)) : St U :=
  ops.foldl (fun s op => (stepOp cfg s op).1) s

end EgoVerif.C24
