import EgoVerif.Common.Drv
import EgoVerif.C24.Model
/- line protocol (state: configuration + limiter state; user names are hex of the lower-cased name):
   `reset <limit> <lockout ns>`      → `ok`      fresh limiter, clock 0
   `cfg <limit> <lockout ns>`        → `ok`      the settings change (configuration API), limiter state kept
   `adv <ns>`                        → `ok`
   `att <user> <g|b|e>`              → `ok r1` | `denied r<0|1>` | `locked <retry> r0`   (Authenticate; r = store was read)
   `prune`                           → `ok`
   `chk <user>`                      → `<seconds>`                      (CheckRateLimit)
   `fail <user>` / `succ <user>`     → `ok`                             (RecordFailure / RecordSuccess)
   `dump <user>`                     → `none` | `<failures> <lastFailure> <lockedUntil>` -/
namespace EgoVerif.C24

structure DSt where
  cfg : Cfg
  st : St String

def b01 (b : Bool) : String := if b then "1" else "0"

def dstep (d : DSt) (line : String) : DSt × String :=
  match fields line with
  | ["reset", l, k] =>
    match l.toNat?, k.toNat? with
    | some l, some k => ({ cfg := ⟨l, k⟩, st := init }, "ok")
    | _, _ => (d, "bad-input")
  | ["cfg", l, k] =>      -- the settings change, the records stay
    match l.toNat?, k.toNat? with
    | some l, some k => ({ d with cfg := ⟨l, k⟩ }, "ok")
    | _, _ => (d, "bad-input")
  | ["adv", n] =>
    match n.toNat? with
    | some n => ({ d with st := (stepOp d.cfg d.st (.advance n)).1 }, "ok")
    | none => (d, "bad-input")
  | ["att", u, k] =>
    let kind : Option Kind := if k == "g" then some .good else if k == "b" then some .bad
                              else if k == "e" then some .empty else none
    match kind with
    | none => (d, "bad-input")
    | some kind =>
      let r := attempt d.cfg d.st u kind
      let rd := "r" ++ b01 (readsStore kind r.2.2)
      let o := match r.2.1 with
        | .ok => "ok " ++ rd
        | .denied => "denied " ++ rd
        | .locked n => "locked " ++ toString n ++ " " ++ rd
      ({ d with st := r.1 }, o)
  | ["prune"] => ({ d with st := prune d.cfg d.st }, "ok")
  | ["chk", u] => (d, toString (check d.cfg d.st u))
  | ["fail", u] => ({ d with st := recordFailure d.cfg d.st u }, "ok")
  | ["succ", u] => ({ d with st := recordSuccess d.st u }, "ok")
  | ["dump", u] =>
    match d.st.recs u with
    | none => (d, "none")
    | some r => (d, toString r.failures ++ " " ++ toString r.lastFailure ++ " " ++ toString r.lockedUntil)
  | _ => (d, "bad-op")

def drv : Drv := { σ := DSt, init := { cfg := ⟨5, 900000000000⟩, st := init }, step := dstep }

end EgoVerif.C24
