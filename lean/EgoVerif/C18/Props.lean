import EgoVerif.C18.Pipe
/-
C18 — row values survive a REST round trip (SQLite backend).

Main theorem `C18_roundtrip`: for EVERY column type `t` accepted by the table-create handler
and EVERY JSON value `v` in the documented domain `InDom t v` of that type,
PUT-then-GET returns `expect t v`, which is `v` itself except that
  * an integer literal written to a float column is read back as that float64
    (`C18_float_intlit_faithful`: distinct literals stay distinct, |n| ≤ 2^53), and
  * a timestamp is read back as the RFC 3339 UTC text of the same instant
    (`C18_time_same_instant`).
External primitives are parameters: float64 operations `FOps` (laws `FLaws`), the time
parsers/formatter `TOps` (laws `TLaws`).  The theorem is about the code with fixes/C18.patch;
`C18_old_*` state what the unpatched pipeline does (`roundTripOld`).
-/
namespace EgoVerif.C18

variable {F : Type}

/-! ### the column tables (tied to the code by the `norm` correspondence lines) -/

theorem C18_branch_table :
    branch .byte = .none ∧ branch .int = .int ∧ branch .int8 = .none ∧ branch .int16 = .int16 ∧
    branch .int32 = .int ∧ branch .int64 = .int64 ∧ branch .string = .none ∧ branch .float = .f64 ∧
    branch .double = .f64 ∧ branch .float32 = .none ∧ branch .float64 = .none ∧ branch .time = .time ∧
    branch .timestamp = .time ∧ branch .date = .time ∧ branch .bool = .bool := by decide

theorem C18_affinity_table :
    affinity .byte = .numeric ∧ affinity .int = .integer ∧ affinity .int8 = .integer ∧ affinity .int16 = .integer ∧
    affinity .int32 = .integer ∧ affinity .int64 = .integer ∧ affinity .string = .text ∧ affinity .float = .real ∧
    affinity .double = .real ∧ affinity .float32 = .real ∧ affinity .float64 = .real ∧ affinity .time = .numeric ∧
    affinity .timestamp = .numeric ∧ affinity .date = .numeric ∧ affinity .bool = .numeric := by decide

theorem C18_driver_time_table :
    driverParsesTime .timestamp = true ∧ driverParsesTime .date = true ∧ driverParsesTime .time = false ∧
    driverParsesTime .string = false ∧ driverParsesTime .byte = false ∧ driverParsesTime .int8 = false ∧
    driverParsesTime .float32 = false ∧ driverParsesTime .float64 = false := by decide

/-! ### hypotheses on the primitives -/

def two53 : Int := 9007199254740992

/-- float64 facts used: an integer converted to float64 is never -0.0. -/
structure FLaws (o : FOps F) : Prop where
  canonZero_ofInt : ∀ n : Int, o.canonZero (o.ofInt n) = o.ofInt n

/-- instants of the UTC years 0000–9999 -/
def Instant.ok (i : Instant) : Prop :=
  -62167219200 ≤ i.sec ∧ i.sec ≤ 253402300799 ∧ i.nanos < 1000000000

/-- time facts used, for instants of years 0000–9999: the RFC3339Nano text is read back as
the same instant by ego's parser and by the driver's, and SQLite does not take it for a number. -/
structure TLaws (tm : TOps) : Prop where
  parse_format : ∀ i, i.ok → tm.parse (tm.format i) = some i
  drv_format : ∀ i, i.ok → tm.drvParse (tm.format i) = some i
  format_not_numeric : ∀ i, i.ok → numericLit (tm.format i) = false

/-! ### documented domains -/

/-- inclusive integer range of the documented type -/
def intRange : ColType → Option (Int × Int)
  | .byte => some (0, 255)
  | .int8 => some (-128, 127)
  | .int16 => some (-32768, 32767)
  | .int32 => some (-2147483648, 2147483647)
  | .int => some (-9223372036854775808, 9223372036854775807)
  | .int64 => some (-9223372036854775808, 9223372036854775807)
  | _ => none

def isFloatT : ColType → Bool
  | .float | .double | .float32 | .float64 => true
  | _ => false

def isTimeT : ColType → Bool
  | .time | .timestamp | .date => true
  | _ => false

/-- `InDom t v`: the JSON value `v` is a value of the documented type of a `t` column.
  * integer types: an integer literal inside the type's range;
  * float types: any number literal other than -0.0 (`canonZero f = f`; SQLite reads -0.0 back
    as 0.0), or an integer literal with |n| ≤ 2^53;
  * bool: true/false;  string: every string;
  * time types: a text ego's parser reads as an instant of the UTC years 0000–9999;
  * null in every column. -/
def InDom (o : FOps F) (tm : TOps) (t : ColType) : JV F → Prop
  | .null => True
  | .bool _ => t = .bool
  | .int n => (∃ lo hi, intRange t = some (lo, hi) ∧ lo ≤ n ∧ n ≤ hi) ∨ (isFloatT t = true ∧ -two53 ≤ n ∧ n ≤ two53)
  | .real f => isFloatT t = true ∧ o.canonZero f = f
  | .str s => t = .string ∨ (isTimeT t = true ∧ ∃ i, tm.parse s = some i ∧ i.ok)

/-- the value GET returns for an in-domain value -/
def expect (o : FOps F) (tm : TOps) (t : ColType) : JV F → JV F
  | .int n => if isFloatT t then .real (o.ofInt n) else .int n
  | .str s => if isTimeT t then (match tm.parse s with | some i => .str (tm.format i) | none => .str s) else .str s
  | v => v

/-- what GET returned, if the round trip worked -/
def Outcome.value : Outcome F → Option (JV F)
  | .ok _ v => some v
  | _ => none

/-! ### helper lemmas -/

theorem wrap64_id (n : Int) (h1 : -9223372036854775808 ≤ n) (h2 : n ≤ 9223372036854775807) : wrap 64 n = n := by
  unfold wrap
  simp only [Int.reducePow, Int.reduceDiv]
  split <;> omega

theorem wrap16_id (n : Int) (h1 : -32768 ≤ n) (h2 : n ≤ 32767) : wrap 16 n = n := by
  unfold wrap
  simp only [Int.reducePow, Int.reduceDiv]
  split <;> omega

theorem inInt64_of (n : Int) (h1 : -9223372036854775808 ≤ n) (h2 : n ≤ 9223372036854775807) : inInt64 n = true := by
  unfold inInt64
  simp only [Int.reducePow, Bool.and_eq_true, decide_eq_true_eq]
  omega

/-! ### the pipeline, one lemma per class of column -/

theorem rt_null (o : FOps F) (tm : TOps) (t : ColType) :
    roundTrip o tm t .null = .ok .null .null := by
  simp [roundTrip, roundTripWith, writeWith, read, decode, scan]

theorem rt_int (o : FOps F) (tm : TOps) (t : ColType) (n : Int)
    (h1 : -9223372036854775808 ≤ n) (h2 : n ≤ 9223372036854775807)
    (hb : branch t = .none ∨ branch t = .int ∨ branch t = .int64 ∨ (branch t = .int16 ∧ -32768 ≤ n ∧ n ≤ 32767))
    (ha : affinity t = .integer ∨ affinity t = .numeric) :
    roundTrip o tm t (.int n) = .ok (.integer n) (.int n) := by
  have hi := inInt64_of n h1 h2
  have hw := wrap64_id n h1 h2
  have hw16 : (-32768 ≤ n ∧ n ≤ 32767) → wrap 16 n = n := fun h => wrap16_id n h.1 h.2
  rcases ha with ha | ha <;> rcases hb with hb | hb | hb | ⟨hb, h3⟩ <;>
    simp [roundTrip, roundTripWith, writeWith, read, decode, scan, coerce, coerceInt, bindTime, bind,
      applyAffinity, encode, *]

theorem rt_real (o : FOps F) (tm : TOps) (t : ColType) (f : F) (hz : o.canonZero f = f)
    (hb : branch t = .none ∨ branch t = .f64) (ha : affinity t = .real) :
    roundTrip o tm t (.real f) = .ok (.real f) (.real f) := by
  rcases hb with hb | hb <;>
    simp [roundTrip, roundTripWith, writeWith, read, decode, scan, coerce, coerceFloat, bindTime, bind,
      applyAffinity, encode, ha, hb, hz]

theorem rt_int_in_float (o : FOps F) (ho : FLaws o) (tm : TOps) (t : ColType) (n : Int)
    (h1 : -9223372036854775808 ≤ n) (h2 : n ≤ 9223372036854775807)
    (hb : branch t = .none ∨ branch t = .f64) (ha : affinity t = .real) :
    roundTrip o tm t (.int n) = .ok (.real (o.ofInt n)) (.real (o.ofInt n)) := by
  have hi := inInt64_of n h1 h2
  rcases hb with hb | hb <;>
    simp [roundTrip, roundTripWith, writeWith, read, decode, scan, coerce, coerceFloat, bindTime, bind,
      applyAffinity, encode, ha, hb, hi, ho.canonZero_ofInt]

theorem rt_bool (o : FOps F) (tm : TOps) (t : ColType) (b : Bool)
    (hb : branch t = .bool) (ha : affinity t = .numeric) :
    roundTrip o tm t (.bool b) = .ok (.integer (if b then 1 else 0)) (.bool b) := by
  cases b <;>
    simp [roundTrip, roundTripWith, writeWith, read, decode, scan, coerce, coerceBool, bindTime, bind,
      applyAffinity, encode, ha, hb]

theorem rt_string (o : FOps F) (tm : TOps) (t : ColType) (s : Str)
    (hb : branch t = .none) (ha : affinity t = .text) (hd : driverParsesTime t = false) :
    roundTrip o tm t (.str s) = .ok (.text s) (.str s) := by
  simp [roundTrip, roundTripWith, writeWith, read, decode, scan, coerce, bindTime, bind,
    applyAffinity, encode, ha, hb, hd]

theorem rt_time (o : FOps F) (tm : TOps) (ht : TLaws tm) (t : ColType) (s : Str) (i : Instant)
    (hp : tm.parse s = some i) (hok : i.ok) (hb : branch t = .time) (ha : affinity t = .numeric) :
    roundTrip o tm t (.str s) = .ok (.text (tm.format i)) (.str (tm.format i)) := by
  have h1 := ht.parse_format i hok
  have h2 := ht.drv_format i hok
  have h3 := ht.format_not_numeric i hok
  cases hd : driverParsesTime t <;>
    simp [roundTrip, roundTripWith, writeWith, read, decode, scan, coerce, goString, bindTime, bind,
      applyAffinity, encode, ha, hb, hd, hp, h1, h2, h3]

/-! ### the property -/

/-- **C18 (main).**  Every value of the documented domain of every column type is accepted and
read back as `expect t v` (the same value; see the two theorems below for what "same" means
where `expect` is not literally `v`). -/
theorem C18_roundtrip (o : FOps F) (ho : FLaws o) (tm : TOps) (ht : TLaws tm) (t : ColType) (v : JV F)
    (h : InDom o tm t v) : (roundTrip o tm t v).value = some (expect o tm t v) := by
  cases v with
  | null => simp [rt_null, Outcome.value, expect]
  | bool b =>
    have hb : t = .bool := h
    subst hb
    rw [rt_bool o tm .bool b (by decide) (by decide)]
    simp [Outcome.value, expect]
  | int n =>
    rcases h with ⟨lo, hi, hr, h1, h2⟩ | ⟨hf, h1, h2⟩
    · cases t <;> simp [intRange] at hr <;> obtain ⟨rfl, rfl⟩ := hr <;>
        (rw [rt_int o tm _ n (by omega) (by omega)
              (by first
                | exact Or.inl (by decide)
                | exact Or.inr (Or.inl (by decide))
                | exact Or.inr (Or.inr (Or.inl (by decide)))
                | exact Or.inr (Or.inr (Or.inr ⟨by decide, by omega, by omega⟩)))
              (by first | exact Or.inl (by decide) | exact Or.inr (by decide))]
         simp [Outcome.value, expect, isFloatT])
    · unfold two53 at h1 h2
      cases t <;> simp [isFloatT] at hf <;>
        (rw [rt_int_in_float o ho tm _ n (by omega) (by omega)
              (by first | exact Or.inl (by decide) | exact Or.inr (by decide)) (by decide)]
         simp [Outcome.value, expect, isFloatT])
  | real f =>
    obtain ⟨hf, hz⟩ := h
    cases t <;> simp [isFloatT] at hf <;>
      (rw [rt_real o tm _ f hz (by first | exact Or.inl (by decide) | exact Or.inr (by decide)) (by decide)]
       simp [Outcome.value, expect])
  | str s =>
    rcases h with rfl | ⟨htt, i, hp, hok⟩
    · rw [rt_string o tm .string s (by decide) (by decide) (by decide)]
      simp [Outcome.value, expect, isTimeT]
    · cases t <;> simp [isTimeT] at htt <;>
        (rw [rt_time o tm ht _ s i hp hok (by decide) (by decide)]
         simp [Outcome.value, expect, isTimeT, hp])

/-- For the integer, bool and string types the value read back is literally the value written. -/
theorem C18_roundtrip_identity (o : FOps F) (ho : FLaws o) (tm : TOps) (ht : TLaws tm) (t : ColType) (v : JV F)
    (h : InDom o tm t v) (hf : isFloatT t = false) (htm : isTimeT t = false) :
    (roundTrip o tm t v).value = some v := by
  rw [C18_roundtrip o ho tm ht t v h]
  cases v <;> simp [expect, hf, htm]

/-- A float literal written to a float column is read back bit for bit. -/
theorem C18_roundtrip_float (o : FOps F) (ho : FLaws o) (tm : TOps) (ht : TLaws tm) (t : ColType) (f : F)
    (hf : isFloatT t = true) (hz : o.canonZero f = f) :
    (roundTrip o tm t (.real f)).value = some (.real f) := by
  rw [C18_roundtrip o ho tm ht t (.real f) ⟨hf, hz⟩]; rfl

/-- A timestamp is read back as a text that ego's own parser reads as the SAME instant. -/
theorem C18_time_same_instant (o : FOps F) (ho : FLaws o) (tm : TOps) (ht : TLaws tm) (t : ColType) (s : Str)
    (i : Instant) (htt : isTimeT t = true) (hp : tm.parse s = some i) (hok : i.ok) :
    ∃ s', (roundTrip o tm t (.str s)).value = some (.str s') ∧ tm.parse s' = some i := by
  refine ⟨tm.format i, ?_, ht.parse_format i hok⟩
  rw [C18_roundtrip o ho tm ht t (.str s) (Or.inr ⟨htt, i, hp, hok⟩)]
  simp [expect, htt, hp]

/-- Integer literals written to a float column: the float64 read back determines the literal
(`hinj`: integers up to 2^53 are distinct float64 values — the IEEE fact, stated as a hypothesis). -/
theorem C18_float_intlit_faithful (o : FOps F) (ho : FLaws o) (tm : TOps) (ht : TLaws tm) (t : ColType) (a b : Int)
    (hf : isFloatT t = true) (ha : -two53 ≤ a ∧ a ≤ two53) (hb : -two53 ≤ b ∧ b ≤ two53)
    (hinj : ∀ x y : Int, -two53 ≤ x → x ≤ two53 → -two53 ≤ y → y ≤ two53 → o.ofInt x = o.ofInt y → x = y)
    (h : (roundTrip o tm t (.int a)).value = (roundTrip o tm t (.int b)).value) : a = b := by
  rw [C18_roundtrip o ho tm ht t (.int a) (Or.inr ⟨hf, ha.1, ha.2⟩),
      C18_roundtrip o ho tm ht t (.int b) (Or.inr ⟨hf, hb.1, hb.2⟩)] at h
  simp [expect, hf] at h
  exact hinj a b ha.1 ha.2 hb.1 hb.2 h

/-- null is read back as null in every column. -/
theorem C18_null (o : FOps F) (tm : TOps) (t : ColType) : (roundTrip o tm t .null).value = some .null := by
  simp [rt_null, Outcome.value]

/-! ### the unpatched pipeline (`roundTripOld`): float64 decoding, whole-second binding -/

def isWideInt : ColType → Bool
  | .int | .int32 | .int64 => true
  | _ => false

/-- Unpatched code, integer columns: the round trip is exact for every integer the float64
conversion keeps (`hexact`; true for |n| ≤ 2^53) … -/
theorem C18_old_int_partial (o : FOps F) (tm : TOps) (t : ColType) (n : Int) (ht : isWideInt t = true)
    (h1 : -two53 ≤ n) (h2 : n ≤ two53) (hexact : o.toInt64 (o.ofInt n) = n) :
    (roundTripOld o tm t (.int n)).value = some (.int n) := by
  unfold two53 at h1 h2
  have hw := wrap64_id n (by omega) (by omega)
  cases t <;> simp [isWideInt] at ht <;>
    simp [roundTripOld, roundTripWith, writeWith, read, decodeOld, scan, coerce, coerceInt, bindTime, bind,
      applyAffinity, encode, Outcome.value, hexact, hw,
      (by decide : branch .int = .int), (by decide : branch .int32 = .int), (by decide : branch .int64 = .int64),
      (by decide : affinity .int = .integer), (by decide : affinity .int32 = .integer), (by decide : affinity .int64 = .integer)]

/-- … and wrong beyond: 2^53+1 is rounded to 2^53 by float64 (`hround`, the IEEE fact), and
the unpatched handlers store and return 2^53. -/
theorem C18_old_int_counterexample (o : FOps F) (tm : TOps)
    (hround : o.toInt64 (o.ofInt (two53 + 1)) = two53) :
    (roundTripOld o tm .int (.int (two53 + 1))).value = some (.int two53) ∧ (two53 + 1 ≠ two53) := by
  refine ⟨?_, by decide⟩
  have hw : wrap 64 two53 = two53 := wrap64_id _ (by decide) (by decide)
  simp [roundTripOld, roundTripWith, writeWith, read, decodeOld, scan, coerce, coerceInt, bindTime, bind,
    applyAffinity, encode, Outcome.value, hround, hw,
    (by decide : branch .int = .int), (by decide : affinity .int = .integer)]

/-- Unpatched code, timestamp columns: the text bound is the whole-second one, so what is read
back is the instant with its nanoseconds dropped (`hsec`, `hnum`: the facts about
time.RFC3339 used). -/
theorem C18_old_time_counterexample (o : FOps F) (tm : TOps) (s : Str) (i : Instant)
    (hp : tm.parse s = some i)
    (hsec : tm.drvParse (tm.formatSec i) = some ⟨i.sec, 0⟩) (hnum : numericLit (tm.formatSec i) = false) :
    (roundTripOld o tm .timestamp (.str s)).value = some (.str (tm.format ⟨i.sec, 0⟩)) := by
  simp [roundTripOld, roundTripWith, writeWith, read, decodeOld, decode, scan, coerce, goString, bindTime, bind,
    applyAffinity, encode, Outcome.value, hp, hsec, hnum,
    (by decide : branch .timestamp = .time), (by decide : affinity .timestamp = .numeric),
    (by decide : driverParsesTime .timestamp = true)]

/-! ### non-vacuity -/

/-- a (degenerate) float model satisfying `FLaws`: F := Int -/
def toyF : FOps Int where
  ofInt := id
  toInt64 := id
  toInt32 := id
  isZero := fun n => n == 0
  toF32 := id
  exactInt := some
  canonZero := id
  fmtGo := intDigits
  fmtSqlite := intDigits
  atoi := fun _ => none
  parseFloat := fun _ => none
  parseBool := fun _ => none
  textNum := fun _ => .inl 0

example : FLaws toyF := ⟨fun _ => rfl⟩

example (tm : TOps) : InDom toyF tm .int64 (.int 9223372036854775807) :=
  Or.inl ⟨_, _, rfl, by decide, by decide⟩
example (tm : TOps) : InDom toyF tm .int16 (.int (-32768)) := Or.inl ⟨_, _, rfl, by decide, by decide⟩
example (tm : TOps) : InDom toyF tm .double (.int 9007199254740992) := Or.inr ⟨rfl, by decide, by decide⟩
example (tm : TOps) : InDom toyF tm .float32 (.real 5) := ⟨rfl, rfl⟩
example (tm : TOps) : InDom toyF tm .string (.str ['\'', '"', '\\', ';']) := Or.inl rfl
example : Instant.ok ⟨1718452800, 123456789⟩ := by unfold Instant.ok; decide
example : (two53 + 1 : Int) = 9007199254740993 := by decide

/-- a toy text encoding of instants (unary), only to show that `TLaws` is satisfiable -/
def toyFormat (i : Instant) : Str :=
  'T' :: (List.replicate (i.sec + 62167219200).toNat 'a' ++ 'b' :: List.replicate i.nanos 'a')

def toyParse : Str → Option Instant
  | 'T' :: r =>
    match r.dropWhile (· == 'a') with
    | 'b' :: q => some ⟨((r.takeWhile (· == 'a')).length : Int) - 62167219200, q.length⟩
    | _ => none
  | _ => none

def toyT : TOps := { parse := toyParse, format := toyFormat, formatSec := toyFormat, drvParse := toyParse }

theorem takeWhile_rep (n : Nat) (rest : Str) :
    (List.replicate n 'a' ++ 'b' :: rest).takeWhile (· == 'a') = List.replicate n 'a' := by
  induction n with
  | zero => simp
  | succ k ih => simp [List.replicate_succ, ih]

theorem dropWhile_rep (n : Nat) (rest : Str) :
    (List.replicate n 'a' ++ 'b' :: rest).dropWhile (· == 'a') = 'b' :: rest := by
  induction n with
  | zero => simp
  | succ k ih => simp [List.replicate_succ, ih]

theorem toy_parse_format (i : Instant) (h : i.ok) : toyParse (toyFormat i) = some i := by
  obtain ⟨h1, _, _⟩ := h
  unfold toyFormat toyParse
  simp only [takeWhile_rep, dropWhile_rep, List.length_replicate]
  cases i with
  | mk sec nanos =>
    simp only [Option.some.injEq, Instant.mk.injEq, and_true]
    simp only at h1
    omega

theorem toy_not_numeric (i : Instant) : numericLit (toyFormat i) = false := by
  unfold toyFormat numericLit
  simp [List.dropWhile, isSpaceC, isDigitC]

example : TLaws toyT := ⟨toy_parse_format, toy_parse_format, fun i _ => toy_not_numeric i⟩

example (i : Instant) (h : i.ok) : InDom toyF toyT .timestamp (.str (toyFormat i)) :=
  Or.inr ⟨rfl, i, toy_parse_format i h, h⟩

end EgoVerif.C18
