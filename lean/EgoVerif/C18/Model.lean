/-
C18 — model of the value pipeline of the REST row endpoints on SQLite, core Lean only.

  write:  JSON literal --decodeRows (rows.go getRowSet/getUpdateRows)--> Go value
          --CoerceToColumnType (parsing/generators.go)--> --bindTimeValue-->
          --database/sql + modernc bind--> SQLite value --column affinity--> stored value
  read :  stored value --modernc rows.Next (scan into `any`)--> Go value
          --CoerceToColumnType again (rows.go readRowData)--> --encoding/json--> JSON value

The column metadata both coercions see is the one `getColumnInfo` / `normalizeColumnType`
(tables.go) derive from the declared type `MapColumnType` (parsing.go) wrote into the
CREATE TABLE statement.  Strings are `List Char`, integers `Int`; float64 and the time
parsers/formatter are parameters (`FOps`, `TOps`) with the hypotheses stated in Props.lean.
The model mirrors the code WITH fixes/C18.patch applied (integers decoded exactly,
timestamps bound with their fractional seconds); `decodeOld` / `TOps.formatSec` are the two
places where the unpatched code differs.
-/
namespace EgoVerif.C18

abbrev Str := List Char

/-- column types accepted by TableCreate (defs.TableColumnTypeNames) -/
inductive ColType where
  | byte | int | int8 | int16 | int32 | int64 | string | float | double | float32 | float64
  | time | timestamp | date | bool
  deriving DecidableEq, Repr

def ColType.all : List ColType :=
  [.byte, .int, .int8, .int16, .int32, .int64, .string, .float, .double, .float32, .float64,
   .time, .timestamp, .date, .bool]

/-! ### names: MapColumnType, DatabaseTypeName, normalizeColumnType -/

def upperC (c : Char) : Char := if 'a' ≤ c ∧ c ≤ 'z' then Char.ofNat (c.toNat - 32) else c
def lowerC (c : Char) : Char := if 'A' ≤ c ∧ c ≤ 'Z' then Char.ofNat (c.toNat + 32) else c
def upper (s : Str) : Str := s.map upperC
def lower (s : Str) : Str := s.map lowerC

/-- parsing.MapColumnType for the SQLite provider: the declared type written by FormCreateQuery
(a name missing from the map is passed through in lower case) -/
def declType : ColType → Str
  | .byte => ['b','y','t','e']
  | .int => ['I','N','T','E','G','E','R']
  | .int8 => ['i','n','t','8']
  | .int16 => ['i','n','t','1','6']
  | .int32 => ['I','N','T','E','G','E','R']
  | .int64 => ['i','n','t','6','4']
  | .string => ['T','E','X','T']
  | .float => ['f','l','o','a','t']
  | .double => ['d','o','u','b','l','e']
  | .float32 => ['R','E','A','L']
  | .float64 => ['R','E','A','L']
  | .time => ['T','I','M','E']
  | .timestamp => ['T','I','M','E','S','T','A','M','P']
  | .date => ['D','A','T','E']
  | .bool => ['B','O','O','L','E','A','N']

/-- modernc `ColumnTypeDatabaseTypeName`: the declared type in upper case (the metadata query
`SELECT * … WHERE 1=0` has no row, so ScanType is nil and this name is used) -/
def dbTypeName (t : ColType) : Str := upper (declType t)

/-- tables.go `normalizeColumnType`, SQLite branch -/
def normalize (n : Str) : Str :=
  if n = ['I','N','T'] then ['i','n','t']
  else if n = ['B','O','O','L'] ∨ n = ['B','O','O','L','E','A','N'] then ['b','o','o','l']
  else if n = ['I','N','T','3','2'] then ['i','n','t','3','2']
  else if n = ['I','N','T','1','6'] then ['i','n','t','1','6']
  else if n = ['B','Y','T','E'] then ['b','y','t','e']
  else if n = ['F','L','O','A','T'] then ['f','l','o','a','t','6','4']
  else if n = ['S','T','R','I','N','G'] then ['s','t','r','i','n','g']
  else if n = ['T','I','M','E','S','T','A','M','P'] ∨ n = ['T','I','M','E','S','T','A','M','P','T','Z']
       ∨ n = ['D','A','T','E','T','I','M','E'] then ['t','i','m','e','s','t','a','m','p']
  else if n = ['T','I','M','E'] then ['t','i','m','e']
  else if n = ['D','A','T','E'] then ['d','a','t','e']
  else n

/-- the `Type` field of the DBColumn both coercions look at -/
def normName (t : ColType) : Str := normalize (dbTypeName t)

/-- which case of the `switch strings.ToLower(column.Type)` in CoerceToColumnType runs -/
inductive Branch where
  | str | f64 | f32 | bool | int | int16 | int32 | int64 | time | none
  deriving DecidableEq, Repr

def branchOfName (n : Str) : Branch :=
  let l := lower n
  if l = ['c','h','a','r'] ∨ l = ['s','t','r','i','n','g'] ∨ l = ['n','u','l','l','s','t','r','i','n','g'] then .str
  else if l = ['f','l','o','a','t'] ∨ l = ['d','o','u','b','l','e'] ∨ l = ['f','l','o','a','t','6','4']
       ∨ l = ['n','u','l','l','f','l','o','a','t','6','4'] then .f64
  else if l = ['f','l','o','a','t','3','2'] ∨ l = ['s','i','n','g','l','e'] ∨ l = ['n','u','l','l','f','l','o','a','t','3','2'] then .f32
  else if l = ['b','o','o','l'] ∨ l = ['b','o','o','l','e','a','n'] ∨ l = ['n','u','l','l','b','o','o','l'] then .bool
  else if l = ['i','n','t'] ∨ l = ['i','n','t','e','g','e','r'] ∨ l = ['n','u','l','l','i','n','t'] then .int
  else if l = ['i','n','t','1','6'] ∨ l = ['n','u','l','l','i','n','t','1','6'] then .int16
  else if l = ['i','n','t','3','2'] ∨ l = ['n','u','l','l','i','n','t','3','2'] then .int32
  else if l = ['i','n','t','6','4'] ∨ l = ['n','u','l','l','i','n','t','6','4'] then .int64
  else if l = ['t','i','m','e','s','t','a','m','p'] ∨ l = ['t','i','m','e','s','t','a','m','p','t','z']
       ∨ l = ['t','i','m','e'] ∨ l = ['d','a','t','e'] ∨ l = ['d','a','t','e','t','i','m','e'] then .time
  else .none

def branch (t : ColType) : Branch := branchOfName (normName t)

/-! ### SQLite column affinity (sqlite3AffinityType: substring rules on the declared type) -/

def isPrefixOf : Str → Str → Bool
  | [], _ => true
  | _ :: _, [] => false
  | a :: as, b :: bs => a == b && isPrefixOf as bs

def containsSub : Str → Str → Bool
  | [], needle => needle.isEmpty
  | h :: t, needle => isPrefixOf needle (h :: t) || containsSub t needle

inductive Aff where
  | integer | text | blob | real | numeric
  deriving DecidableEq, Repr

def affinityOf (decl : Str) : Aff :=
  let d := lower decl
  if containsSub d ['i','n','t'] then .integer
  else if containsSub d ['c','h','a','r'] || containsSub d ['c','l','o','b'] || containsSub d ['t','e','x','t'] then .text
  else if containsSub d ['b','l','o','b'] then .blob
  else if containsSub d ['r','e','a','l'] || containsSub d ['f','l','o','a'] || containsSub d ['d','o','u','b'] then .real
  else .numeric

def affinity (t : ColType) : Aff := affinityOf (declType t)

/-- modernc rows.Next turns TEXT into time.Time for these DatabaseTypeNames -/
def driverParsesTime (t : ColType) : Bool :=
  let n := dbTypeName t
  n == ['D','A','T','E'] || n == ['D','A','T','E','T','I','M','E'] || n == ['T','I','M','E','S','T','A','M','P']

end EgoVerif.C18
