import EgoVerif.Common.Drv
import EgoVerif.C18.Pipe
/- line protocol
   `norm <type>`                      → hex of the normalized column type name
   `rt <type> n -|b 0/1|i <dec>|f <16 hex bits>|s <hex utf8>`
                                      → `reject` | `unreadable` | `<null|integer|real|text> <null|b0|b1|i<dec>|f<bits>|s<hex>>`
   The float64 primitives are instantiated with Lean's `Float` (IEEE double, passed as bit
   patterns), the time primitives with an executable RFC 3339 reader/writer. -/
namespace EgoVerif.C18

def colTypeOfName (s : String) : Option ColType :=
  [("byte", ColType.byte), ("int", .int), ("int8", .int8), ("int16", .int16), ("int32", .int32), ("int64", .int64),
   ("string", .string), ("float", .float), ("double", .double), ("float32", .float32), ("float64", .float64),
   ("time", .time), ("timestamp", .timestamp), ("date", .date), ("bool", .bool)].lookup s

/-! ### float64 -/

def two63 : Float := 9223372036854775808.0

def fToInt (f : Float) : Int := f.toInt64.toInt

def goInt64 (f : Float) : Int :=
  if f >= -two63 && f < two63 then fToInt f else -(2:Int)^63

def goInt32 (f : Float) : Int :=
  if f > -2147483649.0 && f < 2147483648.0 then fToInt f else -(2:Int)^31

/-- sqlite3VdbeIntegerAffinity: the REAL converts iff it equals (double)(int64) and is neither extreme -/
def sqliteExactInt (f : Float) : Option Int :=
  if f >= -two63 && f < two63 then
    let i := fToInt f
    if Float.ofInt i == f && -(2:Int)^63 < i && i < (2:Int)^63 - 1 then some i else none
  else none

def plainInt? (s : Str) : Option Int :=
  let (neg, ds) := match s with | '-' :: r => (true, r) | '+' :: r => (false, r) | r => (false, r)
  if ds.isEmpty || !ds.all isDigitC then none else
  let n : Nat := ds.foldl (fun a c => a * 10 + (c.toNat - 48)) 0
  some (if neg then -(n : Int) else n)

def fops : FOps Float where
  ofInt := Float.ofInt
  toInt64 := goInt64
  toInt32 := goInt32
  isZero := fun f => f == 0.0
  toF32 := fun f => f.toFloat32.toFloat
  exactInt := sqliteExactInt
  canonZero := fun f => if f == 0.0 then 0.0 else f
  fmtGo := fun _ => []
  fmtSqlite := fun _ => []
  atoi := fun _ => none
  parseFloat := fun _ => none
  parseBool := fun _ => none
  textNum := fun s =>
    match plainInt? s with
    | some n => if inInt64 n then .inl n else .inr (Float.ofInt n)
    | none => .inr 0.0

/-! ### time: RFC 3339 (and a bare date) ↔ instant -/

def daysFromCivil (y0 m d : Int) : Int :=
  let y := if m ≤ 2 then y0 - 1 else y0
  let era := y / 400
  let yoe := y - era * 400
  let doy := (153 * (if m > 2 then m - 3 else m + 9) + 2) / 5 + d - 1
  let doe := yoe * 365 + yoe / 4 - yoe / 100 + doy
  era * 146097 + doe - 719468

def civilFromDays (z0 : Int) : Int × Int × Int :=
  let z := z0 + 719468
  let era := z / 146097
  let doe := z - era * 146097
  let yoe := (doe - doe / 1460 + doe / 36524 - doe / 146096) / 365
  let y := yoe + era * 400
  let doy := doe - (365 * yoe + yoe / 4 - yoe / 100)
  let mp := (5 * doy + 2) / 153
  let d := doy - (153 * mp + 2) / 5 + 1
  let m := if mp < 10 then mp + 3 else mp - 9
  (if m ≤ 2 then y + 1 else y, m, d)

def num? (s : Str) (len : Nat) : Option Nat :=
  if s.length == len && s.all isDigitC then some (s.foldl (fun a c => a * 10 + (c.toNat - 48)) 0) else none

def isLeap (y : Nat) : Bool := y % 4 == 0 && (y % 100 != 0 || y % 400 == 0)

def daysIn (y m : Nat) : Nat :=
  if m == 2 then (if isLeap y then 29 else 28) else if m == 4 || m == 6 || m == 9 || m == 11 then 30 else 31

def parseDate (s : Str) : Option Int :=
  match num? (s.take 4) 4, s.drop 4 with
  | some y, '-' :: r =>
    match num? (r.take 2) 2, r.drop 2 with
    | some m, '-' :: q =>
      match num? q 2 with
      | some d => if 1 ≤ m && m ≤ 12 && 1 ≤ d && d ≤ daysIn y m then some (daysFromCivil y m d) else none
      | none => none
    | _, _ => none
  | _, _ => none

/-- `HH:MM:SS[.frac]` followed by `Z` or `±HH:MM` -/
def parseClock (s : Str) : Option (Int × Nat) :=
  match num? (s.take 2) 2, s.drop 2 with
  | some h, ':' :: r =>
    match num? (r.take 2) 2, r.drop 2 with
    | some mi, ':' :: q =>
      match num? (q.take 2) 2 with
      | some sec =>
        if h > 23 || mi > 59 || sec > 59 then none else
        let rest := q.drop 2
        let (frac, rest) := match rest with
          | '.' :: f => (f.takeWhile isDigitC, f.dropWhile isDigitC)
          | f => ([], f)
        let nanos := ((frac ++ List.replicate 9 '0').take 9).foldl (fun a c => a * 10 + (c.toNat - 48)) 0
        let off? : Option Int := match rest with
          | ['Z'] => some 0
          | sg :: z =>
            if (sg == '+' || sg == '-') && z.length == 5 then
              match num? (z.take 2) 2, z.drop 2 with
              | some oh, ':' :: om =>
                match num? om 2 with
                | some omn => if oh > 23 || omn > 59 then none else
                  some ((if sg == '-' then -1 else 1) * ((oh : Int) * 3600 + (omn : Int) * 60))
                | none => none
              | _, _ => none
            else none
          | [] => none
        match off? with
        | some off => if frac.isEmpty && (match q.drop 2 with | '.' :: _ => true | _ => false) then none
                      else some ((h : Int) * 3600 + (mi : Int) * 60 + (sec : Int) - off, nanos)
        | none => none
      | none => none
    | _, _ => none
  | _, _ => none

def parseRFC3339 (s : Str) : Option Instant :=
  if s.length == 10 then (parseDate s).map fun d => ⟨d * 86400, 0⟩
  else match parseDate (s.take 10), s.drop 10 with
    | some d, 'T' :: r => (parseClock r).map fun (secs, nanos) => ⟨d * 86400 + secs, nanos⟩
    | _, _ => none

def pad (w : Nat) (n : Nat) : Str :=
  let ds := digitsNat n
  List.replicate (w - ds.length) '0' ++ ds

def trimZeros (s : Str) : Str := (s.reverse.dropWhile (· == '0')).reverse

def formatWith (nano : Bool) (i : Instant) : Str :=
  let days := i.sec / 86400
  let sod := (i.sec % 86400).toNat
  let (y, m, d) := civilFromDays days
  let ys := if y < 0 then '-' :: pad 4 y.natAbs else pad 4 y.toNat
  let frac := trimZeros (pad 9 i.nanos)
  ys ++ ['-'] ++ pad 2 m.toNat ++ ['-'] ++ pad 2 d.toNat ++ ['T'] ++ pad 2 (sod / 3600) ++ [':'] ++ pad 2 (sod % 3600 / 60)
    ++ [':'] ++ pad 2 (sod % 60) ++ (if nano && !frac.isEmpty then '.' :: frac else []) ++ ['Z']

def tops : TOps where
  parse := parseRFC3339
  format := formatWith true
  formatSec := formatWith false
  drvParse := parseRFC3339

/-! ### protocol -/

def jvOfFields (kind payload : String) : Option (JV Float) :=
  match kind with
  | "n" => some .null
  | "b" => some (.bool (payload == "1"))
  | "i" => payload.toInt?.map .int
  | "f" => (bytesOfHex payload).bind fun bs =>
      if bs.length == 8 then some (.real (Float.ofBits (bs.foldl (fun a b => a * 256 + b.toNat.toUInt64) 0))) else none
  | "s" => (stringOfHex payload).map fun s => .str s.toList
  | _ => none

def hex16 (n : UInt64) : String :=
  String.ofList ((List.range 16).map fun k => hexDigit ((n.toNat / 16 ^ (15 - k)) % 16))

def showReal (f : Float) : String := "f" ++ hex16 f.toBits

def showJV : JV Float → String
  | .null => "null"
  | .bool b => if b then "b1" else "b0"
  | .int n => "i" ++ toString n
  | .real f => showReal f
  | .str s => "s" ++ hexOfString (String.ofList s)

def showSto : SV Float → String
  | .null => "null" | .integer _ => "integer" | .real _ => "real" | .text _ => "text"

def showOutcome : Outcome Float → String
  | .rejected => "reject"
  | .unreadable => "unreadable"
  | .ok s v => showSto s ++ " " ++ showJV v

def handle (line : String) : String :=
  match fields line with
  | ["norm", t] =>
    match colTypeOfName t with
    | some c => hexOfString (String.ofList (normName c))
    | none => "bad-type"
  | ["rt", t, kind, payload] =>
    match colTypeOfName t, jvOfFields kind payload with
    | some c, some v => showOutcome (roundTrip fops tops c v)
    | _, _ => "bad-input"
  | ["rtold", t, kind, payload] =>
    match colTypeOfName t, jvOfFields kind payload with
    | some c, some v => showOutcome (roundTripOld fops tops c v)
    | _, _ => "bad-input"
  | _ => "bad-op"

def drv : Drv := Drv.pure handle

end EgoVerif.C18
