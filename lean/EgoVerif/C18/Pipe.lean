import EgoVerif.C18.Model
/-
C18 — the value pipeline itself (core Lean only).  See Model.lean for the names/affinity part.
-/
namespace EgoVerif.C18

/-- an instant: seconds since the Unix epoch and nanoseconds (< 10^9) -/
structure Instant where
  sec : Int
  nanos : Nat
  deriving DecidableEq, Repr

/-- float64 primitives of Go and SQLite (data only; hypotheses are `FLaws` in Props.lean) -/
structure FOps (F : Type) where
  ofInt : Int → F              -- float64(n) / strconv.ParseFloat of an integer literal: nearest double
  toInt64 : F → Int            -- Go `int64(f)` (amd64: CVTTSD2SQ, min int64 when out of range)
  toInt32 : F → Int            -- the 32-bit conversion Go uses for `int16(f)` / `int32(f)` (CVTTSD2SL)
  isZero : F → Bool            -- `f == 0.0`
  toF32 : F → F                -- float64(float32(f))
  exactInt : F → Option Int    -- SQLite sqlite3VdbeIntegerAffinity: the REAL is stored as this INTEGER
  canonZero : F → F            -- SQLite keeps an integral REAL of a REAL-affinity column as an integer: -0.0 reads back 0.0
  fmtGo : F → Str              -- data.String(float64)
  fmtSqlite : F → Str          -- SQLite's REAL -> TEXT rendering (TEXT affinity)
  atoi : Str → Option Int      -- egostrings.Atoi
  parseFloat : Str → Option F  -- strconv.ParseFloat(s, 64)
  parseBool : Str → Option Bool -- the string case of data.coerceBool
  textNum : Str → Int ⊕ F      -- SQLite's conversion of a numeric-looking TEXT (sqlite3AtoF / Atoi64)

/-- time primitives -/
structure TOps where
  parse : Str → Option Instant     -- util.StrictParseTimestamp (dateparse) as an instant
  format : Instant → Str           -- t.UTC().Format(time.RFC3339Nano); also time.Time.MarshalJSON of a UTC time
  formatSec : Instant → Str        -- t.UTC().Format(time.RFC3339)  (the unpatched bindTimeValue)
  drvParse : Str → Option Instant  -- modernc conn.parseTime

/-- JSON scalars as the client writes / reads them.  `int` is an integer literal (no fraction,
no exponent), `real` any other number literal, given by its float64 value. -/
inductive JV (F : Type) where
  | null | bool (b : Bool) | int (n : Int) | real (f : F) | str (s : Str)

/-- Go values travelling through the handlers (`int` stands for every Go integer kind: the
value is already wrapped to its width) -/
inductive GoV (F : Type) where
  | nil | bool (b : Bool) | int (n : Int) | real (f : F) | str (s : Str) | time (i : Instant)

/-- SQLite storage classes -/
inductive SV (F : Type) where
  | null | integer (n : Int) | real (f : F) | text (s : Str)

/-- outcome of PUT followed by GET -/
inductive Outcome (F : Type) where
  | rejected                       -- the write answers 4xx, nothing is stored
  | unreadable                     -- stored, but the read fails
  | ok (stored : SV F) (v : JV F)  -- stored value and the JSON value read back

variable {F : Type}

def inInt64 (n : Int) : Bool := decide (-(2:Int)^63 ≤ n) && decide (n < (2:Int)^63)

/-- two's complement wrap to `bits` bits (Go integer conversion) -/
def wrap (bits : Nat) (n : Int) : Int :=
  let m : Int := (2:Int) ^ bits
  let r := n % m
  if r ≥ m / 2 then r - m else r

/-- rows.go `decodeRows` (patched): an integer literal that fits int64 stays exact -/
def decode (o : FOps F) : JV F → GoV F
  | .null => .nil
  | .bool b => .bool b
  | .int n => if inInt64 n then .int n else .real (o.ofInt n)
  | .real f => .real f
  | .str s => .str s

/-- unpatched: json.Unmarshal into `any` turns every number into a float64 -/
def decodeOld (o : FOps F) : JV F → GoV F
  | .int n => .real (o.ofInt n)
  | v => decode o v

def digitsNat (n : Nat) : Str := (Nat.toDigits 10 n)
def intDigits (n : Int) : Str := if n < 0 then '-' :: digitsNat n.natAbs else digitsNat n.natAbs

/-- data.String -/
def goString (o : FOps F) (tm : TOps) : GoV F → Str
  | .nil => []
  | .bool b => if b then ['t','r','u','e'] else ['f','a','l','s','e']
  | .int n => intDigits n
  | .real f => o.fmtGo f
  | .str s => s
  | .time i => tm.format i

/-- data.Int / Int16 / Int32 / Int64 (precision errors are off by default) -/
def coerceInt (o : FOps F) (bits : Nat) (cvt : F → Int) : GoV F → Option (GoV F)
  | .nil => some (.int 0)
  | .bool b => some (.int (if b then 1 else 0))
  | .int n => some (.int (wrap bits n))
  | .real f => some (.int (wrap bits (cvt f)))
  | .str s => if s.isEmpty then some (.int 0) else (o.atoi s).map fun n => .int (wrap bits n)
  | .time _ => none

def coerceFloat (o : FOps F) (narrow : Bool) : GoV F → Option (GoV F)
  | .nil => some (.real (o.ofInt 0))
  | .bool b => some (.real (o.ofInt (if b then 1 else 0)))
  | .int n => some (.real (if narrow then o.toF32 (o.ofInt n) else o.ofInt n))
  | .real f => some (.real (if narrow then o.toF32 f else f))
  | .str s => (o.parseFloat s).map fun f => .real (if narrow then o.toF32 f else f)
  | .time _ => none

def coerceBool (o : FOps F) : GoV F → Option (GoV F)
  | .nil => some (.bool false)
  | .bool b => some (.bool b)
  | .int n => some (.bool (n != 0))
  | .real f => some (.bool (!o.isZero f))
  | .str s => (o.parseBool s).map .bool
  | .time _ => none

/-- CoerceToColumnType for a value that is not nil (callers skip nil) -/
def coerce (o : FOps F) (tm : TOps) (b : Branch) (v : GoV F) : Option (GoV F) :=
  match b with
  | .none => some v
  | .str => some (.str (goString o tm v))
  | .f64 => coerceFloat o false v
  | .f32 => coerceFloat o true v
  | .bool => coerceBool o v
  | .int => coerceInt o 64 o.toInt64 v
  | .int64 => coerceInt o 64 o.toInt64 v
  | .int32 => coerceInt o 32 o.toInt32 v     -- (no column type reaches this case on SQLite)
  | .int16 => coerceInt o 16 o.toInt32 v
  | .time =>
    match v with
    | .time i => some (.time i)
    | v => (tm.parse (goString o tm v)).map .time

/-- bindTimeValue for SQLite (patched: RFC3339Nano) -/
def bindTime (fmt : Instant → Str) : GoV F → GoV F
  | .time i => .str (fmt i)
  | v => v

/-- database/sql default converter + modernc bind -/
def bind (tm : TOps) : GoV F → SV F
  | .nil => .null
  | .bool b => .integer (if b then 1 else 0)
  | .int n => .integer n
  | .real f => .real f
  | .str s => .text s
  | .time i => .text (tm.format i)

def isSpaceC (c : Char) : Bool := c == ' ' || (9 ≤ c.toNat && c.toNat ≤ 13)
def isDigitC (c : Char) : Bool := '0' ≤ c && c ≤ '9'

/-- SQLite "looks like a number": spaces, sign, digits [. digits] [e sign digits], spaces -/
def numericLit (s : Str) : Bool :=
  let s := s.dropWhile isSpaceC
  let s := match s with | '+' :: r => r | '-' :: r => r | r => r
  let d1 := s.takeWhile isDigitC
  let s := s.dropWhile isDigitC
  let (d2, s) := match s with
    | '.' :: r => (r.takeWhile isDigitC, r.dropWhile isDigitC)
    | r => ([], r)
  if d1.isEmpty && d2.isEmpty then false else
  let s? : Option Str := match s with
    | c :: r =>
      if c == 'e' || c == 'E' then
        let r := match r with | '+' :: q => q | '-' :: q => q | q => q
        if (r.takeWhile isDigitC).isEmpty then none else some (r.dropWhile isDigitC)
      else some (c :: r)
    | [] => some []
  match s? with
  | none => false
  | some r => (r.dropWhile isSpaceC).isEmpty

def numToSV : Int ⊕ F → SV F
  | .inl n => .integer n
  | .inr f => .real f

/-- the value a column of the given affinity stores for a bound value -/
def applyAffinity (o : FOps F) : Aff → SV F → SV F
  | .text, .integer n => .text (intDigits n)
  | .text, .real f => .text (o.fmtSqlite f)
  | .real, .integer n => .real (o.ofInt n)
  | .real, .real f => .real (o.canonZero f)
  | .real, .text s =>
    if numericLit s then
      match o.textNum s with
      | .inl n => .real (o.ofInt n)
      | .inr f => .real (o.canonZero f)
    else .text s
  | .integer, .real f | .numeric, .real f =>
    match o.exactInt f with
    | some n => .integer n
    | none => .real f
  | .integer, .text s | .numeric, .text s => if numericLit s then numToSV (o.textNum s) else .text s
  | _, v => v

/-- modernc rows.Next: scan into `any` -/
def scan (tm : TOps) (t : ColType) : SV F → GoV F
  | .null => .nil
  | .integer n => .int n
  | .real f => .real f
  | .text s =>
    if driverParsesTime t then
      match tm.drvParse s with
      | some i => .time i
      | none => .str s
    else .str s

/-- encoding/json of the row map -/
def encode (tm : TOps) : GoV F → JV F
  | .nil => .null
  | .bool b => .bool b
  | .int n => .int n
  | .real f => .real f
  | .str s => .str s
  | .time i => .str (tm.format i)

/-- FormInsertQuery / FormUpdateQuery value handling followed by storage -/
def writeWith (o : FOps F) (tm : TOps) (dec : JV F → GoV F) (fmt : Instant → Str) (t : ColType) (v : JV F) : Option (SV F) :=
  match dec v with
  | .nil => some .null
  | g => (coerce o tm (branch t) g).map fun c => applyAffinity o (affinity t) (bind tm (bindTime fmt c))

/-- readRowData: a non-nil scanned value is coerced again, then encoded -/
def read (o : FOps F) (tm : TOps) (t : ColType) (s : SV F) : Option (JV F) :=
  match scan tm t s with
  | .nil => some .null
  | g => (coerce o tm (branch t) g).map (encode tm)

def roundTripWith (o : FOps F) (tm : TOps) (dec : JV F → GoV F) (fmt : Instant → Str) (t : ColType) (v : JV F) : Outcome F :=
  match writeWith o tm dec fmt t v with
  | none => .rejected
  | some s =>
    match read o tm t s with
    | none => .unreadable
    | some j => .ok s j

/-- PUT then GET on the patched code -/
def roundTrip (o : FOps F) (tm : TOps) : ColType → JV F → Outcome F := roundTripWith o tm (decode o) tm.format

/-- PUT then GET on the unpatched code (float64 decoding, whole-second binding) -/
def roundTripOld (o : FOps F) (tm : TOps) : ColType → JV F → Outcome F := roundTripWith o tm (decodeOld o) tm.formatSec

end EgoVerif.C18
