/-
C11 — Runtime packages match the Go functions they wrap.

The Go standard library is the *specification* of the mirrored functions and is reached by
differential comparison (harness).  This file models, in core Lean only, what Ego implements itself:

  §1 base64 StdEncoding            internal/runtime/base64/encoding.go  encode / decode
                                   (= encoding/base64 StdEncoding.EncodeToString / DecodeString)
  §2 Roman numerals                internal/runtime/strconv/roman.go doIntToRoman / doRomanToInt
                                   (= github.com/brandenc40/romannumeral intToRoman / romanToInt)
  §3 the verified result checkers  isSortedPerm / isStable fed with OBSERVED sort results (T3)
  §4 the native-call glue          Glue.lean (convertToNative / convertFromNative of callNative.go)
-/
namespace EgoVerif.C11

/-! ## §1 base64 (characters and bytes as `Nat` code points; bytes are `< 256`) -/

/-- encoding/base64 `encodeStd` alphabet: index (< 64) → character -/
def enc (n : Nat) : Nat :=
  if n < 26 then 65 + n else if n < 52 then 71 + n else if n < 62 then n - 4
  else if n = 62 then 43 else 47

/-- `decodeMap`: character → index, `none` = 0xFF (invalid) -/
def dec (c : Nat) : Option Nat :=
  if 65 ≤ c ∧ c ≤ 90 then some (c - 65) else if 97 ≤ c ∧ c ≤ 122 then some (c - 71)
  else if 48 ≤ c ∧ c ≤ 57 then some (c + 4) else if c = 43 then some 62
  else if c = 47 then some 63 else none

/-- `Encoding.Encode`: 3-byte quanta, `=` (61) padding -/
def encodeN : List Nat → List Nat
  | [] => []
  | [a] => [enc (a / 4), enc ((a % 4) * 16), 61, 61]
  | [a, b] => [enc (a / 4), enc ((a % 4) * 16 + b / 16), enc ((b % 16) * 4), 61]
  | a :: b :: c :: rest =>
    enc (a / 4) :: enc ((a % 4) * 16 + b / 16) :: enc ((b % 16) * 4 + c / 64) :: enc (c % 64) :: encodeN rest

/-- final quantum `xy==` -/
def pad2 (a b : Nat) : Option (List Nat) :=
  match dec a, dec b with
  | some x, some y => some [(x * 4 + y / 16) % 256]
  | _, _ => none

/-- final quantum `xyz=` -/
def pad1 (a b c : Nat) : Option (List Nat) :=
  match dec a, dec b, dec c with
  | some x, some y, some z => some [(x * 4 + y / 16) % 256, ((y % 16) * 16 + z / 4) % 256]
  | _, _, _ => none

/-- `Encoding.decodeQuantum` iterated (`Encoding.Decode`, non-strict, padded) on input from which
    `\r` and `\n` have been dropped: whole quanta of 4 alphabet characters, the last one may be
    `xy==` or `xyz=`; anything else is CorruptInputError (`none`). -/
def decodeQ : List Nat → Option (List Nat)
  | a :: b :: c :: d :: rest =>
    if rest = [] ∧ d = 61 then (if c = 61 then pad2 a b else pad1 a b c)
    else
      match dec a, dec b, dec c, dec d, decodeQ rest with
      | some x, some y, some z, some w, some r =>
        some ((x * 4 + y / 16) % 256 :: ((y % 16) * 16 + z / 4) % 256 :: ((z % 4) * 64 + w) % 256 :: r)
      | _, _, _, _, _ => none
  | [] => some []
  | _ => none

def isNL (c : Nat) : Bool := c == 10 || c == 13

/-- `DecodeString`: newlines are ignored wherever they stand -/
def decodeN (s : List Nat) : Option (List Nat) := decodeQ (s.filter (fun c => !isNL c))

/-- base64.Encode of the Ego package (bytes in, ASCII bytes out) -/
def b64encode (bs : List UInt8) : List UInt8 := (encodeN (bs.map (·.toNat))).map UInt8.ofNat

/-- base64.Decode of the Ego package: `some bytes` = (string, nil), `none` = (nil, error) -/
def b64decode (s : List UInt8) : Option (List UInt8) := (decodeN (s.map (·.toNat))).map (·.map UInt8.ofNat)

/-! ## §2 Roman numerals (characters as `Nat` code points: I=73 V=86 X=88 L=76 C=67 D=68 M=77) -/

def rM0 : List (List Nat) := [[], [73], [73, 73], [73, 73, 73], [73, 86], [86], [86, 73], [86, 73, 73], [86, 73, 73, 73], [73, 88]]
def rM1 : List (List Nat) := [[], [88], [88, 88], [88, 88, 88], [88, 76], [76], [76, 88], [76, 88, 88], [76, 88, 88, 88], [88, 67]]
def rM2 : List (List Nat) := [[], [67], [67, 67], [67, 67, 67], [67, 68], [68], [68, 67], [68, 67, 67], [68, 67, 67, 67], [67, 77]]
def rM3 : List (List Nat) := [[], [77], [77, 77], [77, 77, 77]]

def tbl (t : List (List Nat)) (i : Nat) : List Nat := t.getD i []

/-- romannumeral.intToRoman -/
def romanFormat (n : Nat) : List Nat :=
  tbl rM3 (n % 10000 / 1000) ++ tbl rM2 (n % 1000 / 100) ++ tbl rM1 (n % 100 / 10) ++ tbl rM0 (n % 10)

/-- romannumeral._numerals -/
def numerals : List (Nat × List Nat) :=
  [(1000, [77]), (900, [67, 77]), (500, [68]), (400, [67, 68]), (100, [67]), (90, [88, 67]),
   (50, [76]), (40, [88, 76]), (10, [88]), (9, [73, 88]), (5, [86]), (4, [73, 86]), (1, [73])]

def hasPrefix : List Nat → List Nat → Bool
  | [], _ => true
  | _ :: _, [] => false
  | a :: p, b :: t => a == b && hasPrefix p t

/-- `for bytes.HasPrefix(input, rom.sym) { output += rom.val; input = input[len(rom.sym):] }`
    (fuel = length of the input, every symbol is non-empty) -/
def consume (sym : List Nat) (v : Nat) : Nat → List Nat → Nat → Nat × List Nat
  | 0, inp, acc => (acc, inp)
  | f + 1, inp, acc =>
    if hasPrefix sym inp then consume sym v f (inp.drop sym.length) (acc + v) else (acc, inp)

/-- romannumeral.romanToInt -/
def romanParse (inp : List Nat) : Option Nat :=
  let r := numerals.foldl (fun (st : Nat × List Nat) (nm : Nat × List Nat) =>
    consume nm.2 nm.1 st.2.length st.2 st.1) (0, inp)
  if r.2.isEmpty then some r.1 else none

/-- doIntToRoman: range check then IntToString -/
def itor (n : Int) : Option (List Nat) :=
  if n < 1 ∨ n > 3999 then none else some (romanFormat n.toNat)

def asciiUpper (c : Nat) : Nat := if 97 ≤ c ∧ c ≤ 122 then c - 32 else c
def asciiSpace (c : Nat) : Bool := c == 32 || (9 ≤ c && c ≤ 13)

/-- strings.TrimSpace on ASCII text -/
def trimAscii (s : List Nat) : List Nat := ((s.dropWhile asciiSpace).reverse.dropWhile asciiSpace).reverse

/-- doRomanToInt on ASCII text: ToUpper, TrimSpace, "" ↦ 0, else StringToInt -/
def rtoi (s : List Nat) : Option Nat :=
  let inp := trimAscii (s.map asciiUpper)
  if inp.isEmpty then some 0 else romanParse inp

/-! ## §3 checkers for observed sort results -/

def sortedB : List Int → Bool
  | [] => true
  | a :: rest => match rest with
    | [] => true
    | b :: _ => decide (a ≤ b) && sortedB rest

/-- the T3 checker: `out` is an ordered permutation of `inp` -/
def isSortedPerm (out inp : List Int) : Bool := sortedB out && out.isPerm inp

def keys (l : List (Int × Nat)) : List Int := l.map (·.1)

def sameRuns (out inp : List (Int × Nat)) : List Int → Bool
  | [] => true
  | k :: ks => (out.filter (·.1 == k) == inp.filter (·.1 == k)) && sameRuns out inp ks

/-- stability checker on (key, tag) pairs: sorted by key, a permutation, and for every key the
    elements with that key stand in their input order -/
def isStable (out inp : List (Int × Nat)) : Bool :=
  sortedB (keys out) && out.isPerm inp && sameRuns out inp (keys out ++ keys inp)

end EgoVerif.C11
